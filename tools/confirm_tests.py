#!/venv/bin/python
"""tools/confirm_tests.py [ids...] : for every seeded change, apply it in a scratch worktree of /repo (under /tmp), run the
repository's test suite with the hook guard off and check that every test of BASELINE.json's stable_pass still passes;
record the outcome in seeded/<id>/meta.json; remove the worktree."""
import json
import os
import subprocess
import sys
import xml.etree.ElementTree as ET
from concurrent.futures import ThreadPoolExecutor

base = json.load(open("/root/.vp/BASELINE.json"))
want = set(base["stable_pass"])
ids = sys.argv[1:] or sorted(os.listdir("/verif/seeded"))


def one(sid):
    d = "/verif/seeded/" + sid
    wt = "/tmp/confirm-" + sid
    subprocess.run("git -C /repo worktree remove --force %s" % wt, shell=True, capture_output=True)
    subprocess.run("git -C /repo worktree add -q %s HEAD" % wt, shell=True, check=True)
    try:
        p = subprocess.run("git -C %s apply %s/patch.diff" % (wt, d), shell=True, capture_output=True, text=True)
        if p.returncode != 0:
            return sid, "patch does not apply: " + p.stderr[:200]
        env = dict(os.environ, PYTHONPATH=wt, OMP_NUM_THREADS="2")
        env.pop("PYTORCH_WAVELETS_VERIF", None)
        xml = wt + "/junit.xml"
        subprocess.run(["/venv/bin/python", "-m", "pytest", "-q", "-p", "no:cacheprovider", "--timeout=900",
                        "--continue-on-collection-errors", "--junitxml=" + xml], cwd=wt, env=env, capture_output=True)
        passed = set()
        for tc in ET.parse(xml).getroot().iter("testcase"):
            if not any(ch.tag in ("failure", "error", "skipped") for ch in tc):
                passed.add("%s::%s" % (tc.get("classname"), tc.get("name")))
        missing = sorted(want - passed)
        res = "all %d stable tests of the baseline pass with the change" % len(want) if not missing else \
            "%d baseline tests FAIL with the change: %s" % (len(missing), missing[:5])
    finally:
        subprocess.run("git -C /repo worktree remove --force %s" % wt, shell=True, capture_output=True)
    m = json.load(open(d + "/meta.json"))
    m["existing_tests"] = res
    json.dump(m, open(d + "/meta.json", "w"), indent=1)
    return sid, res


with ThreadPoolExecutor(max_workers=5) as ex:
    for sid, res in ex.map(one, ids):
        print(sid, "->", res, flush=True)
