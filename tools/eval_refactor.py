#!/venv/bin/python
"""tools/eval_refactor.py <refactor-id> <worktree-dir> [properties...]
A behaviour-preserving refactoring written by an independent sub-agent (patch.diff, equiv_check.py, NOTES.md in its worktree) is
copied to /verif/refactors/<id>/, applied to a scratch worktree of /repo ($EVAL_REPO, default /tmp/wt2/eval) and ALL quick checks
(or the named ones) are run against it: every VIOLATION or MACHINERY-FAILURE line is a false alarm of the machinery (or shows
that the refactoring is not behaviour-preserving after all - to be decided by reading it).  Writes meta.json."""
import json
import os
import shutil
import subprocess
import sys

rid, wt = sys.argv[1], sys.argv[2]
props = sys.argv[3:] or ["C%02d" % k for k in range(1, 20)]
REPO = os.environ.get("EVAL_REPO", "/tmp/wt2/eval")
dst = "/verif/refactors/" + rid
os.makedirs(dst, exist_ok=True)
for f in ("patch.diff", "equiv_check.py", "NOTES.md"):
    if os.path.exists(os.path.join(wt, f)):
        shutil.copy(os.path.join(wt, f), os.path.join(dst, f))


def sh(cmd):
    p = subprocess.run(cmd, shell=True, stdout=subprocess.PIPE, stderr=subprocess.STDOUT, text=True)
    return p.returncode, p.stdout


assert sh("git -C %s status --porcelain --untracked-files=no" % REPO)[1].strip() == "", "scratch worktree not clean"
assert sh("git -C %s rev-parse HEAD" % REPO)[1] == sh("git -C /repo rev-parse HEAD")[1]
rc, out = sh("git -C %s apply %s/patch.diff" % (REPO, dst))
assert rc == 0, out
results = {}
try:
    for p in props:
        r, o = sh("cd /verif && VERIF_REPO=%s PYTHONPATH=%s ./check %s --tier quick" % (REPO, REPO, p))
        ol = o.splitlines()
        alarms = [ol[i + 1].strip()[:300] if l.startswith("VIOLATION") and i + 1 < len(ol) else l[:300]
                  for i, l in enumerate(ol) if l.startswith("VIOLATION") or l.startswith("MACHINERY")]
        drift = [l[:200] for l in ol if l.startswith("impl-drift")]
        results[p] = {"exit": r, "alarms": alarms[:6], "n_alarms": len(alarms), "impl_drift_lines": len(drift), "drift_sample": drift[:2]}
        print("%s exit=%d alarms=%d drift=%d %s" % (p, r, len(alarms), len(drift), (alarms[0][:160] if alarms else "")), flush=True)
finally:
    sh("git -C %s checkout -- . ; git -C %s clean -fdq -- pytorch_wavelets" % (REPO, REPO))
    sh("rm -rf /verif/replays; git -C /verif checkout -- evidence")
old = {}
if os.path.exists(os.path.join(dst, "meta.json")):
    try:
        old = json.load(open(os.path.join(dst, "meta.json"))).get("quick_checks_on_refactored_tree", {})
    except Exception:   # noqa
        old = {}
old.update(results)             # later runs (after a correction of the machinery) replace the earlier result of the same check
results = old
meta = {"kind": "behaviour-preserving refactoring (independent sub-agent; equivalence checked differentially by the agent)",
        "notes": open(os.path.join(dst, "NOTES.md")).read()[:2000] if os.path.exists(os.path.join(dst, "NOTES.md")) else "",
        "quick_checks_on_refactored_tree": results,
        "false_alarms": {p: v["alarms"] for p, v in results.items() if v["exit"] != 0}}
json.dump(meta, open(os.path.join(dst, "meta.json"), "w"), indent=1)
print("ALARMS:", {p: v["n_alarms"] for p, v in results.items() if v["exit"] != 0})
