#!/venv/bin/python
"""tools/eval_mutant.py <seeded-id> <worktree-dir> <property> [more properties...]
Copies patch.diff / demo_mutant.py / NOTES.md from the sub-agent's worktree into /verif/seeded/<id>/, confirms the
demonstration (FAIL with the patch, PASS without) against /repo, runs the quick checks of the named properties with
the patch applied to /repo and reverts it.  Writes meta.json."""
import json
import os
import shutil
import subprocess
import sys

sid, wt, props = sys.argv[1], sys.argv[2], sys.argv[3:]
dst = "/verif/seeded/" + sid
os.makedirs(dst, exist_ok=True)
for f in ("patch.diff", "demo_mutant.py", "NOTES.md"):
    if os.path.exists(os.path.join(wt, f)):
        shutil.copy(os.path.join(wt, f), os.path.join(dst, f))


def sh(cmd, **kw):
    p = subprocess.run(cmd, shell=True, stdout=subprocess.PIPE, stderr=subprocess.STDOUT, text=True, **kw)
    return p.returncode, p.stdout


# EVAL_REPO=<scratch worktree of /repo at HEAD>: evaluate there (PYTHONPATH + VERIF_REPO point the checks at it) when
# /repo itself is busy serving a background sweep; otherwise the patch is applied to /repo and reverted.
REPO = os.environ.get("EVAL_REPO", "/repo")
assert sh("git -C %s status --porcelain --untracked-files=no" % REPO)[1].strip() == "", "repo not clean"
assert sh("git -C %s rev-parse HEAD" % REPO)[1] == sh("git -C /repo rev-parse HEAD")[1], "EVAL_REPO is not at /repo's HEAD"
env = "OMP_NUM_THREADS=2 PYTHONPATH=%s" % REPO
CHK = "" if REPO == "/repo" else "VERIF_REPO=%s PYTHONPATH=%s " % (REPO, REPO)
# BASE_PATCH=<refactors/.../patch.diff>: the seeded change was written against that refactored tree (applied first, kept applied)
BASE = os.environ.get("BASE_PATCH")
if BASE:
    rc, out = sh("git -C %s apply %s" % (REPO, BASE))
    assert rc == 0, out
rc_clean, out_clean = sh("cd %s && %s /venv/bin/python -W ignore %s/demo_mutant.py" % (REPO, env, dst))
rc, out = sh("git -C %s apply %s/patch.diff" % (REPO, dst))
assert rc == 0, out
results = {}
try:
    rc_mut, out_mut = sh("cd %s && %s /venv/bin/python -W ignore %s/demo_mutant.py" % (REPO, env, dst))
    for p in props:
        r, o = sh("cd /verif && %s./check %s --tier quick" % (CHK, p))
        lines = [l for l in o.splitlines() if l.startswith("VIOLATION") or l.startswith("OK ") or l.startswith("KNOWN") or l.startswith("MACHINERY")]
        ol = o.splitlines()
        first = next((ol[i + 1] for i, l in enumerate(ol[:-1]) if l.startswith("VIOLATION")), "")
        results[p] = {"exit": r, "violations": sum(1 for l in lines if l.startswith("VIOLATION")), "first": first.strip()[:400],
                      "machinery": [l[:200] for l in lines if l.startswith("MACHINERY")][:2]}
finally:
    sh("git -C %s checkout -- . ; git -C %s clean -fdq -- pytorch_wavelets" % (REPO, REPO))
    sh("rm -rf /verif/replays")
meta = {"breaks_property": props[0], "base_patch": BASE, "origin": "independent sub-agent given only the property text and a scratch worktree",
        "needs": open(os.path.join(dst, "NOTES.md")).read()[:1500] if os.path.exists(os.path.join(dst, "NOTES.md")) else "",
        "demo": {"clean_tree_exit": rc_clean, "mutated_tree_exit": rc_mut, "mutated_output_tail": out_mut.strip().splitlines()[-3:]},
        "checks_on_mutated_tree": results,
        "ran": ["git -C %s apply seeded/%s/patch.diff" % (REPO, sid)] + ["%s./check %s --tier quick" % (CHK, p) for p in props] + ["git -C %s checkout -- ." % REPO] +
               (["(%s = scratch worktree of /repo at HEAD: /repo itself was serving a background sweep)" % REPO] if REPO != "/repo" else [])}
json.dump(meta, open(os.path.join(dst, "meta.json"), "w"), indent=1)
print(json.dumps({"demo_clean": rc_clean, "demo_mutant": rc_mut, "checks": {p: (v["exit"], v["violations"], v["first"][:160]) for p, v in results.items()}}, indent=1))
