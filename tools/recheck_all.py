#!/venv/bin/python
"""tools/recheck_all.py [ids...] : re-run, for every seeded change, the quick check of the property it was written against
with the patch applied to a scratch worktree of /repo ($EVAL_REPO, default /tmp/wt2/eval) and report which are (still) caught.
Evidence files are restored afterwards (git checkout evidence) - run it on a clean /verif."""
import json
import os
import subprocess
import sys

REPO = os.environ.get("EVAL_REPO", "/tmp/wt2/eval")
ids = sys.argv[1:] or sorted(os.listdir("/verif/seeded"))


def sh(cmd):
    p = subprocess.run(cmd, shell=True, stdout=subprocess.PIPE, stderr=subprocess.STDOUT, text=True)
    return p.returncode, p.stdout


if not os.path.isdir(REPO):
    sh("git -C /repo worktree add --detach %s HEAD" % REPO)
assert sh("git -C %s status --porcelain --untracked-files=no" % REPO)[1].strip() == "", "scratch worktree not clean"
assert sh("git -C %s rev-parse HEAD" % REPO)[1] == sh("git -C /repo rev-parse HEAD")[1], "scratch worktree is not at /repo's HEAD"
# BASE_PATCH=<refactors/.../patch.diff>: every seeded change is applied ON TOP of that (behaviour-preserving) refactoring, where it
# still applies - e.g. the tree without any hook (R8): detection must not depend on the instrumentation
BASE = os.environ.get("BASE_PATCH")
if BASE:
    rc, out = sh("git -C %s apply %s" % (REPO, BASE))
    assert rc == 0, out
missed, skipped = [], []
for sid in ids:
    d = "/verif/seeded/" + sid
    meta = json.load(open(d + "/meta.json"))
    prop = meta["breaks_property"]
    own_base = meta.get("base_patch") if not BASE else None        # a change seeded into a refactored tree carries its base
    if own_base:
        rc, out = sh("git -C %s apply %s" % (REPO, own_base))
        assert rc == 0, out
    rc, out = sh("git -C %s apply %s/patch.diff" % (REPO, d))
    if rc != 0:
        print("%-50s patch does not apply%s" % (sid, " on top of the base patch" if BASE else ": " + out[:100]))
        skipped.append(sid)
        if own_base:
            sh("git -C %s checkout -- . ; git -C %s clean -fdq -- pytorch_wavelets" % (REPO, REPO))
        continue
    try:
        r, o = sh("cd /verif && VERIF_REPO=%s PYTHONPATH=%s ./check %s --tier quick" % (REPO, REPO, prop))
    finally:
        if BASE:
            sh("git -C %s apply -R %s/patch.diff" % (REPO, d))
        else:
            sh("git -C %s checkout -- . ; git -C %s clean -fdq -- pytorch_wavelets" % (REPO, REPO))
    nv = sum(1 for l in o.splitlines() if l.startswith("VIOLATION"))
    print("%-50s %s exit=%d violations=%d" % (sid, prop, r, nv), flush=True)
    if r != 1 or nv == 0:
        missed.append(sid)
if BASE:
    sh("git -C %s checkout -- . ; git -C %s clean -fdq -- pytorch_wavelets" % (REPO, REPO))
sh("rm -rf /verif/replays; git -C /verif checkout -- evidence")
print("MISSED:", missed, "NOT APPLICABLE ON THE BASE:", len(skipped))
