"""aten-level execution tracer (C07): a TorchDispatchMode that records, for every operator executed
while a transform runs, the operator's category, the storage id of every tensor argument (with a
flag telling whether an argument is identically zero - its VALUE cannot depend on the probed input
unless its storage is tainted, which the trace specification tracks), the destination storage of
in-place / copying operators and the storages of the results.  Classes (T/Z/K) are NOT computed
here: the TLC trace specification Trace_LinearProg infers them from the data flow.
"""
import torch
from torch.utils._python_dispatch import TorchDispatchMode

STRUCTURAL = {
    "view", "_unsafe_view", "reshape", "_reshape_alias", "slice", "select", "unbind", "transpose", "permute", "expand",
    "clone", "contiguous", "_to_copy", "cat", "stack", "repeat", "unsqueeze", "squeeze", "split", "split_with_sizes",
    "flip", "roll", "alias", "detach", "t", "as_strided", "avg_pool2d", "avg_pool2d_backward", "upsample_nearest2d",
    "upsample_nearest2d_backward", "reflection_pad1d", "reflection_pad2d", "replication_pad1d", "replication_pad2d",
    "reflection_pad2d_backward", "reflection_pad1d_backward", "neg", "slice_backward", "select_backward", "sum",
    "narrow", "unfold", "lift_fresh", "view_as", "expand_as", "diagonal", "mean", "unsafe_split",
    "unsafe_chunk", "chunk", "movedim", "swapaxes", "squeeze_", "unsqueeze_", "_unsafe_index", "slice_scatter",
    "select_scatter", "constant_pad_nd_backward",
}
CREATE_ZERO = {"zeros", "new_zeros", "zeros_like", "zero_", "zero"}
CREATE_CONST = {"ones", "full", "arange", "tensor", "scalar_tensor", "empty", "new_empty", "empty_like", "new_ones",
                "new_full", "ones_like", "full_like", "empty_strided", "eye", "linspace", "_efficientzerotensor",
                "new_empty_strided"}
CONV_BWD = {"convolution_backward", "convolution_backward_overrideable", "mkldnn_convolution_backward",
            "_slow_conv2d_backward", "slow_conv_transpose2d_backward"}
CONV = {"convolution", "conv2d", "conv_transpose2d", "_convolution", "convolution_overrideable",
        "mkldnn_convolution", "slow_conv2d_forward", "_slow_conv2d_forward", "thnn_conv2d", "_conv_depthwise2d",
        "conv_depthwise3d", "slow_conv_transpose2d", "slow_conv_dilated2d"}
ADDSUB = {"add", "sub", "add_", "sub_", "rsub"}
MUL = {"mul", "mul_", "mm", "bmm", "matmul", "dot", "mv", "einsum", "tensordot", "outer"}   # exactly one input-dependent operand
DIV = {"div", "div_", "true_divide"}
PYSCALAR = {"_local_scalar_dense", "item", "is_nonzero", "equal", "allclose", "is_same_size"}
INPLACE_DST = {"add_", "sub_", "mul_", "div_", "copy_", "index_add_", "zero_", "fill_", "index_put_", "_index_put_impl_",
               "squeeze_", "unsqueeze_"}


def category(name, args):
    if name in STRUCTURAL:
        return "structural"
    if name in CREATE_ZERO:
        return "create_zero"
    if name in CREATE_CONST:
        return "create_const"
    if name in CONV:
        return "conv"
    if name in CONV_BWD:
        return "conv_backward"
    if name in ADDSUB:
        return "addsub"
    if name in MUL:
        return "mul"
    if name in DIV:
        return "div"
    if name in PYSCALAR:
        return "pyscalar"
    if name == "constant_pad_nd":
        return "pad_value"
    if name in ("index", "index_select"):
        return "index"
    if name in ("index_add", "index_add_", "index_put", "index_put_", "_index_put_impl_"):
        return "index_add"
    if name in ("copy_", "copy"):
        return "copy"
    if name == "fill_":
        return "fill_zero" if (len(args) > 1 and not isinstance(args[1], torch.Tensor) and args[1] == 0) else "nonlinear"
    if name in ("pow", "sqrt", "abs", "relu", "exp", "log", "sigmoid", "tanh", "gt", "lt", "ge", "le", "eq", "ne",
                "where", "maximum", "minimum", "clamp", "rsqrt", "reciprocal", "sign", "max", "min", "argmax", "sort",
                "pow_", "sqrt_", "square", "norm", "atan2", "amax", "amin", "aminmax", "max_pool2d", "max_pool2d_with_indices",
                "std", "var", "var_mean", "std_mean", "floor", "ceil", "round", "trunc", "frac", "isnan", "isinf", "isfinite",
                "nan_to_num", "nan_to_num_", "clamp_", "clamp_min", "clamp_max", "clamp_min_", "clamp_max_", "clip", "threshold",
                "threshold_", "softmax", "_softmax", "log_softmax", "_log_softmax", "hardtanh", "sgn", "logical_and", "logical_or",
                "logical_not", "logical_xor", "nonzero", "masked_select", "topk", "median", "nanmedian", "kthvalue", "mode",
                "prod", "cumprod", "linalg_vector_norm", "frobenius_norm", "erf", "erfc", "sin", "cos", "tan", "asin", "acos",
                "atan", "sinh", "cosh", "log1p", "expm1", "log2", "log10", "exp2", "hypot", "fmod", "remainder", "floor_divide",
                "heaviside", "gelu", "silu", "leaky_relu", "elu", "softplus", "hardshrink", "softshrink", "dropout",
                "native_dropout", "bernoulli", "bernoulli_", "normal_", "uniform_", "rand_like", "randn_like", "any", "all",
                "count_nonzero", "unique", "_unique2", "argmin", "argsort", "searchsorted", "bucketize", "histc", "bincount",
                "isclose", "relu_", "abs_", "exp_", "log_", "sigmoid_", "tanh_", "round_", "floor_", "ceil_", "trunc_",
                "masked_fill", "masked_fill_", "masked_scatter", "renorm", "cdist", "addcdiv", "addcmul", "lerp"):
        return "nonlinear"
    return "unknown:" + name


class Tracer(TorchDispatchMode):
    def __init__(self):
        super().__init__()
        self.events = []
        self._sid = {}
        self._keep = []          # keep every tensor alive: a freed storage id can never be reused
        self.opnames = {}

    def sid(self, t):
        key = t.untyped_storage()._cdata
        if key not in self._sid:
            self._sid[key] = len(self._sid) + 1
        self._keep.append(t)
        return self._sid[key]

    def taint(self, t):
        """declare a tensor as the probed input"""
        self.events.append({"cat": "input", "op": "input", "args": [], "role": [], "snz": False,
                            "dst": 0, "dstzero": 0, "full": False, "outs": [self.sid(t)]})

    def result(self, tensors):
        """declare what the execution returned (storages): lets the harness ask whether a rejected operation can reach it"""
        self.events.append({"cat": "result", "op": "result", "args": [[self.sid(t), 0] for t in tensors if isinstance(t, torch.Tensor)],
                            "role": [], "snz": False, "dst": 0, "dstzero": 0, "full": False, "outs": []})

    def reset(self):
        self.events.append({"cat": "reset", "op": "reset", "args": [], "role": [], "snz": False,
                            "dst": 0, "dstzero": 0, "full": False, "outs": []})

    @staticmethod
    def _flat_tensors(args):
        out = []
        for pos, a in enumerate(args):
            if isinstance(a, torch.Tensor):
                out.append((pos, a, False))
            elif isinstance(a, (list, tuple)):
                for b in a:
                    if isinstance(b, torch.Tensor):
                        out.append((pos, b, True))
        return out

    def __torch_dispatch__(self, func, types, args=(), kwargs=None):
        kwargs = kwargs or {}
        name = func._schema.name.split("::")[-1]
        self.opnames[name] = self.opnames.get(name, 0) + 1
        cat = category(name, args)
        tens = self._flat_tensors(args)
        targs = []
        role = []
        for k, (pos, t, inlist) in enumerate(tens):
            z = 0
            try:
                if t.numel() == 0 or bool((t == 0).all()):
                    z = 1
            except Exception:   # noqa
                z = 0
            targs.append([self.sid(t), z])
            if cat in ("index", "index_add") and ((name == "index" and inlist) or (name == "index_select" and pos == 2)
                                                  or (name in ("index_add", "index_add_") and pos == 2)
                                                  or (name.startswith("index_put") or name == "_index_put_impl_") and inlist):
                role.append(k + 1)
        snz = False
        if cat == "addsub":
            snz = any((not isinstance(a, torch.Tensor)) and isinstance(a, (int, float)) and a != 0 for a in args[:2])
        if cat == "pad_value":
            v = args[2] if len(args) > 2 else kwargs.get("value", 0)
            snz = bool(v != 0)
        dst = dstzero = 0
        full = False
        if name in INPLACE_DST and tens:
            dst, dstzero = targs[0]
            d = tens[0][1]
            try:     # does the destination view cover its whole storage (a full overwrite)?
                full = d.is_contiguous() and d.untyped_storage().nbytes() == d.numel() * d.element_size()
            except Exception:   # noqa
                full = False
        out = func(*args, **kwargs)
        outs = []
        flat = out if isinstance(out, (list, tuple)) else [out]
        for o in flat:
            if isinstance(o, torch.Tensor):
                outs.append(self.sid(o))
        self.events.append({"cat": cat.split(":")[0] if cat.startswith("unknown") else cat, "op": name,
                            "args": targs, "role": role, "snz": snz, "dst": dst, "dstzero": dstzero, "full": bool(full),
                            "outs": outs, "boolargs": bool(tens) and all(t.dtype == torch.bool for _, t, _ in tens)})
        return out
