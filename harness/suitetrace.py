"""code -> spec with the repository's own test-suite as the driver: the tests are run (hooks on) under the recording plugin
harness/suiteplugin.py and every distinct module call they make is validated, event by event, by the TLC trace
specifications of the call machines.  The suite's assertions decide nothing here - its executions are the sample."""
import json
import os
import subprocess
import sys

from . import tracecheck, models
from .common import REPO, VERIF, scratch

FILES = {"dwt": ["tests/test_dwt1d.py", "tests/test_dwt.py"], "dtcwt": ["tests/test_dtcwt.py"]}
_cache = {}


def record(family):
    """-> (calls, summary): calls = [{'api', 'cfg', 'events'}] recorded from the family's test files"""
    if family in _cache:
        return _cache[family]
    out = os.path.join(scratch(), "suite-%s.ndjson" % family)
    env = dict(os.environ, PYTORCH_WAVELETS_VERIF="1", VERIF_SUITE_TRACE=out, PYTHONPATH=VERIF + os.pathsep + REPO,
               OMP_NUM_THREADS=os.environ.get("OMP_NUM_THREADS", "4"))
    files = [f for f in FILES[family] if os.path.exists(os.path.join(REPO, f))]
    p = subprocess.run([sys.executable, "-W", "ignore", "-m", "pytest", "-q", "-p", "no:cacheprovider", "-p", "harness.suiteplugin",
                        "--continue-on-collection-errors"] + files, cwd=REPO, env=env, stdout=subprocess.PIPE, stderr=subprocess.STDOUT,
                       text=True, timeout=1800)
    calls, summary = [], {"pytest_tail": p.stdout.strip().splitlines()[-1:] if p.stdout else []}
    if os.path.exists(out):
        for line in open(out):
            r = json.loads(line)
            if r["api"] == "__summary__":
                summary.update(r)
            else:
                calls.append(r)
    _cache[family] = (calls, summary)
    return calls, summary


SPECS = {
    "DWT1DForward": ("dwt", "Trace_DWT1Calls"), "DWT1DInverse": ("dwt", "Trace_DWT1Calls"),
    "DWTForward": ("dwt", "Trace_DWT2"), "DWTInverse": ("dwt", "Trace_DWT2"),
    "DTCWTForward": ("dtcwt", "Trace_DTCWT2"), "DTCWTInverse": ("dtcwt", "Trace_DTCWT2"),
}


def _constants(spec):
    if spec == "Trace_DWT1Calls":
        return models.model(models.DWT1_CALLS, "quick", Apis={"fwd", "inv"}, Emit=False)
    if spec == "Trace_DWT2":
        return models.model(models.DWT2_CALLS, "quick", Apis=set(), Emit=False, HWCodes={202}, LCodes={202})
    return dict(HWCodes={202}, JMax=1, Apis=set(), Shard=0, NShards=1, Emit=False, OptFix=models.FIX["OptFix"], AbsentFix=models.FIX["AbsentFix"])


def validate_suite(rep, pid, api):
    """validate every call of `api` the repository's tests make against its call machine"""
    family, spec = SPECS[api]
    calls, summary = record(family)
    mine = [c for c in calls if c["api"] == api]
    rep.extra.setdefault("suite_traces", {})[api] = {"recorded": len(mine), "skipped_by_plugin": summary.get("skipped", {}),
                                                      "pytest": summary.get("pytest_tail")}
    if not calls:
        # the tests did not run (collection error in a changed tree) or the hook module is gone: nothing recorded, nothing to
        # validate - a diagnostic, not a verdict and not a machinery failure (the suite is only a driver here)
        rep.drift.append("the recording run of the repository's tests (%s) produced no calls: %s" % (family, summary))
        return
    if not mine:
        return
    events, spans = [], []
    for c in mine:
        spans.append((len(events), len(events) + len(c["events"]), c["cfg"]))
        events.extend(c["events"])
    rej = set(tracecheck.validate(rep, spec, events, _constants(spec), "suite-" + api, batch=100000, spec="TraceSpec"))
    n_acc = 0
    for a, b, cfg in spans:
        rep.nontriv(("suite_trace", api, repr(cfg)))
        from .stagetrace import judge
        if judge(rep, events, a, b, rej, cfg, api + " (a call of the repository's own tests)", "call machine (spec/%s)" % spec.replace("Trace_", "")):
            n_acc += 1
    rep.count("suite_traces_accepted", n_acc)
    rep.sample({"suite_trace": mine[0]["cfg"], "events": mine[0]["events"][:6]})
