"""./check setup : verify the toolchain offline (nothing is fetched or built)."""
import subprocess
import sys

from . import tlc


def main():
    ok = True
    try:
        import torch, pywt, numpy, pytorch_wavelets   # noqa
        print("python deps ok; pytorch_wavelets from", pytorch_wavelets.__file__)
    except Exception as e:   # noqa
        print("import failure:", e)
        ok = False
    p = subprocess.run(["java", "-version"], stdout=subprocess.PIPE, stderr=subprocess.STDOUT, text=True)
    print(p.stdout.splitlines()[0] if p.stdout else "no java")
    ok = ok and p.returncode == 0
    bad = tlc.sany_all()
    for fn, msg in bad:
        print("SANY failed for", fn, msg)
    ok = ok and not bad
    print("setup", "ok" if ok else "FAILED")
    return 0 if ok else 2
