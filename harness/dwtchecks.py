"""Spec -> code replays for the DWT family: each function walks the replay records TLC printed,
drives the real library through the same configuration and compares API-level observables with
what Ref admits.  Verdict rules (DESIGN.md section 6):
  observed == Ref                          -> held
  observed == Impl != Ref, listed region   -> KNOWN-FINDING
  anything else                            -> VIOLATION
  observed == Ref but != Impl              -> impl_drift (diagnostic only)
"""
import numpy as np

from . import dwtlib, oracles

PIN_CACHE = {}


def _nontrivial_1d(mode, N, L, J=1):
    return (N % 2 == 1) or (N < 2 * L) or J > 1


def analysis_one_level(rep, fnd, table, pid, api="DWT1DForward"):
    n_ok = 0
    for (mode, N, L) in table.keys():
        r = table.rec[(mode, N, L)]
        cfg = {"mode": mode, "N": N, "L": L, "J": 1, "Ne": N + N % 2}
        ref = table.a_ref(mode, N, L)
        impl = table.a_impl(mode, N, L)
        # --- pin Ref to PyWavelets (oracle named by the property)
        try:
            pw_op = oracles.pywt_dwt_op(mode, N, L)
            if not dwtlib.eq_int(pw_op, ref):
                rep.fail("Ref disagrees with pywt.dwt at %s" % (cfg,))
                continue
        except Exception as e:   # noqa
            rep.fail("pywt oracle failed at %s: %r" % (cfg, e))
            continue
        obs = dwtlib.extract_fwd1(mode, N, L)
        rep.validated()
        case = {"api": api, "check": "analysis_one_level", "cfg": cfg}
        if isinstance(obs, dwtlib.Raised):
            if mode == "reflect" and N < L:
                rep.count("admissible_raises")
                if not r["a_raises"]:
                    rep.drift.append("%s raises but the Impl model does not: %s" % (api, cfg))
            else:
                f = fnd.match(pid, api, cfg, "raises:" + obs.type)
                if f:
                    rep.known_finding(f["id"], f["what"])
                else:
                    rep.violation("%s raised %r where PyWavelets returns coefficients (%s)" % (api, obs, cfg),
                                  dict(case, observed=repr(obs)))
            continue
        lo, hi = obs
        good = dwtlib.eq_int(lo, ref) and dwtlib.eq_int(hi, ref)
        if good:
            n_ok += 1
            if r["a_raises"] or not dwtlib.eq_int(lo, impl):
                rep.drift.append("%s matches Ref but not the Impl model at %s" % (api, cfg))
        else:
            sig = "equals-impl-model" if (not r["a_same"] and dwtlib.eq_int(lo, impl)
                                           and dwtlib.eq_int(hi, impl)) else "other"
            f = fnd.match(pid, api, cfg, sig)
            if f:
                rep.known_finding(f["id"], f["what"])
            else:
                band = "lowpass" if not dwtlib.eq_int(lo, ref) else "highpass"
                d = dwtlib.diff_entries(lo if band == "lowpass" else hi, ref)
                rep.violation("%s one-level %s operator differs from pywt.dwt at %s: [index(k,tap,n), observed, expected] %s"
                              % (api, band, cfg, d), dict(case, diff=d, band=band))
        if _nontrivial_1d(mode, N, L):
            rep.nontriv((api, mode, N, L, 1))
        if n_ok == 1:
            rep.sample({"api": api, "cfg": cfg, "ref_entries[k,tap,n,count]": r["a_ref"][:6],
                        "observed": "equal (both bands)"})
    rep.count("one_level_analysis_configs_equal_ref", n_ok)


def compose_fwd(table, mode, N, L, J, h0, h1, which="ref"):
    """expected matrices of a J-level 1-D transform for integer taps: (low, [high_1..high_J])"""
    get = table.a_ref if which == "ref" else table.a_impl
    X = np.eye(N)
    highs = []
    n = N
    for _ in range(J):
        A = get(mode, n, L)
        highs.append(dwtlib.mat(A, h1) @ X)
        X = dwtlib.mat(A, h0) @ X
        n = A.shape[0]
    return X, highs


def extract_fwd_multi(mode, N, L, J, h0, h1):
    import torch
    import pytorch_wavelets as pw
    dwtlib.f64()
    X = torch.eye(N).reshape(N, 1, N)
    try:
        m = pw.DWT1DForward(J=J, wave=(h0, h1), mode=mode)
        yl, yh = m(X)
    except Exception as e:   # noqa
        return dwtlib.Raised(e)
    return yl[:, 0, :].numpy().T, [y[:, 0, :].numpy().T for y in yh]


def chain_in_table(table, mode, N, L, J):
    n = N
    for _ in range(J):
        if not table.has(mode, n, L):
            return False
        n = table.rec[(mode, n, L)]["a_len"]
    return True


def analysis_multi_level(rep, fnd, table, records, pid, api="DWT1DForward"):
    rng = np.random.default_rng(1000 + __import__("harness.common", fromlist=["seed"]).seed())
    n_ok = 0
    for r in records:
        if r.get("kind") != "dwt1.fwd" or r["J"] < 2:
            continue
        mode, N, L, J = r["mode"], r["N"], r["L"], r["J"]
        cfg = {"mode": mode, "N": N, "L": L, "J": J, "Ne": N + N % 2}
        case = {"api": api, "check": "analysis_multi_level", "cfg": cfg}
        if not chain_in_table(table, mode, N, L, J):
            rep.count("multi_level_skipped_outside_table")
            continue
        h0, h1 = dwtlib.int_taps(rng, L), dwtlib.int_taps(rng, L)
        obs = extract_fwd_multi(mode, N, L, J, h0, h1)
        rep.validated()
        rep.nontriv((api, mode, N, L, J))
        if isinstance(obs, dwtlib.Raised):
            # admissible only for reflect with some level shorter than the filter
            lens = [N] + r["ref_lens"]
            if mode == "reflect" and any(n < L for n in lens[:J]):
                rep.count("admissible_raises")
                if r["outcome"] != "raise":
                    rep.drift.append("%s raises, model does not: %s" % (api, cfg))
            else:
                rep.violation("%s raised %r where PyWavelets returns coefficients (%s)" % (api, obs, cfg),
                              dict(case, observed=repr(obs)))
            continue
        yl, yh = obs
        lens_obs = [y.shape[0] for y in yh]
        el, eh = compose_fwd(table, mode, N, L, J, h0, h1, "ref")
        good = lens_obs == r["ref_lens"] and dwtlib.eq_int(yl, el) and all(
            dwtlib.eq_int(a, b) for a, b in zip(yh, eh))
        if good:
            n_ok += 1
            if r["outcome"] != "ok" or lens_obs != r["lens"]:
                rep.drift.append("%s ok but Calls model says %s %s at %s" % (api, r["outcome"], r["lens"], cfg))
            if n_ok == 1:
                rep.sample({"api": api, "cfg": cfg, "taps": [h0.tolist(), h1.tolist()],
                            "band_lengths_finest_first": lens_obs, "observed": "equal to composed Ref operators"})
            continue
        il, ih = compose_fwd(table, mode, N, L, J, h0, h1, "impl")
        sig = "equals-impl-model" if (dwtlib.eq_int(yl, il) and all(dwtlib.eq_int(a, b) for a, b in zip(yh, ih))) else "other"
        # the chain visits lengths N_0..N_{J-1}; the finding's region is evaluated on each
        lens = [N] + r["ref_lens"]
        f = None
        for n in lens[:J]:
            f = f or fnd.match(pid, api, dict(cfg, N=n, Ne=n + n % 2), sig)
        if f:
            rep.known_finding(f["id"], f["what"])
        else:
            rep.violation("%s %d-level transform differs from composed pywt operators at %s (band lengths %s, expected %s)"
                          % (api, J, cfg, lens_obs, r["ref_lens"]),
                          dict(case, taps=[h0.tolist(), h1.tolist()], lens_observed=lens_obs))
    rep.count("multi_level_analysis_configs_equal_ref", n_ok)


def replay_case(rep, case):
    rep.fail("replay of individual cases: re-run the check; case was %s" % (case.get("case", {}).get("cfg"),))
