"""Spec -> code replays for the DWT family: each function walks the replay records TLC printed,
drives the real library through the same configuration and compares API-level observables with
what Ref admits.  Verdict rules (DESIGN.md section 6):
  observed == Ref                          -> held
  observed == Impl != Ref, listed region   -> KNOWN-FINDING
  anything else                            -> VIOLATION
  observed == Ref but != Impl              -> impl_drift (diagnostic only)
"""
import numpy as np

from . import dwtlib, oracles

PIN_CACHE = {}


def _nontrivial_1d(mode, N, L, J=1):
    return (N % 2 == 1) or (N < 2 * L) or J > 1


def analysis_one_level(rep, fnd, table, pid, api="DWT1DForward"):
    n_ok = 0
    for (mode, N, L) in table.keys():
        r = table.rec[(mode, N, L)]
        cfg = {"mode": mode, "N": N, "L": L, "J": 1, "Ne": N + N % 2}
        ref = table.a_ref(mode, N, L)
        impl = table.a_impl(mode, N, L)
        # --- pin Ref to PyWavelets (oracle named by the property)
        try:
            pw_op = oracles.pywt_dwt_op(mode, N, L)
            if not dwtlib.eq_int(pw_op, ref):
                rep.fail("Ref disagrees with pywt.dwt at %s" % (cfg,))
                continue
        except Exception as e:   # noqa
            rep.fail("pywt oracle failed at %s: %r" % (cfg, e))
            continue
        obs = dwtlib.extract_fwd1(mode, N, L)
        rep.validated()
        case = {"api": api, "check": "analysis_one_level", "cfg": cfg}
        if isinstance(obs, dwtlib.Raised):
            if mode == "reflect" and N < L:
                rep.count("admissible_raises")
                if not r["a_raises"]:
                    rep.drift.append("%s raises but the Impl model does not: %s" % (api, cfg))
            else:
                f = fnd.match(pid, api, cfg, "raises:" + obs.type)
                if f:
                    rep.known_finding(f["id"], f["what"])
                else:
                    rep.violation("%s raised %r where PyWavelets returns coefficients (%s)" % (api, obs, cfg),
                                  dict(case, observed=repr(obs)))
            continue
        lo, hi = obs
        good = dwtlib.eq_int(lo, ref) and dwtlib.eq_int(hi, ref)
        if good:
            n_ok += 1
            if r["a_raises"] or not dwtlib.eq_int(lo, impl):
                rep.drift.append("%s matches Ref but not the Impl model at %s" % (api, cfg))
        else:
            sig = "equals-impl-model" if (not r["a_same"] and dwtlib.eq_int(lo, impl)
                                           and dwtlib.eq_int(hi, impl)) else "other"
            f = fnd.match(pid, api, cfg, sig)
            if f:
                rep.known_finding(f["id"], f["what"])
            else:
                band = "lowpass" if not dwtlib.eq_int(lo, ref) else "highpass"
                d = dwtlib.diff_entries(lo if band == "lowpass" else hi, ref)
                rep.violation("%s one-level %s operator differs from pywt.dwt at %s: [index(k,tap,n), observed, expected] %s"
                              % (api, band, cfg, d), dict(case, diff=d, band=band))
        if _nontrivial_1d(mode, N, L):
            rep.nontriv((api, mode, N, L, 1))
        if n_ok == 1:
            rep.sample({"api": api, "cfg": cfg, "ref_entries[k,tap,n,count]": r["a_ref"][:6],
                        "observed": "equal (both bands)"})
    rep.count("one_level_analysis_configs_equal_ref", n_ok)


def compose_fwd(table, mode, N, L, J, h0, h1, which="ref"):
    """expected matrices of a J-level 1-D transform for integer taps: (low, [high_1..high_J])"""
    get = table.a_ref if which == "ref" else table.a_impl
    X = np.eye(N)
    highs = []
    n = N
    for _ in range(J):
        A = get(mode, n, L)
        highs.append(dwtlib.mat(A, h1) @ X)
        X = dwtlib.mat(A, h0) @ X
        n = A.shape[0]
    return X, highs


def extract_fwd_multi(mode, N, L, J, h0, h1, f32=False, grad=False):
    import torch
    import pytorch_wavelets as pw
    dwtlib.f64()
    if f32:
        torch.set_default_dtype(torch.float32)
    try:
        X = torch.eye(N).reshape(N, 1, N)
        m = pw.DWT1DForward(J=J, wave=(h0, h1), mode=mode)
        if grad:
            X = X.requires_grad_(True)
        yl, yh = m(X)
        yl, yh = yl.detach(), [y.detach() for y in yh]
        if f32 and (yl.dtype != torch.float32 or any(y.dtype != torch.float32 for y in yh)):
            return dwtlib.Raised(TypeError("float32 input, outputs %s" % [str(yl.dtype)] + [str(y.dtype) for y in yh]))
    except Exception as e:   # noqa
        return dwtlib.Raised(e)
    finally:
        dwtlib.f64()
    return yl[:, 0, :].double().numpy().T, [y[:, 0, :].double().numpy().T for y in yh]


def f32_exact(absop, L, B=9):
    """absop = (low, highs) composed with the ABSOLUTE taps: its entries bound every partial sum of the integer computation; below
    2^24 (with room for one more stage) float32 arithmetic on it is exact"""
    flat = []

    def rec(a):
        if isinstance(a, np.ndarray):
            flat.append(a)
        else:
            for q in a:
                rec(q)
    rec(absop)
    m = max([float(np.abs(a).max()) for a in flat if a.size] + [0.0])
    return m * 4 < 2 ** 24


def chain_in_table(table, mode, N, L, J):
    n = N
    for _ in range(J):
        if not table.has(mode, n, L):
            return False
        n = table.rec[(mode, n, L)]["a_len"]
    return True


def analysis_multi_level(rep, fnd, table, records, pid, api="DWT1DForward"):
    rng = np.random.default_rng(1000 + __import__("harness.common", fromlist=["seed"]).seed())
    n_ok = 0
    for r in records:
        if r.get("kind") != "dwt1.fwd" or r["J"] < 2:
            continue
        mode, N, L, J = r["mode"], r["N"], r["L"], r["J"]
        cfg = {"mode": mode, "N": N, "L": L, "J": J, "Ne": N + N % 2}
        case = {"api": api, "check": "analysis_multi_level", "cfg": cfg}
        if not chain_in_table(table, mode, N, L, J):
            rep.count("multi_level_skipped_outside_table")
            continue
        h0, h1 = dwtlib.int_taps(rng, L), dwtlib.int_taps(rng, L)
        obs = extract_fwd_multi(mode, N, L, J, h0, h1, grad=(n_ok % 3 == 2))      # every third: the input requires grad (graph recorded)
        rep.validated()
        rep.nontriv((api, mode, N, L, J))
        if isinstance(obs, dwtlib.Raised):
            # admissible only for reflect with some level shorter than the filter
            lens = [N] + r["ref_lens"]
            if mode == "reflect" and any(n < L for n in lens[:J]):
                rep.count("admissible_raises")
                if r["outcome"] != "raise":
                    rep.drift.append("%s raises, model does not: %s" % (api, cfg))
            else:
                rep.violation("%s raised %r where PyWavelets returns coefficients (%s)" % (api, obs, cfg),
                              dict(case, observed=repr(obs)))
            continue
        yl, yh = obs
        lens_obs = [y.shape[0] for y in yh]
        el, eh = compose_fwd(table, mode, N, L, J, h0, h1, "ref")
        good = lens_obs == r["ref_lens"] and dwtlib.eq_int(yl, el) and all(
            dwtlib.eq_int(a, b) for a, b in zip(yh, eh))
        if good and n_ok % 2 == 0 and f32_exact(compose_fwd(table, mode, N, L, J, np.abs(h0), np.abs(h1), "ref"), L):
            # the same operator from FLOAT32 data: every value is an exactly representable integer, so float32 arithmetic is exact and
            # the operator must be the reference operator - an algorithm that depends on the dtype cannot hide behind rounding
            o32 = extract_fwd_multi(mode, N, L, J, h0, h1, f32=True)
            rep.count("multi_level_analysis_float32")
            if isinstance(o32, dwtlib.Raised) or not (dwtlib.eq_int(o32[0], el) and all(dwtlib.eq_int(a, b) for a, b in zip(o32[1], eh))):
                rep.violation("%s %d-level transform of FLOAT32 data differs from the (exactly representable) composed pywt operators at %s%s"
                              % (api, J, cfg, ": %r" % (o32,) if isinstance(o32, dwtlib.Raised) else ""),
                              dict(case, taps=[h0.tolist(), h1.tolist()], dtype="float32"))
                continue
        if good:
            n_ok += 1
            if r["outcome"] != "ok" or lens_obs != r["lens"]:
                rep.drift.append("%s ok but Calls model says %s %s at %s" % (api, r["outcome"], r["lens"], cfg))
            if n_ok == 1:
                rep.sample({"api": api, "cfg": cfg, "taps": [h0.tolist(), h1.tolist()],
                            "band_lengths_finest_first": lens_obs, "observed": "equal to composed Ref operators"})
            continue
        il, ih = compose_fwd(table, mode, N, L, J, h0, h1, "impl")
        sig = "equals-impl-model" if (dwtlib.eq_int(yl, il) and all(dwtlib.eq_int(a, b) for a, b in zip(yh, ih))) else "other"
        # the chain visits lengths N_0..N_{J-1}; the finding's region is evaluated on each
        lens = [N] + r["ref_lens"]
        f = None
        for n in lens[:J]:
            f = f or fnd.match(pid, api, dict(cfg, N=n, Ne=n + n % 2), sig)
        if f:
            rep.known_finding(f["id"], f["what"])
        else:
            rep.violation("%s %d-level transform differs from composed pywt operators at %s (band lengths %s, expected %s)"
                          % (api, J, cfg, lens_obs, r["ref_lens"]),
                          dict(case, taps=[h0.tolist(), h1.tolist()], lens_observed=lens_obs))
    rep.count("multi_level_analysis_configs_equal_ref", n_ok)


def replay_case(rep, case):
    rep.fail("replay of individual cases: re-run the check; case was %s" % (case.get("case", {}).get("cfg"),))


# ------------------------------------------------------------------------------------------
# 2-D
# ------------------------------------------------------------------------------------------
def kron2(Ac, Ar):
    """matrix of (column operator along axis -2) x (row operator along axis -1) on row-major images"""
    return np.kron(Ac, Ar)


def compose_fwd2(table, rec, taps, which="ref"):
    """expected matrices of DWTForward for integer taps.
    taps = dict(col=(h0,h1), row=(h0,h1)); returns (low, [ (LH,HL,HH) per level ])"""
    get = table.a_ref if which == "ref" else table.a_impl
    mode, H, W, J = rec["mode"], rec["H"], rec["W"], rec["J"]
    Lc, Lr = rec["Lc"], rec["Lr"]
    X = np.eye(H * W)
    h, w = H, W
    highs = []
    for _ in range(J):
        Ac = get(mode, h, Lc)
        Ar = get(mode, w, Lr)
        c0, c1 = dwtlib.mat(Ac, taps["col"][0]), dwtlib.mat(Ac, taps["col"][1])
        r0, r1 = dwtlib.mat(Ar, taps["row"][0]), dwtlib.mat(Ar, taps["row"][1])
        bands = []
        for b in rec["wiring"]["bands"]:
            if b["band"] == 0:
                continue
            bands.append((b["band"], kron2(c1 if b["col_high"] else c0, r1 if b["row_high"] else r0) @ X))
        highs.append([m for _, m in sorted(bands, key=lambda z: z[0])])
        X = kron2(c0, r0) @ X
        h, w = Ac.shape[0], Ar.shape[0]
    return X, highs


def extract_fwd2(mode, H, W, J, wave, f32=False, grad=False):
    import torch
    import pytorch_wavelets as pw
    dwtlib.f64()
    if f32:
        torch.set_default_dtype(torch.float32)
    try:
        X = torch.eye(H * W).reshape(H * W, 1, H, W)
        m = pw.DWTForward(J=J, wave=wave, mode=mode)
        if grad:         # the input requires grad: the path through the autograd Functions while a graph is recorded
            X = X.requires_grad_(True)
        yl, yh = m(X)
        yl, yh = yl.detach(), [y.detach() for y in yh]
        if f32 and (yl.dtype != torch.float32 or any(y.dtype != torch.float32 for y in yh)):
            return dwtlib.Raised(TypeError("float32 input, outputs %s" % [str(yl.dtype)] + [str(y.dtype) for y in yh]))
    except Exception as e:   # noqa
        return dwtlib.Raised(e)
    finally:
        dwtlib.f64()
    yl, yh = yl.double(), [y.double() for y in yh]
    low = yl[:, 0].reshape(H * W, -1).numpy().T
    highs = [[y[:, 0, b].reshape(H * W, -1).numpy().T for b in range(3)] for y in yh]
    shapes = [tuple(y.shape[-2:]) for y in yh]
    return low, highs, shapes, tuple(yl.shape[-2:])


def chain_in_table2(table, rec):
    return chain_in_table(table, rec["mode"], rec["H"], rec["Lc"], rec["J"]) and \
        chain_in_table(table, rec["mode"], rec["W"], rec["Lr"], rec["J"])


def analysis_2d(rep, fnd, table, records, pid, api="DWTForward"):
    from .common import seed
    rng = np.random.default_rng(2000 + seed())
    n_ok = 0
    for r in records:
        if r.get("kind") != "dwt2.fwd":
            continue
        mode, H, W, J, Lc, Lr = r["mode"], r["H"], r["W"], r["J"], r["Lc"], r["Lr"]
        cfg = {"mode": mode, "H": H, "W": W, "Lc": Lc, "Lr": Lr, "J": J}
        case = {"api": api, "check": "analysis_2d", "cfg": cfg}
        if not chain_in_table2(table, r):
            rep.count("2d_skipped_outside_table")
            continue
        h0, h1 = dwtlib.int_taps(rng, Lc), dwtlib.int_taps(rng, Lc)
        taps = {"col": (h0, h1), "row": (h0, h1)}
        obs = extract_fwd2(mode, H, W, J, (h0, h1), grad=(n_ok % 3 == 2))      # every third: the input requires grad (graph recorded)
        rep.validated()
        if H != W or H % 2 == 1 or H < 2 * Lc or J > 1:
            rep.nontriv((api, mode, H, W, Lc, J))
        if isinstance(obs, dwtlib.Raised):
            lh, lw = [H] + r["ref_lensH"], [W] + r["ref_lensW"]
            if mode == "reflect" and (any(n < Lc for n in lh[:J]) or any(n < Lr for n in lw[:J])):
                rep.count("admissible_raises")
                if r["outcome"] != "raise":
                    rep.drift.append("%s raises, model does not: %s" % (api, cfg))
            else:
                rep.violation("%s raised %r where PyWavelets returns coefficients (%s)" % (api, obs, cfg),
                              dict(case, observed=repr(obs)))
            continue
        low, highs, shapes, lshape = obs
        el, eh = compose_fwd2(table, r, taps, "ref")
        exp_shapes = list(zip(r["ref_lensH"], r["ref_lensW"]))
        good = shapes == exp_shapes and dwtlib.eq_int(low, el) and all(
            dwtlib.eq_int(a, b) for la, lb in zip(highs, eh) for a, b in zip(la, lb))
        if good and n_ok % 2 == 0 and f32_exact(compose_fwd2(table, r, {"col": (np.abs(h0), np.abs(h1)), "row": (np.abs(h0), np.abs(h1))}, "ref"), max(Lc, Lr)):
            o32 = extract_fwd2(mode, H, W, J, (h0, h1), f32=True)
            rep.count("2d_analysis_float32")
            if isinstance(o32, dwtlib.Raised) or not (dwtlib.eq_int(o32[0], el) and all(
                    dwtlib.eq_int(a, b) for la, lb in zip(o32[1], eh) for a, b in zip(la, lb))):
                rep.violation("%s of FLOAT32 data differs from the (exactly representable) composed pywt operators at %s%s"
                              % (api, cfg, ": %r" % (o32,) if isinstance(o32, dwtlib.Raised) else ""),
                              dict(case, taps=[h0.tolist(), h1.tolist()], dtype="float32"))
                continue
        if good:
            n_ok += 1
            if r["outcome"] != "ok" or shapes != list(zip(r["lensH"], r["lensW"])):
                rep.drift.append("%s ok but DWT2 model says %s at %s" % (api, r["outcome"], cfg))
            if n_ok == 1:
                rep.sample({"api": api, "cfg": cfg, "taps": [h0.tolist(), h1.tolist()],
                            "band_shapes_finest_first": shapes,
                            "observed": "lowpass and (LH,HL,HH) of every level equal the Kronecker products of the Ref operators"})
            continue
        what = "band shapes %s, expected %s" % (shapes, exp_shapes)
        if shapes == exp_shapes:
            # name the first band that differs
            names = ["LH", "HL", "HH"]
            what = "lowpass differs" if not dwtlib.eq_int(low, el) else ""
            for j, (la, lb) in enumerate(zip(highs, eh)):
                for k, (a, b) in enumerate(zip(la, lb)):
                    if not dwtlib.eq_int(a, b) and not what:
                        # is it another band's expected content (wrong order)?
                        same_as = [names[q] for q in range(3) if dwtlib.eq_int(a, lb[q])]
                        what = "level %d band %s differs" % (j + 1, names[k]) + (
                            " (it holds the content expected for %s)" % same_as[0] if same_as else "")
        rep.violation("%s differs from pywt.wavedec2 (composed Ref operators) at %s: %s" % (api, cfg, what),
                      dict(case, taps=[h0.tolist(), h1.tolist()], shapes=shapes))
    rep.count("2d_analysis_configs_equal_ref", n_ok)


# ------------------------------------------------------------------------------------------
# code -> spec : recorded operators of real wavelets, validated by Trace_DWT
# ------------------------------------------------------------------------------------------
def sparse(op):
    idx = np.argwhere(op != 0)
    out = []
    for o, t, i in idx:
        v = op[o, t, i]
        out.append([int(o), int(t), int(i), int(v) if float(v).is_integer() else float(v)])
    return out


def wavelet_lengths(maxL):
    import pywt
    seen = {}
    for name in pywt.wavelist(kind="discrete"):
        L = pywt.Wavelet(name).dec_len
        if L % 2 == 0 and L <= maxL:
            seen.setdefault(L, name)
    return seen            # L -> a wavelet of that length


def record_analysis_events(rep, tier):
    """operators of the real DWT1DForward for the filter lengths of real wavelets and seeded random
    sizes (beyond the bounded model), plus the band shapes of multi-level calls"""
    from .common import seed
    rng = np.random.default_rng(3000 + seed())
    maxL, maxN, per = (20, 70, 2) if tier == "quick" else (40, 130, 4)
    events = []
    for L, name in sorted(wavelet_lengths(maxL).items()):
        for mode in dwtlib.MODES:
            Ns = set(int(x) for x in rng.integers(2, maxN, size=per))
            Ns.add(int(rng.integers(2, max(3, L))))          # shorter than the filter
            for N in sorted(Ns):
                obs = dwtlib.extract_fwd1(mode, N, L)
                if isinstance(obs, dwtlib.Raised):
                    events.append({"ev": "dwt1.analysis", "wavelet": name, "mode": mode, "N": N, "L": L,
                                   "outcome": "raise", "len": 0, "lo": [], "hi": []})
                else:
                    lo, hi = obs
                    events.append({"ev": "dwt1.analysis", "wavelet": name, "mode": mode, "N": N, "L": L,
                                   "outcome": "ok", "len": int(lo.shape[0]), "lo": sparse(lo), "hi": sparse(hi)})
                J = int(rng.integers(2, 5))
                import torch
                import pytorch_wavelets as pw
                try:
                    yl, yh = pw.DWT1DForward(J=J, wave=name, mode=mode)(torch.zeros(1, 1, N))
                    events.append({"ev": "dwt1.shapes", "wavelet": name, "mode": mode, "N": N, "L": L, "J": J,
                                   "outcome": "ok", "lens": [int(y.shape[-1]) for y in yh]})
                except Exception:   # noqa
                    events.append({"ev": "dwt1.shapes", "wavelet": name, "mode": mode, "N": N, "L": L, "J": J,
                                   "outcome": "raise", "lens": []})
    return events


def trace_validate_analysis(rep, pid, tier):
    from . import tracecheck
    events = record_analysis_events(rep, tier)
    rej = tracecheck.validate(rep, "Trace_DWT", events, {"PerFix": True}, "Trace_DWT.analysis")
    for k in rej:
        e = events[k]
        cfg = {key: e[key] for key in ("wavelet", "mode", "N", "L") if key in e}
        if "J" in e:
            cfg["J"] = e["J"]
        rep.violation("recorded %s event of the real DWT1DForward is rejected by the trace specification "
                      "(observable not admitted by Ref) at %s" % (e["ev"], cfg),
                      {"api": "DWT1DForward", "check": "trace", "cfg": cfg, "event": {k2: e[k2] for k2 in e if k2 not in ("lo", "hi")}})
    for e in events:
        rep.nontriv(("trace", e["ev"], e["mode"], e["N"], e["L"], e.get("J", 1)))
    if events:
        e = events[0]
        rep.sample({"trace_event": {k2: (e[k2][:4] if isinstance(e[k2], list) else e[k2]) for k2 in e}})
    rep.count("trace_events_recorded", len(events))
    rep.count("trace_events_rejected", len(rej))


# ------------------------------------------------------------------------------------------
# real taps: the library vs PyWavelets on real-valued inputs (up to rounding)
# ------------------------------------------------------------------------------------------
EPS64 = 2.220446049250313e-16


def adversarial_inputs(rng, shape):
    """gaussian, impulses at both borders, constant, alternating signs, large dynamic range"""
    n = shape[-1]
    xs = [rng.standard_normal(shape)]
    imp = np.zeros(shape)
    imp[..., 0] = 1.0
    imp[..., -1] = -2.0
    xs.append(imp)
    xs.append(np.ones(shape) * 3.0)
    alt = np.ones(shape)
    alt[..., ::2] = -1
    xs.append(alt)
    xs.append(rng.standard_normal(shape) * np.exp(rng.uniform(-12, 12, size=shape)))
    # tiny amplitudes: for a linear map nothing is "numerically zero" (eps / allclose-style absolute thresholds)
    xs.append(rng.standard_normal(shape) * 1e-30)
    return xs


def numeric_vs_pywt(rep, pid, tier):
    import pywt
    import torch
    import pytorch_wavelets as pw
    from .common import seed
    dwtlib.f64()
    rng = np.random.default_rng(4000 + seed())
    names = [w for w in pywt.wavelist(kind="discrete")]
    if tier == "quick":
        names = ["haar", "db2", "db5", "sym4", "coif2", "bior1.3", "bior2.4", "bior3.9", "rbio2.2", "dmey"]
    n1 = n2 = 0
    kform = 0          # the wavelet is handed over in every accepted form in turn (string, Wavelet object, custom, tuples)
    for name in names:
        wv = pywt.Wavelet(name)
        L = wv.dec_len
        G = max(np.abs(wv.dec_lo).sum(), np.abs(wv.dec_hi).sum())
        for mode in dwtlib.MODES:
            N = int(rng.integers(max(2, L // 2), 2 * L + 40))
            J = int(rng.integers(1, 4))
            # ---- 1-D
            for x in adversarial_inputs(rng, (2, 3, N)):
                try:
                    ref = pywt.wavedec(x, wv, mode=mode, level=J, axis=-1)
                except ValueError:
                    break
                try:
                    kform += 1
                    wave, form = dwtlib.wave_form(name, kform)
                    mode_arg = "per" if (mode == "periodization" and kform % 2) else mode
                    fw1 = pw.DWT1DForward(J=J, wave=wave, mode=mode_arg)
                    if kform % 2 == 0:
                        dwtlib.give_past(fw1, torch.tensor(x))          # the module has a past (calls in other precisions)
                    yl, yh = fw1(torch.tensor(x))
                except Exception as e:   # noqa
                    lens = [N]
                    for _ in range(J):
                        lens.append(pywt.dwt_coeff_len(lens[-1], L, mode))
                    if mode == "reflect" and any(n < L for n in lens[:J]):
                        continue
                    rep.violation("DWT1DForward(%s, %s, J=%d) raised %r on a length-%d input" % (name, mode, J, e, N),
                                  {"api": "DWT1DForward", "check": "numeric", "cfg": dict(wavelet=name, mode=mode, N=N, J=J)})
                    break
                bound = 64 * EPS64 * L * J * (G ** J) * max(1e-300, np.abs(x).max())
                got = [yl.numpy()] + [y.numpy() for y in yh[::-1]]
                err = max(np.abs(a - b).max() if a.shape == b.shape else np.inf for a, b in zip(got, ref))
                n1 += 1
                if not err <= bound:
                    rep.violation("DWT1DForward(%s given as %s, %s, J=%d, N=%d) differs from pywt.wavedec by %.3g (rounding bound %.3g)"
                                  % (name, form, mode_arg, J, N, err, bound),
                                  {"api": "DWT1DForward", "check": "numeric", "cfg": dict(wavelet=name, wave_form=form, mode=mode_arg, N=N, J=J), "err": err})
                    break
            # ---- 2-D
            H, W = int(rng.integers(2, L + 14)), int(rng.integers(2, L + 14))
            J2 = int(rng.integers(1, 3))
            for x in adversarial_inputs(rng, (1, 2, H, W))[:3]:
                try:
                    ref = pywt.wavedec2(x, wv, mode=mode, level=J2, axes=(-2, -1))
                except ValueError:
                    break
                try:
                    kform += 1
                    wave, form = dwtlib.wave_form(name, kform)
                    mode_arg = "per" if (mode == "periodization" and kform % 2) else mode
                    fw2 = pw.DWTForward(J=J2, wave=wave, mode=mode_arg)
                    if kform % 2 == 0:
                        dwtlib.give_past(fw2, torch.tensor(x))
                    yl, yh = fw2(torch.tensor(x))
                except Exception as e:   # noqa
                    if mode == "reflect":
                        continue
                    rep.violation("DWTForward(%s, %s, J=%d) raised %r on a %dx%d input" % (name, mode, J2, e, H, W),
                                  {"api": "DWTForward", "check": "numeric", "cfg": dict(wavelet=name, mode=mode, H=H, W=W, J=J2)})
                    break
                bound = 64 * EPS64 * L * L * J2 * (G ** (2 * J2)) * max(1e-300, np.abs(x).max())
                err = np.abs(yl.numpy() - ref[0]).max() if yl.shape == ref[0].shape else np.inf
                for j in range(J2):
                    r3 = np.stack(ref[J2 - j], axis=2)     # (cH, cV, cD) of level j+1
                    err = max(err, np.abs(yh[j].numpy() - r3).max() if tuple(yh[j].shape) == r3.shape else np.inf)
                n2 += 1
                if not err <= bound:
                    rep.violation("DWTForward(%s given as %s, %s, J=%d, %dx%d) differs from pywt.wavedec2 by %.3g (rounding bound %.3g)"
                                  % (name, form, mode_arg, J2, H, W, err, bound),
                                  {"api": "DWTForward", "check": "numeric", "cfg": dict(wavelet=name, wave_form=form, mode=mode_arg, H=H, W=W, J=J2), "err": err})
                    break
            rep.nontriv(("numeric", name, mode))
    rep.validated(n1 + n2)
    rep.count("numeric_1d_comparisons", n1)
    rep.count("numeric_2d_comparisons", n2)
    rep.count("wavelets_compared_numerically", len(names))


def reuse_walk(rep, pid, tier, what="forward"):
    """ONE module instance per (wavelet, mode, J), called along a WALK of sizes - neighbouring odd / even lengths in both
    directions, jumps up and down, a repeat - every result compared with PyWavelets (forward: wavedec / wavedec2; inverse:
    waverec / waverec2 of a free pyramid of the forward's shapes).  Whatever a module remembers between calls (an index plan, a
    buffer, a size-keyed cache validated by too little) is consulted here with a key that collides; the layers that build a
    fresh module per case never consult it."""
    import pywt
    import torch
    import pytorch_wavelets as pw
    from .common import seed
    dwtlib.f64()
    rng = np.random.default_rng(4500 + seed())
    names = ["db2", "db4", "bior2.2"] if tier == "quick" else ["haar", "db2", "db4", "sym5", "bior2.2", "bior3.5", "coif2"]
    walk1 = [15, 16, 17, 16, 15, 14, 31, 30, 31, 32, 9, 8, 33, 16, 16]
    walk2 = [(9, 12), (10, 12), (10, 13), (9, 13), (9, 12), (16, 7), (15, 8), (16, 8), (10, 12)]
    n = 0
    for name in names:
        wv = pywt.Wavelet(name)
        L = wv.dec_len
        G = max(np.abs(wv.dec_lo).sum(), np.abs(wv.dec_hi).sum(), np.abs(wv.rec_lo).sum(), np.abs(wv.rec_hi).sum())
        for mode in dwtlib.MODES:
            for J in (1, 2):
                fw1, iv1 = pw.DWT1DForward(J=J, wave=name, mode=mode), pw.DWT1DInverse(wave=name, mode=mode)
                fw2, iv2 = pw.DWTForward(J=J, wave=name, mode=mode), pw.DWTInverse(wave=name, mode=mode)
                hist = []
                for step, N in enumerate(walk1):
                    x = rng.standard_normal((2, 2, N))
                    hist.append(N)
                    cfg = dict(wavelet=name, mode=mode, J=J, sizes_so_far=list(hist), dim=1)
                    case = {"api": "DWT1DForward" if what == "forward" else "DWT1DInverse", "check": "reuse_walk", "cfg": cfg}
                    try:
                        ref = pywt.wavedec(x, wv, mode=mode, level=J, axis=-1)
                    except ValueError:
                        continue
                    lens = [N]
                    for _ in range(J):
                        lens.append(pywt.dwt_coeff_len(lens[-1], L, mode))
                    short = mode == "reflect" and any(m < L for m in lens[:J])
                    n += 1
                    try:
                        if what == "forward":
                            yl, yh = fw1(torch.tensor(x))
                            got = [yl.numpy()] + [y.numpy() for y in yh[::-1]]
                            want = ref
                        else:
                            free = [rng.standard_normal(r.shape) for r in ref]
                            try:
                                want = [pywt.waverec(free, wv, mode=mode, axis=-1)]
                            except ValueError:
                                continue
                            got = [iv1((torch.tensor(free[0]), [torch.tensor(f) for f in free[1:][::-1]])).numpy()]
                    except Exception as e:   # noqa
                        if short:
                            continue
                        rep.violation("%s(%s, %s, J=%d), ONE module called with lengths %s: raised %r at the last one" % (case["api"], name, mode, J, hist, e),
                                      dict(case, observed=repr(e)))
                        break
                    bound = 64 * EPS64 * L * J * (G ** J) * 8.0
                    err = max(np.abs(a - b).max() if a.shape == b.shape else np.inf for a, b in zip(got, want))
                    if not err <= bound:
                        rep.violation("%s(%s, %s, J=%d), ONE module called with lengths %s: the result for the last length differs from "
                                      "PyWavelets by %.3g (rounding bound %.3g)" % (case["api"], name, mode, J, hist, err, bound), dict(case, err=err))
                        break
                hist = []
                for step, (H, W) in enumerate(walk2):
                    x = rng.standard_normal((1, 2, H, W))
                    hist.append((H, W))
                    cfg = dict(wavelet=name, mode=mode, J=J, sizes_so_far=[list(h) for h in hist], dim=2)
                    case = {"api": "DWTForward" if what == "forward" else "DWTInverse", "check": "reuse_walk", "cfg": cfg}
                    try:
                        ref = pywt.wavedec2(x, wv, mode=mode, level=J, axes=(-2, -1))
                    except ValueError:
                        continue
                    n += 1
                    try:
                        if what == "forward":
                            yl, yh = fw2(torch.tensor(x))
                            got = [yl.numpy()] + [yh[j].numpy() for j in range(J)]
                            want = [ref[0]] + [np.stack(ref[J - j], axis=2) for j in range(J)]
                        else:
                            free = [rng.standard_normal(ref[0].shape)] + [tuple(rng.standard_normal(b.shape) for b in lvl) for lvl in ref[1:]]
                            try:
                                want = [pywt.waverec2(free, wv, mode=mode, axes=(-2, -1))]
                            except ValueError:
                                continue
                            got = [iv2((torch.tensor(free[0]), [torch.tensor(np.stack(free[J - j], axis=2)) for j in range(J)])).numpy()]
                    except Exception as e:   # noqa
                        if mode == "reflect":
                            continue
                        rep.violation("%s(%s, %s, J=%d), ONE module called with sizes %s: raised %r at the last one" % (case["api"], name, mode, J, hist, e),
                                      dict(case, observed=repr(e)))
                        break
                    bound = 64 * EPS64 * L * L * J * (G ** (2 * J)) * 8.0
                    err = max(np.abs(a - b).max() if a.shape == b.shape else np.inf for a, b in zip(got, want))
                    if not err <= bound:
                        rep.violation("%s(%s, %s, J=%d), ONE module called with sizes %s: the result for the last size differs from "
                                      "PyWavelets by %.3g (rounding bound %.3g)" % (case["api"], name, mode, J, hist, err, bound), dict(case, err=err))
                        break
                rep.nontriv(("reuse_walk", what, name, mode, J))
    rep.validated(n)
    rep.count("reuse_walk_comparisons", n)


# ------------------------------------------------------------------------------------------
# synthesis (C10, C02)
# ------------------------------------------------------------------------------------------
def synthesis_one_level(rep, fnd, table, pid, api="DWT1DInverse"):
    n_ok = 0
    for (mode, M, L) in table.keys():
        r = table.rec[(mode, M, L)]
        if not r["s_feasible"]:
            continue
        cfg = {"mode": mode, "M": M, "L": L, "J": 1}
        ref = table.s_ref(mode, M, L)
        try:
            if not dwtlib.eq_int(oracles.pywt_idwt_op(mode, M, L), ref):
                rep.fail("Ref disagrees with pywt.idwt at %s" % (cfg,))
                continue
        except Exception as e:   # noqa
            rep.fail("pywt oracle failed at %s: %r" % (cfg, e))
            continue
        obs = dwtlib.extract_inv1(mode, M, L)
        rep.validated()
        case = {"api": api, "check": "synthesis_one_level", "cfg": cfg}
        if M < L:
            rep.nontriv((api, mode, M, L, 1))
        if isinstance(obs, dwtlib.Raised):
            rep.violation("%s raised %r on a forward-compatible one-level pyramid (%s)" % (api, obs, cfg),
                          dict(case, observed=repr(obs)))
            continue
        lo, hi = obs
        if dwtlib.eq_int(lo, ref) and dwtlib.eq_int(hi, ref):
            n_ok += 1
            if not dwtlib.eq_int(lo, table.s_impl(mode, M, L)):
                rep.drift.append("%s matches Ref but not the Impl model at %s" % (api, cfg))
            if n_ok == 1:
                rep.sample({"api": api, "cfg": cfg, "ref_entries[q,tap,k,count]": r["s_ref"][:6],
                            "observed": "equal (lowpass and highpass branch)"})
        else:
            band = "lowpass" if not dwtlib.eq_int(lo, ref) else "highpass"
            d = dwtlib.diff_entries(lo if band == "lowpass" else hi, ref)
            rep.violation("%s one-level %s-branch operator differs from pywt.idwt at %s: [index(q,tap,k), observed, expected] %s"
                          % (api, band, cfg, d), dict(case, diff=d))
    rep.count("one_level_synthesis_configs_equal_ref", n_ok)


def _blocks(lens, J):
    """column offsets of (yl, yh_1..yh_J) in the flattened pyramid vector; yl first"""
    off = {0: (0, lens[J - 1])}
    o = lens[J - 1]
    for j in range(1, J + 1):
        off[j] = (o, o + lens[j - 1])
        o += lens[j - 1]
    return off, o


def compose_inv(table, mode, L, J, lens, g0, g1, none, reading):
    """expected matrix (signal samples x pyramid coefficients) of DWT1DInverse.
    reading 'shape': None = zeros of the forward-compatible shape; 'like': None = zeros shaped like
    the running lowpass (what pywt.waverec itself does with None)"""
    off, total = _blocks(lens, J)
    X = np.zeros((lens[J - 1], total))
    X[:, off[0][0]:off[0][1]] = np.eye(lens[J - 1])
    for j in range(J, 0, -1):
        if j in none and reading == "like":
            m = X.shape[0]
            D = np.zeros((m, total))
        else:
            m = lens[j - 1]
            D = np.zeros((m, total))
            if j not in none:
                D[:, off[j][0]:off[j][1]] = np.eye(m)
            if X.shape[0] > m:
                X = X[:m]
        if X.shape[0] != m or not table.has(mode, m, L) or table.s_ref(mode, m, L) is None:
            return None
        S = table.s_ref(mode, m, L)
        X = dwtlib.mat(S, g0) @ X + dwtlib.mat(S, g1) @ D
    return X


def extract_inv_multi(mode, L, J, lens, g0, g1, none, dtype="f64"):
    import torch
    import pytorch_wavelets as pw
    torch.set_default_dtype(torch.float32)
    dt = torch.float64 if dtype == "f64" else torch.float32
    off, total = _blocks(lens, J)
    yl = torch.zeros(total, 1, lens[J - 1], dtype=dt)
    yl[off[0][0]:off[0][1], 0] = torch.eye(lens[J - 1], dtype=dt)
    yh = []
    for j in range(1, J + 1):
        if j in none:
            yh.append(None)
        else:
            t = torch.zeros(total, 1, lens[j - 1], dtype=dt)
            t[off[j][0]:off[j][1], 0] = torch.eye(lens[j - 1], dtype=dt)
            yh.append(t)
    try:
        m = pw.DWT1DInverse(wave=(g0, g1), mode=mode).to(dt)
        y = m((yl, yh))
    except Exception as e:   # noqa
        return dwtlib.Raised(e)
    finally:
        torch.set_default_dtype(torch.float64)
    if y.dtype != dt:
        return dwtlib.Raised(TypeError("output dtype %s for %s input" % (y.dtype, dt)))
    return y[:, 0].double().numpy().T


def synthesis_multi_level(rep, fnd, table, records, pid, api="DWT1DInverse"):
    from .common import seed
    rng = np.random.default_rng(5000 + seed())
    n_ok = 0
    for r in records:
        if r.get("kind") != "dwt1.inv":
            continue
        mode, N, L, J, none = r["mode"], r["N"], r["L"], r["J"], set(r["none"])
        if J == 1 and not none:
            continue          # covered by the one-level replay
        lens = r["lens"]
        cfg = {"mode": mode, "N": N, "L": L, "J": J, "none": sorted(none), "lens": lens}
        case = {"api": api, "check": "synthesis_multi_level", "cfg": cfg}
        g0, g1 = dwtlib.int_taps(rng, L, 5), dwtlib.int_taps(rng, L, 5)
        exp = compose_inv(table, mode, L, J, lens, g0, g1, none, "shape")
        if exp is None:
            rep.count("multi_level_skipped_outside_table")
            continue
        obs = extract_inv_multi(mode, L, J, lens, g0, g1, none)
        rep.validated()
        rep.nontriv((api, mode, N, L, J, tuple(sorted(none))))
        if isinstance(obs, dwtlib.Raised):
            sig = "raises:" + obs.type
            f = fnd.match(pid, api, cfg, sig)
            if f:
                rep.known_finding(f["id"], f["what"])
            else:
                rep.violation("%s raised %r on a forward-compatible pyramid (%s)" % (api, obs, cfg),
                              dict(case, observed=repr(obs)))
            continue
        if not none:
            good = dwtlib.eq_int(obs, exp)
        else:
            # "reconstructs like a level of zeros on the signal's extent": either reading of None
            alt = compose_inv(table, mode, L, J, lens, g0, g1, none, "like")
            good = obs.shape[0] >= N and (dwtlib.eq_int(obs[:N], exp[:N]) or (
                alt is not None and dwtlib.eq_int(obs[:N], alt[:N])))
        if good:
            n_ok += 1
            if r["outcome"] != "ok" or r["outlen"] != obs.shape[0]:
                rep.drift.append("%s ok (len %d) but Calls model says %s len %s at %s" % (
                    api, obs.shape[0], r["outcome"], r["outlen"], cfg))
            if n_ok == 1:
                rep.sample({"api": api, "cfg": cfg, "observed": "equal to composed Ref synthesis operators"})
        else:
            rep.violation("%s differs from pywt.waverec (composed Ref operators) at %s; output length %d"
                          % (api, cfg, obs.shape[0]), dict(case, taps=[g0.tolist(), g1.tolist()]))
    rep.count("multi_level_synthesis_configs_equal_ref", n_ok)


def _blocks2(lh, lw, J):
    off = {0: (0, lh[J - 1] * lw[J - 1])}
    o = off[0][1]
    for j in range(1, J + 1):
        n = 3 * lh[j - 1] * lw[j - 1]
        off[j] = (o, o + n)
        o += n
    return off, o


def compose_inv2(table, rec, g, none, reading):
    mode, J, Lc, Lr = rec["mode"], rec["J"], rec["Lc"], rec["Lr"]
    lh, lw = rec["lensH"], rec["lensW"]
    off, total = _blocks2(lh, lw, J)
    h, w = lh[J - 1], lw[J - 1]
    X = np.zeros((h * w, total))
    X[:, :h * w] = np.eye(h * w)
    for j in range(J, 0, -1):
        if j in none and reading == "like":
            mh, mw = h, w
        else:
            mh, mw = lh[j - 1], lw[j - 1]
            if h > mh or w > mw:       # unpad per axis
                X = X.reshape(h, w, total)[:mh, :mw].reshape(-1, total)
                h, w = min(h, mh), min(w, mw)
        if (h, w) != (mh, mw):
            return None
        if not (table.has(mode, mh, Lc) and table.has(mode, mw, Lr)):
            return None
        Sc, Sr = table.s_ref(mode, mh, Lc), table.s_ref(mode, mw, Lr)
        if Sc is None or Sr is None:
            return None
        c0, c1 = dwtlib.mat(Sc, g["col"][0]), dwtlib.mat(Sc, g["col"][1])
        r0, r1 = dwtlib.mat(Sr, g["row"][0]), dwtlib.mat(Sr, g["row"][1])
        Y = kron2(c0, r0) @ X
        if j not in none:
            n = mh * mw
            for b in rec["wiring"]["bands"]:
                if b["band"] == 0:
                    continue
                D = np.zeros((n, total))
                a = off[j][0] + (b["band"] - 1) * n
                D[:, a:a + n] = np.eye(n)
                Y = Y + kron2(c1 if b["col_high"] else c0, r1 if b["row_high"] else r0) @ D
        X = Y
        h, w = Sc.shape[0], Sr.shape[0]
    return X, (h, w)


def extract_inv2(rec, wave, none, dtype, grad=False):
    import torch
    import pytorch_wavelets as pw
    torch.set_default_dtype(torch.float32)
    dt = torch.float64 if dtype == "f64" else torch.float32
    J, lh, lw = rec["J"], rec["lensH"], rec["lensW"]
    off, total = _blocks2(lh, lw, J)
    h, w = lh[J - 1], lw[J - 1]
    yl = torch.zeros(total, 1, h, w, dtype=dt)
    yl[:h * w, 0] = torch.eye(h * w, dtype=dt).reshape(h * w, h, w)
    yh = []
    for j in range(1, J + 1):
        if j in none:
            yh.append(None)
            continue
        n = lh[j - 1] * lw[j - 1]
        t = torch.zeros(total, 1, 3, lh[j - 1], lw[j - 1], dtype=dt)
        t[off[j][0]:off[j][1], 0] = torch.eye(3 * n, dtype=dt).reshape(3 * n, 3, lh[j - 1], lw[j - 1])
        yh.append(t)
    try:
        m = pw.DWTInverse(wave=wave, mode=rec["mode"]).to(dt)
        if grad:         # the coefficients require grad: the path through the autograd Functions while a graph is recorded
            yl = yl.requires_grad_(True)
            yh = [t if t is None else t.requires_grad_(True) for t in yh]
        y = m((yl, yh)).detach()
    except Exception as e:   # noqa
        return dwtlib.Raised(e)
    finally:
        torch.set_default_dtype(torch.float64)
    if y.dtype != dt:
        return dwtlib.Raised(TypeError("output dtype %s for %s input" % (y.dtype, dt)))
    return y[:, 0].double().reshape(total, -1).numpy().T, tuple(y.shape[-2:])


def synthesis_2d(rep, fnd, table, records, pid, api="DWTInverse"):
    from .common import seed
    rng = np.random.default_rng(6000 + seed())
    n_ok = 0
    for r in records:
        if r.get("kind") != "dwt2.inv":
            continue
        none = set(r["none"])
        mode, H, W, J, Lc, Lr, dtype = r["mode"], r["H"], r["W"], r["J"], r["Lc"], r["Lr"], r["dtype"]
        cfg = {"mode": mode, "H": H, "W": W, "Lc": Lc, "Lr": Lr, "J": J, "none": sorted(none), "dtype": dtype}
        case = {"api": api, "check": "synthesis_2d", "cfg": cfg}
        g0, g1 = dwtlib.int_taps(rng, Lc, 3), dwtlib.int_taps(rng, Lc, 3)
        g = {"col": (g0, g1), "row": (g0, g1)}
        exp = compose_inv2(table, r, g, none, "shape")
        if exp is None:
            rep.count("2d_skipped_outside_table")
            continue
        obs = extract_inv2(r, (g0, g1), none, dtype)
        rep.validated()
        rep.nontriv((api, mode, H, W, Lc, J, tuple(sorted(none)), dtype))
        if isinstance(obs, dwtlib.Raised):
            f = fnd.match(pid, api, cfg, "raises:" + obs.type)
            if f:
                rep.known_finding(f["id"], f["what"])
            else:
                rep.violation("%s raised %r on a forward-compatible pyramid (%s)" % (api, obs, cfg),
                              dict(case, observed=repr(obs)))
            continue
        Y, (oh, ow) = obs
        E, (eh, ew) = exp
        total = Y.shape[1]
        if not none:
            good = (oh, ow) == (eh, ew) and dwtlib.eq_int(Y, E)
        else:
            def crop(M, h, w):
                return M.reshape(h, w, total)[:H, :W]
            alt = compose_inv2(table, r, g, none, "like")
            good = oh >= H and ow >= W and (np.array_equal(crop(Y, oh, ow), crop(E, eh, ew)) or (
                alt is not None and np.array_equal(crop(Y, oh, ow), crop(alt[0], *alt[1]))))
        if good:
            n_ok += 1
            if r["outcome"] != "ok" or (r["outH"], r["outW"]) != (oh, ow):
                rep.drift.append("%s ok %s but DWT2 model says %s (%s,%s) at %s" % (
                    api, (oh, ow), r["outcome"], r["outH"], r["outW"], cfg))
            if n_ok == 1:
                rep.sample({"api": api, "cfg": cfg, "observed": "equal to Kronecker-composed Ref synthesis operators"})
        else:
            rep.violation("%s differs from pywt.waverec2 (composed Ref operators) at %s; output %dx%d"
                          % (api, cfg, oh, ow), dict(case, taps=[g0.tolist(), g1.tolist()]))
    rep.count("2d_synthesis_configs_equal_ref", n_ok)


def numeric_inverse_vs_pywt(rep, pid, tier):
    """random pyramids (NOT transforms of a signal) with real wavelets vs pywt.waverec / waverec2"""
    import pywt
    import torch
    import pytorch_wavelets as pw
    from .common import seed
    dwtlib.f64()
    rng = np.random.default_rng(7000 + seed())
    names = [w for w in pywt.wavelist(kind="discrete")]
    if tier == "quick":
        names = ["haar", "db3", "db7", "sym5", "coif1", "bior1.5", "bior2.6", "bior4.4", "rbio3.1", "dmey"]
    n1 = n2 = 0
    for name in names:
        wv = pywt.Wavelet(name)
        L = wv.dec_len
        G = max(np.abs(wv.rec_lo).sum(), np.abs(wv.rec_hi).sum())
        for mode in dwtlib.MODES:
            N = int(rng.integers(max(2, L // 2), 2 * L + 40))
            J = int(rng.integers(1, 4))
            if mode == "reflect":
                N = max(N, L)       # pywt itself needs more than one sample per level in reflect mode
            try:
                shapes = [c.shape[-1] for c in pywt.wavedec(np.zeros(N), wv, mode=mode, level=J)]
            except ValueError:
                continue            # PyWavelets itself refuses (a one-sample level in reflect mode)
            coeffs = [rng.standard_normal((2, 2, s)) for s in shapes]      # [cA_J, cD_J, ..., cD_1]
            kform = names.index(name) * 7 + dwtlib.MODES.index(mode)
            if kform % 3 == 1:         # tiny amplitudes: nothing is "numerically zero" for a linear map
                coeffs = [c * 1e-30 for c in coeffs]
            elif kform % 3 == 2:       # integer-valued bands whose entries cancel exactly (sum == 0 without being zero)
                coeffs = [rng.integers(-5, 6, size=c.shape).astype(np.float64) for c in coeffs]
                for c in coeffs:
                    c.flat[-1] -= c.sum()
            ref = pywt.waverec(coeffs, wv, mode=mode, axis=-1)
            wave, form = dwtlib.wave_form(name, kform, synthesis=True)
            mode_arg = "per" if (mode == "periodization" and kform % 2) else mode
            try:
                yh1 = [torch.tensor(c) for c in coeffs[1:][::-1]]
                iv1 = pw.DWT1DInverse(wave=wave, mode=mode_arg)
                if kform % 2 == 0:
                    dwtlib.give_past(iv1, (torch.tensor(coeffs[0]), yh1))       # the module has a past (calls in other precisions)
                y = iv1((torch.tensor(coeffs[0]), tuple(yh1) if kform % 3 == 0 else yh1)).numpy()      # yh as a list or a tuple
            except Exception as e:   # noqa
                rep.violation("DWT1DInverse(%s given as %s, %s) raised %r on a random pyramid of shapes %s" % (name, form, mode_arg, e, shapes),
                              {"api": "DWT1DInverse", "check": "numeric", "cfg": dict(wavelet=name, mode=mode, N=N, J=J)})
                continue
            bound = 64 * EPS64 * L * J * (2 * G) ** J * max(np.abs(c).max() for c in coeffs)
            err = np.abs(y - ref).max() if y.shape == ref.shape else np.inf
            if err <= bound:
                # a pyramid a forward transform would not produce but pywt.waverec accepts: the approximation one sample longer
                # than the coarsest detail (the surplus sample is dropped) - as non-contiguous views of larger buffers
                longer = np.concatenate([coeffs[0], rng.standard_normal(coeffs[0].shape[:-1] + (1,))], axis=-1)
                try:
                    refl = pywt.waverec([longer] + coeffs[1:], wv, mode=mode, axis=-1)
                    big = torch.tensor(np.concatenate([longer, longer], axis=-1))
                    yl_ = big[..., :longer.shape[-1]]                         # a view: not contiguous
                    yh_ = [torch.tensor(np.stack([c, -c], axis=-1))[..., 0] for c in coeffs[1:][::-1]]     # strided views
                    y2 = pw.DWT1DInverse(wave=wave, mode=mode_arg)((yl_, yh_)).numpy()
                    e2 = np.abs(y2 - refl).max() if y2.shape == refl.shape else np.inf
                except ValueError:
                    e2 = 0.0          # PyWavelets itself refuses this shape
                except Exception as e:   # noqa
                    e2 = np.inf
                if not e2 <= bound:
                    err = e2
                    form = form + "; approximation one sample longer than the coarsest detail, coefficients as strided views"
            n1 += 1
            if not err <= bound:
                rep.violation("DWT1DInverse(%s given as %s, %s, J=%d, N=%d) differs from pywt.waverec by %.3g (rounding bound %.3g; shapes %s vs %s)"
                              % (name, form, mode_arg, J, N, err, bound, y.shape, ref.shape),
                              {"api": "DWT1DInverse", "check": "numeric", "cfg": dict(wavelet=name, mode=mode, N=N, J=J)})
            H, W = int(rng.integers(2, L + 14)), int(rng.integers(2, L + 14))
            J2 = int(rng.integers(1, 3))
            try:
                tmpl = pywt.wavedec2(np.zeros((H, W)), wv, mode=mode, level=J2)
            except ValueError:
                continue
            c2 = [rng.standard_normal((1, 2) + tmpl[0].shape)] + [
                tuple(rng.standard_normal((1, 2) + d.shape) for d in lev) for lev in tmpl[1:]]
            if kform % 3 == 2:
                c2 = [c2[0] * 1e-30] + [tuple(d * 1e-30 for d in lev) for lev in c2[1:]]
            elif kform % 3 == 0:
                def bal2(a):
                    v = rng.integers(-5, 6, size=a.shape).astype(np.float64)
                    v.flat[-1] -= v.sum()
                    return v
                c2 = [bal2(c2[0])] + [tuple(bal2(d) for d in lev) for lev in c2[1:]]
            ref = pywt.waverec2(c2, wv, mode=mode, axes=(-2, -1))
            try:
                yh = [torch.tensor(np.stack(lev, axis=2)) for lev in c2[1:][::-1]]
                wave2, form2 = dwtlib.wave_form(name, kform + 1, synthesis=True)
                iv2 = pw.DWTInverse(wave=wave2, mode=mode_arg)
                if kform % 2 == 1:
                    dwtlib.give_past(iv2, (torch.tensor(c2[0]), yh))
                y = iv2((torch.tensor(c2[0]), tuple(yh) if kform % 3 == 1 else yh)).numpy()
            except Exception as e:   # noqa
                rep.violation("DWTInverse(%s given as %s, %s) raised %r on a random %dx%d pyramid" % (name, form2, mode_arg, e, H, W),
                              {"api": "DWTInverse", "check": "numeric", "cfg": dict(wavelet=name, mode=mode, H=H, W=W, J=J2)})
                continue
            cmax2 = max([float(np.abs(c2[0]).max())] + [float(np.abs(d).max()) for lev in c2[1:] for d in lev])
            bound = 64 * EPS64 * L * L * J2 * (2 * G) ** (2 * J2) * 4.0 * cmax2
            err = np.abs(y - ref).max() if y.shape == ref.shape else np.inf
            n2 += 1
            if not err <= bound:
                rep.violation("DWTInverse(%s given as %s, %s, J=%d, %dx%d) differs from pywt.waverec2 by %.3g (rounding bound %.3g; shapes %s vs %s)"
                              % (name, form2, mode_arg, J2, H, W, err, bound, y.shape, ref.shape),
                              {"api": "DWTInverse", "check": "numeric", "cfg": dict(wavelet=name, mode=mode, H=H, W=W, J=J2)})
            rep.nontriv(("numeric-inv", name, mode))
    n3 = _deep_none_pyramids(rep, pid, tier, rng)
    rep.validated(n1 + n2 + n3)
    rep.count("numeric_1d_comparisons", n1)
    rep.count("numeric_2d_comparisons", n2)
    rep.count("numeric_deep_none_comparisons", n3)


def _deep_none_pyramids(rep, pid, tier, rng):
    """deep pyramids (J = 3..5) whose sizes are odd at interior levels, with None ("treated as zeros") at interior, adjacent and
    outer levels: where a None level sits the running lowpass stays one sample too long per level, so the next real level has
    to drop a surplus of two or more - the only place where HOW the surplus is dropped shows.  Oracle: pywt.waverec / waverec2
    with zero arrays of the forward shapes in place of None, on the extent of the signal (the module may return more)."""
    import pywt
    import torch
    import pytorch_wavelets as pw
    n = 0
    names = ["haar", "db2", "db3", "sym4", "bior2.2", "bior1.3", "coif1"] + (["db5", "bior4.4", "rbio2.4", "sym7"] if tier != "quick" else [])
    for name in names:
        wv = pywt.Wavelet(name)
        L = wv.dec_len
        G = max(np.abs(wv.rec_lo).sum(), np.abs(wv.rec_hi).sum())
        for mode in ("zero", "symmetric", "periodic", "reflect"):
            for rep_k in range(2 if tier == "quick" else 5):
                J = int(rng.integers(3, 6))
                H = int(rng.integers(8 * L + 3, 8 * L + 40))
                W = int(rng.integers(8 * L + 3, 8 * L + 40))
                try:
                    t1 = pywt.wavedec(np.zeros(W), wv, mode=mode, level=J)
                    t2 = pywt.wavedec2(np.zeros((H, W)), wv, mode=mode, level=J)
                except ValueError:
                    continue
                k = int(rng.integers(1, J))                    # how many levels are None (at least one real level remains)
                none = set(int(v) for v in rng.choice(np.arange(1, J + 1), size=k, replace=False))     # level j = 1 (finest) .. J
                if rep_k == 0:
                    none = {j for j in range(2, J)} or {1}     # every interior level: the largest surplus
                cfg = dict(wavelet=name, mode=mode, H=H, W=W, J=J, none=sorted(none))
                # ---- 1-D
                c1 = [rng.standard_normal((2, 2) + t1[0].shape)] + [rng.standard_normal((2, 2) + d.shape) for d in t1[1:]]
                for j in none:
                    c1[J - j + 1] = np.zeros_like(c1[J - j + 1])
                ref = pywt.waverec(c1, wv, mode=mode, axis=-1)
                yh = [None if (j + 1) in none else torch.tensor(c1[J - j]) for j in range(J)]
                bound = 64 * EPS64 * L * J * (2 * G) ** J * max(np.abs(c).max() for c in c1)
                try:
                    y = pw.DWT1DInverse(wave=name, mode=mode)((torch.tensor(c1[0]), yh)).numpy()
                    err = np.abs(y[..., :W] - ref[..., :W]).max() if y.shape[-1] >= W else np.inf
                except Exception as e:   # noqa
                    err, y = np.inf, repr(e)
                n += 1
                rep.nontriv(("deep-none-1d", name, mode, J, tuple(sorted(none))))
                if not err <= bound:
                    rep.violation("DWT1DInverse(%s, %s) on a %d-level pyramid of a length-%d signal with None at levels %s differs from "
                                  "pywt.waverec (zeros of the forward shapes there) by %.3g (bound %.3g) on the extent of the signal%s"
                                  % (name, mode, J, W, sorted(none), err, bound, "" if not isinstance(y, str) else ": " + y[:120]),
                                  {"api": "DWT1DInverse", "check": "numeric", "cfg": cfg})
                # ---- 2-D
                c2 = [rng.standard_normal((1, 2) + t2[0].shape)] + [
                    tuple(rng.standard_normal((1, 2) + d.shape) for d in lev) for lev in t2[1:]]
                for j in none:
                    c2[J - j + 1] = tuple(np.zeros_like(d) for d in c2[J - j + 1])
                ref = pywt.waverec2(c2, wv, mode=mode, axes=(-2, -1))
                yh = [None if (j + 1) in none else torch.tensor(np.stack(c2[J - j], axis=2)) for j in range(J)]
                bound = 64 * EPS64 * L * L * J * (2 * G) ** (2 * J) * max(np.abs(c2[0]).max(), 4.0)
                try:
                    y = pw.DWTInverse(wave=name, mode=mode)((torch.tensor(c2[0]), yh)).numpy()
                    err = np.abs(y[..., :H, :W] - ref[..., :H, :W]).max() if (y.shape[-2] >= H and y.shape[-1] >= W) else np.inf
                except Exception as e:   # noqa
                    err, y = np.inf, repr(e)
                n += 1
                rep.nontriv(("deep-none-2d", name, mode, J, tuple(sorted(none))))
                if not err <= bound:
                    rep.violation("DWTInverse(%s, %s) on a %d-level pyramid of a %dx%d image with None at levels %s differs from "
                                  "pywt.waverec2 (zeros of the forward shapes there) by %.3g (bound %.3g) on the extent of the image%s"
                                  % (name, mode, J, H, W, sorted(none), err, bound, "" if not isinstance(y, str) else ": " + y[:120]),
                                  {"api": "DWTInverse", "check": "numeric", "cfg": cfg})
    return n


# ------------------------------------------------------------------------------------------
# perfect reconstruction (C02)
# ------------------------------------------------------------------------------------------
def dyadic_banks():
    """integer versions of PyWavelets' dyadic biorthogonal wavelets: all four filters scaled by
    c = sqrt(2) * 2^k so that every tap is an integer; then S o A = c^2 * I exactly"""
    import pywt
    out = []
    for name in ["haar", "bior1.3", "bior1.5", "bior2.2", "bior2.4", "bior2.6", "bior3.1", "bior3.3", "bior3.5",
                 "rbio1.3", "rbio2.2", "rbio3.1"]:
        w = pywt.Wavelet(name)
        for k in range(0, 12):
            c = np.sqrt(2.0) * 2 ** k
            f = [np.array(v) * c for v in (w.dec_lo, w.dec_hi)]
            g = [np.array(v) * c for v in (w.rec_lo, w.rec_hi)]
            # dec and rec may need different powers; search jointly over a common k (enough here)
            if all(np.abs(v - np.round(v)).max() < 1e-9 for v in f + g):
                out.append((name, [np.round(v) for v in f], [np.round(v) for v in g], int(round(c * c))))
                break
    return out


def integer_round_trips(rep, fnd, pid, tier):
    import torch
    import pytorch_wavelets as pw
    from .common import seed
    dwtlib.f64()
    rng = np.random.default_rng(8000 + seed())
    banks = dyadic_banks()
    rep.count("integer_pr_banks", len(banks))
    sizes1 = list(range(2, 20)) if tier == "quick" else list(range(2, 48))
    n = 0
    for name, f, g, K in banks:
        L = len(f[0])
        for mode in dwtlib.MODES:
            for N in sizes1:
                for J in (1, 2, 3):
                    if K ** J * (L * 8) ** (2 * J) > 2 ** 50:
                        continue
                    cfg = dict(wavelet=name, mode=mode, N=N, J=J, L=L)
                    try:
                        fw = pw.DWT1DForward(J=J, wave=(f[0], f[1]), mode=mode)
                        iv = pw.DWT1DInverse(wave=(g[0], g[1]), mode=mode)
                        yl, yh = fw(torch.eye(N).reshape(N, 1, N))
                    except Exception as e:   # noqa
                        if mode == "reflect":
                            continue      # admissible raise of the forward (C01); nothing to invert
                        rep.violation("DWT1DForward raised %r at %s" % (e, cfg), {"api": "DWT1DForward", "check": "int_pr", "cfg": cfg})
                        continue
                    try:
                        # all four filters carry the factor c (K = c^2): level j's bands carry c^j, every
                        # synthesis level adds another c, so band j must be lifted by K^(J-j) to stay consistent
                        xr = iv((yl, [y * float(K ** (J - 1 - j)) for j, y in enumerate(yh)]))[:, 0].numpy()
                    except Exception as e:   # noqa
                        rep.violation("DWT1DInverse raised %r on the output of DWT1DForward at %s" % (e, cfg),
                                      {"api": "DWT1DInverse", "check": "int_pr", "cfg": cfg})
                        continue
                    n += 1
                    if N % 2 or N < 2 * L or J > 1:
                        rep.nontriv(("int_pr1", name, mode, N, J))
                    ok = xr.shape[1] in (N, N + 1) and np.array_equal(xr[:, :N], (K ** J) * np.eye(N))
                    if not ok:
                        rep.violation("DWT1DInverse(DWT1DForward(I)) != %d*I on the signal's extent at %s (output length %d)"
                                      % (K ** J, cfg, xr.shape[1]), {"api": "DWT1D round trip", "check": "int_pr", "cfg": cfg})
                    elif n == 1:
                        rep.sample({"round_trip": cfg, "taps_dec": [v.tolist() for v in f], "taps_rec": [v.tolist() for v in g],
                                    "observed": "Inverse(Forward(I)) == %d * I exactly" % (K ** J)})
        # 2-D
        sizes2 = [(h, w) for h in range(2, 8) for w in range(2, 8)] if tier == "quick" else \
                 [(h, w) for h in range(2, 14) for w in range(2, 14)]
        for mode in dwtlib.MODES:
            for (H, W) in sizes2:
                J = int(rng.integers(1, 3))
                if K ** (2 * J) * (L * 8) ** (4 * J) > 2 ** 50:
                    J = 1
                cfg = dict(wavelet=name, mode=mode, H=H, W=W, J=J, L=L)
                try:
                    fw = pw.DWTForward(J=J, wave=(f[0], f[1]), mode=mode)
                    iv = pw.DWTInverse(wave=(g[0], g[1]), mode=mode)
                    yl, yh = fw(torch.eye(H * W).reshape(H * W, 1, H, W))
                except Exception as e:   # noqa
                    if mode == "reflect":
                        continue
                    rep.violation("DWTForward raised %r at %s" % (e, cfg), {"api": "DWTForward", "check": "int_pr", "cfg": cfg})
                    continue
                try:
                    xr = iv((yl, [y * float(K ** (2 * (J - 1 - j))) for j, y in enumerate(yh)]))[:, 0].numpy()
                except Exception as e:   # noqa
                    rep.violation("DWTInverse raised %r on the output of DWTForward at %s" % (e, cfg),
                                  {"api": "DWTInverse", "check": "int_pr", "cfg": cfg})
                    continue
                n += 1
                rep.nontriv(("int_pr2", name, mode, H, W, J))
                ok = xr.shape[1] in (H, H + 1) and xr.shape[2] in (W, W + 1) and np.array_equal(
                    xr[:, :H, :W].reshape(H * W, H * W), (K ** (2 * J)) * np.eye(H * W))
                if not ok:
                    rep.violation("DWTInverse(DWTForward(I)) != %d*I on the image's extent at %s (output %s)"
                                  % (K ** (2 * J), cfg, xr.shape[1:]), {"api": "DWT2D round trip", "check": "int_pr", "cfg": cfg})
    rep.validated(n)
    rep.count("integer_round_trips", n)


def pr_residual(w):
    """max_p,d | Q_p(d) - [d = L-1] | for a pywt wavelet (the numeric premise of formal PR)"""
    h0, h1, g0, g1 = (np.array(v) for v in (w.dec_lo, w.dec_hi, w.rec_lo, w.rec_hi))
    L = len(h0)
    G = np.outer(g0, h0) + np.outer(g1, h1)
    worst = 0.0
    for p in (0, 1):
        for d in range(2 * L - 1):
            q = sum(G[i, d - i] for i in range(p, L, 2) if 0 <= d - i < L)
            worst = max(worst, abs(q - (1.0 if d == L - 1 else 0.0)))
    return worst


def numeric_round_trips(rep, fnd, pid, tier):
    import pywt
    import torch
    import pytorch_wavelets as pw
    from .common import seed
    dwtlib.f64()
    rng = np.random.default_rng(9000 + seed())
    names = pywt.wavelist(kind="discrete")
    if tier == "quick":
        names = ["haar", "db2", "db4", "db9", "sym3", "sym8", "coif1", "coif3", "bior1.3", "bior2.8", "bior3.7",
                 "bior5.5", "bior6.8", "rbio1.5", "rbio4.4", "dmey"]
    n = 0
    worst_res = {}
    for name in names:
        w = pywt.Wavelet(name)
        L = w.dec_len
        res = pr_residual(w)
        worst_res[name] = res
        Ga = max(np.abs(w.dec_lo).sum(), np.abs(w.dec_hi).sum())
        Gs = max(np.abs(w.rec_lo).sum(), np.abs(w.rec_hi).sum())
        for mode in dwtlib.MODES:
            N = int(rng.integers(2, 2 * L + 30))
            J = int(rng.integers(1, 4))
            if mode == "reflect":
                N = max(N, L + 2 * J)
            kf = names.index(name) * 3 + dwtlib.MODES.index(mode)
            fw = pw.DWT1DForward(J=J, wave=dwtlib.wave_form(name, kf)[0], mode=mode)
            iv = pw.DWT1DInverse(wave=dwtlib.wave_form(name, kf + 2, synthesis=True)[0], mode=mode)
            if kf % 2 == 0:
                # the modules have a past: an earlier call with float32 data (rejected today - the filters are float64 - and whatever
                # happens it must leave the modules as they were) and an earlier call with another size
                for past in (lambda: fw(torch.zeros(1, 1, N, dtype=torch.float32)), lambda: fw(torch.zeros(1, 3, N + 5)),
                             lambda: iv(tuple(fw(torch.zeros(1, 1, N + 3)))),
                             lambda: iv((torch.zeros(1, 1, 8, dtype=torch.float32), [torch.zeros(1, 1, 8, dtype=torch.float32)]))):
                    try:
                        past()
                    except Exception:   # noqa
                        pass
            for x in adversarial_inputs(rng, (2, 2, N)):
                cfg = dict(wavelet=name, mode=mode, N=N, J=J, modules_used_before=bool(kf % 2 == 0))
                try:
                    yl, yh = fw(torch.tensor(x))
                except Exception:   # noqa
                    break          # admissibility of forward raises is C01's business
                try:
                    xr = iv((yl, yh)).numpy()
                except Exception as e:   # noqa
                    rep.violation("DWT1DInverse raised %r on the output of DWT1DForward at %s" % (e, cfg),
                                  {"api": "DWT1DInverse", "check": "num_pr", "cfg": cfg})
                    break
                gain = (2 * Ga * Gs) ** J * max(np.abs(x).max(), 1e-300)
                bound = 64 * EPS64 * L * J * gain + 4 * J * L * res * gain
                if res > 1e-10:      # only approximately PR (dmey): no worse than PyWavelets itself
                    try:
                        pr = pywt.waverec(pywt.wavedec(x, w, mode=mode, level=J), w, mode=mode)[..., :N]
                        bound = max(bound, 4 * np.abs(pr - x).max() + 64 * EPS64 * L * J * gain)
                    except ValueError:
                        pass
                err = np.abs(xr[..., :N] - x).max() if xr.shape[-1] in (N, N + 1) else np.inf
                n += 1
                if not err <= bound:
                    rep.violation("DWT1D round trip error %.3g exceeds bound %.3g at %s (output length %d, PR residual of the table %.2g)"
                                  % (err, bound, cfg, xr.shape[-1], res), {"api": "DWT1D round trip", "check": "num_pr", "cfg": cfg})
                    break
            H, W = int(rng.integers(2, L + 12)), int(rng.integers(2, L + 12))
            J2 = int(rng.integers(1, 3))
            if mode == "reflect":
                H, W = max(H, L + 2 * J2), max(W, L + 2 * J2)
            fw = pw.DWTForward(J=J2, wave=dwtlib.wave_form(name, kf + 1)[0], mode=mode)
            iv = pw.DWTInverse(wave=dwtlib.wave_form(name, kf + 3, synthesis=True)[0], mode=mode)
            for x in adversarial_inputs(rng, (1, 2, H, W))[:3]:
                cfg = dict(wavelet=name, mode=mode, H=H, W=W, J=J2)
                try:
                    yl, yh = fw(torch.tensor(x))
                except Exception:   # noqa
                    break
                try:
                    xr = iv((yl, yh)).numpy()
                except Exception as e:   # noqa
                    rep.violation("DWTInverse raised %r on the output of DWTForward at %s" % (e, cfg),
                                  {"api": "DWTInverse", "check": "num_pr", "cfg": cfg})
                    break
                gain = (2 * Ga * Gs) ** (2 * J2) * max(np.abs(x).max(), 1e-300)
                bound = 64 * EPS64 * L * L * J2 * gain + 8 * J2 * L * L * res * gain
                if res > 1e-10:
                    try:
                        pr = pywt.waverec2(pywt.wavedec2(x, w, mode=mode, level=J2), w, mode=mode)[..., :H, :W]
                        bound = max(bound, 4 * np.abs(pr - x).max() + 64 * EPS64 * L * L * J2 * gain)
                    except ValueError:
                        pass
                okshape = xr.shape[-2] in (H, H + 1) and xr.shape[-1] in (W, W + 1)
                err = np.abs(xr[..., :H, :W] - x).max() if okshape else np.inf
                n += 1
                if not err <= bound:
                    rep.violation("DWT2D round trip error %.3g exceeds bound %.3g at %s (output %s)"
                                  % (err, bound, cfg, xr.shape[-2:]), {"api": "DWT2D round trip", "check": "num_pr", "cfg": cfg})
                    break
            rep.nontriv(("num_pr", name, mode))
    # a different wavelet per axis (the 4-tuple form: column filters first): the synthesis must pair each axis with ITS bank
    pairs = [("db2", "haar"), ("db4", "sym4"), ("bior2.2", "db3"), ("sym5", "bior1.3"), ("coif1", "rbio2.2"), ("db3", "coif1")]
    if tier != "quick":
        pool = [nm for nm in names if pywt.Wavelet(nm).dec_len <= 16 and pr_residual(pywt.Wavelet(nm)) < 1e-10]
        pairs += [(str(a_), str(b_)) for a_, b_ in zip(rng.permutation(pool)[:30], rng.permutation(pool)[:30]) if a_ != b_]
    n4 = 0
    for wc, wr in pairs:
        a, b = pywt.Wavelet(wc), pywt.Wavelet(wr)
        res = max(pr_residual(a), pr_residual(b))
        Lm = max(a.dec_len, b.dec_len)
        G2 = max(np.abs(v).sum() for v in (a.dec_lo, a.dec_hi, b.dec_lo, b.dec_hi)) * max(
            np.abs(v).sum() for v in (a.rec_lo, a.rec_hi, b.rec_lo, b.rec_hi))
        for mode in dwtlib.MODES:
            J2 = int(rng.integers(1, 4))
            H = int(rng.integers(a.dec_len + 2 * J2, 3 * a.dec_len + 16))
            W = int(rng.integers(b.dec_len + 2 * J2, 3 * b.dec_len + 16))
            fw = pw.DWTForward(J=J2, wave=(a.dec_lo, a.dec_hi, b.dec_lo, b.dec_hi), mode=mode)
            iv = pw.DWTInverse(wave=(a.rec_lo, a.rec_hi, b.rec_lo, b.rec_hi), mode=mode)
            x = rng.standard_normal((2, 2, H, W))
            cfg = dict(col_wavelet=wc, row_wavelet=wr, mode=mode, H=H, W=W, J=J2)
            try:
                yl, yh = fw(torch.tensor(x))
            except Exception:   # noqa   (admissibility of forward raises is C01's business)
                continue
            n4 += 1
            rep.nontriv(("num_pr_two_wavelets", wc, wr, mode))
            try:
                xr = iv((yl, yh)).numpy()
                okshape = xr.shape[-2] in (H, H + 1) and xr.shape[-1] in (W, W + 1)
                err = np.abs(xr[..., :H, :W] - x).max() if okshape else np.inf
                shp = xr.shape[-2:]
            except Exception as e:   # noqa
                err, shp = np.inf, repr(e)[:120]
            gain = (2 * G2) ** (2 * J2) * max(np.abs(x).max(), 1.0)
            bound = 64 * EPS64 * Lm * Lm * J2 * gain + 8 * J2 * Lm * Lm * res * gain
            if not err <= bound:
                rep.violation("DWT2D round trip with a wavelet per axis (columns %s, rows %s): error %.3g exceeds bound %.3g at %s (output %s)"
                              % (wc, wr, err, bound, cfg, shp), {"api": "DWT2D round trip (4-tuple)", "check": "num_pr", "cfg": cfg})
    n += n4
    rep.count("numeric_round_trips_two_wavelets", n4)
    rep.validated(n)
    rep.count("numeric_round_trips", n)
    rep.extra["pr_residual_max_over_wavelets_excl_dmey"] = max(v for k, v in worst_res.items() if k != "dmey")
    if "dmey" in worst_res:
        rep.extra["pr_residual_dmey"] = worst_res["dmey"]
