"""Spec -> code replays for the DWT family: each function walks the replay records TLC printed,
drives the real library through the same configuration and compares API-level observables with
what Ref admits.  Verdict rules (DESIGN.md section 6):
  observed == Ref                          -> held
  observed == Impl != Ref, listed region   -> KNOWN-FINDING
  anything else                            -> VIOLATION
  observed == Ref but != Impl              -> impl_drift (diagnostic only)
"""
import numpy as np

from . import dwtlib, oracles

PIN_CACHE = {}


def _nontrivial_1d(mode, N, L, J=1):
    return (N % 2 == 1) or (N < 2 * L) or J > 1


def analysis_one_level(rep, fnd, table, pid, api="DWT1DForward"):
    n_ok = 0
    for (mode, N, L) in table.keys():
        r = table.rec[(mode, N, L)]
        cfg = {"mode": mode, "N": N, "L": L, "J": 1, "Ne": N + N % 2}
        ref = table.a_ref(mode, N, L)
        impl = table.a_impl(mode, N, L)
        # --- pin Ref to PyWavelets (oracle named by the property)
        try:
            pw_op = oracles.pywt_dwt_op(mode, N, L)
            if not dwtlib.eq_int(pw_op, ref):
                rep.fail("Ref disagrees with pywt.dwt at %s" % (cfg,))
                continue
        except Exception as e:   # noqa
            rep.fail("pywt oracle failed at %s: %r" % (cfg, e))
            continue
        obs = dwtlib.extract_fwd1(mode, N, L)
        rep.validated()
        case = {"api": api, "check": "analysis_one_level", "cfg": cfg}
        if isinstance(obs, dwtlib.Raised):
            if mode == "reflect" and N < L:
                rep.count("admissible_raises")
                if not r["a_raises"]:
                    rep.drift.append("%s raises but the Impl model does not: %s" % (api, cfg))
            else:
                f = fnd.match(pid, api, cfg, "raises:" + obs.type)
                if f:
                    rep.known_finding(f["id"], f["what"])
                else:
                    rep.violation("%s raised %r where PyWavelets returns coefficients (%s)" % (api, obs, cfg),
                                  dict(case, observed=repr(obs)))
            continue
        lo, hi = obs
        good = dwtlib.eq_int(lo, ref) and dwtlib.eq_int(hi, ref)
        if good:
            n_ok += 1
            if r["a_raises"] or not dwtlib.eq_int(lo, impl):
                rep.drift.append("%s matches Ref but not the Impl model at %s" % (api, cfg))
        else:
            sig = "equals-impl-model" if (not r["a_same"] and dwtlib.eq_int(lo, impl)
                                           and dwtlib.eq_int(hi, impl)) else "other"
            f = fnd.match(pid, api, cfg, sig)
            if f:
                rep.known_finding(f["id"], f["what"])
            else:
                band = "lowpass" if not dwtlib.eq_int(lo, ref) else "highpass"
                d = dwtlib.diff_entries(lo if band == "lowpass" else hi, ref)
                rep.violation("%s one-level %s operator differs from pywt.dwt at %s: [index(k,tap,n), observed, expected] %s"
                              % (api, band, cfg, d), dict(case, diff=d, band=band))
        if _nontrivial_1d(mode, N, L):
            rep.nontriv((api, mode, N, L, 1))
        if n_ok == 1:
            rep.sample({"api": api, "cfg": cfg, "ref_entries[k,tap,n,count]": r["a_ref"][:6],
                        "observed": "equal (both bands)"})
    rep.count("one_level_analysis_configs_equal_ref", n_ok)


def compose_fwd(table, mode, N, L, J, h0, h1, which="ref"):
    """expected matrices of a J-level 1-D transform for integer taps: (low, [high_1..high_J])"""
    get = table.a_ref if which == "ref" else table.a_impl
    X = np.eye(N)
    highs = []
    n = N
    for _ in range(J):
        A = get(mode, n, L)
        highs.append(dwtlib.mat(A, h1) @ X)
        X = dwtlib.mat(A, h0) @ X
        n = A.shape[0]
    return X, highs


def extract_fwd_multi(mode, N, L, J, h0, h1):
    import torch
    import pytorch_wavelets as pw
    dwtlib.f64()
    X = torch.eye(N).reshape(N, 1, N)
    try:
        m = pw.DWT1DForward(J=J, wave=(h0, h1), mode=mode)
        yl, yh = m(X)
    except Exception as e:   # noqa
        return dwtlib.Raised(e)
    return yl[:, 0, :].numpy().T, [y[:, 0, :].numpy().T for y in yh]


def chain_in_table(table, mode, N, L, J):
    n = N
    for _ in range(J):
        if not table.has(mode, n, L):
            return False
        n = table.rec[(mode, n, L)]["a_len"]
    return True


def analysis_multi_level(rep, fnd, table, records, pid, api="DWT1DForward"):
    rng = np.random.default_rng(1000 + __import__("harness.common", fromlist=["seed"]).seed())
    n_ok = 0
    for r in records:
        if r.get("kind") != "dwt1.fwd" or r["J"] < 2:
            continue
        mode, N, L, J = r["mode"], r["N"], r["L"], r["J"]
        cfg = {"mode": mode, "N": N, "L": L, "J": J, "Ne": N + N % 2}
        case = {"api": api, "check": "analysis_multi_level", "cfg": cfg}
        if not chain_in_table(table, mode, N, L, J):
            rep.count("multi_level_skipped_outside_table")
            continue
        h0, h1 = dwtlib.int_taps(rng, L), dwtlib.int_taps(rng, L)
        obs = extract_fwd_multi(mode, N, L, J, h0, h1)
        rep.validated()
        rep.nontriv((api, mode, N, L, J))
        if isinstance(obs, dwtlib.Raised):
            # admissible only for reflect with some level shorter than the filter
            lens = [N] + r["ref_lens"]
            if mode == "reflect" and any(n < L for n in lens[:J]):
                rep.count("admissible_raises")
                if r["outcome"] != "raise":
                    rep.drift.append("%s raises, model does not: %s" % (api, cfg))
            else:
                rep.violation("%s raised %r where PyWavelets returns coefficients (%s)" % (api, obs, cfg),
                              dict(case, observed=repr(obs)))
            continue
        yl, yh = obs
        lens_obs = [y.shape[0] for y in yh]
        el, eh = compose_fwd(table, mode, N, L, J, h0, h1, "ref")
        good = lens_obs == r["ref_lens"] and dwtlib.eq_int(yl, el) and all(
            dwtlib.eq_int(a, b) for a, b in zip(yh, eh))
        if good:
            n_ok += 1
            if r["outcome"] != "ok" or lens_obs != r["lens"]:
                rep.drift.append("%s ok but Calls model says %s %s at %s" % (api, r["outcome"], r["lens"], cfg))
            if n_ok == 1:
                rep.sample({"api": api, "cfg": cfg, "taps": [h0.tolist(), h1.tolist()],
                            "band_lengths_finest_first": lens_obs, "observed": "equal to composed Ref operators"})
            continue
        il, ih = compose_fwd(table, mode, N, L, J, h0, h1, "impl")
        sig = "equals-impl-model" if (dwtlib.eq_int(yl, il) and all(dwtlib.eq_int(a, b) for a, b in zip(yh, ih))) else "other"
        # the chain visits lengths N_0..N_{J-1}; the finding's region is evaluated on each
        lens = [N] + r["ref_lens"]
        f = None
        for n in lens[:J]:
            f = f or fnd.match(pid, api, dict(cfg, N=n, Ne=n + n % 2), sig)
        if f:
            rep.known_finding(f["id"], f["what"])
        else:
            rep.violation("%s %d-level transform differs from composed pywt operators at %s (band lengths %s, expected %s)"
                          % (api, J, cfg, lens_obs, r["ref_lens"]),
                          dict(case, taps=[h0.tolist(), h1.tolist()], lens_observed=lens_obs))
    rep.count("multi_level_analysis_configs_equal_ref", n_ok)


def replay_case(rep, case):
    rep.fail("replay of individual cases: re-run the check; case was %s" % (case.get("case", {}).get("cfg"),))


# ------------------------------------------------------------------------------------------
# 2-D
# ------------------------------------------------------------------------------------------
def kron2(Ac, Ar):
    """matrix of (column operator along axis -2) x (row operator along axis -1) on row-major images"""
    return np.kron(Ac, Ar)


def compose_fwd2(table, rec, taps, which="ref"):
    """expected matrices of DWTForward for integer taps.
    taps = dict(col=(h0,h1), row=(h0,h1)); returns (low, [ (LH,HL,HH) per level ])"""
    get = table.a_ref if which == "ref" else table.a_impl
    mode, H, W, J = rec["mode"], rec["H"], rec["W"], rec["J"]
    Lc, Lr = rec["Lc"], rec["Lr"]
    X = np.eye(H * W)
    h, w = H, W
    highs = []
    for _ in range(J):
        Ac = get(mode, h, Lc)
        Ar = get(mode, w, Lr)
        c0, c1 = dwtlib.mat(Ac, taps["col"][0]), dwtlib.mat(Ac, taps["col"][1])
        r0, r1 = dwtlib.mat(Ar, taps["row"][0]), dwtlib.mat(Ar, taps["row"][1])
        bands = []
        for b in rec["wiring"]["bands"]:
            if b["band"] == 0:
                continue
            bands.append((b["band"], kron2(c1 if b["col_high"] else c0, r1 if b["row_high"] else r0) @ X))
        highs.append([m for _, m in sorted(bands, key=lambda z: z[0])])
        X = kron2(c0, r0) @ X
        h, w = Ac.shape[0], Ar.shape[0]
    return X, highs


def extract_fwd2(mode, H, W, J, wave):
    import torch
    import pytorch_wavelets as pw
    dwtlib.f64()
    X = torch.eye(H * W).reshape(H * W, 1, H, W)
    try:
        m = pw.DWTForward(J=J, wave=wave, mode=mode)
        yl, yh = m(X)
    except Exception as e:   # noqa
        return dwtlib.Raised(e)
    low = yl[:, 0].reshape(H * W, -1).numpy().T
    highs = [[y[:, 0, b].reshape(H * W, -1).numpy().T for b in range(3)] for y in yh]
    shapes = [tuple(y.shape[-2:]) for y in yh]
    return low, highs, shapes, tuple(yl.shape[-2:])


def chain_in_table2(table, rec):
    return chain_in_table(table, rec["mode"], rec["H"], rec["Lc"], rec["J"]) and \
        chain_in_table(table, rec["mode"], rec["W"], rec["Lr"], rec["J"])


def analysis_2d(rep, fnd, table, records, pid, api="DWTForward"):
    from .common import seed
    rng = np.random.default_rng(2000 + seed())
    n_ok = 0
    for r in records:
        if r.get("kind") != "dwt2.fwd":
            continue
        mode, H, W, J, Lc, Lr = r["mode"], r["H"], r["W"], r["J"], r["Lc"], r["Lr"]
        cfg = {"mode": mode, "H": H, "W": W, "Lc": Lc, "Lr": Lr, "J": J}
        case = {"api": api, "check": "analysis_2d", "cfg": cfg}
        if not chain_in_table2(table, r):
            rep.count("2d_skipped_outside_table")
            continue
        h0, h1 = dwtlib.int_taps(rng, Lc), dwtlib.int_taps(rng, Lc)
        taps = {"col": (h0, h1), "row": (h0, h1)}
        obs = extract_fwd2(mode, H, W, J, (h0, h1))
        rep.validated()
        if H != W or H % 2 == 1 or H < 2 * Lc or J > 1:
            rep.nontriv((api, mode, H, W, Lc, J))
        if isinstance(obs, dwtlib.Raised):
            lh, lw = [H] + r["ref_lensH"], [W] + r["ref_lensW"]
            if mode == "reflect" and (any(n < Lc for n in lh[:J]) or any(n < Lr for n in lw[:J])):
                rep.count("admissible_raises")
                if r["outcome"] != "raise":
                    rep.drift.append("%s raises, model does not: %s" % (api, cfg))
            else:
                rep.violation("%s raised %r where PyWavelets returns coefficients (%s)" % (api, obs, cfg),
                              dict(case, observed=repr(obs)))
            continue
        low, highs, shapes, lshape = obs
        el, eh = compose_fwd2(table, r, taps, "ref")
        exp_shapes = list(zip(r["ref_lensH"], r["ref_lensW"]))
        good = shapes == exp_shapes and dwtlib.eq_int(low, el) and all(
            dwtlib.eq_int(a, b) for la, lb in zip(highs, eh) for a, b in zip(la, lb))
        if good:
            n_ok += 1
            if r["outcome"] != "ok" or shapes != list(zip(r["lensH"], r["lensW"])):
                rep.drift.append("%s ok but DWT2 model says %s at %s" % (api, r["outcome"], cfg))
            if n_ok == 1:
                rep.sample({"api": api, "cfg": cfg, "taps": [h0.tolist(), h1.tolist()],
                            "band_shapes_finest_first": shapes,
                            "observed": "lowpass and (LH,HL,HH) of every level equal the Kronecker products of the Ref operators"})
            continue
        what = "band shapes %s, expected %s" % (shapes, exp_shapes)
        if shapes == exp_shapes:
            # name the first band that differs
            names = ["LH", "HL", "HH"]
            what = "lowpass differs" if not dwtlib.eq_int(low, el) else ""
            for j, (la, lb) in enumerate(zip(highs, eh)):
                for k, (a, b) in enumerate(zip(la, lb)):
                    if not dwtlib.eq_int(a, b) and not what:
                        # is it another band's expected content (wrong order)?
                        same_as = [names[q] for q in range(3) if dwtlib.eq_int(a, lb[q])]
                        what = "level %d band %s differs" % (j + 1, names[k]) + (
                            " (it holds the content expected for %s)" % same_as[0] if same_as else "")
        rep.violation("%s differs from pywt.wavedec2 (composed Ref operators) at %s: %s" % (api, cfg, what),
                      dict(case, taps=[h0.tolist(), h1.tolist()], shapes=shapes))
    rep.count("2d_analysis_configs_equal_ref", n_ok)


# ------------------------------------------------------------------------------------------
# code -> spec : recorded operators of real wavelets, validated by Trace_DWT
# ------------------------------------------------------------------------------------------
def sparse(op):
    idx = np.argwhere(op != 0)
    out = []
    for o, t, i in idx:
        v = op[o, t, i]
        out.append([int(o), int(t), int(i), int(v) if float(v).is_integer() else float(v)])
    return out


def wavelet_lengths(maxL):
    import pywt
    seen = {}
    for name in pywt.wavelist(kind="discrete"):
        L = pywt.Wavelet(name).dec_len
        if L % 2 == 0 and L <= maxL:
            seen.setdefault(L, name)
    return seen            # L -> a wavelet of that length


def record_analysis_events(rep, tier):
    """operators of the real DWT1DForward for the filter lengths of real wavelets and seeded random
    sizes (beyond the bounded model), plus the band shapes of multi-level calls"""
    from .common import seed
    rng = np.random.default_rng(3000 + seed())
    maxL, maxN, per = (20, 70, 2) if tier == "quick" else (40, 130, 4)
    events = []
    for L, name in sorted(wavelet_lengths(maxL).items()):
        for mode in dwtlib.MODES:
            Ns = set(int(x) for x in rng.integers(2, maxN, size=per))
            Ns.add(int(rng.integers(2, max(3, L))))          # shorter than the filter
            for N in sorted(Ns):
                obs = dwtlib.extract_fwd1(mode, N, L)
                if isinstance(obs, dwtlib.Raised):
                    events.append({"ev": "dwt1.analysis", "wavelet": name, "mode": mode, "N": N, "L": L,
                                   "outcome": "raise", "len": 0, "lo": [], "hi": []})
                else:
                    lo, hi = obs
                    events.append({"ev": "dwt1.analysis", "wavelet": name, "mode": mode, "N": N, "L": L,
                                   "outcome": "ok", "len": int(lo.shape[0]), "lo": sparse(lo), "hi": sparse(hi)})
                J = int(rng.integers(2, 5))
                import torch
                import pytorch_wavelets as pw
                try:
                    yl, yh = pw.DWT1DForward(J=J, wave=name, mode=mode)(torch.zeros(1, 1, N))
                    events.append({"ev": "dwt1.shapes", "wavelet": name, "mode": mode, "N": N, "L": L, "J": J,
                                   "outcome": "ok", "lens": [int(y.shape[-1]) for y in yh]})
                except Exception:   # noqa
                    events.append({"ev": "dwt1.shapes", "wavelet": name, "mode": mode, "N": N, "L": L, "J": J,
                                   "outcome": "raise", "lens": []})
    return events


def trace_validate_analysis(rep, pid, tier):
    from . import tracecheck
    events = record_analysis_events(rep, tier)
    rej = tracecheck.validate(rep, "Trace_DWT", events, {"PerFix": True}, "Trace_DWT.analysis")
    for k in rej:
        e = events[k]
        cfg = {key: e[key] for key in ("wavelet", "mode", "N", "L") if key in e}
        if "J" in e:
            cfg["J"] = e["J"]
        rep.violation("recorded %s event of the real DWT1DForward is rejected by the trace specification "
                      "(observable not admitted by Ref) at %s" % (e["ev"], cfg),
                      {"api": "DWT1DForward", "check": "trace", "cfg": cfg, "event": {k2: e[k2] for k2 in e if k2 not in ("lo", "hi")}})
    for e in events:
        rep.nontriv(("trace", e["ev"], e["mode"], e["N"], e["L"], e.get("J", 1)))
    if events:
        e = events[0]
        rep.sample({"trace_event": {k2: (e[k2][:4] if isinstance(e[k2], list) else e[k2]) for k2 in e}})
    rep.count("trace_events_recorded", len(events))
    rep.count("trace_events_rejected", len(rej))


# ------------------------------------------------------------------------------------------
# real taps: the library vs PyWavelets on real-valued inputs (up to rounding)
# ------------------------------------------------------------------------------------------
EPS64 = 2.220446049250313e-16


def adversarial_inputs(rng, shape):
    """gaussian, impulses at both borders, constant, alternating signs, large dynamic range"""
    n = shape[-1]
    xs = [rng.standard_normal(shape)]
    imp = np.zeros(shape)
    imp[..., 0] = 1.0
    imp[..., -1] = -2.0
    xs.append(imp)
    xs.append(np.ones(shape) * 3.0)
    alt = np.ones(shape)
    alt[..., ::2] = -1
    xs.append(alt)
    xs.append(rng.standard_normal(shape) * np.exp(rng.uniform(-12, 12, size=shape)))
    return xs


def numeric_vs_pywt(rep, pid, tier):
    import pywt
    import torch
    import pytorch_wavelets as pw
    from .common import seed
    dwtlib.f64()
    rng = np.random.default_rng(4000 + seed())
    names = [w for w in pywt.wavelist(kind="discrete")]
    if tier == "quick":
        names = ["haar", "db2", "db5", "sym4", "coif2", "bior1.3", "bior2.4", "bior3.9", "rbio2.2", "dmey"]
    n1 = n2 = 0
    for name in names:
        wv = pywt.Wavelet(name)
        L = wv.dec_len
        G = max(np.abs(wv.dec_lo).sum(), np.abs(wv.dec_hi).sum())
        for mode in dwtlib.MODES:
            N = int(rng.integers(max(2, L // 2), 2 * L + 40))
            J = int(rng.integers(1, 4))
            # ---- 1-D
            for x in adversarial_inputs(rng, (2, 3, N)):
                ref = pywt.wavedec(x, wv, mode=mode, level=J, axis=-1)
                try:
                    yl, yh = pw.DWT1DForward(J=J, wave=name, mode=mode)(torch.tensor(x))
                except Exception as e:   # noqa
                    lens = [N]
                    for _ in range(J):
                        lens.append(pywt.dwt_coeff_len(lens[-1], L, mode))
                    if mode == "reflect" and any(n < L for n in lens[:J]):
                        continue
                    rep.violation("DWT1DForward(%s, %s, J=%d) raised %r on a length-%d input" % (name, mode, J, e, N),
                                  {"api": "DWT1DForward", "check": "numeric", "cfg": dict(wavelet=name, mode=mode, N=N, J=J)})
                    break
                bound = 64 * EPS64 * L * J * (G ** J) * max(1e-300, np.abs(x).max())
                got = [yl.numpy()] + [y.numpy() for y in yh[::-1]]
                err = max(np.abs(a - b).max() if a.shape == b.shape else np.inf for a, b in zip(got, ref))
                n1 += 1
                if not err <= bound:
                    rep.violation("DWT1DForward(%s, %s, J=%d, N=%d) differs from pywt.wavedec by %.3g (rounding bound %.3g)"
                                  % (name, mode, J, N, err, bound),
                                  {"api": "DWT1DForward", "check": "numeric", "cfg": dict(wavelet=name, mode=mode, N=N, J=J), "err": err})
                    break
            # ---- 2-D
            H, W = int(rng.integers(2, L + 14)), int(rng.integers(2, L + 14))
            J2 = int(rng.integers(1, 3))
            for x in adversarial_inputs(rng, (1, 2, H, W))[:3]:
                ref = pywt.wavedec2(x, wv, mode=mode, level=J2, axes=(-2, -1))
                try:
                    yl, yh = pw.DWTForward(J=J2, wave=name, mode=mode)(torch.tensor(x))
                except Exception as e:   # noqa
                    if mode == "reflect":
                        continue
                    rep.violation("DWTForward(%s, %s, J=%d) raised %r on a %dx%d input" % (name, mode, J2, e, H, W),
                                  {"api": "DWTForward", "check": "numeric", "cfg": dict(wavelet=name, mode=mode, H=H, W=W, J=J2)})
                    break
                bound = 64 * EPS64 * L * L * J2 * (G ** (2 * J2)) * max(1e-300, np.abs(x).max())
                err = np.abs(yl.numpy() - ref[0]).max() if yl.shape == ref[0].shape else np.inf
                for j in range(J2):
                    r3 = np.stack(ref[J2 - j], axis=2)     # (cH, cV, cD) of level j+1
                    err = max(err, np.abs(yh[j].numpy() - r3).max() if tuple(yh[j].shape) == r3.shape else np.inf)
                n2 += 1
                if not err <= bound:
                    rep.violation("DWTForward(%s, %s, J=%d, %dx%d) differs from pywt.wavedec2 by %.3g (rounding bound %.3g)"
                                  % (name, mode, J2, H, W, err, bound),
                                  {"api": "DWTForward", "check": "numeric", "cfg": dict(wavelet=name, mode=mode, H=H, W=W, J=J2), "err": err})
                    break
            rep.nontriv(("numeric", name, mode))
    rep.validated(n1 + n2)
    rep.count("numeric_1d_comparisons", n1)
    rep.count("numeric_2d_comparisons", n2)
    rep.count("wavelets_compared_numerically", len(names))
