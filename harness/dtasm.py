"""Assembly of full 2-D DTCWT operators from the specification's pieces: the 1-D Ref operators of
MC_DTCWT1 (Dt1Table), the band / quad / orientation wiring and the pyramid trail of DTCWT2.
Everything is integer arithmetic: the 1/sqrt(2) of q2c / c2q is factored out (the matrices returned for
complex subbands are sqrt(2) times the real operator)."""
import numpy as np

SQ2 = np.sqrt(2.0)

# wiring as printed by the specification (module DTCWT2: RefBand, RefQ2C, RefOrient, RefC2Q)
BAND = {"LL": ("lo", "lo"), "P05": ("hi", "lo"), "P23": ("lo", "hi"), "P14": ("hi", "hi")}       # (vertical, horizontal)
Q2C = [{"re": {"a": 1, "d": -1}, "im": {"b": 1, "c": 1}}, {"re": {"a": 1, "d": 1}, "im": {"b": 1, "c": -1}}]
ORIENT = {0: ("P05", 0), 5: ("P05", 1), 2: ("P23", 0), 3: ("P23", 1), 1: ("P14", 0), 4: ("P14", 1)}
C2Q = {"a": (1, 0, 1, 0), "b": (0, 1, 0, 1), "c": (0, 1, 0, -1), "d": (-1, 0, 1, 0)}                 # of (w0re, w0im, w1re, w1im)
QUAD_POS = {"a": (0, 0), "b": (0, 1), "c": (1, 0), "d": (1, 1)}


def kron2(A, B):
    return np.kron(A, B)


def rep_last(n):
    """rows [0..n-1, n-1] if n is odd (replicate the last sample)"""
    idx = list(range(n)) + ([n - 1] if n % 2 else [])
    M = np.zeros((len(idx), n))
    M[np.arange(len(idx)), idx] = 1
    return M


def ext4(n):
    idx = ([0] + list(range(n)) + [n - 1]) if n % 4 else list(range(n))
    M = np.zeros((len(idx), n))
    M[np.arange(len(idx)), idx] = 1
    return M


def quad_sel(h, w, q):
    """selection matrix of quad q of an (h x w) real band: (h/2 * w/2) x (h*w)"""
    dr, dc = QUAD_POS[q]
    S = np.zeros(((h // 2) * (w // 2), h * w))
    k = 0
    for i in range(h // 2):
        for j in range(w // 2):
            S[k, (2 * i + dr) * w + (2 * j + dc)] = 1
            k += 1
    return S


def axis_ops(tab, level, n, taps):
    """(lo, hi) matrices of the analysis along one axis of length n at this level"""
    if level == 1:
        return tab.mat("colfilter", n, taps["h0o"]), tab.mat("colfilter", n, taps["h1o"])
    return (tab.mat("coldfilt", n, taps["h0b"], taps["h0a"], hp=False),
            tab.mat("coldfilt", n, taps["h1b"], taps["h1a"], hp=True))


def forward(tab, rec, taps):
    """expected matrices of DTCWTForward on an H x W image: lows[j] (every level's lowpass) and
    highs[j][o]['re'|'im'] = sqrt(2) * operator, each  (out pixels) x (H*W)"""
    H, W = rec["H"], rec["W"]
    X = np.eye(H * W)
    lows, highs = [], []
    for t in rec["trail"]:
        level, r, c = t["level"], t["in_r"], t["in_c"]
        Er = rep_last(r) if level == 1 else ext4(r)
        Ec = rep_last(c) if level == 1 else ext4(c)
        X = kron2(Er, Ec) @ X
        r2, c2 = Er.shape[0], Ec.shape[0]
        v = dict(zip(("lo", "hi"), axis_ops(tab, level, r2, taps)))
        h = dict(zip(("lo", "hi"), axis_ops(tab, level, c2, taps)))
        bands = {name: kron2(v[bv], h[bh]) @ X for name, (bv, bh) in BAND.items()}
        br, bc = v["lo"].shape[0], h["lo"].shape[0]
        lev = []
        for o in range(6):
            pair, which = ORIENT[o]
            z = {}
            for part in ("re", "im"):
                z[part] = sum(coef * (quad_sel(br, bc, q) @ bands[pair]) for q, coef in Q2C[which][part].items())
            lev.append(z)
        highs.append(lev)
        X = bands["LL"]
        lows.append(X)
        assert (br, bc) == (t["lo_r"], t["lo_c"]), (br, bc, t)
    return lows, highs


def synth_ops(tab, level, n, taps):
    if level == 1:
        return tab.mat("colfilter", n, taps["g0o"]), tab.mat("colfilter", n, taps["g1o"])
    return (tab.mat("colifilt", n, taps["g0b"], taps["g0a"], hp=False),
            tab.mat("colifilt", n, taps["g1b"], taps["g1a"], hp=True))


def pyramid_offsets(trail):
    """column layout of the flattened pyramid: lowpass first, then level 1..J, each (o, ri, row, col)"""
    t = trail[-1]
    off = {0: (0, t["lo_r"] * t["lo_c"])}
    o = off[0][1]
    for k, t in enumerate(trail):
        n = 12 * t["hi_r"] * t["hi_c"]
        off[k + 1] = (o, o + n)
        o += n
    return off, o


class ImplRaises(Exception):
    pass


def inverse(tab, rec, taps, absent=(), abs_low=False, impl=False):
    """expected matrices (image pixels x pyramid coefficients) of the reference inverse; returns
    (M_low, M_high, (rows, cols)) with  y = M_low @ yl + (1/sqrt 2) * M_high @ yh.
    impl=True: the pipeline as DTCWTInverse performs it - no crop when the level is absent, at most one
    [1:-1] crop per axis otherwise, ImplRaises when the sizes then still disagree"""
    trail = rec["trail"]
    J = len(trail)
    off, total = pyramid_offsets(trail)
    t = trail[-1]
    r, c = t["lo_r"], t["lo_c"]
    Zl = np.zeros((r * c, total))
    if not abs_low:
        Zl[:, off[0][0]:off[0][1]] = np.eye(r * c)
    Zh = np.zeros((r * c, total))
    for j in range(J, 0, -1):
        t = trail[j - 1]
        hr, hc = t["hi_r"], t["hi_c"]
        br, bc = 2 * hr, 2 * hc
        n = hr * hc
        if impl:
            if j in absent:
                br, bc = r, c                      # nothing to compare with: no crop
            else:
                nr = r - 2 if r != br else r
                nc = c - 2 if c != bc else c
                if j == 1:          # inv_j1 repeats the size test on what the module hands it
                    nr = nr - 2 if nr != br else nr
                    nc = nc - 2 if nc != bc else nc
                if (nr, nc) != (br, bc):
                    raise ImplRaises("level %d: lowpass %dx%d vs bandpass %dx%d" % (j, nr, nc, br, bc))
        # real bands from the complex pairs (c2q), zero when the level is absent
        bands = {}
        for pair in ("P05", "P23", "P14"):
            B = np.zeros((br * bc, total))
            if j not in absent:
                o0 = [o for o in range(6) if ORIENT[o] == (pair, 0)][0]
                o1 = [o for o in range(6) if ORIENT[o] == (pair, 1)][0]
                for q, coefs in C2Q.items():
                    S = quad_sel(br, bc, q).T                 # scatter quad q
                    for coef, (o, ri) in zip(coefs, ((o0, 0), (o0, 1), (o1, 0), (o1, 1))):
                        if coef:
                            a = off[j][0] + (o * 2 + ri) * n
                            D = np.zeros((n, total))
                            D[:, a:a + n] = np.eye(n)
                            B = B + coef * (S @ D)
            bands[pair] = B
        # the lowpass entering this level must be br x bc: crop [1:-1] per axis if it is larger
        if (r, c) != (br, bc):
            keep = np.zeros((br * bc, r * c))
            dr, dc = (r - br) // 2, (c - bc) // 2
            k = 0
            for i in range(br):
                for jj in range(bc):
                    keep[k, (i + dr) * c + (jj + dc)] = 1
                    k += 1
            Zl, Zh = keep @ Zl, keep @ Zh
            r, c = br, bc
        v0, v1 = synth_ops(tab, j, br, taps)
        h0, h1 = synth_ops(tab, j, bc, taps)
        low_l = kron2(v0, h0) @ Zl
        low_h = kron2(v0, h0) @ Zh
        hi = kron2(v1, h0) @ bands["P05"] + kron2(v0, h1) @ bands["P23"] + kron2(v1, h1) @ bands["P14"]
        Zl, Zh = low_l, low_h + hi
        r, c = v0.shape[0], h0.shape[0]
    return Zl, Zh, (r, c)
