"""Unbounded complement: the integer shape lemmas of spec/Apa_Shapes.tla discharged by Apalache for ALL sizes
(thorough tier; the bounded TLC runs remain the primary check)."""
import os
import subprocess
import time

from .common import SPEC, scratch


def shape_lemmas(rep):
    out = os.path.join(scratch(), "apalache")
    t0 = time.time()
    try:
        p = subprocess.run(["apalache-mc", "check", "--init=Init", "--inv=Inv", "--length=0", "--out-dir=" + out, "Apa_Shapes.tla"],
                           cwd=SPEC, stdout=subprocess.PIPE, stderr=subprocess.STDOUT, text=True, timeout=600)
        ok = "The outcome is: NoError" in p.stdout
        rep.extra["apalache_shape_lemmas"] = {"outcome": "NoError" if ok else "FAILED", "wall_s": round(time.time() - t0, 1),
                                              "lemmas": ["PadSplit", "ZeroPad", "PerCount", "SynLen", "Atrous", "Pyramid", "Scat8"],
                                              "scope": "all N >= 1, even L >= 2, dilation >= 1, even R >= 2, S >= 3 (unbounded)"}
        if not ok:
            rep.fail("Apalache did not discharge the shape lemmas: " + p.stdout[-400:])
    except Exception as e:   # noqa
        rep.fail("Apalache run failed: %r" % (e,))
