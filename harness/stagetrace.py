"""code -> spec, stage level: real API calls are run with a sink on the library's hook points; the recorded event
sequences are validated by TLC trace specifications that re-use the actions of the call machines (Trace_DWT1Calls,
Trace_DTCWT2), so an execution is accepted iff it is a behaviour of the machine."""
import numpy as np
import torch

import pytorch_wavelets as pw
from .hooks import _verif

from . import tracecheck, dwtlib, hookmap
from .common import seed

PERFIX = {"PerFix": True}


def _dwt1_constants():
    from . import models
    c = models.model(models.DWT1_CALLS, "quick", Apis={"fwd", "inv"}, Emit=False)
    return c


def record_dwt1(tier):
    import pywt
    rng = np.random.default_rng(50000 + seed())
    events, cases = [], []
    buf = []
    names = ["haar", "db2", "db3", "db5", "sym4", "coif2", "bior2.2", "bior3.5", "db10"] if tier == "quick" else \
        [n for n in pywt.wavelist(kind="discrete") if pywt.Wavelet(n).dec_len <= 40]

    def sink(ev, f):
        hookmap.dwt1(ev, f, buf)
    _verif.set_sink(sink)
    try:
        for name in names:
            L = pywt.Wavelet(name).dec_len
            for mode in dwtlib.MODES:
                for _ in range(2 if tier == "quick" else 4):
                    N = int(rng.integers(2, 200))
                    J = int(rng.integers(1, 5))
                    start = len(events)
                    events.append({"ev": "reset"})
                    events.append({"ev": "call", "api": "fwd", "mode": mode, "N": N, "L": L, "J": J, "none": []})
                    del buf[:]
                    with torch.no_grad():
                        try:
                            yl, yh = pw.DWT1DForward(J=J, wave=name, mode=mode)(torch.zeros(1, 1, N))
                            events.extend(buf)
                            events.append({"ev": "ret", "outcome": "ok", "lens": [int(y.shape[-1]) for y in yh], "outlen": 0})
                        except Exception:   # noqa
                            events.extend(buf)
                            events.append({"ev": "ret", "outcome": "raise", "lens": [], "outlen": 0})
                            cases.append((start, len(events), dict(api="DWT1DForward", wavelet=name, mode=mode, N=N, J=J)))
                            continue
                    cases.append((start, len(events), dict(api="DWT1DForward", wavelet=name, mode=mode, N=N, J=J)))
                    # the inverse on the produced pyramid, some levels None
                    none = sorted(set(int(j) for j in rng.integers(1, J + 1, size=int(rng.integers(0, 2)))))
                    start = len(events)
                    events.append({"ev": "reset"})
                    events.append({"ev": "call", "api": "inv", "mode": mode, "N": N, "L": L, "J": J, "none": none})
                    del buf[:]
                    with torch.no_grad():
                        try:
                            y = pw.DWT1DInverse(wave=name, mode=mode)((yl, [None if (j + 1) in none else h for j, h in enumerate(yh)]))
                            events.extend(buf)
                            events.append({"ev": "ret", "outcome": "ok", "lens": [], "outlen": int(y.shape[-1])})
                        except Exception:   # noqa
                            events.extend(buf)
                            events.append({"ev": "ret", "outcome": "raise", "lens": [], "outlen": 0})
                    cases.append((start, len(events), dict(api="DWT1DInverse", wavelet=name, mode=mode, N=N, J=J, none=none)))
    finally:
        _verif.set_sink(None)
    return events, cases


def validate_dwt1(rep, pid, tier, which):
    """which: 'DWT1DForward' or 'DWT1DInverse' (the property that asks decides which executions count)"""
    events, cases = record_dwt1(tier)
    c = _dwt1_constants()
    rej = set(tracecheck.validate(rep, "Trace_DWT1Calls", events, c, "Trace_DWT1Calls", batch=100000, spec="TraceSpec"))
    n_acc = 0
    for a, b, cfg in cases:
        if cfg["api"] != which:
            continue
        rep.nontriv(("stage_trace", repr(cfg)))
        if judge(rep, events, a, b, rej, cfg, which, "call machine (spec/DWT1Calls.tla)"):
            n_acc += 1
    rep.count("stage_traces_accepted", n_acc)
    if cases:
        a, b, cfg = cases[0]
        rep.sample({"stage_trace": cfg, "events": events[a:b][:8]})


def judge(rep, events, a, b, rej, cfg, api, machine):
    """One recorded execution [a, b) against the rejected event indices.  Returns True when accepted.
    A rejected event says that the code does not take the steps the Impl model takes.  A refactoring does that too - passes
    reordered, a hook moved or dropped (then the machine has not advanced and the RETURN event is rejected as well, although what
    the call returned is right) - without breaking any property.  So a rejection is ALWAYS reported as impl-drift: the stage
    traces bind the model to the code and localise, the API-level layers built on the same machines (shapes, values, raises of
    the real calls against the machines' records) decide.  (First version: a rejected return event alone was a VIOLATION; a
    behaviour-preserving refactoring that removed the hooks of the a-trous passes but kept the level hook showed that this
    was a false alarm - section 16.)"""
    r = [k for k in range(a, b) if k in rej]
    if not r:
        return True
    e = events[r[0]]
    rep.drift.append("stage trace of %s at %s: event %r is not a step of the %s (model fidelity; the API-level layers decide)" % (api, cfg, e, machine))
    rep.count("stage_traces_drifted")
    return False


def record_dtcwt(tier):
    rng = np.random.default_rng(51000 + seed())
    events, cases, buf = [], [], []

    def sink(ev, f):
        hookmap.dtcwt(ev, f, buf)
    _verif.set_sink(sink)
    try:
        for _ in range(60 if tier == "quick" else 600):
            H, W = int(rng.integers(2, 70)), int(rng.integers(2, 70))
            J = int(rng.integers(1, 5))
            start = len(events)
            events.append({"ev": "reset"})
            events.append({"ev": "call", "api": "fwd", "H": H, "W": W, "J": J, "absent": [], "absLow": False, "kind": "none"})
            del buf[:]
            with torch.no_grad():
                yl, yh = pw.DTCWTForward(J=J)(torch.zeros(1, 1, H, W))
            events.extend(buf)
            events.append({"ev": "ret", "api": "fwd", "outcome": "ok", "lo_r": int(yl.shape[-2]), "lo_c": int(yl.shape[-1]),
                           "hi": [[int(h.shape[3]), int(h.shape[4])] for h in yh], "out_r": 0, "out_c": 0})
            cases.append((start, len(events), dict(api="DTCWTForward", H=H, W=W, J=J)))
            absent = sorted(set(int(j) for j in rng.integers(1, J + 1, size=int(rng.integers(0, 2)))))
            kind = ["none", "empty", "placeholder"][int(rng.integers(0, 3))]
            if not absent:
                kind = "none"
            start = len(events)
            events.append({"ev": "reset"})
            events.append({"ev": "call", "api": "inv", "H": H, "W": W, "J": J, "absent": absent, "absLow": False, "kind": kind})
            del buf[:]
            val = {"none": None, "empty": torch.tensor([]), "placeholder": yl.new_zeros([])}[kind]
            with torch.no_grad():
                try:
                    y = pw.DTCWTInverse()((yl, [val if (j + 1) in absent else h for j, h in enumerate(yh)]))
                    events.extend(buf)
                    events.append({"ev": "ret", "api": "inv", "outcome": "ok", "out_r": int(y.shape[-2]), "out_c": int(y.shape[-1]),
                                   "lo_r": 0, "lo_c": 0, "hi": []})
                except Exception:   # noqa
                    events.extend(buf)
                    events.append({"ev": "ret", "api": "inv", "outcome": "raise", "out_r": 0, "out_c": 0, "lo_r": 0, "lo_c": 0, "hi": []})
            cases.append((start, len(events), dict(api="DTCWTInverse", H=H, W=W, J=J, absent=absent, kind=kind)))
    finally:
        _verif.set_sink(None)
    return events, cases


def validate_dtcwt(rep, pid, tier, which):
    from . import models
    events, cases = record_dtcwt(tier)
    c = dict(HWCodes={202}, JMax=1, Apis=set(), Shard=0, NShards=1, Emit=False, OptFix=models.FIX["OptFix"], AbsentFix=models.FIX["AbsentFix"])
    rej = set(tracecheck.validate(rep, "Trace_DTCWT2", events, c, "Trace_DTCWT2", batch=100000, spec="TraceSpec"))
    n_acc = 0
    for a, b, cfg in cases:
        if cfg["api"] != which:
            continue
        rep.nontriv(("stage_trace", repr(cfg)))
        if judge(rep, events, a, b, rej, cfg, which, "pyramid machine (spec/DTCWT2.tla)"):
            n_acc += 1
    rep.count("stage_traces_accepted", n_acc)
    if cases:
        a, b, cfg = cases[0]
        rep.sample({"stage_trace": cfg, "events": events[a:b][:8]})


def record_dwt2(tier):
    import pywt
    rng = np.random.default_rng(52000 + seed())
    events, cases, buf = [], [], []
    pend = {}

    def sink(ev, f):
        hookmap.dwt2(ev, f, buf, pend)
    _verif.set_sink(sink)
    names = ["haar", "db2", "db4", "sym5", "bior2.2", "coif1"] if tier == "quick" else \
        [n for n in pywt.wavelist(kind="discrete") if pywt.Wavelet(n).dec_len <= 24]
    try:
        for name in names:
            L = pywt.Wavelet(name).dec_len
            for mode in dwtlib.MODES:
                for _ in range(2 if tier == "quick" else 3):
                    H, W = int(rng.integers(2, 60)), int(rng.integers(2, 60))
                    J = int(rng.integers(1, 4))
                    dt = "f64" if rng.integers(0, 2) else "f32"
                    tdt = torch.float64 if dt == "f64" else torch.float32
                    start = len(events)
                    events.append({"ev": "reset"})
                    events.append({"ev": "call", "api": "fwd", "mode": mode, "H": H, "W": W, "Lc": L, "Lr": L, "J": J, "none": [], "dtype": dt})
                    del buf[:]
                    pend.clear()
                    ok = True
                    with torch.no_grad():
                        try:
                            yl, yh = pw.DWTForward(J=J, wave=name, mode=mode).to(tdt)(torch.zeros(1, 1, H, W, dtype=tdt))
                            events.extend(buf)
                            events.append({"ev": "ret", "api": "fwd", "outcome": "ok", "lensH": [int(y.shape[-2]) for y in yh],
                                           "lensW": [int(y.shape[-1]) for y in yh], "outH": 0, "outW": 0})
                        except Exception:   # noqa
                            ok = False
                            events.extend(buf)
                            events.append({"ev": "ret", "api": "fwd", "outcome": "raise", "lensH": [], "lensW": [], "outH": 0, "outW": 0})
                    cases.append((start, len(events), dict(api="DWTForward", wavelet=name, mode=mode, H=H, W=W, J=J)))
                    if not ok:
                        continue
                    none = sorted(set(int(j) for j in rng.integers(1, J + 1, size=int(rng.integers(0, 2)))))
                    start = len(events)
                    events.append({"ev": "reset"})
                    events.append({"ev": "call", "api": "inv", "mode": mode, "H": H, "W": W, "Lc": L, "Lr": L, "J": J, "none": none, "dtype": dt})
                    del buf[:]
                    pend.clear()
                    with torch.no_grad():
                        try:
                            y = pw.DWTInverse(wave=name, mode=mode).to(tdt)((yl, [None if (j + 1) in none else h for j, h in enumerate(yh)]))
                            events.extend(buf)
                            events.append({"ev": "ret", "api": "inv", "outcome": "ok", "lensH": [], "lensW": [], "outH": int(y.shape[-2]), "outW": int(y.shape[-1])})
                        except Exception:   # noqa
                            events.extend(buf)
                            events.append({"ev": "ret", "api": "inv", "outcome": "raise", "lensH": [], "lensW": [], "outH": 0, "outW": 0})
                    cases.append((start, len(events), dict(api="DWTInverse", wavelet=name, mode=mode, H=H, W=W, J=J, none=none, dtype=dt)))
    finally:
        _verif.set_sink(None)
    return events, cases


def validate_dwt2(rep, pid, tier, which):
    from . import models
    events, cases = record_dwt2(tier)
    c = models.model(models.DWT2_CALLS, "quick", Apis=set(), Emit=False, HWCodes={202}, LCodes={202})
    rej = set(tracecheck.validate(rep, "Trace_DWT2", events, c, "Trace_DWT2", batch=100000, spec="TraceSpec"))
    n_acc = 0
    for a, b, cfg in cases:
        if cfg["api"] != which:
            continue
        rep.nontriv(("stage_trace2", repr(cfg)))
        if judge(rep, events, a, b, rej, cfg, which, "2-D call machine (spec/DWT2.tla)"):
            n_acc += 1
    rep.count("stage_traces_2d_accepted", n_acc)


def record_swt(tier):
    import pywt
    from pytorch_wavelets.dwt.transform2d import SWTForward
    rng = np.random.default_rng(53000 + seed())
    events, cases, buf = [], [], []

    def sink(ev, f):
        hookmap.swt(ev, f, buf)
    _verif.set_sink(sink)
    names = ["haar", "db2", "db4", "sym5", "bior2.2", "coif1"] if tier == "quick" else \
        [n for n in pywt.wavelist(kind="discrete") if pywt.Wavelet(n).dec_len <= 24]
    try:
        for name in names:
            w = pywt.Wavelet(name)
            for k in range(3 if tier == "quick" else 5):
                J = int(rng.integers(1, 5))
                H, W = 2 ** J * int(rng.integers(1, 6)), 2 ** J * int(rng.integers(1, 6))
                mode = ["periodization", "periodic"][k % 2]
                # every third case: a wavelet per axis (4-tuple, other filter length on the rows)
                w2 = pywt.Wavelet(names[(names.index(name) + 1) % len(names)]) if k % 3 == 2 else w
                wave = name if w2 is w else (w.dec_lo, w.dec_hi, w2.dec_lo, w2.dec_hi)
                start = len(events)
                events.append({"ev": "reset"})
                events.append({"ev": "call", "J": J, "mode": mode, "H": H, "W": W, "Lc": w.dec_len, "Lr": w2.dec_len})
                del buf[:]
                with torch.no_grad():
                    try:
                        out = SWTForward(J=J, wave=wave, mode=mode)(torch.zeros(2, 3, H, W))
                        events.extend(buf)
                        ok = all(tuple(o.shape) == tuple(out[0].shape) and o.dim() == 5 for o in out)
                        events.append({"ev": "ret", "outcome": "ok", "count": len(out), "rows": int(out[0].shape[-2]) if ok else -1,
                                       "cols": int(out[0].shape[-1]) if ok else -1, "bands": int(out[0].shape[2]) if ok else -1})
                    except Exception:   # noqa
                        events.extend(buf)
                        events.append({"ev": "ret", "outcome": "raise", "count": 0, "rows": 0, "cols": 0, "bands": 0})
                cases.append((start, len(events), dict(api="SWTForward", wavelet=name, rows_wavelet_len=w2.dec_len, mode=mode, H=H, W=W, J=J)))
    finally:
        _verif.set_sink(None)
    return events, cases


def validate_swt(rep, pid, tier):
    events, cases = record_swt(tier)
    c = dict(NSet={2}, LSet={2}, DSet={1}, Shard=0, NShards=1, Emit=False, SwtFix=True, PerFix=True)
    rej = set(tracecheck.validate(rep, "Trace_SWT", events, c, "Trace_SWT", batch=100000, spec="TraceSpec"))
    n_acc = 0
    for a, b, cfg in cases:
        rep.nontriv(("stage_trace_swt", repr(cfg)))
        if judge(rep, events, a, b, rej, cfg, "SWTForward", "level machine (spec/SWT.tla via Trace_SWT.tla: level order, dilation 2^(level-1), pad "
                 "L*d/2-d | L*d/2, row filters on rows / column filters on columns, full-size output)"):
            n_acc += 1
    rep.count("stage_traces_swt_accepted", n_acc)
    if cases:
        a, b, cfg = cases[0]
        rep.sample({"stage_trace": cfg, "events": events[a:b][:6]})
