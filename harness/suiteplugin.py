"""pytest plugin (``-p harness.suiteplugin``): records the stage-level hook events of every DWT / DTCWT module call the
repository's OWN test-suite makes, one trace per distinct call signature, in the event vocabulary of the trace
specifications Trace_DWT1Calls / Trace_DWT2 / Trace_DTCWT2 (written to $VERIF_SUITE_TRACE as ndjson).

The library is not modified: the public ``forward`` methods are wrapped from outside, the events inside a call come from
the env-guarded hook points.  Calls whose arguments are outside the call machines' vocabulary (non-default DTCWT options,
pyramids that are not forward-compatible, wavelets with unequal filter lengths) are counted as skipped, not recorded.
"""
import json
import os

OUT = os.environ.get("VERIF_SUITE_TRACE")
_state = {"depth": 0, "seen": set(), "fh": None, "skipped": {}, "recorded": 0}
CAP_PER_API = int(os.environ.get("VERIF_SUITE_TRACE_CAP", "400"))


def _skip(why):
    _state["skipped"][why] = _state["skipped"].get(why, 0) + 1


def _emit(api, cfg, events):
    key = (api, json.dumps(cfg, sort_keys=True))
    if key in _state["seen"]:
        return
    n_api = sum(1 for k in _state["seen"] if k[0] == api)
    if n_api >= CAP_PER_API:
        _skip("cap")
        return
    _state["seen"].add(key)
    _state["fh"].write(json.dumps({"api": api, "cfg": cfg, "events": events}) + "\n")
    _state["recorded"] += 1


def _chain(n, L, mode, J):
    import pywt
    out = []
    for _ in range(J):
        n = pywt.dwt_coeff_len(n, L, "periodization" if mode in ("per", "periodization") else "zero")
        out.append(n)
    return out


def _infer_len(lens_hi, len_lo, L, mode, J):
    """largest signal length whose forward pyramid has these band lengths (None = unknown level)"""
    known = [x for x in lens_hi if x is not None] + [len_lo]
    top = 2 * max(known) * (2 ** J) + 2 * L
    for n in range(min(top, 5000), 0, -1):
        ch = _chain(n, L, mode, J)
        if ch[-1] == len_lo and all(a is None or a == b for a, b in zip(lens_hi, ch)):
            return n
    return None


def install():
    import torch
    import pytorch_wavelets as pw
    from harness.hooks import _verif
    from harness import hookmap
    if not _verif.ENABLED:
        return

    def run(xlate, fn):
        buf, pend = [], {}
        _verif.set_sink(lambda ev, f: xlate(ev, f, buf, pend))
        try:
            try:
                return fn(), buf, None
            except Exception as e:   # noqa
                return None, buf, e
        finally:
            _verif.set_sink(None)

    def wrap(cls, handler):
        orig = cls.forward

        def forward(self, *a, **k):
            if _state["depth"] or k or len(a) != 1:
                return orig(self, *a, **k)
            _state["depth"] += 1
            try:
                return handler(self, a[0], lambda: orig(self, a[0]))
            finally:
                _state["depth"] -= 1
        cls.forward = forward

    # ------------------------------------------------------------------ 1-D
    def h_fwd1(self, x, call):
        if not (torch.is_tensor(x) and x.dim() == 3) or self.h0.numel() != self.h1.numel():
            _skip("dwt1.fwd:args")
            return call()
        cfg = dict(api="fwd", mode=self.mode, N=int(x.shape[-1]), L=int(self.h0.numel()), J=int(self.J), none=[])
        res, buf, err = run(hookmap.dwt1, call)
        ev = [{"ev": "reset"}, dict(cfg, ev="call")] + buf
        if err is None:
            ev.append({"ev": "ret", "outcome": "ok", "lens": [int(y.shape[-1]) for y in res[1]], "outlen": 0})
        else:
            ev.append({"ev": "ret", "outcome": "raise", "lens": [], "outlen": 0})
        _emit("DWT1DForward", cfg, ev)
        if err is not None:
            raise err
        return res

    def h_inv1(self, coeffs, call):
        try:
            yl, yh = coeffs
            lens = [None if h is None else int(h.shape[-1]) for h in yh]
            L, J = int(self.g0.numel()), len(yh)
            N = _infer_len(lens, int(yl.shape[-1]), L, self.mode, J) if J else None
        except Exception:   # noqa
            N = None
        if N is None or self.g0.numel() != self.g1.numel():
            _skip("dwt1.inv:not forward-compatible")
            return call()
        none = [j + 1 for j, h in enumerate(yh) if h is None]
        cfg = dict(api="inv", mode=self.mode, N=N, L=L, J=J, none=none)
        res, buf, err = run(hookmap.dwt1, call)
        ev = [{"ev": "reset"}, dict(cfg, ev="call")] + buf
        ev.append({"ev": "ret", "outcome": "ok" if err is None else "raise", "lens": [], "outlen": int(res.shape[-1]) if err is None else 0})
        _emit("DWT1DInverse", cfg, ev)
        if err is not None:
            raise err
        return res

    # ------------------------------------------------------------------ 2-D
    def dts(t):
        return "f64" if t.dtype == torch.float64 else "f32"

    def h_fwd2(self, x, call):
        ok = torch.is_tensor(x) and x.dim() == 4 and x.dtype in (torch.float32, torch.float64) and \
            self.h0_col.numel() == self.h1_col.numel() and self.h0_row.numel() == self.h1_row.numel()
        if not ok:
            _skip("dwt2.fwd:args")
            return call()
        cfg = dict(api="fwd", mode=self.mode, H=int(x.shape[-2]), W=int(x.shape[-1]), Lc=int(self.h0_col.numel()),
                   Lr=int(self.h0_row.numel()), J=int(self.J), none=[], dtype=dts(x))
        res, buf, err = run(hookmap.dwt2, call)
        ev = [{"ev": "reset"}, dict(cfg, ev="call")] + buf
        if err is None:
            ev.append({"ev": "ret", "api": "fwd", "outcome": "ok", "lensH": [int(y.shape[-2]) for y in res[1]],
                       "lensW": [int(y.shape[-1]) for y in res[1]], "outH": 0, "outW": 0})
        else:
            ev.append({"ev": "ret", "api": "fwd", "outcome": "raise", "lensH": [], "lensW": [], "outH": 0, "outW": 0})
        _emit("DWTForward", cfg, ev)
        if err is not None:
            raise err
        return res

    def h_inv2(self, coeffs, call):
        H = W = None
        try:
            yl, yh = coeffs
            J = len(yh)
            Lc, Lr = int(self.g0_col.numel()), int(self.g0_row.numel())
            if J and yl.dtype in (torch.float32, torch.float64):
                H = _infer_len([None if h is None else int(h.shape[-2]) for h in yh], int(yl.shape[-2]), Lc, self.mode, J)
                W = _infer_len([None if h is None else int(h.shape[-1]) for h in yh], int(yl.shape[-1]), Lr, self.mode, J)
        except Exception:   # noqa
            pass
        if H is None or W is None or self.g0_col.numel() != self.g1_col.numel() or self.g0_row.numel() != self.g1_row.numel():
            _skip("dwt2.inv:not forward-compatible")
            return call()
        none = [j + 1 for j, h in enumerate(yh) if h is None]
        cfg = dict(api="inv", mode=self.mode, H=H, W=W, Lc=Lc, Lr=Lr, J=J, none=none, dtype=dts(yl))
        res, buf, err = run(hookmap.dwt2, call)
        ev = [{"ev": "reset"}, dict(cfg, ev="call")] + buf
        ev.append({"ev": "ret", "api": "inv", "outcome": "ok" if err is None else "raise", "lensH": [], "lensW": [],
                   "outH": int(res.shape[-2]) if err is None else 0, "outW": int(res.shape[-1]) if err is None else 0})
        _emit("DWTInverse", cfg, ev)
        if err is not None:
            raise err
        return res

    # ---------------------------------------------------------------- DTCWT
    def spatial(h, o_dim, ri_dim):
        keep = [d for d in range(6) if d not in (o_dim % 6, ri_dim % 6)]
        return [int(h.shape[keep[2]]), int(h.shape[keep[3]])]

    def h_fwdd(self, x, call):
        ok = torch.is_tensor(x) and x.dim() == 4 and not any(self.skip_hps) and not any(self.include_scale) and \
            self.mode == "symmetric" and int(self.J) >= 1
        if not ok:
            _skip("dtcwt.fwd:options")
            return call()
        cfg = dict(api="fwd", H=int(x.shape[-2]), W=int(x.shape[-1]), J=int(self.J), absent=[], absLow=False, kind="none")
        res, buf, err = run(hookmap.dtcwt, call)
        if err is not None:
            raise err            # the pyramid machine has no raising forward: leave such calls to the suite's own verdict
        yl, yh = res
        ev = [{"ev": "reset"}, dict(cfg, ev="call")] + buf
        ev.append({"ev": "ret", "api": "fwd", "outcome": "ok", "lo_r": int(yl.shape[-2]), "lo_c": int(yl.shape[-1]),
                   "hi": [spatial(h, self.o_dim, self.ri_dim) for h in yh], "out_r": 0, "out_c": 0})
        _emit("DTCWTForward", cfg, ev)
        return res

    gate = {}

    def h_invd(self, coeffs, call):
        cfg = None
        try:
            yl, yh = coeffs
            J = len(yh)
            real = [h is not None and torch.is_tensor(h) and h.dim() == 6 for h in yh]
            if J >= 1 and torch.is_tensor(yl) and yl.dim() == 4 and all(real) and self.mode == "symmetric":
                r1, c1 = spatial(yh[0], self.o_dim, self.ri_dim)
                H, W = 2 * r1, 2 * c1
                # forward-compatibility gate: the shapes the (sink-less) forward produces for this size
                if (H, W, J) not in gate:
                    _state["depth"] += 1
                    try:
                        with torch.no_grad():
                            pl, ph = pw.DTCWTForward(J=J)(torch.zeros(1, 1, H, W))
                        gate[(H, W, J)] = ([int(pl.shape[-2]), int(pl.shape[-1])], [[int(p.shape[3]), int(p.shape[4])] for p in ph])
                    finally:
                        _state["depth"] -= 1
                glo, ghi = gate[(H, W, J)]
                if glo == [int(yl.shape[-2]), int(yl.shape[-1])] and \
                        all(g == spatial(h, self.o_dim, self.ri_dim) for g, h in zip(ghi, yh)):
                    cfg = dict(api="inv", H=H, W=W, J=J, absent=[], absLow=False, kind="none")
        except Exception:   # noqa
            cfg = None
        if cfg is None:
            _skip("dtcwt.inv:not forward-compatible or absent levels")
            return call()
        res, buf, err = run(hookmap.dtcwt, call)
        ev = [{"ev": "reset"}, dict(cfg, ev="call")] + buf
        ev.append({"ev": "ret", "api": "inv", "outcome": "ok" if err is None else "raise", "out_r": int(res.shape[-2]) if err is None else 0,
                   "out_c": int(res.shape[-1]) if err is None else 0, "lo_r": 0, "lo_c": 0, "hi": []})
        _emit("DTCWTInverse", cfg, ev)
        if err is not None:
            raise err
        return res

    wrap(pw.DWT1DForward, h_fwd1)
    wrap(pw.DWT1DInverse, h_inv1)
    wrap(pw.DWTForward, h_fwd2)
    wrap(pw.DWTInverse, h_inv2)
    wrap(pw.DTCWTForward, h_fwdd)
    wrap(pw.DTCWTInverse, h_invd)


def pytest_configure(config):
    if OUT:
        _state["fh"] = open(OUT, "w")
        install()


def pytest_unconfigure(config):
    if _state["fh"]:
        _state["fh"].write(json.dumps({"api": "__summary__", "recorded": _state["recorded"], "skipped": _state["skipped"]}) + "\n")
        _state["fh"].close()
        _state["fh"] = None
