"""Conformance harness binding the TLA+ specifications in /verif/spec to pytorch_wavelets."""
