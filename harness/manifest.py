"""Generates /verif/MANIFEST.json from the registry below (python -m harness.manifest)."""
import json
import os

from .common import VERIF

GUARD = "PYTORCH_WAVELETS_VERIF"

CLAIMED = {
    "C01": dict(
        text="TLC checks exhaustively, for every (mode, N, L, J) in the bounds, that the stage-by-stage model of "
             "afb1d/DWT1DForward equals the PyWavelets definition as symbolic operators (= for all inputs and all "
             "filters of that length) and that the level loop yields pywt.wavedec's shapes; every enumerated "
             "configuration is replayed into the real DWT1DForward/DWTForward with indicator/integer taps and compared "
             "exactly with the operator TLC printed; recorded operators for real wavelets are validated by a TLC trace spec.",
        note="Bounded (sizes/filter lengths in coverage.tlc_runs); float arithmetic exact on integer probes; "
             "linearity of the probed executions is established by C07's op-level acceptor; pywt pins Ref.",
        technique="TLA+ symbolic-operator model (Impl = Ref) checked by TLC + spec->code operator replay + code->spec trace validation",
        design="9/C01"),
}

NOT_YET = "not yet built at this commit (work in progress; see DESIGN.md section 14 for the build order)"


def build():
    props = [json.loads(l) for l in open(os.path.join(VERIF, "properties.jsonl"))]
    checks = []
    na = []
    for p in props:
        pid = p["id"]
        if pid in CLAIMED:
            c = CLAIMED[pid]
            checks.append({
                "property_id": pid,
                "quick_cmd": "./check %s --tier quick" % pid,
                "thorough_cmd": "./check %s --tier thorough" % pid,
                "evidence_file": "evidence/%s.json" % pid,
                "replay_cmd_template": "./check %s --replay {path}" % pid,
                "engine": "tlc+harness",
                "level_claimed": {"category": c.get("level", "model_checking"), "text": c["text"],
                                  "design_ref": "DESIGN.md section " + c["design"]},
                "level_note": c["note"],
                "technique": c["technique"],
            })
        else:
            na.append({"property_id": pid, "reason": NOT_YET})
    hooks_commits = []
    hp = os.path.join(VERIF, "hooks_commits.txt")
    if os.path.exists(hp):
        hooks_commits = [l.split()[0] for l in open(hp) if l.strip()]
    m = {
        "version": 1,
        "setup_cmd": "./check setup",
        "hooks": {
            "guard": GUARD,
            "enable": "environment variable %s=1 (set by ./check); pytorch_wavelets/_verif.py is a no-op otherwise; "
                      "pytorch_wavelets is an editable install, so checks always run /repo's working tree" % GUARD,
            "baseline_off_cmd": "cd /repo && env -u %s /venv/bin/python -m pytest -ra -q -p no:cacheprovider "
                                "--timeout=900 --continue-on-collection-errors" % GUARD,
            "source_commits": hooks_commits,
            "add_only": True,
        },
        "engines": [
            {"name": "tlc+harness", "path": "check",
             "serves_properties": sorted(CLAIMED),
             "kind_free_text": "TLA+ specifications in spec/ model-checked by TLC (sharded JVMs), bound to the code by "
                               "spec->code replay and code->spec trace validation (harness/)"},
        ],
        "checks": checks,
        "not_applicable": na,
        "notes": "Exit codes: 0 held / 1 VIOLATION / 2 machinery failure. known_findings.json lists recorded defects.",
    }
    with open(os.path.join(VERIF, "MANIFEST.json"), "w") as f:
        json.dump(m, f, indent=1)
    return m


if __name__ == "__main__":
    m = build()
    print("claimed:", [c["property_id"] for c in m["checks"]])
