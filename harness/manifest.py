"""Generates /verif/MANIFEST.json from the registry below (python -m harness.manifest)."""
import json
import os

from .common import VERIF

GUARD = "PYTORCH_WAVELETS_VERIF"

CLAIMED = {
    "C01": dict(
        text="TLC checks exhaustively, for every (mode, N, L, J) in the bounds, that the stage-by-stage model of "
             "afb1d/DWT1DForward equals the PyWavelets definition as symbolic operators (= for all inputs and all "
             "filters of that length) and that the level loop yields pywt.wavedec's shapes; every enumerated "
             "configuration is replayed into the real DWT1DForward/DWTForward with indicator/integer taps and compared "
             "exactly with the operator TLC printed; recorded operators for real wavelets are validated by a TLC trace spec.",
        note="Bounded (sizes/filter lengths in coverage.tlc_runs); float arithmetic exact on integer probes; "
             "linearity of the probed executions is established by C07's op-level acceptor; pywt pins Ref.",
        technique="TLA+ symbolic-operator model (Impl = Ref) checked by TLC + spec->code operator replay + code->spec trace validation",
        design="9/C01"),
    "C02": dict(
        text="TLC proves, for every (mode, N, L) in the bounds, that synthesis o analysis - of the PyWavelets definition and "
             "of the stage model of the code - is formally perfect-reconstructing (class-complete tap-pair operator, "
             "spec/DWT1Laws.tla): identity on the signal's extent for every PR filter bank of that length; the call "
             "machines give N or N+1 output samples. The real modules are then driven through exact integer round trips "
             "(dyadic biorthogonal banks, all modes/sizes/J, 1-D and 2-D) and numeric round trips for real wavelets with a "
             "bound derived from the filters' gains and the measured PR residual of the table (dmey: PyWavelets' own error).",
        note="Formal PR within the PR bounds of the model; the tap-value premise is numeric, checked per wavelet.",
        technique="TLA+ formal-PR law over symbolic tap-pair operators (TLC) + exact integer and numeric round-trip replay",
        design="9/C02"),
    "C05": dict(
        text="TLC checks that the stage models of the hand-written backward passes equal the transposes of the forward "
             "stage models as symbolic operators for every (mode, N, L), and that for every subset of leaves requiring "
             "grad every such leaf receives a gradient (call machines, AFB2D crop logic). Real VJP operators (identity "
             "cotangent batches through torch.autograd.grad) are compared exactly with the transpose of the forward "
             "operator extracted from the same module: one level (indicator taps), multi-level and 2-D (integer taps), "
             "all 2^(J+1)-1 subsets. Deviations that equal the spec's model of the coded backward in the listed regions "
             "are reported as KNOWN-FINDING (F2, F3); anything else is a violation.",
        note="Linearity (C07) turns 'all cotangents and inputs' into one operator; bounded sizes; CPU only.",
        technique="TLA+ adjointness law (Backward = Transpose(Forward)) + grad-subset state machine (TLC) + exact VJP operator replay",
        design="9/C05"),
    "C08": dict(
        text="spec/Scat.tla models the bookkeeping around the pointwise smooth modulus: size extension (odd -> replicate; second "
             "order: to a multiple of 8 by slicing), documented output sizes, and the channel arithmetic of cat + view for the "
             "7C / 49C layouts against the declarative band-major path table (49 paths cover 0..48) for every size and channel "
             "count in the bounds (TLC). Both layers are compared numerically with the composition of the reference "
             "dtcwt.Transform2d and the formulas for 5 filter families incl. band-pass variants, biases {0,1e-3,1e-2,1}, colour "
             "on/off, 6 input kinds (values on even / multiple-of-8 sizes); every H in 2..19 x W in {2,3,8,13}: documented "
             "shape, non-negative magnitudes, no raise (KNOWN-FINDING F10: 2-row/2-column inputs of ScatLayerj2).",
        note="The linear DTCWT levels are C03's obligation; non-negativity is structural (sqrt(.+b^2)-b).",
        technique="TLA+ model of extension/channel bookkeeping (TLC) + numeric replay against the reference DTCWT composition",
        design="9/C08"),
    "C09": dict(
        text="spec/Scat.tla: the slices splitting the cotangent hit exactly the paths the forward concatenated, the view "
             "arithmetic inverts the forward's, and 1/4 * nearest up-sampling is the transpose of avg_pool2d(2) (TLC); the "
             "linear inverse levels used by the backward are C06's adjoint laws. VJPs of both layers (3 families incl. "
             "band-pass, colour on/off, odd and non-multiple-of-8 sizes) are compared with central finite differences in "
             "float64 along random and basis directions at generic points, the all-zero image and huge inputs; finiteness "
             "at zero / tiny / huge inputs; the stand-alone SmoothMagFn for every grad subset.",
        note="Finite differences (float64, relative tolerance 1e-5) decide the numeric clause; magbias > 0 as the property requires.",
        technique="TLA+ model of the backward bookkeeping (TLC) + finite-difference replay of the real VJPs",
        design="9/C09"),
    "C10": dict(
        text="TLC checks the stage model of sfb1d against pywt.idwt on free coefficient vectors for every forward-"
             "compatible length, and the inverse call machines (unpad rule, None -> zeros incl. dtype; never raises, "
             "covers the signal's extent). Identity batches over every coefficient of the pyramid are pushed through "
             "DWT1DInverse/DWTInverse with integer taps and compared exactly with the composed Ref operators; None "
             "levels are compared on the signal's extent under both readings of 'zeros'; random (non-image) pyramids "
             "with real wavelets are compared with pywt.waverec/waverec2.",
        note="Bounded sizes; pywt.idwt pins Ref; two readings of None are admitted where PyWavelets itself is ambiguous.",
        technique="TLA+ symbolic-operator model (Impl = Ref) + inverse call state machine (TLC) + spec->code pyramid replay",
        design="9/C10"),
    "C17": dict(
        text="TLC proves in the admissible region that the Gram operator of the analysis model is diagonal-uniform with "
             "the zero-lag class on the diagonal only (formal orthogonality for every orthonormal pair), that synthesis "
             "is the reversed-tap transpose and that the backward is the transpose. The real one-level operators are "
             "checked exactly against these structures and, for every orthogonal PyWavelets wavelet, T T^T, T^T T, "
             "inverse = T^T, backward = inverse, energy and inner products are checked numerically (1-D J<=3, 2-D).",
        note="The orthonormality premise of the taps is checked numerically per wavelet; bounds in coverage.",
        technique="TLA+ formal orthogonality law over symbolic Gram operators (TLC) + exact and numeric operator replay",
        design="9/C17"),
    "C03": dict(
        text="TLC checks that the torch arrangement of colfilter/coldfilt/colifilt (tree stacking, strided correlation with "
             "flipped filters, stack().view interleave, highpass flag) equals the NumPy reference (polyphase picks, polarity "
             "rule) as symbolic operators for every row count and filter length, and that band wiring, quad->complex "
             "combination, orientation order and the pyramid machine (odd-size replication, extension to a multiple of 4) "
             "equal the reference pyramid. DTCWTForward is replayed on identity image batches with random integer filter "
             "sets for every size in the bounds and compared exactly, plane by plane, with operators assembled from TLC's Ref "
             "pieces (dtcwt.Transform2d pins the assembly); the real 1-D routines against TLC's entries; named filter pairs numerically.",
        note="Polarity premise of the flag-for-data-test replacement is an identity of the tables (C18); bounded sizes.",
        technique="TLA+ symbolic-operator model (torch = NumPy reference) + pyramid state machine (TLC) + exact operator replay",
        design="9/C03"),
    "C04": dict(
        text="TLC proves exact integer perfect reconstruction of the 1-D analysis/synthesis stage models on rational filter "
             "instances (LeGall for level 1; an orthonormal 4-tap lattice filter at every even offset of every q-shift "
             "length, every row count in the bounds), c2q o q2c = identity, and on the pyramid machine that the inverse crops "
             "exactly when the forward extended. The same instances are run through the real DTCWTForward/DTCWTInverse on "
             "identity batches (odd sizes must come back even-extended with the image top-left); all 20 named pairs numerically.",
        note="PR of the shipped tables' values is C18's obligation; here the index bookkeeping is exact.",
        technique="TLA+ exact-integer PR law on rational filter instances (TLC) + round-trip replay through the real modules",
        design="9/C04"),
    "C06": dict(
        text="TLC proves, under the table identities the gradients rely on (symmetric level-1 filters, tree b = reverse of "
             "tree a), Transpose(colfilter) = colfilter and Transpose(coldfilt(x,hb,ha)) = colifilt(y,ha,hb) for every row "
             "count/length/polarity, that c2q is the transpose of q2c, and the needs_input_grad case split. With integer "
             "filter sets satisfying those identities the VJP matrices of the real DTCWTForward (layouts, skip masks, "
             "requested lowpasses) and DTCWTInverse (every subset of leaves) are compared exactly with the transposed forward "
             "matrix of the same module; named pairs numerically.",
        note="User-supplied filters violating the identities are outside the property; bounded sizes.",
        technique="TLA+ adjointness law under table identities (TLC) + exact VJP operator replay for all grad subsets",
        design="9/C06"),
    "C11": dict(
        text="TLC checks colifilt/colfilter (torch = reference), c2q, the inverse band wiring and the inverse pyramid machine "
             "including absent lowpass / levels (None, empty tensor, 0-dim placeholder) against zeros of the right shape. "
             "DTCWTInverse is replayed on the basis of the WHOLE pyramid (every coefficient of every band) with random "
             "integer filter sets for every size/J/absence mask in the bounds and compared exactly with the reference inverse "
             "assembled from TLC's Ref pieces; deviations that equal the model of the coded pipeline in the inherent "
             "'extension lost' region are reported as KNOWN-FINDING F6c; random pyramids for named pairs vs dtcwt.Transform2d.inverse.",
        note="A pyramid whose lowpass and coarsest level are both absent has no shape: outside the property; bounded sizes.",
        technique="TLA+ symbolic-operator model + inverse pyramid/absence state machine (TLC) + exact whole-pyramid operator replay",
        design="9/C11"),
    "C12": dict(
        text="TLC checks the layout produced by the two stack() calls and the (h_dim, w_dim) tables of get_dimensions5/6 "
             "against the declarative axis-permutation meaning for all 120 (o_dim, ri_dim) pairs (30 layouts + negative "
             "aliases), and prefix consistency on the pyramid machine. On real tensors: all 120 pairs (subbands bitwise equal "
             "to the permuted default; inverse with the same pair reconstructs), every skip and include mask (bitwise), every prefix.",
        note="Values compared bitwise with the default-layout run of the same input.",
        technique="TLA+ transcription of the layout case tables vs declarative permutation (TLC, all 120 pairs) + bitwise replay",
        design="9/C12"),
    "C07": dict(
        text="An op-level acceptor (spec/LinearProg.tla) admits an aten operator only if it is linear and homogeneous in "
             "its input-dependent operands for fixed constants and never lets an input-dependent value steer indexing or "
             "Python control flow; TLC proves the rules sound over an abstract value semantics for all operator programs "
             "up to the bound (LinearProgSound) and checks the channel arithmetic of the grouped convolutions. Every DWT / "
             "SWT / DTCWT forward, inverse and backward pass is executed under a TorchDispatchMode tracer and the TLC trace "
             "specification Trace_LinearProg, which infers storage classes from the data flow, must accept every event "
             "(negative controls - scattering modulus, affine shift, data-dependent branch/index, bilinear product - must be "
             "rejected). Per-slice operators on identity batches are compared with full (N, C) calls; superposition probes.",
        note="Linearity is established per recorded execution shape; the operator-name -> category table of the tracer is trusted.",
        technique="TLA+ op-level linearity acceptor with TLC-checked soundness + code->spec validation of aten execution traces",
        design="9/C07"),
    "C15": dict(
        text="spec/Session.tla models what outlives a call (default dtype, COEFF_CACHE keys, module buffers, version counters of "
             "arguments/buffers/cached tables) and splits calls into stages at the library's hook points; TLC checks the action "
             "property NoForeignWrite and the invariant Deterministic over all interleavings (exhaustively to depth 6, by "
             "simulation beyond) and that a negative model with a memoised helper violates Deterministic. TLC-generated "
             "behaviours are replayed into the real library under a deterministic scheduler that preempts worker threads only "
             "at hook points, so the chosen interleaving is the one that runs: arguments, buffers and cached tables are "
             "fingerprinted bitwise, every result is compared with the same call made in a fresh process, earlier results are "
             "re-fingerprinted at the end; plus an 8-thread free-running stress probe.",
        note="Preemption only at hook points; pool of 6 module configurations x 3 argument variants x 2 dtypes x grad on/off.",
        technique="TLA+ session state machine (TLC exhaustive + simulation) + deterministic-scheduler replay of generated behaviours",
        design="9/C15"),
    "C16": dict(
        text="The Session model carries the dtype lattice (Construct reads the default dtype, To converts buffers, temporaries take "
             "the input dtype); TLC checks OutDtype and that results depend on the current buffer dtype only; behaviours rich "
             "in conversions are replayed (dtype of every output; converted vs constructed modules). Numerically: "
             "max|y32-y64| <= 64*eps32*(gain*max|x|+bias) with the exact gain (largest absolute row sum) of the float64 "
             "operator extracted from the real module, on gaussian / 8-decade dynamic range / cancellation / alternating / "
             "1e6-scaled inputs for DWT, SWT, DTCWT and both scattering layers; strided, sliced, channels-last and expanded "
             "inputs against contiguous copies; None paths keep the dtype.",
        note="The float32 accuracy clause is numeric (TLC has no reals); its bound is derived from the extracted operator.",
        technique="TLA+ session/dtype state machine (TLC) + replay of conversion behaviours + operator-derived float32 error bound",
        design="9/C16"),
    "C13": dict(
        text="TLC checks the a-trous stage model (periodic index padding, dilated correlation with the flipped filter) "
             "against swt's definition for every (N, L, dilation), full resolution, circular shift-equivariance as an "
             "operator identity, and the SWTForward level loop (mode reaching the padding routine, (N,C,4,H,W) "
             "regrouping, LL feeding the next level). The real afb1d_atrous operators (indicator taps) and SWTForward on "
             "identity image batches (integer taps, J<=3, default and 'periodic' mode) are compared exactly with TLC's Ref "
             "operators; shift equivariance is checked exactly on integer data; real wavelets against pywt.swt2.",
        note="Sizes are multiples of 2^J as pywt.swt2 requires; bounded sizes and dilations.",
        technique="TLA+ symbolic-operator model (Impl = Ref, shift law) + level-loop state machine (TLC) + exact operator replay",
        design="9/C13"),
    "C14": dict(
        text="TLC checks the wiring model: user 4-tuple -> module buffers -> positional arguments of AFB2D/SFB2D.apply -> "
             "the dim each afb1d/sfb1d call filters along (SlotsOK), the functional API's wiring, the channel arithmetic "
             "and band order, and pywt's per-axis shapes with unequal filter lengths. 4-tuples of distinct integer filters "
             "of unequal lengths are pushed through DWTForward/DWTInverse and afb2d/sfb2d and compared exactly with "
             "kron(column operator on the vertical axis, row operator on the horizontal axis) of the Ref operators; ordered "
             "pairs of real wavelets against pywt with one wavelet per axis.",
        note="Bounded sizes; the per-axis operators are those of C01/C10.",
        technique="TLA+ wiring model of filter-to-axis assignment (TLC) + exact Kronecker operator replay",
        design="9/C14"),
    "C18": dict(
        text="At check time every float64 tap of every shipped table and of the reference dtcwt package is converted to an "
             "exact integer (tap * 2^70, base-2^11 limbs) and written as a TLA+ module; TLC evaluates in exact integer "
             "arithmetic: equality with the reference table, tree b = reverse(tree a), g = reverse(h) (band-pass variants "
             "too), exact symmetry (legall, near_sym_a/b) or within 2^-40 (antonini, h2o/g2o), level-1 biorthogonal PR and "
             "q-shift orthonormality / cross-orthogonality within 2^-24, polarity signs, and a loader state machine. The "
             "finite set of 12 names is enumerated completely. The real loaders are called twice per name and fingerprinted "
             "against the arrays TLC was given; hook events give the cache hit/miss discipline.",
        note="Reference = the installed dtcwt 0.14 package; float->integer conversion via fractions.Fraction is exact.",
        technique="TLA+ exact-integer (limb arithmetic) evaluation of table identities by TLC, exhaustive over the finite name set",
        design="9/C18"),
    "C19": dict(
        text="TLC checks that the per-axis pipeline transcribed from afb2d_nonsep/sfb2d_nonsep equals the separable stage "
             "model for every (mode, N, L), that the joint pre-padding test equals independent per-axis padding, same raise "
             "conditions, same band order and channel arithmetic. The real afb2d_nonsep vs afb2d and sfb2d_nonsep vs sfb2d "
             "are compared on identity batches with integer filters (2- and 4-filter forms, unequal lengths, four modes, "
             "all residue pairs of sizes in the bounds) with torch.equal; both must raise together.",
        note="Linearity (C07) lifts the identity batch to all inputs; bounded sizes.",
        technique="TLA+ per-axis operator equality (TLC) + exact differential replay nonsep vs separable",
        design="9/C19"),
}

# layers added in the second session (appended to the claims above)
LARGE = " The oracle comparison is repeated on inputs one to two orders of magnitude larger than the models' (size thresholds)."
EXTRA = {
    "C01": " The hook events of every distinct DWT1DForward / DWTForward call the repository's own tests make are validated by the "
           "stage-level trace specifications; MC_Helpers (mypad, roll, mode tables, prep_filt_*, symm_pad as total functions) is "
           "replayed into the helpers as a diagnostic layer." + LARGE,
    "C02": LARGE, "C03": LARGE, "C04": LARGE, "C05": " Dot-product test on large inputs in the exact modes.", "C06": " Dot-product test on large inputs.",
    "C08": " Wide inputs (17..147 channels, batch 5) and large images are compared channel by channel.",
    "C09": " Finite differences are Richardson-extrapolated; wide / deep batches; the thorough tier sweeps all families x colour x bias x sizes.",
    "C10": " The calls of the repository's own tests are validated by the trace specifications." + LARGE,
    "C11": LARGE,
    "C12": " The mask machine of DTCWT2 (skip_hps and include_scale as per-level sets, jointly) is enumerated by TLC and replayed.",
    "C13": " Separate column / row filters (4-tuples of different lengths, pairs of wavelets against pywt.swt2)." + LARGE,
    "C14": LARGE,
    "C15": " Two exhaustive slices complement the sampled histories: every two-call sequence over the pool (history dependence on "
           "colliding configurations / nearby sizes) and every single preemption of a call, before each of its torch-level "
           "operations, by a complete call of another thread (races inside one stage).",
    "C16": " spec/Ctor.tla (owned tensors, dtype, .to(), load_state_dict for all nine modules and every filter-argument form) is "
           "replayed into the real constructors as a diagnostic layer.",
    "C17": LARGE,
    "C18": " Results of earlier loads are re-fingerprinted after all later loads (HeldStable; negative model SharedBuf).",
    "C19": LARGE,
}

# layers added in the third session
WIDE = " Wide inputs (67 / 131 / 259 channels) are part of every numeric layer."
TLAPS = " In the thorough tier the scalar index layer of this family is additionally PROVED for all sizes with TLAPS (spec/*Proofs.tla); TLC binds the scalar forms to the operator tensors (ScalarFormOK / ColdScalarOK / IfiltScalarOK / SwtScalarForm)."
EXTRA3 = {
    "C01": WIDE + TLAPS + " The exact operator replay is repeated from float32 data (integer taps: float32 arithmetic is exact); the numeric modules have a past (calls in other precisions).",
    "C02": WIDE + " Round trips with a different wavelet per axis; TLAPS: RoundTripLen." ,
    "C03": WIDE + TLAPS + " The exact operator replay is repeated from float32 data.",
    "C04": WIDE,
    "C05": " Structured cotangents (one band / part / channel block, contrasts e_i - e_j, expanded and non-contiguous layouts) against the linearity of back-propagation in the cotangent; TLAPS: the tape invariant for any number of calls.",
    "C06": " Structured cotangents as in C05; TLAPS: the tape invariant.",
    "C07": " Channel c of all four maps (forward, inverse, both VJPs) with 67 / 131 channels against the map on channel c alone; component-wise superposition with each input tensor at its own scale (1e-3 .. 1e8).",
    "C08": " 67-channel inputs; TLAPS: size extensions and channel flattenings for all sizes / channel counts.",
    "C09": " Structured cotangents as in C05 (zero-mode layers included); TLAPS: the tape invariant.",
    "C10": WIDE + TLAPS + " Deep pyramids (J = 3..5) with None at interior / adjacent levels; modules with a past.",
    "C11": WIDE + TLAPS + " Pyramids with 1e5 .. 1e7 between their components; the exact operator replay is repeated from float32 pyramids.",
    "C13": WIDE + TLAPS,
    "C14": " None levels in the 4-tuple replay.",
    "C15": " TLAPS: Deterministic / OutDtype / NoForeignWrite of the Session machine for any number of threads, modules and any history length.",
    "C16": " A converted module holding the constructed module's state, one run under default float32, the other under float64: values and gradients agree to float64 rounding (the ambient default dtype must not matter); TLAPS as in C15.",
}
for _k, _v in EXTRA3.items():
    EXTRA[_k] = EXTRA.get(_k, "") + _v

NOT_YET = "not yet built at this commit (work in progress; see DESIGN.md section 14 for the build order)"


def build():
    props = [json.loads(l) for l in open(os.path.join(VERIF, "properties.jsonl"))]
    checks = []
    na = []
    for p in props:
        pid = p["id"]
        if pid in CLAIMED:
            c = CLAIMED[pid]
            checks.append({
                "property_id": pid,
                "quick_cmd": "./check %s --tier quick" % pid,
                "thorough_cmd": "./check %s --tier thorough" % pid,
                "evidence_file": "evidence/%s.json" % pid,
                "replay_cmd_template": "./check %s --replay {path}" % pid,
                "engine": "tlc+harness",
                "level_claimed": {"category": c.get("level", "model_checking"), "text": c["text"] + EXTRA.get(pid, ""),
                                  "design_ref": "DESIGN.md section " + c["design"]},
                "level_note": c["note"],
                "technique": c["technique"],
            })
        else:
            na.append({"property_id": pid, "reason": NOT_YET})
    hooks_commits = []
    hp = os.path.join(VERIF, "hooks_commits.txt")
    if os.path.exists(hp):
        hooks_commits = [l.split()[0] for l in open(hp) if l.strip()]
    m = {
        "version": 1,
        "setup_cmd": "./check setup",
        "hooks": {
            "guard": GUARD,
            "enable": "environment variable %s=1 (set by ./check); pytorch_wavelets/_verif.py is a no-op otherwise; "
                      "pytorch_wavelets is an editable install, so checks always run /repo's working tree" % GUARD,
            "baseline_off_cmd": "cd /repo && env -u %s /venv/bin/python -m pytest -ra -q -p no:cacheprovider "
                                "--timeout=900 --continue-on-collection-errors" % GUARD,
            "source_commits": hooks_commits,
            "add_only": True,
        },
        "engines": [
            {"name": "tlc+harness", "path": "check",
             "serves_properties": sorted(CLAIMED),
             "kind_free_text": "TLA+ specifications in spec/ model-checked by TLC (sharded JVMs), bound to the code by "
                               "spec->code replay and code->spec trace validation (harness/); Apalache lemmas (Apa_Shapes) and "
                               "TLAPS proofs (spec/*Proofs.tla, harness/proofs.py) lift the scalar index layer and the state "
                               "machines' invariants to all sizes in the thorough tier"},
        ],
        "checks": checks,
        "not_applicable": na,
        "notes": "Exit codes: 0 held / 1 VIOLATION / 2 machinery failure. known_findings.json lists recorded defects.",
    }
    with open(os.path.join(VERIF, "MANIFEST.json"), "w") as f:
        json.dump(m, f, indent=1)
    return m


if __name__ == "__main__":
    m = build()
    print("claimed:", [c["property_id"] for c in m["checks"]])
