"""C17 replays."""
import numpy as np
import torch

import pytorch_wavelets as pw

from . import dwtlib
from .dwtchecks import EPS64, adversarial_inputs
from .common import seed


def one_level_exact(rep, fnd, table, pid):
    dwtlib.f64()
    n_ok = 0
    for (mode, N, L) in table.keys():
        if mode != "periodization" or N % 2 or N < L:
            continue
        cfg = {"mode": mode, "N": N, "L": L}
        case = {"api": "DWT1D periodization", "check": "ortho_one_level", "cfg": cfg}
        A = dwtlib.extract_fwd1(mode, N, L)
        S = dwtlib.extract_inv1(mode, N // 2, L)
        rep.validated()
        if N < 2 * L:
            rep.nontriv(("ortho1", N, L))
        if isinstance(A, dwtlib.Raised) or isinstance(S, dwtlib.Raised):
            rep.violation("periodization transform raised in the admissible region at %s: %r %r" % (cfg, A, S), case)
            continue
        ref = table.a_ref(mode, N, L)
        flipT = np.transpose(ref, (2, 1, 0))[:, ::-1, :]       # S[q][i][k] = A[k][L-1-i][q]
        ok = (dwtlib.eq_int(A[0], ref) and dwtlib.eq_int(A[1], ref) and A[0].shape[0] * 2 == N
              and dwtlib.eq_int(S[0], flipT) and dwtlib.eq_int(S[1], flipT))
        # Gram structure of the REAL operator: A A^T entries depend only on the lag, zero lag on the diagonal only
        G = np.einsum("kjn,min->kmji", A[0], A[0])
        for k in range(G.shape[0]):
            for m in range(G.shape[1]):
                c = G[k, m]
                for d in range(-(L - 1), L):
                    diag = np.diagonal(c, offset=d)
                    if not np.all(diag == diag[0]) or (d % 2 == 1 and diag[0] != 0):
                        ok = False
                if c[0, 0] != (1 if k == m else 0):
                    ok = False
        if ok:
            n_ok += 1
            if n_ok == 1:
                rep.sample({"cfg": cfg, "observed": "A == Ref, S == reversed-tap transpose of A, Gram operator diagonal-uniform with zero lag on the diagonal"})
        else:
            rep.violation("periodization analysis/synthesis operators are not an orthogonal pair (formally) at %s" % (cfg,), case)
    rep.count("ortho_one_level_exact", n_ok)


def ortho_residual(w):
    h0, h1 = np.array(w.dec_lo), np.array(w.dec_hi)
    L = len(h0)
    worst = 0.0
    for t in range(0, L // 2):
        for a, b in ((h0, h0), (h1, h1), (h0, h1), (h1, h0)):
            s = float(np.dot(a[:L - 2 * t], b[2 * t:]))
            want = 1.0 if (t == 0 and a is b) else 0.0
            worst = max(worst, abs(s - want))
    worst = max(worst, np.abs(np.array(w.rec_lo) - h0[::-1]).max(), np.abs(np.array(w.rec_hi) - h1[::-1]).max())
    return worst


def numeric(rep, fnd, pid, tier):
    import pywt
    dwtlib.f64()
    rng = np.random.default_rng(15000 + seed())
    names = [n for n in pywt.wavelist(kind="discrete") if pywt.Wavelet(n).orthogonal and n != "dmey"]
    if tier == "quick":
        names = ["haar", "db2", "db3", "db6", "db10", "sym2", "sym5", "sym9", "coif1", "coif2", "coif4"]
    n = 0
    worst = 0.0
    for name in names:
        w = pywt.Wavelet(name)
        L = w.dec_len
        res = ortho_residual(w)
        worst = max(worst, res)
        G = max(np.abs(w.dec_lo).sum(), np.abs(w.dec_hi).sum())
        for J in (1, 2, 3):
            base = -(-L // 2) * 2              # smallest even length >= L for the coarsest level
            mult = int(rng.integers(0, 3))
            N = (base + 2 * mult) * 2 ** (J - 1)
            cfg = dict(wavelet=name, N=N, J=J, L=L)
            # forward and inverse built from DIFFERENT forms of the same wavelet (name, Wavelet object, custom Wavelet, tuples)
            kf = names.index(name) + J
            fw = pw.DWT1DForward(J=J, wave=dwtlib.wave_form(name, kf)[0], mode="per" if kf % 2 else "periodization")
            iv = pw.DWT1DInverse(wave=dwtlib.wave_form(name, kf + 2, synthesis=True)[0], mode="periodization")
            cfg["forms"] = [dwtlib.wave_form(name, kf)[1], dwtlib.wave_form(name, kf + 2, synthesis=True)[1]]
            X = torch.eye(N).reshape(N, 1, N)
            yl, yh = fw(X)
            T = np.concatenate([yl[:, 0].numpy().T] + [y[:, 0].numpy().T for y in yh], axis=0)    # [N x N]
            tol = 64 * EPS64 * L * J * G ** (2 * J) + 8 * J * L * res * G ** (2 * J)
            n += 1
            rep.nontriv(("ortho_num1", name, N, J))
            if T.shape != (N, N):
                rep.violation("J-level periodization DWT is not square at %s: %s" % (cfg, T.shape), {"api": "DWT1DForward", "check": "ortho_num", "cfg": cfg})
                continue
            e1 = np.abs(T @ T.T - np.eye(N)).max()
            e2 = np.abs(T.T @ T - np.eye(N)).max()
            # inverse == transpose: apply the inverse to each coefficient basis vector
            lens = [y.shape[-1] for y in yh]
            tot = N
            off = 0
            pyl = torch.zeros(tot, 1, yl.shape[-1])
            pyl[off:off + yl.shape[-1], 0] = torch.eye(yl.shape[-1])
            off += yl.shape[-1]
            pyh = []
            for m in lens:
                t = torch.zeros(tot, 1, m)
                t[off:off + m, 0] = torch.eye(m)
                off += m
                pyh.append(t)
            Sm = iv((pyl, pyh))[:, 0].numpy().T                        # [N x N]
            e3 = np.abs(Sm - T.T).max()
            # back-propagating a cotangent == applying the inverse to it
            x = torch.zeros(N, 1, N, requires_grad=True)
            yl2, yh2 = fw(x)
            tot_out = 0
            off = 0
            for o in [yl2] + list(yh2):
                m = o.shape[-1]
                cot = torch.zeros(N, 1, m)
                cot[off:off + m, 0] = torch.eye(m)
                tot_out = tot_out + (o * cot).sum()
                off += m
            g, = torch.autograd.grad(tot_out, x)
            e4 = np.abs(g[:, 0].numpy().T - Sm).max()
            # energy / inner products on adversarial inputs
            e5 = 0.0
            for xin in adversarial_inputs(rng, (2, 1, N))[:3]:
                a, b = xin[0:1], xin[1:2]
                ya = fw(torch.tensor(a))
                yb = fw(torch.tensor(b))
                fa = np.concatenate([ya[0].numpy().ravel()] + [t.numpy().ravel() for t in ya[1]])
                fb = np.concatenate([yb[0].numpy().ravel()] + [t.numpy().ravel() for t in yb[1]])
                scale = max(np.abs(a).max(), np.abs(b).max(), 1e-300) ** 2 * N
                e5 = max(e5, abs(fa @ fa - (a.ravel() @ a.ravel())) / scale, abs(fa @ fb - (a.ravel() @ b.ravel())) / scale)
            err = max(e1, e2, e3, e4, e5)
            if not err <= tol:
                rep.violation("orthogonality violated at %s: |TT^T-I|=%.2g |T^TT-I|=%.2g |inverse-T^T|=%.2g |backward-inverse|=%.2g energy=%.2g (bound %.2g)"
                              % (cfg, e1, e2, e3, e4, e5, tol), {"api": "DWT1D periodization", "check": "ortho_num", "cfg": cfg})
            elif n == 1:
                rep.sample({"cfg": cfg, "errors": [e1, e2, e3, e4, e5], "bound": tol})
        # 2-D
        J = int(rng.integers(1, 3))
        base = -(-L // 2) * 2
        H, W = base * 2 ** (J - 1), (base + 2) * 2 ** (J - 1)
        if H * W <= 4096:
            cfg = dict(wavelet=name, H=H, W=W, J=J, L=L)
            kf = names.index(name) + 1
            fw = pw.DWTForward(J=J, wave=dwtlib.wave_form(name, kf)[0], mode="periodization")
            iv = pw.DWTInverse(wave=dwtlib.wave_form(name, kf + 3, synthesis=True)[0], mode="per" if kf % 2 else "periodization")
            cfg["forms"] = [dwtlib.wave_form(name, kf)[1], dwtlib.wave_form(name, kf + 3, synthesis=True)[1]]
            tol = 64 * EPS64 * L * L * J * G ** (4 * J) + 16 * J * L * L * res * G ** (4 * J)
            xa = rng.standard_normal((3, 2, H, W))
            try:
                yl, yh = fw(torch.tensor(xa))
                en = (yl.numpy() ** 2).sum() + sum((t.numpy() ** 2).sum() for t in yh)
                e1 = abs(en - (xa ** 2).sum()) / (xa ** 2).sum()
                # <T x, c> == <x, T^-1 c>  for a random coefficient pyramid c  (inverse is the transpose)
                cl = torch.tensor(rng.standard_normal(tuple(yl.shape)))
                chh = [torch.tensor(rng.standard_normal(tuple(t.shape))) for t in yh]
                lhs = float((yl * cl).sum() + sum((a * b).sum() for a, b in zip(yh, chh)))
                xi = iv((cl, chh))
                if tuple(xi.shape) != tuple(xa.shape):
                    raise ValueError("the inverse of a pyramid with the forward's shapes has shape %s, the input had %s" % (tuple(xi.shape), xa.shape))
                rhs = float((torch.tensor(xa) * xi).sum())
                e2 = abs(lhs - rhs) / max(abs(lhs), 1.0)
                xg = torch.tensor(xa, requires_grad=True)
                yl2, yh2 = fw(xg)
                tot = (yl2 * cl).sum() + sum((a * b).sum() for a, b in zip(yh2, chh))
                g, = torch.autograd.grad(tot, xg)
                e3 = float((g - xi).abs().max())
            except Exception as e:   # noqa
                n += 1
                rep.violation("2-D periodization transform pair is not a square orthogonal pair at %s: %r" % (cfg, e),
                              {"api": "DWT2D periodization", "check": "ortho_num", "cfg": cfg})
                continue
            n += 1
            rep.nontriv(("ortho_num2", name, H, W, J))
            if not max(e1, e2, e3) <= tol * H * W:
                rep.violation("2-D orthogonality violated at %s: energy=%.2g adjoint=%.2g |backward-inverse|=%.2g (bound %.2g)"
                              % (cfg, e1, e2, e3, tol * H * W), {"api": "DWT2D periodization", "check": "ortho_num", "cfg": cfg})
    rep.validated(n)
    rep.count("ortho_numeric_checks", n)
    rep.extra["orthonormality_residual_max_over_wavelets"] = worst
