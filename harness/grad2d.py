"""C05, 2-D: DWTForward / DWTInverse back-propagation vs the transposed forward matrices."""
import numpy as np
import torch

import pytorch_wavelets as pw

from . import dwtlib
from .dwtchecks import kron2, chain_in_table2, _blocks2
from .common import seed


def _fwd2_matrices(m, H, W):
    X = torch.eye(H * W).reshape(H * W, 1, H, W)
    yl, yh = m(X)
    outs = [yl[:, 0].reshape(H * W, -1)] + [y[:, 0].reshape(H * W, -1) for y in yh]
    F = np.concatenate([o.numpy().T for o in outs], axis=0)
    K = F.shape[0]
    x = torch.zeros(K, 1, H, W, requires_grad=True)
    yl, yh = m(x)
    outs = [yl[:, 0]] + [y[:, 0] for y in yh]
    off = 0
    total = 0
    for o in outs:
        n = int(np.prod(o.shape[1:]))
        cot = torch.zeros(K, n)
        cot[off:off + n] = torch.eye(n)
        total = total + (o.reshape(K, -1) * cot).sum()
        off += n
    g, = torch.autograd.grad(total, x, allow_unused=True)
    return F, (None if g is None else g[:, 0].reshape(K, -1).numpy().T)


def compose_fwd_vjp2(table, rec, taps):
    """DWTForward's backward as coded: per level  dx = SUM_bands kron(Bc_band, Br_band) d band;
    taps = dict(col=(h0, h1), row=(h0, h1)) - the column filters act along the vertical axis"""
    mode, H, W, J = rec["mode"], rec["H"], rec["W"], rec["J"]
    Lc, Lr = rec["Lc"], rec["Lr"]
    lh, lw = rec["ref_lensH"], rec["ref_lensW"]
    hs, ws = [H] + lh, [W] + lw
    K = lh[-1] * lw[-1] + sum(3 * a * b for a, b in zip(lh, lw))
    cols = {0: (0, lh[-1] * lw[-1])}
    o = cols[0][1]
    for j in range(1, J + 1):
        n = 3 * lh[j - 1] * lw[j - 1]
        cols[j] = (o, o + n)
        o += n
    G = np.zeros((lh[-1] * lw[-1], K))
    G[:, :cols[0][1]] = np.eye(cols[0][1])
    for j in range(J, 0, -1):
        Bc = table.ab_impl(mode, hs[j - 1], Lc)
        Br = table.ab_impl(mode, ws[j - 1], Lr)
        c0, c1 = dwtlib.mat(Bc, taps["col"][0]), dwtlib.mat(Bc, taps["col"][1])
        r0, r1 = dwtlib.mat(Br, taps["row"][0]), dwtlib.mat(Br, taps["row"][1])
        Y = kron2(c0, r0) @ G
        n = lh[j - 1] * lw[j - 1]
        for b in rec["wiring"]["bands"]:
            if b["band"] == 0:
                continue
            D = np.zeros((n, K))
            a = cols[j][0] + (b["band"] - 1) * n
            D[:, a:a + n] = np.eye(n)
            Y = Y + kron2(c1 if b["col_high"] else c0, r1 if b["row_high"] else r0) @ D
        G = Y
    return G


def forward_vjp_2d(rep, fnd, table, records, pid):
    dwtlib.f64()
    rng = np.random.default_rng(13000 + seed())
    n_ok = 0
    for r in records:
        if r.get("kind") != "dwt2.fwd" or r["outcome"] != "ok" or not chain_in_table2(table, r):
            continue
        mode, H, W, J, Lc, Lr = r["mode"], r["H"], r["W"], r["J"], r["Lc"], r["Lr"]
        sizes = ([H] + r["ref_lensH"])[:J] + ([W] + r["ref_lensW"])[:J]
        # every other configuration with equal lengths (and all with unequal ones) uses SEPARATE row and column
        # filters (the documented 4-tuple): the backward must use each on its own axis
        four = (Lc != Lr) or bool(rng.integers(0, 2))
        cfg = {"mode": mode, "H": H, "W": W, "L": Lc, "Lr": Lr, "J": J, "odd_any": any(n % 2 for n in sizes), "separate_row_filters": four}
        case = {"api": "DWTForward.backward", "check": "forward_vjp_2d", "cfg": cfg}
        h0, h1 = dwtlib.int_taps(rng, Lc, 3), dwtlib.int_taps(rng, Lc, 3)
        r0t, r1t = (dwtlib.int_taps(rng, Lr, 3), dwtlib.int_taps(rng, Lr, 3)) if four else (h0, h1)
        taps = {"col": (h0, h1), "row": (r0t, r1t)}
        try:
            m = pw.DWTForward(J=J, wave=((h0, h1, r0t, r1t) if four else (h0, h1)), mode=mode)
            F, V = _fwd2_matrices(m, H, W)
        except Exception as e:   # noqa
            if mode == "reflect":
                continue
            rep.violation("DWTForward forward/backward raised %r at %s" % (e, cfg), dict(case, observed=repr(e)))
            continue
        rep.validated()
        rep.nontriv(("fwd_vjp2", mode, H, W, Lc, Lr, J, four))
        if V is None:
            rep.violation("DWTForward: input requires grad but receives None at %s" % (cfg,), case)
        elif dwtlib.eq_int(V, F.T):
            n_ok += 1
            if n_ok == 1:
                rep.sample({"api": "DWTForward.backward", "cfg": cfg, "observed": "VJP matrix == transpose of the forward matrix of the same module"})
        else:
            G = compose_fwd_vjp2(table, r, taps)
            sig = "equals-impl-model" if dwtlib.eq_int(V, G) else "other"
            f = fnd.match(pid, "DWTForward.backward", cfg, sig)
            if f:
                rep.known_finding(f["id"], f["what"])
            else:
                d = dwtlib.diff_entries(V, F.T)
                rep.violation("DWTForward back-propagation is not the transpose of its forward at %s: %s" % (cfg, d),
                              dict(case, diff=d, taps={k: [t.tolist() for t in v] for k, v in taps.items()}))
    rep.count("forward_vjp_2d_exact_adjoint", n_ok)


def compose_inv_vjp2(table, mode, L, J, lh, lw, g0, g1, leaf, wiring, gr0=None, gr1=None):
    """gradient w.r.t. one leaf of DWTInverse as coded (SFB2D.backward models); [len_leaf x P]"""
    sizes = {}
    ch, cw = lh[J - 1], lw[J - 1]
    for j in range(J, 0, -1):
        mh, mw = lh[j - 1], lw[j - 1]
        sizes[j] = (ch, cw, mh, mw)
        ch, cw = table.rec[(mode, mh, L)]["s_len"], table.rec[(mode, mw, L)]["s_len"]
    G = np.eye(ch * cw)
    P = ch * cw
    for j in range(1, J + 1):
        ih, iw, mh, mw = sizes[j]
        Bc, Br = table.sb_impl(mode, mh, L), table.sb_impl(mode, mw, L)
        c0, c1 = dwtlib.mat(Bc, g0), dwtlib.mat(Bc, g1)
        r0, r1 = dwtlib.mat(Br, g0 if gr0 is None else gr0), dwtlib.mat(Br, g1 if gr1 is None else gr1)     # (g0, g1): column filters
        if leaf == j:
            out = []
            for b in sorted(wiring["bands"], key=lambda z: z["band"]):
                if b["band"] == 0:
                    continue
                out.append(kron2(c1 if b["col_high"] else c0, r1 if b["row_high"] else r0) @ G)
            return np.concatenate(out, axis=0)
        dlo = kron2(c0, r0) @ G
        if (ih, iw) != (mh, mw):
            full = np.zeros((ih, iw, P))
            full[:mh, :mw] = dlo.reshape(mh, mw, P)
            dlo = full.reshape(ih * iw, P)
        G = dlo
    return G


def inverse_vjp_2d(rep, fnd, table, records, pid):
    dwtlib.f64()
    rng = np.random.default_rng(14000 + seed())
    shapes = [("zero", 5, 6, 4), ("symmetric", 4, 7, 2), ("periodization", 6, 5, 4), ("reflect", 8, 6, 2), ("periodic", 7, 7, 4)]
    n_ok = 0
    cache = {}
    for r in records:
        if r.get("kind") != "dwt2.inv_bwd":
            continue
        J, R = r["J"], r["R"]
        for (mode, H, W, L) in shapes:
            key = (mode, H, W, L, J)
            if key not in cache:
                lh, lw, h, w, ok = [], [], H, W, True
                for _ in range(J):
                    if not (table.has(mode, h, L) and table.has(mode, w, L)):
                        ok = False
                        break
                    h, w = table.rec[(mode, h, L)]["a_len"], table.rec[(mode, w, L)]["a_len"]
                    lh.append(h)
                    lw.append(w)
                if not ok:
                    cache[key] = None
                    continue
                g0, g1 = dwtlib.int_taps(rng, L, 3), dwtlib.int_taps(rng, L, 3)
                # every other configuration: the documented 4-tuple with DIFFERENT column and row filters - each grad subset then
                # meets a backward that has to use each filter on its own axis (a lowpass-only or otherwise specialised backward
                # path for "this level's highpass needs no gradient" is only distinguishable there)
                if len(cache) % 2 == 0:
                    gr0, gr1 = dwtlib.int_taps(rng, L, 3), dwtlib.int_taps(rng, L, 3)
                    m = pw.DWTInverse(wave=(g0, g1, gr0, gr1), mode=mode)
                else:
                    gr0, gr1 = g0, g1
                    m = pw.DWTInverse(wave=(g0, g1), mode=mode)
                off, total = _blocks2(lh, lw, J)
                yl = torch.zeros(total, 1, lh[-1], lw[-1])
                yl[:off[0][1], 0] = torch.eye(off[0][1]).reshape(-1, lh[-1], lw[-1])
                yh = []
                for j in range(1, J + 1):
                    n = 3 * lh[j - 1] * lw[j - 1]
                    t = torch.zeros(total, 1, 3, lh[j - 1], lw[j - 1])
                    t[off[j][0]:off[j][1], 0] = torch.eye(n).reshape(n, 3, lh[j - 1], lw[j - 1])
                    yh.append(t)
                Y = m((yl, yh))
                cache[key] = (m, lh, lw, off, Y[:, 0].reshape(total, -1).numpy().T, tuple(Y.shape[-2:]), g0, g1, gr0, gr1)
            if cache[key] is None:
                continue
            m, lh, lw, off, Y, (oh, ow), g0, g1, gr0, gr1 = cache[key]
            P = Y.shape[0]
            sizes = ([H] + lh)[:J] + ([W] + lw)[:J]
            cfg = {"mode": mode, "H": H, "W": W, "L": L, "J": J, "R": R, "odd_any": any(n % 2 for n in sizes)}
            case = {"api": "DWTInverse.backward", "check": "inverse_vjp_2d", "cfg": cfg, "per_axis_filters": gr0 is not g0}
            yl = torch.zeros(P, 1, lh[-1], lw[-1], requires_grad=(0 in R))
            yh = [torch.zeros(P, 1, 3, lh[j - 1], lw[j - 1], requires_grad=(j in R)) for j in range(1, J + 1)]
            y = m((yl, yh))
            leaves = [yl if k == 0 else yh[k - 1] for k in R]
            cot = torch.eye(P).reshape(P, 1, oh, ow)
            rep.validated()
            rep.nontriv(("inv_vjp2", mode, H, W, L, J, tuple(R)))
            try:
                grads = torch.autograd.grad(y, leaves, cot, allow_unused=True)
            except Exception as e:   # noqa
                f = fnd.match(pid, "DWTInverse.backward", cfg, "raises")
                if f:
                    rep.known_finding(f["id"], f["what"])
                else:
                    rep.violation("DWTInverse back-propagation raised %r although the forward pass returned, at %s" % (e, cfg),
                                  dict(case, observed=repr(e)))
                continue
            missing = [k for k, g in zip(R, grads) if g is None]
            if missing:
                f = fnd.match(pid, "DWTInverse.backward", cfg, "none-grad")
                if f:
                    rep.known_finding(f["id"], f["what"])
                else:
                    rep.violation("DWTInverse: leaves %s require grad but receive None (leaves requiring grad: %s) at %s"
                                  % (missing, R, cfg), case)
                if set(missing) != set(r["none_grads"]):
                    rep.drift.append("None-gradient set %s differs from the DWT2 model %s at %s" % (missing, r["none_grads"], cfg))
                continue
            if r["none_grads"]:
                rep.drift.append("model predicts None gradients %s, code delivers all at %s" % (r["none_grads"], cfg))
            bad = None
            for k, g in zip(R, grads):
                V = g[:, 0].reshape(P, -1).numpy().T
                if not dwtlib.eq_int(V, Y[:, off[k][0]:off[k][1]].T):
                    bad = (k, V)
                    break
            if bad is None:
                n_ok += 1
                continue
            k, V = bad
            sig = "other"
            try:
                wiring = next(x for x in records if x.get("kind") == "dwt2.fwd")["wiring"]
                if dwtlib.eq_int(V, compose_inv_vjp2(table, mode, L, J, lh, lw, g0, g1, k, wiring, gr0, gr1)):
                    sig = "equals-impl-model"
            except Exception:   # noqa
                pass
            f = fnd.match(pid, "DWTInverse.backward", cfg, sig)
            if f:
                rep.known_finding(f["id"], f["what"])
            else:
                d = dwtlib.diff_entries(V, Y[:, off[k][0]:off[k][1]].T)
                rep.violation("DWTInverse back-propagation to leaf %d is not the transpose of the forward at %s: %s" % (k, cfg, d),
                              dict(case, diff=d, leaf=k))
    rep.count("inverse_vjp_2d_exact_adjoint", n_ok)
