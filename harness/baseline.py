"""Run the repository's own test suite with the hook guard OFF and compare with BASELINE.json:
every test of stable_pass must still pass.  (python -m harness.baseline)"""
import json
import os
import subprocess
import sys
import tempfile
import xml.etree.ElementTree as ET


def main():
    base = json.load(open("/root/.vp/BASELINE.json"))
    want = set(base["stable_pass"])
    fd, path = tempfile.mkstemp(suffix=".xml")
    os.close(fd)
    env = dict(os.environ)
    env.pop("PYTORCH_WAVELETS_VERIF", None)
    cmd = ["/venv/bin/python", "-m", "pytest", "-ra", "-q", "-p", "no:cacheprovider", "--timeout=900",
           "--continue-on-collection-errors", "--junitxml=" + path]
    p = subprocess.run(cmd, cwd="/repo", env=env, stdout=subprocess.PIPE, stderr=subprocess.STDOUT, text=True)
    passed = set()
    for tc in ET.parse(path).getroot().iter("testcase"):
        if not any(ch.tag in ("failure", "error", "skipped") for ch in tc):
            passed.add("%s::%s" % (tc.get("classname"), tc.get("name")))
    os.unlink(path)
    missing = sorted(want - passed)
    print(p.stdout.strip().splitlines()[-1])
    print("baseline stable_pass: %d, passing now: %d of them, newly failing: %d" % (len(want), len(want & passed), len(missing)))
    for m in missing[:20]:
        print("  NOW FAILING:", m)
    return 1 if missing else 0


if __name__ == "__main__":
    sys.exit(main())
