"""External oracles the properties name (PyWavelets, the NumPy dtcwt package).  They are used to
pin the Ref layers of the specification: a disagreement between Ref and the oracle is a failure of
the machinery (exit 2), never a property verdict."""
import numpy as np
import pywt


def _wav(L, h0, h1, g0=None, g1=None):
    g0 = h0 if g0 is None else g0
    g1 = h1 if g1 is None else g1
    return pywt.Wavelet("probe", [list(h0), list(h1), list(g0), list(g1)])


def pywt_dwt_op(mode, N, L):
    """[M, L, N] integer tensor of pywt.dwt with indicator taps"""
    op = None
    X = np.eye(N)
    for j in range(L):
        h = np.zeros(L)
        h[j] = 1
        ca, cd = pywt.dwt(X, _wav(L, h, h), mode=mode, axis=-1)
        if op is None:
            op = np.zeros((ca.shape[1], L, N))
        op[:, j, :] = ca.T
        assert np.array_equal(ca, cd)
    return op


def pywt_idwt_op(mode, M, L):
    op = None
    X = np.eye(M)
    for j in range(L):
        g = np.zeros(L)
        g[j] = 1
        y = pywt.idwt(X, None, _wav(L, g, g), mode=mode, axis=-1)
        if op is None:
            op = np.zeros((y.shape[1], L, M))
        op[:, j, :] = y.T
    return op
