"""DTCWT family: operator tables from TLC records, extraction from the real code, the NumPy reference."""
import numpy as np
import torch

from pytorch_wavelets.dtcwt import lowlevel as dl

from . import dwtlib, tlc, models
from .common import NCPU


class Dt1Table:
    """(kind, r, L, hp) -> (A, B) dense tensors [no][L][r] of the Ref layer"""

    def __init__(self, records):
        self.rec = {}
        for r in records:
            if r.get("kind", "").startswith("dt1."):
                self.rec[(r["kind"][4:], r["r"], r["L"], bool(r["hp"]))] = r
        self._c = {}

    def get(self, kind, r, L, hp=False):
        key = (kind, r, L, bool(hp))
        if key not in self._c:
            rec = self.rec[key]
            self._c[key] = (dwtlib.dense(rec["a"], rec["no"], L, r), dwtlib.dense(rec["b"], rec["no"], L, r))
        return self._c[key]

    def has(self, kind, r, L, hp=False):
        return (kind, r, L, bool(hp)) in self.rec

    def mat(self, kind, r, ha, hb=None, hp=False):
        """matrix [no x r] for concrete taps"""
        A, B = self.get(kind, r, len(ha), hp)
        M = dwtlib.mat(A, ha)
        if hb is not None:
            M = M + dwtlib.mat(B, hb)
        return M


def run_dt1(rep, tier, invariants=("ColfilterOK", "Colfilter0OK", "ColdfiltOK", "ColdScalarOK", "ColifiltOK", "IfiltScalarOK"), label="MC_DTCWT1", **over):
    c = dict(RSet=models.rng(2, 40 if tier == "quick" else 96), L1Set={3, 5, 7, 9, 13, 19},
             QSet={4, 6, 10, 14, 16, 18} if tier == "quick" else {4, 6, 10, 14, 16, 18, 32},
             Shard=0, NShards=1, Emit=True, PRMaxR=24 if tier == "quick" else 48)
    c.update(over)
    res = tlc.run_model("MC_DTCWT1", c, invariants=["EmitOK"] + list(invariants), shards=NCPU, tag=label,
                        coverage=False, timeout=3000)
    res.coverage = {"Pick": res.distinct - NCPU}
    rep.add_tlc(res, label)
    from .dwtmodel import design_check
    design_check(rep, res, label)
    return res, Dt1Table(res.records)


# ---- the real code with indicator taps -------------------------------------------------------
def _prep(h):
    return dl.prep_filt(np.asarray(h, dtype=np.float64), 1)


def real_op(kind, r, L, hp, axis="col"):
    """(A, B) [no][L][r] of the torch routine (column or row variant) with indicator taps"""
    dwtlib.f64()
    X = torch.eye(r).reshape(r, 1, r, 1) if axis == "col" else torch.eye(r).reshape(r, 1, 1, r)
    A = B = None
    for j in range(L):
        e = dwtlib.ind(L, j)
        z = np.zeros(L)
        if kind in ("colfilter", "colfilter0"):
            f = dl.colfilter if axis == "col" else dl.rowfilter
            y = f(X, _prep(e)) if kind == "colfilter" else f(X, _prep(e), mode="zero")
            outs = [(y, None)]
        else:
            f = {"coldfilt": (dl.coldfilt, dl.rowdfilt), "colifilt": (dl.colifilt, dl.rowifilt)}[kind][0 if axis == "col" else 1]
            outs = [(f(X, _prep(e), _prep(z), hp), f(X, _prep(z), _prep(e), hp))]
        ya, yb = outs[0]
        ya = ya.reshape(r, -1).numpy().T
        if A is None:
            A = np.zeros((ya.shape[0], L, r))
            B = np.zeros((ya.shape[0], L, r))
        A[:, j, :] = ya
        if yb is not None:
            B[:, j, :] = yb.reshape(r, -1).numpy().T
    return A, B


# ---- the NumPy reference with indicator taps ----------------------------------------------------
def numpy_op(kind, r, L, hp):
    from dtcwt.numpy import lowlevel as nl
    X = np.eye(r)
    if kind == "colfilter0":
        # no reference implementation has this mode: 'valid' convolution of the zero-extended columns (NumPy)
        m = L // 2
        A = np.zeros((r + 2 * m - L + 1, L, r))
        Xp = np.pad(X, ((m, m), (0, 0)))
        for j in range(L):
            for n in range(r):
                A[:, j, n] = np.convolve(Xp[:, n], dwtlib.ind(L, j), mode="valid")
        return A, np.zeros_like(A)
    if kind == "colfilter":
        A = np.zeros((r + 2 * (L // 2) - L + 1, L, r))
        for j in range(L):
            A[:, j, :] = nl.colfilter(X, dwtlib.ind(L, j))
        return A, np.zeros_like(A)
    f = nl.coldfilt if kind == "coldfilt" else nl.colifilt
    # the reference chooses the interleave order from sign(sum(ha*hb)): fix it with a base pair and use
    # the linearity in each filter for a fixed branch
    ha0 = dwtlib.ind(L, 0, 100.0)
    hb0 = dwtlib.ind(L, 0, -100.0 if hp else 100.0)
    Xp = X + 0.0
    base = f(Xp, ha0, hb0)
    A = np.zeros((base.shape[0], L, r))
    B = np.zeros_like(A)
    for j in range(L):
        A[:, j, :] = f(Xp, ha0 + dwtlib.ind(L, j), hb0) - base
        B[:, j, :] = f(Xp, ha0, hb0 + dwtlib.ind(L, j)) - base
    return A, B
