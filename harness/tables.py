"""C18: exact conversion of the float64 filter tables into TLA+ (module TablesData)."""
import glob
import os
from fractions import Fraction

import numpy as np

LIMB_BITS = 11


def load_npz(path):
    z = dict(np.load(path))
    return {k: np.asarray(v, dtype=np.float64).ravel() for k, v in z.items()
            if not k.startswith("__") and k != "param" and np.asarray(v).dtype == np.float64}


def frac_bits(tables):
    """smallest F such that every tap * 2^F is an integer"""
    F = 0
    for t in tables:
        for v in t.values():
            for x in v:
                fr = Fraction(float(x))
                F = max(F, fr.denominator.bit_length() - 1)
    return F


def limbs(x, F):
    n = Fraction(float(x)) * (1 << F)
    assert n.denominator == 1
    n = int(n)
    s = -1 if n < 0 else 1
    n = abs(n)
    out = []
    while n:
        out.append(s * (n & ((1 << LIMB_BITS) - 1)))
        n >>= LIMB_BITS
    return out


def tla_seq(xs):
    return "<<" + ", ".join(xs) + ">>"


def tla_table(t, F):
    fields = []
    for k in sorted(t):
        fields.append("%s |-> %s" % (k, tla_seq(tla_seq(str(l) for l in limbs(x, F)) for x in t[k])))
    return "[" + ", ".join(fields) + "]"


def write_tablesdata(dirpath, repo_dir, ref_dir, names):
    repo = {n: load_npz(os.path.join(repo_dir, n + ".npz")) for n in names}
    ref = {n: load_npz(os.path.join(ref_dir, n + ".npz")) for n in names if os.path.exists(os.path.join(ref_dir, n + ".npz"))}
    F = frac_bits(list(repo.values()) + list(ref.values()))
    lines = ["---- MODULE TablesData ----", "EXTENDS Integers",
             "\\* generated at check time from %s and %s (exact: tap * 2^FracBits in base-2^%d limbs)" % (repo_dir, ref_dir, LIMB_BITS),
             "FracBits == %d" % F,
             "Tab == [" + ",\n  ".join("%s |-> %s" % (n, tla_table(repo[n], F)) for n in names) + "]",
             "RefTab == [" + ",\n  ".join("%s |-> %s" % (n, tla_table(ref.get(n, {}), F) if ref.get(n) else "[none |-> << >>]") for n in names) + "]",
             "===="]
    with open(os.path.join(dirpath, "TablesData.tla"), "w") as f:
        f.write("\n".join(lines) + "\n")
    return F, repo, ref
