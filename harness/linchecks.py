"""C07: linearity (op-level acceptor over recorded executions) and per-(batch, channel) action."""
import numpy as np
import torch

import pytorch_wavelets as pw
from pytorch_wavelets.dwt.transform2d import SWTForward

from . import dwtlib, tracecheck
from .dispatch import Tracer
from .common import seed


def transform_zoo(tier):
    """(name, builder of (module_or_fn, input_shape_fn)) covering every transform family of C07.
    Each entry: dict(name, make() -> callable on x returning a list of tensors, shape(C) -> input shape,
    kind 'fwd'|'inv')"""
    zoo = []

    def flat(out):
        res = []

        def rec(o):
            if isinstance(o, torch.Tensor):
                if o.dim() > 0 and o.numel() > 0:        # placeholders of skipped levels / scales (0-dim or empty) carry no data
                    res.append(o)
            elif isinstance(o, (list, tuple)):
                for q in o:
                    rec(q)
        rec(out)
        return res
    modes = ["zero", "symmetric", "reflect", "periodic", "periodization"]
    for mode in modes:
        for (wave, J, n) in [("db2", 2, 13), ("bior2.2", 1, 8), ("haar", 3, 9)]:
            zoo.append(dict(name="DWT1DForward(%s,%s,J=%d)" % (wave, mode, J), shape=lambda N, C, n=n: (N, C, n),
                            make=lambda wave=wave, mode=mode, J=J: (lambda x, m=pw.DWT1DForward(J=J, wave=wave, mode=mode): flat(m(x))),
                            inv=lambda wave=wave, mode=mode: pw.DWT1DInverse(wave=wave, mode=mode)))
        for (wave, J, hw) in [("db2", 2, (9, 12)), ("bior1.3", 1, (7, 7))]:
            zoo.append(dict(name="DWTForward(%s,%s,J=%d)" % (wave, mode, J), shape=lambda N, C, hw=hw: (N, C) + hw,
                            make=lambda wave=wave, mode=mode, J=J: (lambda x, m=pw.DWTForward(J=J, wave=wave, mode=mode): flat(m(x))),
                            inv=lambda wave=wave, mode=mode: pw.DWTInverse(wave=wave, mode=mode)))
    for mode in ("periodization", "periodic"):
        zoo.append(dict(name="SWTForward(db2,%s,J=2)" % mode, shape=lambda N, C: (N, C, 8, 12),
                        make=lambda mode=mode: (lambda x, m=SWTForward(J=2, wave="db2", mode=mode): flat(m(x))), inv=None))
    for (biort, qshift, J, hw, kw) in [("near_sym_a", "qshift_a", 3, (13, 10), {}), ("legall", "qshift_06", 2, (8, 8), {}),
                                       ("near_sym_b", "qshift_d", 2, (6, 9), dict(o_dim=1, ri_dim=2)),
                                       ("antonini", "qshift_c", 3, (16, 12), dict(include_scale=True, skip_hps=[True, False, False])),
                                       # the level-1 stage also exists with zero extension (mode != 'symmetric'; the q-shift
                                       # levels do not implement it, hence J = 1)
                                       ("near_sym_a", "qshift_a", 1, (10, 8), dict(mode="zero")),
                                       ("near_sym_b", "qshift_a", 1, (9, 12), dict(mode="zero"))]:
        zoo.append(dict(name="DTCWTForward(%s,%s,J=%d,%s)" % (biort, qshift, J, kw), shape=lambda N, C, hw=hw: (N, C) + hw,
                        make=lambda biort=biort, qshift=qshift, J=J, kw=kw: (
                            lambda x, m=pw.DTCWTForward(biort=biort, qshift=qshift, J=J, **kw): flat(m(x))),
                        inv=(lambda biort=biort, qshift=qshift, kw=kw: pw.DTCWTInverse(
                            biort=biort, qshift=qshift, **{k: v for k, v in kw.items() if k in ("o_dim", "ri_dim", "mode")}))
                        if "include_scale" not in kw else None))
    if tier == "quick":
        return zoo
    extra = []
    for z in zoo:
        extra.append(z)
    return extra


def record_executions(rep, tier):
    """run every transform (forward, inverse on the produced pyramid, and the backward passes) under the
    dispatch tracer; returns (events, index of executions)"""
    dwtlib.f64()
    rng = np.random.default_rng(21000 + seed())
    tr = Tracer()
    execs = []
    for z in transform_zoo(tier):
        f = z["make"]()
        shape = z["shape"](2, 3)
        x = torch.tensor(rng.standard_normal(shape))
        # ---- forward
        start = len(tr.events)
        tr.reset()
        with tr:
            tr.taint(x)
            outs = f(x)
            tr.result(outs)
        execs.append((z["name"] + " forward", start, len(tr.events)))
        # ---- backward of the forward (taint = cotangent)
        xg = x.clone().requires_grad_(True)
        outs = f(xg)
        cots = [torch.tensor(rng.standard_normal(tuple(o.shape))) for o in outs]
        start = len(tr.events)
        tr.reset()
        try:
            with tr:
                for c in cots:
                    tr.taint(c)
                tr.result([g_ for g_ in torch.autograd.grad(outs, xg, cots, allow_unused=True) if g_ is not None])
            execs.append((z["name"] + " backward", start, len(tr.events)))
        except Exception as e:   # noqa  (a backward that raises is C05/C06's business)
            del tr.events[start:]
        # ---- inverse on a free pyramid of the produced shapes, and its backward
        if z.get("inv") is None:
            continue
        inv = z["inv"]()
        m = None
        # rebuild the (yl, yh) structure from a fresh forward call
        name = z["name"]
        if name.startswith("DWT1D"):
            m = pw.DWT1DForward
        with torch.no_grad():
            fw = None
        # obtain the structured output again (not flattened)
        fwd_mod = None
        for cls_name in ("DWT1DForward", "DWTForward", "DTCWTForward"):
            if name.startswith(cls_name):
                fwd_mod = cls_name
        args = name[name.index("(") + 1:-1]
        if fwd_mod == "DWT1DForward":
            wave, mode, J = args.split(",")[0], args.split(",")[1], int(args.split("J=")[1])
            yl, yh = pw.DWT1DForward(J=J, wave=wave, mode=mode)(x)
        elif fwd_mod == "DWTForward":
            wave, mode, J = args.split(",")[0], args.split(",")[1], int(args.split("J=")[1])
            yl, yh = pw.DWTForward(J=J, wave=wave, mode=mode)(x)
        else:
            biort, qshift = args.split(",")[0], args.split(",")[1]
            J = int(args.split("J=")[1].split(",")[0])
            kw = eval(args[args.index("{"):])
            yl, yh = pw.DTCWTForward(biort=biort, qshift=qshift, J=J, **kw)(x)
        yl = torch.tensor(rng.standard_normal(tuple(yl.shape)))
        yh = [torch.tensor(rng.standard_normal(tuple(h.shape))) for h in yh]
        start = len(tr.events)
        tr.reset()
        with tr:
            tr.taint(yl)
            for h in yh:
                tr.taint(h)
            y = inv((yl, yh))
            tr.result([y])
        execs.append((z["name"].replace("Forward", "Inverse") + " forward", start, len(tr.events)))
        yl2 = yl.clone().requires_grad_(True)
        yh2 = [h.clone().requires_grad_(True) for h in yh]
        y = inv((yl2, yh2))
        cot = torch.tensor(rng.standard_normal(tuple(y.shape)))
        start = len(tr.events)
        tr.reset()
        try:
            with tr:
                tr.taint(cot)
                tr.result([g_ for g_ in torch.autograd.grad(y, [yl2] + yh2, cot, allow_unused=True) if g_ is not None])
            execs.append((z["name"].replace("Forward", "Inverse") + " backward", start, len(tr.events)))
        except Exception:   # noqa
            del tr.events[start:]
    return tr.events, execs, tr.opnames


def negative_controls():
    """executions that MUST be rejected (anti-vacuity of the acceptor on real traces)"""
    dwtlib.f64()
    tr = Tracer()
    x = torch.randn(1, 3, 8, 8)
    ctrl = []
    for name, fn in [("ScatLayer (smooth modulus)", lambda x: pw.ScatLayer()(x)),
                     ("affine: DWTForward(x) + 1", lambda x: pw.DWTForward()(x)[0] + 1.0),
                     ("data-dependent branch", lambda x: pw.DWTForward()(x)[0] if float(x.sum()) > 0 else x),
                     ("input-dependent index", lambda x: x[:, :, (x[0, 0, 0].abs() > 0.5).nonzero()[:, 0]]),
                     ("product of two input-dependent tensors", lambda x: pw.DWTForward()(x)[0] * pw.DWTForward()(x)[0])]:
        start = len(tr.events)
        tr.reset()
        with tr:
            tr.taint(x)
            try:
                fn(x)
            except Exception:   # noqa
                pass
        ctrl.append((name, start, len(tr.events)))
    return tr.events, ctrl


# Rejections that do NOT show non-linearity by themselves: the acceptor's bookkeeping is conservative there.  An operator it does
# not know may be linear; a partial overwrite of / an addition to a buffer it cannot prove to be zero (torch.empty filled piece by
# piece, an accumulator) is at worst AFFINE - and then T(0) != 0, which the numeric probes (numeric_maps) test directly on the same
# maps.  Definite rejections stay violations: a non-linear operator on input-dependent data, a product or quotient of two
# input-dependent tensors, an input-dependent index, an input-dependent scalar read back into Python.
INCONCLUSIVE = {"unknown": "the operator is not in the vocabulary of harness/dispatch.py",
                "copy": "a partial overwrite of a buffer not known to be zero (e.g. torch.empty filled piece by piece)",
                "index_add": "an accumulation into a buffer not known to be zero",
                "addsub": "a sum with a constant not known to be zero",
                "pad_value": "padding with a value not known to be zero"}


def validate_executions(rep, pid, tier):
    events, execs, opnames = record_executions(rep, tier)
    rej = tracecheck.validate(rep, "Trace_LinearProg", events, {}, "Trace_LinearProg", batch=4000)
    rep.extra["aten_events_validated"] = len(events)
    rep.extra["aten_operator_histogram"] = dict(sorted(opnames.items()))
    rejset = set(rej)
    accepted = 0
    inconclusive = []
    for name, a, b in execs:
        r = [k for k in range(a, b) if k in rejset]
        rep.nontriv(("exec", name))
        # a rejected operation whose results cannot reach what the execution RETURNED (input validation such as
        # `assert torch.isfinite(x).all()`: abs / comparisons / boolean reductions / a boolean read into Python) does not enter the
        # returned values; on data that passes the test the path is the same.  Forward reachability over storages (views alias).
        r_all = r
        if r:
            results = set()
            for k in range(a, b):
                if events[k]["cat"] == "result":
                    results |= {sid for sid, _ in events[k]["args"]}
            if results:
                def reaches(k0):
                    reach = set(events[k0]["outs"]) | ({events[k0]["dst"]} if events[k0]["dst"] else set())
                    for k in range(k0 + 1, b):
                        e_ = events[k]
                        if e_["cat"] in ("result", "reset", "input"):
                            continue
                        if any(sid in reach for sid, _ in e_["args"]):
                            reach |= set(e_["outs"])
                            if e_["dst"]:
                                reach.add(e_["dst"])
                    return bool(reach & results)
                r = [k for k in r if reaches(k)]
        if r_all and not r:
            inconclusive.append(name)
            rep.drift.append("linearity acceptor: the rejected operation(s) of '%s' (%s, ...) cannot reach the returned tensors - a test of the data "
                             "(input validation), not part of the returned values; the numeric probes decide" % (name, events[r_all[0]]["op"]))
            continue
        if r and events[r[0]]["cat"] in INCONCLUSIVE:
            # the FIRST rejection is an operator the vocabulary does not know: the structural argument is inconclusive for this
            # execution (an unlisted operator may well be linear) - not a verdict; the numeric probes below (superposition and
            # homogeneity over 40 orders of magnitude, T(0) = 0, slice independence) decide for it
            inconclusive.append(name)
            rep.drift.append("linearity acceptor inconclusive for '%s': event %s (category %s) - %s" % (
                name, events[r[0]]["op"], events[r[0]]["cat"], INCONCLUSIVE[events[r[0]]["cat"]]))
        elif r:
            e = events[r[0]]
            rep.violation("execution '%s' is not a straight-line linear program: event %d (%s, category %s) is rejected by "
                          "the acceptor (argument storages %s)" % (name, r[0] - a, e["op"], e["cat"], e["args"]),
                          {"api": name, "check": "linear_program", "event": e, "n_rejected": len(r)})
        else:
            accepted += 1
    rep.count("executions_accepted", accepted)
    rep.extra["executions_inconclusive_unknown_operator"] = inconclusive[:20]
    rep.count("executions_recorded", len(execs))
    if execs:
        name, a, b = execs[0]
        rep.sample({"execution": name, "events": b - a, "first_events": [
            {k: e[k] for k in ("op", "cat", "args", "outs")} for e in events[a:a + 5]]})
    # negative controls: the acceptor must reject each of them
    nev, ctrl = negative_controls()
    nrej = set(tracecheck.validate(rep, "Trace_LinearProg", nev, {}, "Trace_LinearProg.negative", batch=4000))
    for name, a, b in ctrl:
        if not any(k in nrej for k in range(a, b)):
            rep.fail("negative control '%s' was accepted by the linearity acceptor (vacuous check)" % name)
    rep.count("negative_controls_rejected", sum(1 for name, a, b in ctrl if any(k in nrej for k in range(a, b))))


def slice_independence(rep, pid, tier):
    """slice (n,c) of every output depends only on slice (n,c) of the input, through the same operator"""
    dwtlib.f64()
    rng = np.random.default_rng(22000 + seed())
    n_ok = 0
    for z in transform_zoo(tier):
        f = z["make"]()
        shp1 = z["shape"](1, 1)
        sp = int(np.prod(shp1[2:]))
        # the single-slice operator on an identity batch (batch = basis index)
        X1 = torch.eye(sp).reshape((sp, 1) + tuple(shp1[2:]))
        try:
            outs1 = f(X1)
        except Exception as e:   # noqa
            rep.violation("%s raised %r on a (N=%d, C=1) input" % (z["name"], e, sp), {"api": z["name"], "check": "slice"})
            continue
        # the channel axis of every output: the one whose size changes with the channel count
        try:
            oa = f(torch.zeros(z["shape"](1, 1)))
            ob = f(torch.zeros(z["shape"](1, 5)))
            chan_axis = []
            for p_, q_ in zip(oa, ob):
                d = [k for k in range(p_.dim()) if p_.shape[k] != q_.shape[k]]
                chan_axis.append(d[0] if len(d) == 1 and q_.shape[d[0]] == 5 * p_.shape[d[0]] else None)
        except Exception as e:   # noqa
            rep.violation("%s raised %r when the channel count changes" % (z["name"], e), {"api": z["name"], "check": "slice"})
            continue
        # (1, 19) / (5, 2): wide and deep batches (a channel- or batch-count threshold in the code shows only there)
        for (N, C) in ([(2, 3), (1, 4), (1, 19), (5, 2), (1, 1), (19, 1)] if tier == "quick" else [(2, 3), (1, 4), (3, 1), (3, 2), (1, 19), (5, 2), (2, 35), (1, 1), (19, 1), (33, 2)]):
            x = torch.tensor(rng.integers(-8, 9, size=z["shape"](N, C)).astype(np.float64))
            outs = f(x)
            ok = len(outs) == len(outs1)
            worst = 0.0
            for o1, o, ax in zip(outs1, outs, chan_axis):
                if ax is None or o.shape[0] != N:
                    ok = False
                    break
                o1m, om = o1.movedim(ax, 1), o.movedim(ax, 1)
                if o1m.shape[1] != 1 or om.shape[1] != C or tuple(o1m.shape[2:]) != tuple(om.shape[2:]):
                    ok = False
                    break
                M = o1m.reshape(sp, -1).T                      # [out_per_slice x sp]
                got = om.reshape(N, C, -1)
                want = torch.einsum("os,ncs->nco", M, x.reshape(N, C, sp))
                scale = float(want.abs().max()) + 1.0
                worst = max(worst, float((got - want).abs().max()) / scale)
            rep.validated()
            rep.nontriv(("slice", z["name"], N, C))
            if not ok or worst > 1e-12:
                rep.violation("%s does not act per (batch, channel) slice through one operator for N=%d, C=%d "
                              "(max relative deviation %.3g, layout ok=%s)" % (z["name"], N, C, worst, ok),
                              {"api": z["name"], "check": "slice", "N": N, "C": C})
            else:
                n_ok += 1
    rep.count("slice_independence_cases", n_ok)


def wide_channels(rep, pid, tier):
    """Channel counts beyond the usual block sizes (a code path that processes channels in slabs of 32 / 64 / 128 is exercised
    only there): with C = 67 or 131 channels, channel c of the forward result, of the inverse result and of both back-propagated
    gradients must be what the same map gives for channel c alone - for channels at and around the block boundaries."""
    dwtlib.f64()
    rng = np.random.default_rng(23700 + seed())
    n = 0
    widths = (67, 131) if tier == "quick" else (67, 131, 259)

    def chan_axes(shapes1, shapes5):
        ax = []
        for p_, q_ in zip(shapes1, shapes5):
            d = [k for k in range(len(p_)) if p_[k] != q_[k]]
            ax.append(d[0] if len(d) == 1 and p_[d[0]] == 1 and q_[d[0]] == 5 else None)
        return ax

    def cmp(full, single, axes, c, what, z, C):
        for k, (a, b, ax) in enumerate(zip(full, single, axes)):
            if ax is None:
                continue
            got, want = a.narrow(ax, c, 1), b
            if tuple(got.shape) != tuple(want.shape):
                return "%s: tensor %d has shape %s for channel %d of C=%d, %s alone" % (what, k, tuple(got.shape), c, C, tuple(want.shape))
            dev = float((got - want).abs().max()) / (float(want.abs().max()) + 1.0)
            if dev > 1e-12:
                return "%s: channel %d of %d differs from the same map applied to that channel alone (relative %.3g, tensor %d)" % (what, c, C, dev, k)
        return None

    for z in transform_zoo(tier):
        f = z["make"]()
        try:
            s1 = [tuple(o.shape) for o in f(torch.zeros(z["shape"](1, 1)))]
            s5 = [tuple(o.shape) for o in f(torch.zeros(z["shape"](1, 5)))]
        except Exception:   # noqa   (slice_independence reports it)
            continue
        oax = chan_axes(s1, s5)
        for C in widths:
            sel = sorted({0, 1, 31, 32, 63, 64, 65, 127, 128, 129, 255, 256, 257, C - 2, C - 1} & set(range(C)))
            x = torch.tensor(rng.standard_normal(z["shape"](1, C)))
            bad = None
            try:
                outs = f(x)
                cots = [torch.tensor(rng.standard_normal(tuple(o.shape))) for o in outs]
                xg = x.clone().requires_grad_(True)
                gx, = torch.autograd.grad(f(xg), xg, cots, allow_unused=True)
                pyr, inv = _pyramid_and_inverse(z, x)
                if inv is not None:
                    pt = [pyr[0]] + list(pyr[1])
                    p1, inv1 = _pyramid_and_inverse(z, torch.zeros(z["shape"](1, 1)))
                    p5, _ = _pyramid_and_inverse(z, torch.zeros(z["shape"](1, 5)))
                    pax = chan_axes([tuple(t.shape) for t in [p1[0]] + list(p1[1])], [tuple(t.shape) for t in [p5[0]] + list(p5[1])])
                    pr = [torch.tensor(rng.standard_normal(tuple(t.shape))) for t in pt]
                    leaves = [t.clone().requires_grad_(True) for t in pr]
                    y = inv((leaves[0], leaves[1:]))
                    coty = torch.tensor(rng.standard_normal(tuple(y.shape)))
                    gp = torch.autograd.grad(y, leaves, coty, allow_unused=True)
                for c in sel:
                    xc = x[:, c:c + 1].clone()
                    bad = cmp(outs, f(xc), oax, c, "forward transform", z, C)
                    if bad:
                        break
                    cc = [(t.narrow(ax, c, 1).clone() if ax is not None else t) for t, ax in zip(cots, oax)]
                    if all(ax is not None for ax in oax):
                        xgc = xc.clone().requires_grad_(True)
                        gc, = torch.autograd.grad(f(xgc), xgc, cc, allow_unused=True)
                        bad = cmp([gx], [gc], [1], c, "backward of the forward transform", z, C)
                        if bad:
                            break
                    if inv is not None and all(ax is not None for ax in pax):
                        lc = [t.narrow(ax, c, 1).clone().requires_grad_(True) for t, ax in zip(pr, pax)]
                        yc = inv((lc[0], lc[1:]))
                        bad = cmp([y.detach()], [yc.detach()], [1], c, "inverse transform", z, C)
                        if bad:
                            break
                        gpc = torch.autograd.grad(yc, lc, coty[:, c:c + 1], allow_unused=True)
                        if all(g is not None for g in gp) and all(g is not None for g in gpc):
                            bad = cmp(list(gp), list(gpc), pax, c, "backward of the inverse transform", z, C)
                            if bad:
                                break
            except Exception as e:   # noqa
                bad = "raised %r with %d channels" % (e, C)
            rep.validated()
            rep.nontriv(("wide", z["name"], C))
            n += 1
            if bad:
                rep.violation("%s with C = %d channels: %s" % (z["name"], C, bad), {"api": z["name"], "check": "wide_channels", "C": C})
    rep.count("wide_channel_cases", n)


def special_values(rep, pid, tier):
    """One (batch, channel) slice made entirely of NaN, of +inf, or of exact zeros: a linear map per slice turns it into NaN
    (inf: non-finite) or exact zeros in THAT slice of every output and leaves every other slice bit for bit alone - a clean-up
    of special values (nan_to_num, clamping, "skip empty slices") or a reduction across slices shows here and nowhere else."""
    dwtlib.f64()
    rng = np.random.default_rng(23900 + seed())
    n = 0
    for z in transform_zoo(tier):
        f = z["make"]()
        try:
            s1 = [tuple(o.shape) for o in f(torch.zeros(z["shape"](1, 1)))]
            s5 = [tuple(o.shape) for o in f(torch.zeros(z["shape"](1, 5)))]
        except Exception:   # noqa
            continue
        axes = []
        for p_, q_ in zip(s1, s5):
            d = [k for k in range(len(p_)) if p_[k] != q_[k]]
            axes.append(d[0] if len(d) == 1 and p_[d[0]] == 1 and q_[d[0]] == 5 else None)
        x = torch.tensor(rng.standard_normal(z["shape"](3, 2)))
        base = f(x)
        for label, val in (("NaN", float("nan")), ("+inf", float("inf")), ("exact zeros", 0.0)):
            x1 = x.clone()
            x1[1, 0] = val
            bad = None
            try:
                outs = f(x1)
            except Exception as e:   # noqa
                bad = "raised %r" % (e,)
                outs = []
            for o, b, ax in zip(outs, base, axes):
                if bad or ax is None or o.shape[0] != 3:
                    continue
                om, bm = o.movedim(ax, 1), b.movedim(ax, 1)
                hit = om[1, 0]
                others_same = True
                for n_ in range(3):
                    for c_ in range(2):
                        if (n_, c_) != (1, 0) and not torch.equal(om[n_, c_], bm[n_, c_]):
                            others_same = False
                if not others_same:
                    bad = "another slice's result changed"
                elif label == "exact zeros":
                    if float(hit.abs().max()) != 0.0:
                        bad = "the all-zero slice does not give exact zeros"
                elif label == "NaN":
                    if not bool((torch.isnan(hit) | (hit == 0)).all()) or not bool(torch.isnan(hit).any()):
                        bad = "the all-NaN slice gives finite non-zero values (or no NaN at all)"
                else:
                    if not bool((~torch.isfinite(hit) | (hit == 0)).all()) or bool(torch.isfinite(hit).all()):
                        bad = "the all-inf slice gives finite non-zero values (or only finite ones)"
                if bad:
                    break
            rep.validated()
            rep.nontriv(("special", z["name"], label))
            n += 1
            if bad:
                rep.violation("%s with one (batch, channel) slice of %s: %s" % (z["name"], label, bad), {"api": z["name"], "check": "special_values", "value": label})
    rep.count("special_value_cases", n)


def expanded_operands(rep, pid, tier):
    """Operands that are broadcast views (stride 0 along the batch axis: `template.expand(N, ...)`, zeros expanded to a batch):
    the result is that of their contiguous copies - for the forward input and for every SINGLE operand of the inverse while the
    others differ between items (a de-duplication of broadcast batches must not cut the other operands down to item 0)."""
    dwtlib.f64()
    rng = np.random.default_rng(23950 + seed())
    n = 0
    for z in transform_zoo(tier):
        f = z["make"]()
        x = torch.tensor(rng.standard_normal(z["shape"](3, 2)))
        trials = []
        xe = x[:1].expand(*x.shape)
        trials.append(("the input broadcast from one item", lambda xe=xe: f(xe), lambda xe=xe: f(xe.contiguous())))
        pyr, inv = _pyramid_and_inverse(z, x)
        if inv is not None:
            ts = [pyr[0]] + list(pyr[1])
            for k_ in range(len(ts)):
                def mk(contig, k_=k_):
                    q = []
                    for j_, t in enumerate(ts):
                        if j_ == k_:
                            e_ = t[:1].expand(*t.shape)
                            q.append(e_.contiguous() if contig else e_)
                        else:
                            q.append(t)
                    return [inv((q[0], q[1:]))]
                trials.append(("operand %d of the inverse broadcast from one item, the others differing between items" % k_,
                               lambda mk=mk: mk(False), lambda mk=mk: mk(True)))
        for label, run_e, run_c in trials:
            rep.validated()
            rep.nontriv(("expanded", z["name"], label[:20]))
            n += 1
            try:
                a, b = run_e(), run_c()
                bad = None
                for p_, q_ in zip(a, b):
                    if tuple(p_.shape) != tuple(q_.shape) or float((p_ - q_).abs().max()) > 1e-12 * (float(q_.abs().max()) + 1.0):
                        bad = "differs from the result for the contiguous copy by %.3g" % (float((p_ - q_).abs().max()) if tuple(p_.shape) == tuple(q_.shape) else float("nan"))
                        break
            except Exception as e:   # noqa
                bad = "raised %r" % (e,)
            if bad:
                rep.violation("%s with %s: %s" % (z["name"], label, bad), {"api": z["name"], "check": "expanded_operands", "operand": label})
    rep.count("expanded_operand_cases", n)


def superposition(rep, pid, tier):
    dwtlib.f64()
    rng = np.random.default_rng(23000 + seed())
    n = 0
    for z in transform_zoo(tier):
        f = z["make"]()
        shape = z["shape"](2, 2)
        x, y = torch.tensor(rng.standard_normal(shape)), torch.tensor(rng.standard_normal(shape))
        a, b = float(rng.standard_normal()), float(rng.standard_normal()) * 1e3
        lhs = f(a * x + b * y)
        fx, fy = f(x), f(y)
        zero = f(torch.zeros(shape))
        n += 1
        bad = None
        for l, p, q, zz in zip(lhs, fx, fy, zero):
            scale = float((a * p).abs().max() + (b * q).abs().max()) + 1e-300
            if not float((l - (a * p + b * q)).abs().max()) <= 1e-11 * scale or float(zz.abs().max()) != 0.0:
                bad = "superposition or T(0)=0 on a real-valued probe"
                break
        # homogeneity over 40 orders of magnitude, and per-slice amplitudes that differ by as much (a data-dependent
        # "stabilisation" - normalise by the maximum, flush small values, add an epsilon - is linear to 1e-12 at unit scale)
        if bad is None:
            for s_ in (1e-20, 1e-8, 1e8, 1e20):
                for l, p in zip(f(s_ * x), fx):
                    ref = float(p.abs().max()) + 1e-300
                    if not float((l / s_ - p).abs().max()) <= 1e-9 * ref:
                        bad = "homogeneity T(s x) = s T(x) for s = %g (relative deviation %.3g)" % (s_, float((l / s_ - p).abs().max()) / ref)
                        break
                if bad:
                    break
        if bad is None:
            # batch items of amplitude 1e-15 and 1e+12 in ONE call (outputs whose leading axis is the batch axis)
            amp = torch.tensor([1e-15, 1e+12], dtype=x.dtype).reshape([2] + [1] * (len(shape) - 1))
            for l, p in zip(f(amp * x), fx):
                if p.dim() < 2 or p.shape[0] != shape[0]:
                    continue
                want = p * amp.reshape([2] + [1] * (p.dim() - 1))
                ref = want.reshape(2, -1).abs().amax(dim=1).reshape([2] + [1] * (p.dim() - 1)) + 1e-300
                if not float(((l - want).abs() / ref).max()) <= 1e-9:
                    bad = "per-item scaling (batch items of amplitude 1e-15 and 1e+12 in one call): an item's result depends on the other's amplitude"
                    break
        if bad:
            rep.violation("%s violates %s" % (z["name"], bad), {"api": z["name"], "check": "superposition"})
    rep.validated(n)
    rep.count("superposition_probes", n)



def _pyramid_and_inverse(z, x):
    """the structured (yl, yh) output of the forward entry z on x, and the matching inverse module (or None)"""
    if z.get("inv") is None:
        return None, None
    name = z["name"]
    args = name[name.index("(") + 1:-1]
    if name.startswith("DWT1DForward"):
        wave, mode, J = args.split(",")[0], args.split(",")[1], int(args.split("J=")[1])
        yl, yh = pw.DWT1DForward(J=J, wave=wave, mode=mode)(x)
    elif name.startswith("DWTForward"):
        wave, mode, J = args.split(",")[0], args.split(",")[1], int(args.split("J=")[1])
        yl, yh = pw.DWTForward(J=J, wave=wave, mode=mode)(x)
    else:
        biort, qshift = args.split(",")[0], args.split(",")[1]
        J = int(args.split("J=")[1].split(",")[0])
        kw = eval(args[args.index("{"):])
        yl, yh = pw.DTCWTForward(biort=biort, qshift=qshift, J=J, **kw)(x)
    return (yl, list(yh)), z["inv"]()


def _probe_linear(fn, shapes, rng):
    """fn: list of tensors -> list of tensors.  Returns None or a description of the failed linearity clause."""
    mk = lambda: [torch.tensor(rng.standard_normal(s)) for s in shapes]   # noqa
    x, y = mk(), mk()
    a, b = float(rng.standard_normal()), float(rng.standard_normal()) * 1e3
    fx, fy = fn(x), fn(y)
    lhs = fn([a * p + b * q for p, q in zip(x, y)])
    for l, p, q in zip(lhs, fx, fy):
        scale = float((a * p).abs().max() + (b * q).abs().max()) + 1e-300
        if not float((l - (a * p + b * q)).abs().max()) <= 1e-11 * scale:
            return "superposition T(ax+by) = aT(x)+bT(y)"
    for o in fn([torch.zeros(s) for s in shapes]):
        if float(o.abs().max()) != 0.0:
            return "T(0) = 0 (max |T(0)| = %.3g)" % float(o.abs().max())
    for s_ in (1e-20, 1e-8, 1e8, 1e20):
        for l, p in zip(fn([s_ * t for t in x]), fx):
            ref = float(p.abs().max()) + 1e-300
            if not float((l / s_ - p).abs().max()) <= 1e-9 * ref:
                return "homogeneity T(s x) = s T(x) for s = %g (relative deviation %.3g)" % (s_, float((l / s_ - p).abs().max()) / ref)
    # several input tensors (a pyramid, a set of cotangents): each at its OWN scale, nine orders of magnitude apart - the result is the
    # sum of the separately scaled contributions (nothing is "negligible" next to something larger)
    if len(shapes) >= 2:
        zeros = [torch.zeros(s_) for s_ in shapes]
        singles = []
        for k_ in range(len(shapes)):
            one = [t.clone() for t in zeros]
            one[k_] = x[k_]
            singles.append(fn(one))
        for trial in range(2):
            sc = [10.0 ** float(rng.integers(-3, 2)) for _ in shapes]
            sc[int(rng.integers(len(shapes)))] = 10.0 ** float(rng.integers(6, 9))
            if trial == 1:
                sc[0] = 10.0 ** 7
            got = fn([s_ * t for s_, t in zip(sc, x)])
            for oi, l in enumerate(got):
                want = sum(s_ * sg[oi] for s_, sg in zip(sc, singles))
                # every contribution must be present to ITS OWN relative accuracy: remove the largest and compare the remainder
                kmax = int(np.argmax(sc))
                rem_got = l - sc[kmax] * singles[kmax][oi]
                rem_want = want - sc[kmax] * singles[kmax][oi]
                tol = 1e-9 * float(rem_want.abs().max()) + 1e-12 * sc[kmax] * float(singles[kmax][oi].abs().max()) + 1e-300
                if not float((rem_got - rem_want).abs().max()) <= tol:
                    return ("component-wise superposition: with the inputs scaled by %s the result is not the sum of the separately scaled "
                            "contributions (the smaller ones are off by %.3g, allowed %.3g)" % (["%.0e" % v for v in sc], float((rem_got - rem_want).abs().max()), tol))
    return None


def numeric_maps(rep, pid, tier):
    """Numeric linearity of the four maps the acceptor looks at - forward, inverse and the two back-propagation maps (cotangent ->
    gradient) - for every transform of the zoo: superposition, T(0) = 0 exactly, homogeneity over 40 orders of magnitude.  This is
    what decides where the structural argument is inconclusive, and it runs for all of them."""
    dwtlib.f64()
    rng = np.random.default_rng(23500 + seed())
    n = 0
    for z in transform_zoo(tier):
        f = z["make"]()
        shape = z["shape"](2, 2)
        x0 = torch.tensor(rng.standard_normal(shape))
        maps = []
        outs0 = f(x0)
        oshapes = [tuple(o.shape) for o in outs0]

        def vjp_fwd(cots):
            xg = x0.clone().requires_grad_(True)
            g, = torch.autograd.grad(f(xg), xg, cots, allow_unused=True)
            return [g]
        maps.append(("backward of the forward transform (cotangent -> gradient)", vjp_fwd, oshapes))
        pyr, inv = _pyramid_and_inverse(z, x0)
        if inv is not None:
            pshapes = [tuple(pyr[0].shape)] + [tuple(h.shape) for h in pyr[1]]
            inv_fn = lambda ts, inv=inv: [inv((ts[0], list(ts[1:])))]    # noqa
            maps.append(("inverse transform", inv_fn, pshapes))
            y0 = inv_fn([torch.tensor(rng.standard_normal(s_)) for s_ in pshapes])[0]

            def vjp_inv(cots, inv=inv, pshapes=pshapes):
                leaves = [torch.zeros(s_).requires_grad_(True) for s_ in pshapes]
                out = inv((leaves[0], leaves[1:]))
                return [g for g in torch.autograd.grad(out, leaves, cots[0], allow_unused=True) if g is not None]
            maps.append(("backward of the inverse transform (cotangent -> gradients)", vjp_inv, [tuple(y0.shape)]))
        for label, fn, shapes in maps:
            rep.validated()
            n += 1
            try:
                bad = _probe_linear(fn, shapes, rng)
            except Exception as e:   # noqa   (a backward that raises is C05 / C06's business)
                continue
            if bad:
                rep.violation("%s: the %s violates %s" % (z["name"], label, bad), {"api": z["name"], "check": "numeric_maps", "map": label})
    rep.count("numeric_map_probes", n)
