"""Large inputs.  TLC's bounded models and the operator replay live on small sizes, where every boundary effect of a
filter bank is visible; a size THRESHOLD in the code (tiling above N samples, slab-wise evaluation above C channels, a
different kernel for big images) is invisible there.  Each property's check therefore also runs its oracle comparison on a
few inputs one to two orders of magnitude larger (numeric, float64, rounding-level tolerances).  The sizes are chosen
beside powers of two and beside the sizes the repository's tests use."""
import logging

import numpy as np
import torch

import pytorch_wavelets as pw

from . import dwtlib
from .common import seed

EPS64 = 2.220446049250313e-16
MODES = ["zero", "symmetric", "reflect", "periodization", "periodic"]


def _sizes1(tier):
    return [1031, 4100] if tier == "quick" else [1031, 4100, 777, 16385]


def _sizes2(tier):
    return [(131, 158), (260, 33)] if tier == "quick" else [(131, 158), (260, 33), (300, 259), (65, 513)]


def dwt_forward(rep, pid, tier):
    """C01 at scale: wavedec / wavedec2"""
    import pywt
    dwtlib.f64()
    rng = np.random.default_rng(61000 + seed())
    n = 0
    for k, name in enumerate(["db4", "bior2.2", "haar", "sym5"] if tier == "quick" else ["db4", "bior2.2", "haar", "sym5", "coif2", "db10", "rbio3.3"]):
        w = pywt.Wavelet(name)
        G = max(np.abs(w.dec_lo).sum(), np.abs(w.dec_hi).sum())
        for mode in MODES:
            J = 1 + (k + MODES.index(mode)) % 4
            if (k + MODES.index(mode)) % 3 == 0:
                J += 4                                  # deep pyramids too (5..8 levels: a level counter, a table of per-level sizes)
            N = _sizes1(tier)[(k + MODES.index(mode)) % len(_sizes1(tier))]
            wide = (k + MODES.index(mode)) % 4 == 2       # WIDE instead of long: more channels than any slab / group size (67, 131)
            if wide:
                N, J = 61 + k, min(J, 3)
            x = rng.standard_normal((1, 67 if k % 2 else 131, N) if wide else (2, 3, N))
            ref = pywt.wavedec(x, w, mode=mode, level=J, axis=-1)
            cfg = dict(wavelet=name, mode=mode, N=N, J=J, batch=x.shape[0], channels=x.shape[1])
            rep.validated()
            rep.nontriv(("scale_dwt1", name, mode, N, J))
            n += 1
            try:
                yl, yh = pw.DWT1DForward(J=J, wave=name, mode=mode)(torch.tensor(x))
                got = [yl.numpy()] + [y.numpy() for y in yh[::-1]]
                err = max(np.abs(a - b).max() if a.shape == b.shape else np.inf for a, b in zip(got, ref))
            except Exception as e:   # noqa
                if mode == "reflect":
                    continue
                rep.violation("DWT1DForward(%s, %s, J=%d) raised %r on a length-%d input" % (name, mode, J, e, N),
                              {"api": "DWT1DForward", "check": "scale", "cfg": cfg})
                continue
            bound = 64 * EPS64 * w.dec_len * J * (G ** J) * np.abs(x).max()
            if not err <= bound:
                rep.violation("DWT1DForward(%s, %s, J=%d) on a LONG signal (N=%d) differs from pywt.wavedec by %.3g (rounding bound %.3g)"
                              % (name, mode, J, N, err, bound), {"api": "DWT1DForward", "check": "scale", "cfg": cfg})
            H, W = _sizes2(tier)[(k + MODES.index(mode)) % len(_sizes2(tier))]
            J2 = 1 + (k + MODES.index(mode)) % 3 + (3 if (k + MODES.index(mode)) % 4 == 1 else 0)
            if wide:
                H, W, J2 = 21 + k, 18, min(J2, 2)
            x2 = rng.standard_normal((1, 67 if k % 2 else 131, H, W) if wide else (1, 2, H, W))
            ref2 = pywt.wavedec2(x2, w, mode=mode, level=J2, axes=(-2, -1))
            cfg = dict(wavelet=name, mode=mode, H=H, W=W, J=J2, channels=x2.shape[1])
            rep.validated()
            rep.nontriv(("scale_dwt2", name, mode, H, W, J2))
            try:
                yl, yh = pw.DWTForward(J=J2, wave=name, mode=mode)(torch.tensor(x2))
                err = np.abs(yl.numpy() - ref2[0]).max() if yl.shape == ref2[0].shape else np.inf
                for j in range(J2):
                    for b in range(3):
                        a, r_ = yh[j][:, :, b].numpy(), ref2[J2 - j][b]
                        err = max(err, np.abs(a - r_).max() if a.shape == r_.shape else np.inf)
            except Exception as e:   # noqa
                if mode == "reflect":
                    continue            # a level shorter than the pad: torch cannot reflect it (the one raise C01 admits)
                rep.violation("DWTForward(%s, %s, J=%d) raised %r on a %dx%d image" % (name, mode, J2, e, H, W),
                              {"api": "DWTForward", "check": "scale", "cfg": cfg})
                continue
            bound = 64 * EPS64 * w.dec_len ** 2 * J2 * (G ** (2 * J2)) * np.abs(x2).max()
            if not err <= bound:
                rep.violation("DWTForward(%s, %s, J=%d) on a LARGE image (%dx%d) differs from pywt.wavedec2 by %.3g (rounding bound %.3g)"
                              % (name, mode, J2, H, W, err, bound), {"api": "DWTForward", "check": "scale", "cfg": cfg})
    rep.count("large_input_comparisons", 2 * n)


def dwt_inverse(rep, pid, tier, roundtrip=False):
    """C10 (free pyramids vs waverec / waverec2) or C02 (round trips) at scale"""
    import pywt
    dwtlib.f64()
    rng = np.random.default_rng(62000 + seed())
    n = 0
    for k, name in enumerate(["db3", "bior2.4", "haar", "sym4"] if tier == "quick" else ["db3", "bior2.4", "haar", "sym4", "coif1", "db8"]):
        w = pywt.Wavelet(name)
        G = max(np.abs(w.rec_lo).sum(), np.abs(w.rec_hi).sum(), np.abs(w.dec_lo).sum(), np.abs(w.dec_hi).sum())
        for mode in MODES:
            J = 1 + (k + MODES.index(mode)) % 3 + (4 if (k + MODES.index(mode)) % 3 == 1 else 0)
            N = _sizes1(tier)[(k + MODES.index(mode) + 1) % len(_sizes1(tier))]
            H, W = _sizes2(tier)[(k + MODES.index(mode) + 1) % len(_sizes2(tier))]
            wide = (k + MODES.index(mode)) % 4 == 2       # WIDE instead of large: 67 / 131 channels on small supports
            if wide:
                N, H, W, J = 61 + k, 21 + k, 18, min(J, 2)
            for dim in (1, 2):
                shape = (2, 2, N) if dim == 1 else (1, 2, H, W)
                if wide:
                    shape = (1, 67 if k % 2 else 131) + shape[2:]
                x = rng.standard_normal(shape)
                cfg = dict(wavelet=name, mode=mode, J=J, shape=list(shape), roundtrip=roundtrip)
                rep.validated()
                rep.nontriv(("scale_idwt", dim, name, mode, shape, J, roundtrip))
                n += 1
                try:
                    if dim == 1:
                        fw, iv = pw.DWT1DForward(J=J, wave=name, mode=mode), pw.DWT1DInverse(wave=name, mode=mode)
                    else:
                        fw, iv = pw.DWTForward(J=J, wave=name, mode=mode), pw.DWTInverse(wave=name, mode=mode)
                    yl, yh = fw(torch.tensor(x))
                    if roundtrip:
                        y = iv((yl, yh)).numpy()
                        sl = tuple(slice(0, s) for s in shape)
                        err = np.abs(y[sl] - x).max() if all(a >= b for a, b in zip(y.shape, shape)) else np.inf
                        bound = 256 * EPS64 * w.dec_len ** dim * J * (G ** (2 * dim * J)) * np.abs(x).max()
                        what = "does not reconstruct the input on its extent"
                    else:
                        g = torch.Generator().manual_seed(k * 17 + dim)
                        yl = torch.randn(yl.shape, generator=g, dtype=torch.float64)
                        yh = [torch.randn(h.shape, generator=g, dtype=torch.float64) for h in yh]
                        y = iv((yl, yh)).numpy()
                        if dim == 1:
                            ref = pywt.waverec([yl.numpy()] + [h.numpy() for h in yh[::-1]], w, mode=mode, axis=-1)
                        else:
                            ref = pywt.waverec2([yl.numpy()] + [tuple(h[:, :, b].numpy() for b in range(3)) for h in yh[::-1]], w, mode=mode, axes=(-2, -1))
                        err = np.abs(y - ref).max() if y.shape == ref.shape else np.inf
                        bound = 256 * EPS64 * w.dec_len ** dim * J * (G ** (dim * J)) * 6.0
                        what = "differs from pywt.waverec%s on a free pyramid" % ("" if dim == 1 else "2")
                except Exception as e:   # noqa
                    rep.violation("the %d-D inverse DWT (%s, %s, J=%d) raised %r at %s" % (dim, name, mode, J, e, cfg),
                                  {"api": "DWT%sInverse" % ("1D" if dim == 1 else ""), "check": "scale", "cfg": cfg})
                    continue
                if not err <= bound:
                    rep.violation("the %d-D inverse DWT (%s, %s, J=%d) on a LARGE input %s by %.3g (rounding bound %.3g) at %s"
                                  % (dim, name, mode, J, what, err, bound, cfg), {"api": "DWT%sInverse" % ("1D" if dim == 1 else ""), "check": "scale", "cfg": cfg})
    rep.count("large_input_comparisons", n)


def dwt_vjp(rep, pid, tier):
    """C05 at scale: the dot-product test <T x, g> = <x, VJP(g)> (both sides in float64), in the modes where the backward
    is the exact adjoint on the current tree (zero; periodization with even sizes at every level)"""
    dwtlib.f64()
    rng = np.random.default_rng(63000 + seed())
    n = 0
    for name in ("db4", "bior2.2"):
        for mode, shape, J in (("zero", (2, 2, 1031), 3), ("zero", (1, 2, 131, 158), 2), ("periodization", (2, 2, 4096), 3),
                               ("periodization", (1, 2, 128, 192), 2)):
            x = torch.tensor(rng.standard_normal(shape), requires_grad=True)
            m = (pw.DWT1DForward if len(shape) == 3 else pw.DWTForward)(J=J, wave=name, mode=mode)
            yl, yh = m(x)
            outs = [yl] + list(yh)
            gs = [torch.tensor(rng.standard_normal(tuple(o.shape))) for o in outs]
            lhs = sum(float((o.detach() * g).sum()) for o, g in zip(outs, gs))
            gx, = torch.autograd.grad(outs, x, gs)
            # T is linear: <T x, g> = <x, T^T g>; and T^T g must not depend on x: compare with the VJP at another point
            x2 = torch.tensor(rng.standard_normal(shape), requires_grad=True)
            y2l, y2h = m(x2)
            gx2, = torch.autograd.grad([y2l] + list(y2h), x2, gs)
            rhs = float((x.detach() * gx).sum())
            cfg = dict(wavelet=name, mode=mode, shape=list(shape), J=J)
            rep.validated()
            rep.nontriv(("scale_vjp", name, mode, shape, J))
            n += 1
            scale = sum(float(o.detach().abs().max()) * float(g.abs().sum()) for o, g in zip(outs, gs)) + 1e-300
            if not abs(lhs - rhs) <= 1e-12 * scale or not torch.allclose(gx, gx2, rtol=0, atol=1e-12 * float(gx.abs().max())):
                rep.violation("back-propagation through the forward DWT (%s, %s) on a LARGE input fails the dot-product test: <Tx,g>=%.15g, <x,VJP>=%.15g "
                              "(or the VJP depends on the input) at %s" % (name, mode, lhs, rhs, cfg), {"api": "DWTForward.backward", "check": "scale", "cfg": cfg})
    rep.count("large_input_comparisons", n)


def dtcwt(rep, pid, tier, what):
    """C03 (forward vs reference), C11 (inverse of a free pyramid vs reference), C04 (round trip), C06 (dot-product test) at scale"""
    from dtcwt.numpy import Transform2d, Pyramid
    dwtlib.f64()
    rng = np.random.default_rng(64000 + seed())
    pairs = [("near_sym_a", "qshift_a"), ("near_sym_b", "qshift_d"), ("antonini", "qshift_06")]
    sizes = [(131, 158, 4), (260, 66, 3), (140, 200, 6)] if tier == "quick" else [(131, 158, 4), (260, 66, 3), (140, 200, 6), (513, 300, 5), (97, 256, 7)]
    n = 0
    logging.disable(logging.WARNING)
    try:
        cases = []
        for k, (b, q) in enumerate(pairs):
            H, W, J = sizes[k % len(sizes)]
            cases.append((b, q, H, W, J) + ((2, 3) if k % 2 == 0 else (1, 2)))
        # EVERY q-shift family and every level-1 family meets a large input (the five q-shift sets have 10 to 18 taps - 16 for
        # qshift_c -, so an edge / interior split that is right for four of them can be wrong for the fifth, and only where an
        # axis is long compared with the filter: levels 2 and 3 of these sizes still have more than 8 x 18 = 144 samples)
        bi = ["near_sym_a", "near_sym_b", "antonini", "legall"]
        qs = ["qshift_06", "qshift_a", "qshift_b", "qshift_c", "qshift_d"]
        for k, q in enumerate(qs):
            cases.append((bi[k % 4], q, 296 + 2 * k, 612 - 4 * k, 3, 1, 1))
        if tier != "quick":
            for k, q in enumerate(qs):
                for kb, b in enumerate(bi):
                    cases.append((b, q, 1160 + 4 * k + 2 * kb, 300 + 2 * k, 4, 1, 1))
        # a count K in an ordering comparison of the library's source ("r > 8 * m", "more than 16 ..."; none on the pinned tree):
        # axes longer than K times the longest filter at level 2, K+1 and 2K+3 channels, for every q-shift family
        from . import census
        census.report(rep)
        for K in census.small_counts()[:3]:
            for k, q in enumerate(qs):
                cases.append((bi[k % 4], q, min(2 * (K * 20 + 6), 2600), 64 + 2 * k, 2, 1, 1))
            cases += [("near_sym_a", "qshift_a", 16, 12, 2, 1, K + 1), ("near_sym_b", "qshift_c", 12, 16, 2, 1, 2 * K + 3)]
        # ... and WIDE inputs: more channels than any slab / group size a code path may process at once (small images)
        cases += [("near_sym_a", "qshift_a", 20, 24, 3, 1, 67), ("near_sym_b", "qshift_b", 16, 12, 2, 1, 131)]
        if tier != "quick":
            cases += [("legall", "qshift_c", 12, 16, 2, 2, 259)]
        for k, (b, q, H, W, J, N, C) in enumerate(cases):
            x = rng.standard_normal((N, C, H, W))
            cfg = dict(biort=b, qshift=q, H=H, W=W, J=J, batch=N, channels=C)
            rep.validated()
            rep.nontriv(("scale_dtcwt", what, b, q, H, W, J))
            n += 1
            fw, iv = pw.DTCWTForward(biort=b, qshift=q, J=J), pw.DTCWTInverse(biort=b, qshift=q)
            t = Transform2d(biort=b, qshift=q)
            try:
                if what == "forward":
                    yl, yh = fw(torch.tensor(x))
                    err = 0.0
                    for i in range(N):
                        for c in range(C):
                            p = t.forward(x[i, c], nlevels=J)
                            err = max(err, np.abs(yl[i, c].numpy() - p.lowpass).max() if tuple(yl.shape[-2:]) == p.lowpass.shape else np.inf)
                            for j in range(J):
                                a = yh[j][i, c].numpy()
                                hp = p.highpasses[j]
                                if a.shape != (6,) + hp.shape[:2] + (2,):
                                    err = np.inf
                                    break
                                err = max(err, np.abs(a[..., 0] - np.moveaxis(hp.real, 2, 0)).max(), np.abs(a[..., 1] - np.moveaxis(hp.imag, 2, 0)).max())
                    tol = 1e-12 * np.abs(x).max() * 4.0 ** J
                    msg = "DTCWTForward differs from dtcwt.Transform2d.forward"
                elif what == "inverse":
                    yl, yh = fw(torch.tensor(x))
                    g = torch.Generator().manual_seed(k)
                    yl = torch.randn(yl.shape, generator=g, dtype=torch.float64)
                    yh = [torch.randn(h.shape, generator=g, dtype=torch.float64) for h in yh]
                    y = iv((yl, yh)).numpy()
                    err = 0.0
                    for i in range(N):
                        for c in range(C):
                            hps = tuple(np.moveaxis(h[i, c, ..., 0].numpy() + 1j * h[i, c, ..., 1].numpy(), 0, 2) for h in yh)
                            r = t.inverse(Pyramid(yl[i, c].numpy(), hps))
                            err = max(err, np.abs(y[i, c] - r).max() if y[i, c].shape == r.shape else np.inf)
                    tol = 1e-12 * 6.0 * 4.0 ** J
                    msg = "DTCWTInverse of a free pyramid differs from dtcwt.Transform2d.inverse"
                elif what == "roundtrip":
                    y = iv(fw(torch.tensor(x))).numpy()
                    He, We = H + H % 2, W + W % 2
                    err = np.abs(y[..., :H, :W] - x).max() if y.shape[-2:] == (He, We) else np.inf
                    tol = 1e-11 * np.abs(x).max()
                    msg = "DTCWTInverse(DTCWTForward(x)) is not x"
                else:   # vjp: dot-product test for forward and inverse
                    xt = torch.tensor(x, requires_grad=True)
                    yl, yh = fw(xt)
                    outs = [yl] + list(yh)
                    gs = [torch.tensor(rng.standard_normal(tuple(o.shape))) for o in outs]
                    lhs = sum(float((o.detach() * g_).sum()) for o, g_ in zip(outs, gs))
                    gx, = torch.autograd.grad(outs, xt, gs)
                    rhs = float((xt.detach() * gx).sum())
                    leaves = [o.detach().clone().requires_grad_(True) for o in outs]
                    z = iv((leaves[0], leaves[1:]))
                    gz = torch.tensor(rng.standard_normal(tuple(z.shape)))
                    gl = torch.autograd.grad(z, leaves, gz)
                    lhs2 = float((z.detach() * gz).sum())
                    rhs2 = sum(float((l.detach() * g_).sum()) for l, g_ in zip(leaves, gl))
                    scale = float(np.abs(x).max()) * sum(float(g_.abs().sum()) for g_ in gs) * 4.0 ** J
                    err = max(abs(lhs - rhs), abs(lhs2 - rhs2))
                    tol = 1e-13 * scale
                    msg = "back-propagation through DTCWTForward / DTCWTInverse fails the dot-product test <Tx,g> = <x,VJP(g)>"
            except Exception as e:   # noqa
                rep.violation("DTCWT (%s) raised %r on a large input at %s" % (what, e, cfg), {"api": "DTCWT", "check": "scale", "cfg": cfg})
                continue
            if not err <= tol:
                rep.violation("%s on a LARGE input: error %.3g (bound %.3g) at %s" % (msg, err, tol, cfg), {"api": "DTCWT", "check": "scale", "cfg": cfg})
    finally:
        logging.disable(logging.NOTSET)
    rep.count("large_input_comparisons", n)


def swt(rep, pid, tier):
    import pywt
    from pytorch_wavelets.dwt.transform2d import SWTForward
    dwtlib.f64()
    rng = np.random.default_rng(65000 + seed())
    n = 0
    # beyond every size threshold (census: the default ladder up to 2^22 elements plus the constants of the library's source), with a
    # LONG filter and J = 2: a working-set estimate like numel * itemsize * (L + 3) crosses any plausible budget here, and the
    # axis lengths are multiples of 4 but not of 3, 5 or 7 (strip / chunk remainders)
    from . import census
    side = int(np.ceil(np.sqrt((max(census.thresholds()) + 1) / 2) / 4)) * 4
    while side % 3 == 0 or side % 5 == 0 or side % 7 == 0:
        side += 4
    big = ("sym8", (side, side + 8 if (side + 8) % 3 else side + 16), 2)
    for name, (H, W), J in (("db2", (256, 72), 3), ("bior2.2", (80, 272), 4), ("haar", (144, 136), 3), ("db2", (16, 24), 2), big):
        w = pywt.Wavelet(name)
        x = rng.standard_normal((2, 1, H, W) if H > 1000 else (2, 3, H, W) if H > 16 else (1, 67, H, W))       # (16, 24): WIDE (67 channels) instead of large
        ref = pywt.swt2(x, w, level=J, axes=(-2, -1))
        cfg = dict(wavelet=name, H=H, W=W, J=J)
        rep.validated()
        rep.nontriv(("scale_swt", name, H, W, J))
        n += 1
        try:
            out = SWTForward(J=J, wave=name)(torch.tensor(x))
            err = 0.0
            for j in range(J):
                cA, (cH, cV, cD) = ref[J - 1 - j]
                want = np.stack([cA, cH, cV, cD], axis=2)
                err = max(err, np.abs(out[j].numpy() - want).max() if tuple(out[j].shape) == want.shape else np.inf)
        except Exception as e:   # noqa
            rep.violation("SWTForward(%s) raised %r on a large image at %s" % (name, e, cfg), {"api": "SWTForward", "check": "scale", "cfg": cfg})
            continue
        G = max(np.abs(w.dec_lo).sum(), np.abs(w.dec_hi).sum())
        bound = 64 * EPS64 * w.dec_len ** 2 * J * G ** (2 * J) * np.abs(x).max()
        if not err <= bound:
            rep.violation("SWTForward(%s, J=%d) on a LARGE image differs from pywt.swt2 by %.3g (bound %.3g) at %s" % (name, J, err, bound, cfg),
                          {"api": "SWTForward", "check": "scale", "cfg": cfg})
    rep.count("large_input_comparisons", n)


def two_wavelets(rep, pid, tier):
    """C14 at scale: a wavelet per axis vs pywt, analysis and synthesis"""
    import pywt
    dwtlib.f64()
    rng = np.random.default_rng(66000 + seed())
    n = 0
    for (wc, wr), (H, W), J, mode in ((("db2", "db4"), (131, 158), 3, "symmetric"), (("bior2.2", "haar"), (260, 33), 2, "periodization"),
                                      (("db3", "db2"), (158, 131), 2, "zero"), (("haar", "db3"), (140, 136), 3, "reflect")):
        a, b = pywt.Wavelet(wc), pywt.Wavelet(wr)
        x = rng.standard_normal((1, 2, H, W))
        cfg = dict(wavelet_cols=wc, wavelet_rows=wr, H=H, W=W, J=J, mode=mode)
        rep.validated()
        rep.nontriv(("scale_two_wavelets", wc, wr, H, W, J, mode))
        n += 1
        try:
            fw = pw.DWTForward(J=J, wave=(a.dec_lo, a.dec_hi, b.dec_lo, b.dec_hi), mode=mode)
            iv = pw.DWTInverse(wave=(a.rec_lo, a.rec_hi, b.rec_lo, b.rec_hi), mode=mode)
            yl, yh = fw(torch.tensor(x))
            ref = pywt.wavedec2(x, (a, b), mode=mode, level=J, axes=(-2, -1))
            err = np.abs(yl.numpy() - ref[0]).max() if yl.shape == ref[0].shape else np.inf
            for j in range(J):
                for k in range(3):
                    p, q = yh[j][:, :, k].numpy(), ref[J - j][k]
                    err = max(err, np.abs(p - q).max() if p.shape == q.shape else np.inf)
            g = torch.Generator().manual_seed(n)
            zl = torch.randn(yl.shape, generator=g, dtype=torch.float64)
            zh = [torch.randn(h.shape, generator=g, dtype=torch.float64) for h in yh]
            y = iv((zl, zh)).numpy()
            r = pywt.waverec2([zl.numpy()] + [tuple(h[:, :, k].numpy() for k in range(3)) for h in zh[::-1]], (a, b), mode=mode, axes=(-2, -1))
            err = max(err, np.abs(y - r).max() if y.shape == r.shape else np.inf)
        except Exception as e:   # noqa
            rep.violation("the 2-D DWT with a wavelet per axis raised %r on a large image at %s" % (e, cfg), {"api": "DWTForward", "check": "scale", "cfg": cfg})
            continue
        if not err <= 1e-10:
            rep.violation("the 2-D DWT with column wavelet %s and row wavelet %s on a LARGE image differs from PyWavelets called with one wavelet per axis "
                          "by %.3g at %s" % (wc, wr, err, cfg), {"api": "DWTForward", "check": "scale", "cfg": cfg})
    rep.count("large_input_comparisons", n)


def orthogonal(rep, pid, tier):
    """C17 at scale: energy, inner products, inverse = transpose via the dot-product test, gradient = inverse(cotangent)"""
    dwtlib.f64()
    rng = np.random.default_rng(67000 + seed())
    n = 0
    import pywt
    for name, shape, J in (("db4", (2, 2, 4096), 5), ("sym5", (1, 2, 256, 192), 3), ("haar", (1, 3, 1024), 7), ("db2", (2, 1, 160, 416), 4), ("coif2", (1, 1, 3072), 3),
                           ("db2|db3", (1, 2, 96, 64), 2), ("sym4|haar", (2, 1, 64, 160), 3)):
        if "|" in name:          # one orthogonal wavelet per axis (the 4-tuple form): still an orthogonal change of basis
            a_, b_ = (pywt.Wavelet(w_) for w_ in name.split("|"))
            fw = pw.DWTForward(J=J, wave=(a_.dec_lo, a_.dec_hi, b_.dec_lo, b_.dec_hi), mode="periodization")
            iv = pw.DWTInverse(wave=(a_.rec_lo, a_.rec_hi, b_.rec_lo, b_.rec_hi), mode="periodization")
        else:
            fw = (pw.DWT1DForward if len(shape) == 3 else pw.DWTForward)(J=J, wave=name, mode="periodization")
            iv = (pw.DWT1DInverse if len(shape) == 3 else pw.DWTInverse)(wave=name, mode="periodization")
        x = torch.tensor(rng.standard_normal(shape), requires_grad=True)
        y = torch.tensor(rng.standard_normal(shape))
        yl, yh = fw(x)
        zl, zh = fw(y)
        cfg = dict(wavelet=name, shape=list(shape), J=J)
        rep.validated()
        rep.nontriv(("scale_ortho", name, shape, J))
        n += 1
        flat = lambda l, h: torch.cat([l.reshape(-1)] + [t.reshape(-1) for t in h])   # noqa
        cx, cy = flat(yl, yh), flat(zl, zh)
        e_in, e_out = float((x.detach() ** 2).sum()), float((cx.detach() ** 2).sum())
        ip_in, ip_out = float((x.detach() * y).sum()), float((cx.detach() * cy).sum())
        gs = [torch.tensor(rng.standard_normal(tuple(o.shape))) for o in [yl] + list(yh)]
        gx, = torch.autograd.grad([yl] + list(yh), x, gs)
        back = iv((gs[0], gs[1:]))
        rec = iv((yl.detach(), [h.detach() for h in yh]))
        bad = []
        # the same transform without a graph being recorded (inference): same coefficients, and they reconstruct
        with torch.no_grad():
            nl, nh = fw(x.detach())
            nrec = iv((nl, nh))
        if not all(float((p_ - q_.detach()).abs().max()) <= 1e-12 * (float(q_.detach().abs().max()) + 1e-300) for p_, q_ in zip([nl] + list(nh), [yl] + list(yh))):
            bad.append("coefficients under torch.no_grad() differ from those with a graph recorded")
        if not float((nrec - x.detach()).abs().max()) <= 1e-10 * float(x.detach().abs().max()):
            bad.append("under torch.no_grad(): inverse(forward(x)) differs from x by %.3g" % float((nrec - x.detach()).abs().max()))
        if not abs(e_in - e_out) <= 1e-11 * e_in:
            bad.append("energy %.15g -> %.15g" % (e_in, e_out))
        if not abs(ip_in - ip_out) <= 1e-11 * (e_in + float((y ** 2).sum())):
            bad.append("inner product %.15g -> %.15g" % (ip_in, ip_out))
        if not float((gx - back).abs().max()) <= 1e-11 * float(back.abs().max()):
            bad.append("gradient differs from inverse(cotangent) by %.3g" % float((gx - back).abs().max()))
        if not float((rec - x.detach()).abs().max()) <= 1e-10 * float(x.detach().abs().max()):
            bad.append("inverse(forward(x)) differs from x by %.3g" % float((rec - x.detach()).abs().max()))
        if bad:
            rep.violation("the periodization DWT with the orthogonal wavelet %s on a LARGE input is not an orthogonal change of basis: %s at %s"
                          % (name, "; ".join(bad), cfg), {"api": "DWTForward", "check": "scale", "cfg": cfg})
    rep.count("large_input_comparisons", n)


def nonsep(rep, pid, tier):
    """C19 at scale: the non-separable bank equals the separable one"""
    import pywt
    from pytorch_wavelets.dwt import lowlevel as ll
    dwtlib.f64()
    rng = np.random.default_rng(68000 + seed())
    n = 0
    for (wc, wr), (H, W), mode in ((("db2", "db2"), (131, 158), "symmetric"), (("db3", "db2"), (260, 34), "periodization"),
                                   (("bior2.2", "db4"), (129, 140), "zero"), (("haar", "db3"), (150, 131), "reflect")):
        a, b = pywt.Wavelet(wc), pywt.Wavelet(wr)
        x = torch.tensor(rng.standard_normal((2, 2, H, W)))
        if n % 2:
            x = torch.tensor(rng.standard_normal((2, 2, W, H))).transpose(2, 3)      # a non-contiguous (transposed-view) image
        cfg = dict(wavelet_cols=wc, wavelet_rows=wr, H=H, W=W, mode=mode, contiguous=bool(x.is_contiguous()))
        rep.validated()
        rep.nontriv(("scale_nonsep", wc, wr, H, W, mode))
        n += 1
        try:
            fa = (a.dec_lo, a.dec_hi, b.dec_lo, b.dec_hi)
            fs = (a.rec_lo, a.rec_hi, b.rec_lo, b.rec_hi)
            sep = ll.afb2d(x, fa, mode=mode)
            non = ll.afb2d_nonsep(x, fa, mode=mode)
            N_, C_ = x.shape[:2]
            sep = sep.reshape(N_, C_, 4, sep.shape[-2], sep.shape[-1]) if sep.dim() == 4 else sep
            non = non.reshape(N_, C_, 4, non.shape[-2], non.shape[-1]) if non.dim() == 4 else non
            err = float((sep - non).abs().max()) if sep.shape == non.shape else float("inf")
            g = torch.Generator().manual_seed(n)
            co = torch.randn(sep.shape, generator=g, dtype=torch.float64)
            ys = ll.sfb2d(co[:, :, 0], co[:, :, 1], co[:, :, 2], co[:, :, 3], fs, mode=mode)
            yn = ll.sfb2d_nonsep(co, fs, mode=mode)
            err = max(err, float((ys - yn).abs().max()) if ys.shape == yn.shape else float("inf"))
        except Exception as e:   # noqa
            rep.violation("the non-separable / separable one-level banks raised %r on a large image at %s" % (e, cfg), {"api": "afb2d_nonsep", "check": "scale", "cfg": cfg})
            continue
        if not err <= 1e-10:
            rep.violation("afb2d_nonsep / sfb2d_nonsep differ from afb2d / sfb2d on a LARGE image by %.3g at %s" % (err, cfg),
                          {"api": "afb2d_nonsep", "check": "scale", "cfg": cfg})
    rep.count("large_input_comparisons", n)


def batch_split(rep, pid, tier, dtype=torch.float64, which=("dwt", "dtcwt", "swt", "scat")):
    """Batches beyond every size threshold (more than 2^20 elements; many items): item n of the result of ONE call on the whole
    batch - values and the back-propagated input-gradient - is what the same module returns for item n alone, up to rounding.  A
    code path that exists only for big inputs (chunked processing, reduced-precision storage of what the backward needs, another
    algorithm above a threshold) is exercised here and nowhere in the small-size layers."""
    from pytorch_wavelets.dwt.transform2d import SWTForward
    torch.set_default_dtype(dtype)
    rng = np.random.default_rng(69000 + seed())
    eps = float(torch.finfo(dtype).eps)
    cases = []
    if "dwt" in which:
        cases += [("DWT1DForward(db4,periodization,J=2)", lambda: pw.DWT1DForward(J=2, wave="db4", mode="periodization"), (5, 1, 2 ** 18)),
                  ("DWT1DForward(db2,zero,J=1)", lambda: pw.DWT1DForward(J=1, wave="db2", mode="zero"), (7, 3, 2 ** 16)),
                  ("DWTForward(db3,periodization,J=2)", lambda: pw.DWTForward(J=2, wave="db3", mode="periodization"), (3, 1, 512, 1024)),
                  ("DWTForward(bior2.2,symmetric,J=1)", lambda: pw.DWTForward(J=1, wave="bior2.2", mode="symmetric"), (5, 2, 256, 512))]
    if "swt" in which:
        cases += [("SWTForward(db2,J=2)", lambda: SWTForward(J=2, wave="db2"), (3, 1, 512, 768))]
    if "dtcwt" in which:
        cases += [("DTCWTForward(J=2)", lambda: pw.DTCWTForward(J=2), (3, 1, 512, 768)),
                  ("DTCWTForward(near_sym_b,qshift_b,J=3)", lambda: pw.DTCWTForward(biort="near_sym_b", qshift="qshift_b", J=3), (17, 3, 64, 48))]
    if "scat" in which:
        cases += [("ScatLayer(magbias=1e-2)", lambda: pw.ScatLayer(magbias=1e-2), (16, 3, 32, 32)),
                  ("ScatLayer(near_sym_b_bp,magbias=0.1)", lambda: pw.ScatLayer(biort="near_sym_b_bp", magbias=0.1), (3, 1, 384, 512)),
                  ("ScatLayerj2(magbias=1e-2)", lambda: pw.ScatLayerj2(magbias=1e-2), (9, 2, 64, 64))]
    if tier == "quick":       # the three heaviest (one big item per batch entry) are left to the thorough tier
        cases = [c for c in cases if c[0] not in ("SWTForward(db2,J=2)", "DTCWTForward(J=2)", "ScatLayer(near_sym_b_bp,magbias=0.1)")]

    def flat(o):
        out = []

        def rec(t):
            if isinstance(t, torch.Tensor):
                if t.dim() > 0 and t.numel() > 0:
                    out.append(t)
            elif isinstance(t, (list, tuple)):
                for q in t:
                    rec(q)
        rec(o)
        return out
    n = 0
    try:
        for name, make, shape in cases:
            mod = make()
            x = torch.tensor(rng.standard_normal(shape), dtype=dtype, requires_grad=True)
            outs = flat(mod(x))
            g = torch.Generator().manual_seed(n + 1)
            cots = [(2 * torch.rand(o.shape, generator=g, dtype=torch.float64) - 1).to(dtype) for o in outs]
            gx, = torch.autograd.grad(outs, x, cots)
            cfg = dict(module=name, shape=list(shape), dtype=str(dtype))
            bad = None
            for k in sorted({0, shape[0] // 2, shape[0] - 1}):
                xk = x[k:k + 1].detach().clone().requires_grad_(True)
                ok_ = flat(mod(xk))
                gk, = torch.autograd.grad(ok_, xk, [c[k:k + 1] for c in cots])
                for a, b_ in zip(outs, ok_):
                    sc = float(b_.detach().abs().max()) + 1.0
                    if tuple(a[k:k + 1].shape) != tuple(b_.shape) or float((a[k:k + 1].detach() - b_.detach()).abs().max()) > 64 * eps * sc:
                        bad = "item %d of the result differs from the result for that item alone by %.3g (allowed %.3g)" % (
                            k, float((a[k:k + 1].detach() - b_.detach()).abs().max()) if tuple(a[k:k + 1].shape) == tuple(b_.shape) else float("nan"), 64 * eps * sc)
                        break
                if bad:
                    break
                sc = float(gk.abs().max()) + 1.0
                if float((gx[k:k + 1] - gk).abs().max()) > 256 * eps * sc:
                    bad = "item %d of the input-gradient differs from the gradient for that item alone by %.3g (allowed %.3g)" % (
                        k, float((gx[k:k + 1] - gk).abs().max()), 256 * eps * sc)
                    break
            rep.validated()
            rep.nontriv(("batch_split", name, tuple(shape), str(dtype)))
            n += 1
            if bad:
                rep.violation("%s on a batch of shape %s (%s): %s" % (name, list(shape), str(dtype).replace("torch.", ""), bad),
                              {"api": name, "check": "batch_split", "cfg": cfg})
    finally:
        torch.set_default_dtype(torch.float64 if pid != "C16" else torch.float32)
    rep.count("batch_split_cases", n)
