"""Size thresholds named in the library's own source.

A code path that exists only above a size ("transform big batches in pieces", "store the phase in half precision when it has
more than 65536 elements", "another algorithm for long axes") is invisible to every driver whose inputs stay below it.  The
drivers cannot know such a constant - but the source can be asked: every integer constant expression (literals, 1 << k,
2 ** k, products of those) of at least 2**10 in pytorch_wavelets/*.py is a candidate threshold, and the large-input layers
(batch_split, big_layouts) add inputs just beyond each of them (capped, so that a huge constant costs nothing).  On the
pinned tree the census is empty; the default ladder 2**16, 2**20, 2**22 stands in for what the seeded rounds used."""
import ast
import os

from .common import REPO

DEFAULT = (1 << 16, 1 << 20, 1 << 22)
CAP = 1 << 24


def _const(node):
    if isinstance(node, ast.Constant) and isinstance(node.value, int) and not isinstance(node.value, bool):
        return node.value
    if isinstance(node, ast.BinOp):
        a, b = _const(node.left), _const(node.right)
        if a is None or b is None:
            return None
        try:
            if isinstance(node.op, ast.LShift) and 0 <= b < 40:
                return a << b
            if isinstance(node.op, ast.Pow) and 0 <= b < 40 and abs(a) <= 1024:
                return a ** b
            if isinstance(node.op, ast.Mult):
                return a * b
            if isinstance(node.op, ast.Add):
                return a + b
            if isinstance(node.op, ast.Sub):
                return a - b
        except Exception:   # noqa
            return None
    return None


def constants():
    """{value: [file:line, ...]} for every integer constant expression >= 2**10 in the library's source"""
    found = {}
    root = os.path.join(REPO, "pytorch_wavelets")
    for d, _, files in os.walk(root):
        for f in files:
            if not f.endswith(".py") or f == "_verif.py":
                continue
            p = os.path.join(d, f)
            try:
                tree = ast.parse(open(p).read())
            except Exception:   # noqa
                continue
            for node in ast.walk(tree):
                v = _const(node)
                if v is not None and (1 << 10) <= v <= (1 << 40):
                    found.setdefault(v, []).append("%s:%d" % (os.path.relpath(p, REPO), getattr(node, "lineno", 0)))
    return found


def thresholds(cap=CAP):
    """ascending element-count thresholds to exceed: the default ladder plus every constant of the census below the cap"""
    ts = set(DEFAULT)
    for v in constants():
        if v <= cap:
            ts.add(v)
    return sorted(ts)


def small_thresholds(limit=1 << 12):
    """per-axis candidates (a 'long axis' fast path): constants of the census in 2**10 .. limit"""
    return sorted(v for v in constants() if v <= limit)


def ordering_comparisons():
    """[(file:line, source text, [constants])] for every ordering comparison (<, <=, >, >=) in the library's source that involves
    a numeric constant >= 5 (a size / count threshold: "more than 16 channels", "r > 8 * m") or a tiny positive float (< 1e-3: an
    absolute "numerically zero" test).  Empty on the pinned tree (its comparisons with constants are all ==)."""
    out = []
    root = os.path.join(REPO, "pytorch_wavelets")
    for d, _, files in os.walk(root):
        for f in sorted(files):
            if not f.endswith(".py") or f == "_verif.py":
                continue
            p = os.path.join(d, f)
            try:
                src = open(p).read()
                tree = ast.parse(src)
            except Exception:   # noqa
                continue
            for node in ast.walk(tree):
                if isinstance(node, ast.Compare) and any(isinstance(o, (ast.Lt, ast.LtE, ast.Gt, ast.GtE)) for o in node.ops):
                    cs = []
                    for sub in ast.walk(node):
                        if isinstance(sub, ast.Constant) and isinstance(sub.value, (int, float)) and not isinstance(sub.value, bool):
                            v = sub.value
                            if abs(v) >= 5 or (isinstance(v, float) and 0 < abs(v) < 1e-3):
                                cs.append(v)
                    if cs:
                        out.append(("%s:%d" % (os.path.relpath(p, REPO), node.lineno), (ast.get_source_segment(src, node) or "")[:120], cs))
    return out


def small_counts(limit=64):
    """integer constants 5 .. limit used in ordering comparisons: candidates for 'more than K channels / items / filter lengths'"""
    return sorted({int(c) for _, _, cs in ordering_comparisons() for c in cs if isinstance(c, int) and 5 <= c <= limit})


def report(rep):
    """what the census found, into the evidence (diagnostic: a threshold the drivers should exceed)"""
    consts = constants()
    comps = ordering_comparisons()
    rep.extra["census"] = {"size_constants": {str(k): v[:3] for k, v in sorted(consts.items())}, "ordering_comparisons": [list(c) for c in comps[:20]],
                           "thresholds_exceeded_by_the_drivers": thresholds()}
    return consts, comps
