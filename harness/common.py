"""Shared plumbing: paths, scratch directories, seeds, the per-check report object."""
import atexit
import hashlib
import json
import os
import shutil
import sys
import tempfile
import time

VERIF = os.path.dirname(os.path.dirname(os.path.abspath(__file__)))
SPEC = os.path.join(VERIF, "spec")
REPO = os.environ.get("VERIF_REPO", "/repo")
EVIDENCE = os.path.join(VERIF, "evidence")
REPLAYS = os.path.join(VERIF, "replays")
HOOK_GUARD = "PYTORCH_WAVELETS_VERIF"
NCPU = min(16, os.cpu_count() or 1)

_scratch = None


def scratch():
    """A per-process scratch directory (TLC metadirs, trace files); removed at exit."""
    global _scratch
    if _scratch is None:
        base = os.environ.get("VERIF_SCRATCH") or tempfile.gettempdir()
        _scratch = tempfile.mkdtemp(prefix="verif-", dir=base)
        atexit.register(shutil.rmtree, _scratch, True)
    return _scratch


def seed():
    try:
        return int(os.environ.get("VERIF_SEED", "0"))
    except ValueError:
        return 0


class Report:
    """Collects what one check run explored and found.

    violations : API-level observables of the real code not admitted by Ref (and not listed)
    known      : deviations that match an entry of known_findings.json exactly
    machinery  : failures of the machinery itself (exit 2, never a verdict)
    drift      : Impl-level (model fidelity) mismatches; diagnostics only
    """

    def __init__(self, pid, tier):
        self.pid = pid
        self.tier = tier
        self.t0 = time.time()
        self.violations = []
        self.known = {}
        self.machinery = []
        self.drift = []
        self.cov = {"states": 0, "transitions": 0, "traces_validated_against_impl": 0,
                    "samples": [], "evaluations": 0, "distinct_nontrivial": 0}
        self.extra = {}
        self.assumptions = []
        self.nontrivial = set()

    # -- coverage ---------------------------------------------------------
    def add_tlc(self, res, label):
        self.cov["states"] += res.distinct
        self.cov["transitions"] += res.generated
        self.extra.setdefault("tlc_runs", []).append(
            {"model": label, "distinct_states": res.distinct, "states_generated": res.generated,
             "wall_s": round(res.wall, 2), "invariants": res.invariants,
             "violated": sorted(set(v["invariant"] for v in res.violations)),
             "action_counts": res.coverage})

    def count(self, key, n=1):
        self.extra[key] = self.extra.get(key, 0) + n

    def validated(self, n=1):
        self.cov["traces_validated_against_impl"] += n
        self.cov["evaluations"] += n

    def nontriv(self, key):
        self.nontrivial.add(key)

    def sample(self, s, cap=6):
        if len(self.cov["samples"]) < cap:
            self.cov["samples"].append(s)

    # -- findings ---------------------------------------------------------
    def violation(self, what, case):
        """Record a violation and write its replay file."""
        os.makedirs(REPLAYS, exist_ok=True)
        blob = json.dumps({"property": self.pid, "what": what, "case": case}, sort_keys=True, default=str)
        h = hashlib.sha1(blob.encode()).hexdigest()[:12]
        path = os.path.join(REPLAYS, "%s-%s.json" % (self.pid, h))
        with open(path, "w") as f:
            json.dump({"property": self.pid, "what": what, "case": case,
                       "rerun": "./check %s --replay %s" % (self.pid, path)}, f, indent=1, default=str)
        self.violations.append({"what": what, "replay": path})
        return path

    def known_finding(self, fid, text):
        self.known.setdefault(fid, [0, text])[0] += 1

    def fail(self, msg):
        self.machinery.append(msg)

    def wall(self):
        return time.time() - self.t0
