"""Bounded model configurations (the constants of the MC modules), quick and thorough.

One source of truth: every check builds its TLC runs from here; `python -m harness.models`
writes them out as .cfg files under spec/cfg/ for readers who want to run TLC by hand.
"""
import os

from . import tlc
from .common import SPEC

MODES = {"zero", "symmetric", "reflect", "periodic", "periodization"}


def rng(a, b, step=1):
    return set(range(a, b + 1, step))


DWT1_OPS = {
    "quick": dict(NSet=rng(2, 24), LSet=rng(2, 12, 2), ModeSet=MODES, Shard=0, NShards=1, Emit=True,
                  GradFix=False, PRMaxN=12, PRMaxL=8),
    "thorough": dict(NSet=rng(2, 48), LSet=rng(2, 20, 2), ModeSet=MODES, Shard=0, NShards=1, Emit=True,
                     GradFix=False, PRMaxN=20, PRMaxL=12),
}
DWT1_OPS_INV = ["AnalysisOK", "AnalysisDevExact", "SynthesisOK", "SynthesisDevExact", "RefPR",
                "ImplPR", "ABackwardOK", "SBackwardOK", "OrthoOK", "EmitOK"]

DWT1_CALLS = {
    "quick": dict(NSet=rng(2, 24), LSet=rng(2, 12, 2), ModeSet=MODES, JMax=3, Apis={"fwd"},
                  Shard=0, NShards=1, Emit=True, NoneFix=False, GuardFix=False),
    "thorough": dict(NSet=rng(2, 48), LSet=rng(2, 20, 2), ModeSet=MODES, JMax=4, Apis={"fwd"},
                     Shard=0, NShards=1, Emit=True, NoneFix=False, GuardFix=False),
}


def model(table, tier, **over):
    c = dict(table[tier])
    c.update(over)
    return c


def dump():
    out = os.path.join(SPEC, "cfg")
    os.makedirs(out, exist_ok=True)
    for tier in ("quick", "thorough"):
        tlc.write_cfg(os.path.join(out, "MC_DWT1_Ops.%s.cfg" % tier), DWT1_OPS[tier], DWT1_OPS_INV)
    return out


if __name__ == "__main__":
    print(dump())
