"""Bounded model configurations (the constants of the MC modules), quick and thorough.

One source of truth: every check builds its TLC runs from here; `python -m harness.models`
writes them out as .cfg files under spec/cfg/ for readers who want to run TLC by hand.
"""
import os

from . import tlc
from .common import SPEC

# which "fix:" commits the current tree contains (the Impl layers are the models of THIS tree)
FIX = dict(OptFix=True, AbsentFix=True)

MODES = {"zero", "symmetric", "reflect", "periodic", "periodization"}


def rng(a, b, step=1):
    return set(range(a, b + 1, step))


DWT1_OPS = {
    "quick": dict(NSet=rng(2, 24), LSet=rng(2, 12, 2), ModeSet=MODES, Shard=0, NShards=1, Emit=True, EmitGrad=False,
                  GradFix=False, PerFix=True, PRMaxN=12, PRMaxL=8),
    "thorough": dict(NSet=rng(2, 48), LSet=rng(2, 20, 2), ModeSet=MODES, Shard=0, NShards=1, Emit=True, EmitGrad=False,
                     GradFix=False, PerFix=True, PRMaxN=20, PRMaxL=12),
}
DWT1_OPS_INV = ["AnalysisOK", "AnalysisDevExact", "SynthesisOK", "SynthesisDevExact", "RefPR",
                "ImplPR", "ABackwardOK", "SBackwardOK", "OrthoOK", "EmitOK"]

DWT1_CALLS = {
    "quick": dict(NSet=rng(2, 24), LSet=rng(2, 12, 2), ModeSet=MODES, JMax=3, Apis={"fwd"},
                  Shard=0, NShards=1, Emit=True, NoneFix=True, GuardFix=True, PerFix=True),
    "thorough": dict(NSet=rng(2, 48), LSet=rng(2, 20, 2), ModeSet=MODES, JMax=4, Apis={"fwd"},
                     Shard=0, NShards=1, Emit=True, NoneFix=True, GuardFix=True, PerFix=True),
}


def code(pairs):
    return {100 * a + b for a, b in pairs}


def sq(a, b):
    return {(h, w) for h in range(a, b + 1) for w in range(a, b + 1)}


def eqpairs(ls):
    return {(l, l) for l in ls}


DWT2_CALLS = {
    "quick": dict(HWCodes=code(sq(2, 9) | {(h, w) for h in (12, 17, 24) for w in (2, 3, 5)} | {(w, h) for h in (12, 17, 24) for w in (2, 3, 5)}),
                  LCodes=code(eqpairs([2, 4, 6])), ModeSet=MODES, JMax=2, Apis={"fwd"}, Shard=0, NShards=1,
                  Emit=True, NoneFix=True, GuardFix=True, SlotFix=True, PerFix=True),
    "thorough": dict(HWCodes=code(sq(2, 16) | {(h, w) for h in (21, 24, 33) for w in (2, 3, 5, 8)} | {(w, h) for h in (21, 24, 33) for w in (2, 3, 5, 8)}),
                     LCodes=code(eqpairs([2, 4, 6, 8, 10])), ModeSet=MODES, JMax=3, Apis={"fwd"}, Shard=0, NShards=1,
                     Emit=True, NoneFix=True, GuardFix=True, SlotFix=True, PerFix=True),
}


def model(table, tier, **over):
    c = dict(table[tier])
    c.update(over)
    return c


def dump():
    out = os.path.join(SPEC, "cfg")
    os.makedirs(out, exist_ok=True)
    for tier in ("quick", "thorough"):
        tlc.write_cfg(os.path.join(out, "MC_DWT1_Ops.%s.cfg" % tier), DWT1_OPS[tier], DWT1_OPS_INV)
    return out


if __name__ == "__main__":
    print(dump())
