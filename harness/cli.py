"""./check <ID> --tier quick|thorough [--replay path]"""
import argparse
import importlib
import json
import os
import sys
import traceback

from . import common, evidence


def main(argv=None):
    ap = argparse.ArgumentParser()
    ap.add_argument("pid")
    ap.add_argument("--tier", default=os.environ.get("VERIF_TIER", "quick"), choices=["quick", "thorough"])
    ap.add_argument("--replay", default=None)
    a = ap.parse_args(argv)
    os.environ[common.HOOK_GUARD] = "1"
    if a.pid == "setup":
        from . import setup
        return setup.main()
    if a.pid == "selftest":
        from . import selftest
        return selftest.main(a.tier)
    mod = importlib.import_module("harness.props." + a.pid)
    rep = common.Report(a.pid, a.tier)
    try:
        if a.replay:
            with open(a.replay) as f:
                case = json.load(f)
            mod.replay(rep, case)
        else:
            mod.run(rep)
    except Exception:
        rep.fail("exception in check: " + traceback.format_exc())
    try:
        evidence.write(rep, getattr(mod, "LEVEL", "model_checking"), getattr(mod, "RULE", ""),
                       getattr(mod, "EXHAUSTIVE", False))
    except Exception:
        rep.fail("cannot write evidence: " + traceback.format_exc())
    for fid, (n, text) in sorted(rep.known.items()):
        print("KNOWN-FINDING: property=%s %s [%s; %d case(s) in this run]" % (a.pid, text, fid, n))
    for d in rep.drift[:10]:
        print("impl-drift (diagnostic, not a verdict): %s" % (d,))
    for v in rep.violations[:50]:
        print("VIOLATION property=%s replay=%s" % (a.pid, v["replay"]))
        print("  " + v["what"])
    if len(rep.violations) > 50:
        print("  ... %d more violations" % (len(rep.violations) - 50))
    if rep.machinery:
        for m in rep.machinery[:10]:
            print("MACHINERY-FAILURE: " + m, file=sys.stderr)
        if not rep.violations:
            return 2
    if rep.violations:
        return 1
    print("OK property=%s tier=%s states=%d transitions=%d validated=%d nontrivial=%d wall=%.1fs" % (
        a.pid, a.tier, rep.cov["states"], rep.cov["transitions"],
        rep.cov["traces_validated_against_impl"], len(rep.nontrivial), rep.wall()))
    return 0


if __name__ == "__main__":
    sys.exit(main())
