"""./check selftest : anti-vacuity of the machinery itself (not a property check).

(a) negative models: every "fix:" the specification knows about has a flag; with the flag OFF (the model of the
    pinned, defective tree) TLC must report the corresponding invariant violated - the invariants can fail.
(b) binding: recorded traces of the real code are accepted; the same traces with ONE field corrupted or ONE hook
    event removed must be rejected by the trace specifications.
Exit 0 iff every expectation holds."""
import copy
import os

import numpy as np

from . import tlc, models, common, tracecheck, dwtchecks, stagetrace, linchecks, dtchecks
from .common import NCPU, scratch


def expect_violation(name, module, constants, invariant, shards=4, **kw):
    res = tlc.run_model(module, constants, invariants=[invariant], shards=shards, tag="neg-" + name, coverage=False, timeout=900, **kw)
    hit = any(v["invariant"] == invariant for v in res.violations) or any(invariant in e for e in res.errors)
    print("%-34s %s   (%s with the fix flag off: %s)" % (name, "ok" if hit else "FAILED", invariant,
                                                         "violated as expected" if hit else "NOT violated"))
    return hit


def main(tier="quick"):
    ok = True
    small = dict(NSet=models.rng(2, 12), LSet={2, 4, 6, 8})
    # ---- (a) negative models
    c = models.model(models.DWT1_OPS, "quick", Emit=False, PerFix=False, **small)
    ok &= expect_violation("F1 periodization", "MC_DWT1_Ops", dict(c), "AnalysisPlain")
    c = models.model(models.DWT1_CALLS, "quick", Emit=False, Apis={"inv"}, NoneFix=False, **small)
    ok &= expect_violation("F5 None level", "DWT1Calls", c, "InvNoRaise")
    c = models.model(models.DWT1_CALLS, "quick", Emit=False, Apis={"inv_bwd"}, GuardFix=False, NSet={4}, LSet={2})
    ok &= expect_violation("F4 backward guard", "DWT1Calls", c, "GradPresent")
    c = models.model(models.DWT2_CALLS, "quick", Emit=False, SlotFix=False, HWCodes={404}, LCodes={204})
    ok &= expect_violation("F9 filter slots", "DWT2", c, "SlotsOK", shards=1)
    ok &= expect_violation("F8 SWTForward", "SWT", dict(NSet={8}, LSet={2}, DSet={1}, Shard=0, NShards=1, Emit=False, SwtFix=False, PerFix=True),
                           "SwtNoRaise", shards=1)
    d2 = dict(HWCodes=models.code(models.sq(2, 8)), JMax=3, Apis={"inv"}, Shard=0, NShards=1, Emit=False, OptFix=False, AbsentFix=False)
    ok &= expect_violation("F7 layout table", "DTCWT2", d2, "Dims6OK", shards=1)
    ok &= expect_violation("F6 absent inputs", "DTCWT2", dict(d2, HWCodes={404, 608}), "InvAbsentOK", shards=1)
    ok &= expect_violation("F10 scat extension", "Scat", dict(SizeSet=models.rng(2, 16), CSet={1}, ExtFix=False), "SizeOK2", shards=1)
    sgc = dict(CSet={1, 2}, Emit=False, ViewBug=True, PhaseBug=False)
    ok &= expect_violation("ScatGrad view model", "ScatGrad", sgc, "StGrad", shards=1)
    ok &= expect_violation("ScatGrad phase model", "ScatGrad", dict(sgc, ViewBug=False, PhaseBug=True), "StGrad", shards=1)
    cfg = os.path.join(scratch(), "neg-sess.cfg")
    tlc.write_cfg(cfg, dict(Threads={1, 2}, Mods={1}, Cfgs={1, 2}, Args={1, 2}, MaxStages=1, Depth=8, Memo=True, Bias=False), ["Deterministic"])
    res = tlc.run_one("Session", cfg, 1, "neg-sess", coverage=False, simulate="num=300", extra_args=["-depth", "12"], timeout=300)
    hit = any(v["invariant"] == "Deterministic" for v in res.violations)
    print("%-34s %s   (Deterministic in the memoised-helper model)" % ("C15 memo model", "ok" if hit else "FAILED"))
    ok &= hit

    # the loader: one output buffer per filter length (SharedBuf) must break HeldStable
    try:
        import dtcwt
        from . import tables
        from .common import REPO
        d = scratch()
        tables.write_tablesdata(d, os.path.join(REPO, "pytorch_wavelets", "dtcwt", "data"), os.path.join(os.path.dirname(dtcwt.__file__), "data"),
                                ["near_sym_a", "qshift_a", "qshift_06", "qshift_b_bp"])
        cfg = os.path.join(d, "neg-tables.cfg")
        tlc.write_cfg(cfg, {"MaxLoads": 3, "SharedBuf": True}, ["HeldStable"])
        res = tlc.run_one("Tables", cfg, 1, "neg-tables", coverage=False, tla_library=d, timeout=600)
        hit = any(v["invariant"] == "HeldStable" for v in res.violations)
    except Exception as e:   # noqa
        print("Tables negative model failed to run: %r" % e)
        hit = False
    print("%-34s %s   (HeldStable with one output buffer per filter length)" % ("C18 shared-buffer model", "ok" if hit else "FAILED"))
    ok &= hit

    # ---- ScatGrad: the interpreted term table is bound to the layer (two table entries swapped -> the value comparison
    # fails; a reference bias off by 0.1 % -> the layer's OWN finite differences side with its gradient: no verdict)
    try:
        from . import scatgrad
        r0 = common.Report("selftest", tier)
        real_tables, real_cfgs = scatgrad.tables, scatgrad._configs
        scatgrad._configs = lambda t: real_cfgs(t)[:1]

        def swapped(rep, t, cs):
            tabs = real_tables(rep, t, cs)
            for k, tab in tabs.items():
                tab[1], tab[-1] = tab[-1], tab[1]
            return tabs
        scatgrad.tables = swapped
        scatgrad.checks(r0, "C08", "quick", "value")
        scatgrad.tables = real_tables
        r1 = common.Report("selftest", tier)
        real_interp = scatgrad.Interp.__init__

        def biased(self, biort, qshift, b):
            real_interp(self, biort, qshift, b * 1.001)
        scatgrad.Interp.__init__ = biased
        scatgrad.checks(r1, "C09", "quick", "gradient")
        scatgrad.Interp.__init__ = real_interp
        scatgrad._configs = real_cfgs
        hit = len(r0.violations) > 0 and len(r1.violations) == 0 and r1.extra.get("scat_terms_forward_disagrees", 0) > 0
        print("%-34s %s   (swapped table entries -> %d value deviations; reference bias off by 0.1%% -> %d 'forward disagrees' diagnostics, %d violations)"
              % ("ScatGrad binding", "ok" if hit else "FAILED", len(r0.violations), r1.extra.get("scat_terms_forward_disagrees", 0), len(r1.violations)))
        for v in r0.violations:
            os.remove(v["replay"]) if os.path.exists(v["replay"]) else None
    except Exception as e:   # noqa
        print("ScatGrad binding failed to run: %r" % e)
        hit = False
    ok &= hit

    # ---- (b) binding of the trace specifications
    rep = common.Report("selftest", tier)
    ev = dwtchecks.record_analysis_events(rep, "quick")[:40]
    good = tracecheck.validate(rep, "Trace_DWT", ev, {"PerFix": True}, "st-dwt")
    bad_ev = copy.deepcopy(ev)
    k = next(i for i, e in enumerate(bad_ev) if e["ev"] == "dwt1.analysis" and e["lo"])
    bad_ev[k]["lo"][0][2] = (bad_ev[k]["lo"][0][2] + 1) % bad_ev[k]["N"]          # one operator entry reads a neighbouring sample
    k2 = next(i for i, e in enumerate(bad_ev) if e["ev"] == "dwt1.shapes" and e["lens"])
    bad_ev[k2]["lens"][-1] += 1                                                    # one band length off by one
    bad = tracecheck.validate(rep, "Trace_DWT", bad_ev, {"PerFix": True}, "st-dwt-bad")
    t1 = (good == [] and sorted(bad) == sorted([k, k2]))
    print("%-34s %s   (clean: %d rejected; two corrupted events -> rejected %s)" % ("Trace_DWT binding", "ok" if t1 else "FAILED", len(good), bad))
    ok &= t1
    events, cases = stagetrace.record_dwt1("quick")
    events = events[:cases[7][1]]
    c = stagetrace._dwt1_constants()
    good = tracecheck.validate(rep, "Trace_DWT1Calls", events, c, "st-calls", batch=100000, spec="TraceSpec")
    k = next(i for i, e in enumerate(events) if e["ev"] == "afb1d.out")
    dropped = events[:k] + events[k + 1:]                                           # one hook event missing
    bad1 = tracecheck.validate(rep, "Trace_DWT1Calls", dropped, c, "st-calls-drop", batch=100000, spec="TraceSpec")
    tam = copy.deepcopy(events)
    tam[k]["M"] += 1                                                                # one logged length off by one
    bad2 = tracecheck.validate(rep, "Trace_DWT1Calls", tam, c, "st-calls-tamper", batch=100000, spec="TraceSpec")
    t2 = (good == [] and len(bad1) > 0 and len(bad2) > 0)
    print("%-34s %s   (clean: %d rejected; hook removed -> %d rejected; field corrupted -> %d rejected)" % (
        "Trace_DWT1Calls binding", "ok" if t2 else "FAILED", len(good), len(bad1), len(bad2)))
    ok &= t2
    aev, execs, _ = linchecks.record_executions(rep, "quick")
    a, b = execs[0][1], execs[0][2]
    one = aev[a:b]
    good = tracecheck.validate(rep, "Trace_LinearProg", one, {}, "st-lin", batch=100000)
    tam = copy.deepcopy(one)
    k = next(i for i, e in enumerate(tam) if e["cat"] == "conv")
    tam[k]["cat"] = "nonlinear"                                                     # the same execution, one operator mis-declared
    bad = tracecheck.validate(rep, "Trace_LinearProg", tam, {}, "st-lin-bad", batch=100000)
    t3 = (good == [] and k in bad)
    print("%-34s %s   (clean: %d rejected; convolution re-labelled non-linear -> rejected at %s)" % ("Trace_LinearProg binding", "ok" if t3 else "FAILED", len(good), bad[:3]))
    ok &= t3
    # ---- (c) helper fidelity: the replay of MC_Helpers must notice a helper that stops being its transcription
    from . import helperchecks
    from pytorch_wavelets.dwt import lowlevel as _ll
    import torch as _torch
    r0 = common.Report("selftest", "quick")
    helperchecks.helper_fidelity(r0, "selftest", "quick")
    real_roll, real_m2i = _ll.roll, _ll.mode_to_int
    _ll.roll = lambda x, n, dim, make_even=False: _torch.roll(x, n, dim)          # a textbook cyclic roll (differs out of range)
    _ll.mode_to_int = lambda m: {"periodic": 2}.get(m, real_m2i(m))                # 'periodic' aliased to periodization
    try:
        r1 = common.Report("selftest", "quick")
        helperchecks.helper_fidelity(r1, "selftest", "quick", kinds={"h.roll", "h.mode"})
    finally:
        _ll.roll, _ll.mode_to_int = real_roll, real_m2i
    t4 = (r0.extra.get("helper_deviations", 0) == 0 and r1.extra.get("helper_deviations", 0) >= 2 and not r0.machinery)
    print("%-34s %s   (clean: %d deviations; textbook roll + aliased mode -> %d deviations)" % (
        "MC_Helpers binding", "ok" if t4 else "FAILED", r0.extra.get("helper_deviations", 0), r1.extra.get("helper_deviations", 0)))
    ok &= t4
    # ---- (d) constructor / state schema: a module that stores one filter the other way round must be noticed
    from . import ctorchecks
    import pytorch_wavelets as _pw
    real_cls = _pw.DWT1DForward

    class Flipped(real_cls):
        def __init__(self, *a, **k):
            super().__init__(*a, **k)
            self.h1 = self.h1.flip(-1)
    r2 = common.Report("selftest", "quick")
    _pw.DWT1DForward = Flipped
    try:
        ctorchecks.ctor_fidelity(r2, "selftest", "quick")
    finally:
        _pw.DWT1DForward = real_cls
    t5 = r2.extra.get("ctor_deviations", 0) > 0 and not r2.machinery
    print("%-34s %s   (DWT1DForward storing h1 unreversed -> %d deviations)" % ("MC_Ctor binding", "ok" if t5 else "FAILED",
                                                                              r2.extra.get("ctor_deviations", 0)))
    ok &= t5
    # ---- (e) every evidence file present validates against the evidence schema (jsonschema from the tooling venv when it is
    # there, the level's required keys otherwise)
    import glob
    import json
    import subprocess
    bad = []
    files = sorted(glob.glob(os.path.join(common.EVIDENCE, "C*.json")))
    code = ("import json,sys,jsonschema; s=json.load(open('/root/.vp/EVIDENCE.schema.json'));\n"
            "for f in sys.argv[1:]:\n"
            "    try: jsonschema.validate(json.load(open(f)), s)\n"
            "    except Exception as e: print('INVALID', f, str(e)[:120])\n")
    try:
        p = subprocess.run(["python3-vt", "-c", code] + files, stdout=subprocess.PIPE, stderr=subprocess.STDOUT, text=True, timeout=120)
        bad = [l for l in p.stdout.splitlines() if l.startswith("INVALID")] if p.returncode == 0 else ["validator failed: " + p.stdout[-200:]]
    except Exception:   # noqa   (no tooling venv: structural check)
        for f in files:
            e = json.load(open(f))
            c = e.get("coverage", {})
            if not all(k in e for k in ("property_id", "tier", "seed", "level", "coverage", "wall_s")) or not c.get("samples") \
                    or c.get("states", 0) < 1 or c.get("transitions", 0) < 1:
                bad.append("INVALID " + f)
    t6 = not bad
    print("%-34s %s   (%d evidence files validated%s)" % ("evidence schema", "ok" if t6 else "FAILED", len(files), "" if t6 else ": " + "; ".join(bad[:3])))
    ok &= t6
    # ---- (f0) every module of the specification parses with SANY (tlapm's own parser is more permissive: precedence conflicts)
    badp = tlc.sany_all()
    print("%-34s %s   (%s)" % ("SANY all modules", "ok" if not badp else "FAILED", "all parse" if not badp else "; ".join(b[0] for b in badp)))
    ok &= not badp
    # ---- (f) the TLAPS proofs of the index facts (all sizes) go through
    from . import proofs
    for mod in proofs.MODULES:
        pr = proofs.prove(mod)
        if not pr["ok"]:
            pr = proofs.prove(mod, stretch=4)
        print("%-34s %s   (%d of %d obligations proved, %.0f s%s)" % ("TLAPS " + mod, "ok" if pr["ok"] else "FAILED", pr["proved"], pr["obligations"],
                                                                  pr["wall_s"], "" if pr["ok"] else ": " + pr["tail"][:200]))
        ok &= pr["ok"]
    # ... and are about the definitions: the symmetric extension with the whole-sample fold must lose its proofs
    mut = proofs.prove("IdxProofs", mutate=("IN  IF u < N THEN u ELSE 2 * N - 1 - u", "IN  IF u < N THEN u ELSE 2 * N - 2 - u"))
    t7 = (not mut["ok"]) and mut["failed"] > 0
    print("%-34s %s   (whole-sample fold in SrcExt('symmetric'): %s of %s obligations fail)" % ("TLAPS binding", "ok" if t7 else "FAILED", mut["failed"], mut["obligations"]))
    ok &= t7
    mut = proofs.prove("DWT1Proofs", mutate=("LET pos == 2 * m + (L - 1 - t)", "LET pos == 2 * m + t", "DWT1Src.tla"))
    t8 = (not mut["ok"]) and mut["failed"] > 0
    print("%-34s %s   (afb1d model reading the stored taps unflipped: %s of %s obligations fail)" % ("TLAPS binding (DWT1)", "ok" if t8 else "FAILED", mut["failed"], mut["obligations"]))
    ok &= t8
    for m in rep.machinery[:5]:
        print("machinery:", m)
    ok &= not rep.machinery
    print("selftest", "ok" if ok else "FAILED")
    return 0 if ok else 1
