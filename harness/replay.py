"""./check <ID> --replay <path>: re-run the check and report whether the recorded violation is still there.

A replay file names the API, the check and the configuration of the failing case; the checks are deterministic for a
given VERIF_SEED, so re-running the property's check reproduces the case.  Exit 1 (VIOLATION) iff a violation with the
same API / check / configuration re-appears, exit 0 otherwise."""
import json


def _key(case):
    c = case.get("case", case)
    return json.dumps([c.get("api"), c.get("check"), c.get("cfg")], sort_keys=True, default=str)


def rerun(rep, case, run):
    want = _key(case)
    run(rep)
    keep = []
    for v in rep.violations:
        try:
            with open(v["replay"]) as f:
                if _key(json.load(f)) == want:
                    keep.append(v)
        except Exception:   # noqa
            pass
    rep.violations = keep
    rep.extra["replayed_case"] = json.loads(want)
