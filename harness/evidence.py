"""Evidence files (/verif/evidence/<id>.json), rewritten by every run."""
import json
import os

from .common import EVIDENCE, seed


def write(rep, level, rule, exhaustive=False):
    cov = dict(rep.cov)
    cov["distinct_nontrivial"] = len(rep.nontrivial)
    cov["rule"] = rule
    cov["exhaustive"] = bool(exhaustive)
    if cov["states"] < 1:
        cov["states"] = 0
    if not cov["samples"]:
        # a check that recorded no explicit sample: the first distinct non-trivial cases it counted ARE actual cases of this run
        cov["samples"] = [repr(k) for k in sorted(rep.nontrivial, key=repr)[:4]]
    cov.update(rep.extra)
    cov["impl_drift"] = rep.drift[:20]
    cov["known_findings_seen"] = {k: {"count": v[0], "what": v[1]} for k, v in rep.known.items()}
    ev = {"property_id": rep.pid, "tier": rep.tier, "seed": seed(), "level": level,
          "coverage": cov, "assumptions": rep.assumptions, "wall_s": round(rep.wall(), 2),
          "violations": len(rep.violations)}
    os.makedirs(EVIDENCE, exist_ok=True)
    path = os.path.join(EVIDENCE, rep.pid + ".json")
    tmp = path + ".tmp"
    with open(tmp, "w") as f:
        json.dump(ev, f, indent=1, default=str)
    os.replace(tmp, path)
    return path
