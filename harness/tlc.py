"""Run TLC on a specification of /verif/spec and parse what it reports.

A model is (root module, constants, invariants[, properties]); the .cfg file is generated into the
scratch directory so that one module serves several bounded configurations (quick / thorough /
negative models) - the module is the single source of truth.  Models can be sharded over JVMs:
each shard gets constants Shard = i, NShards = k and runs with one worker so that its PrintT
records come out whole.
"""
import json
import os
import re
import subprocess
import time
from concurrent.futures import ThreadPoolExecutor

from .common import SPEC, scratch, NCPU

JAR = "/opt/veriftools/tla/tla2tools.jar"
DEPS = "/opt/veriftools/tla/CommunityModules-deps.jar"


class TlcResult:
    def __init__(self):
        self.generated = 0
        self.distinct = 0
        self.records = []
        self.violations = []     # {"invariant":..., "state": text of the last state}
        self.errors = []         # TLC-level errors (parse, evaluation): machinery failures
        self.coverage = {}
        self.wall = 0.0
        self.invariants = []
        self.ok_completed = True
        self.stdout = ""
        self.postcondition_failed = False

    def merge(self, o):
        self.generated += o.generated
        self.distinct += o.distinct
        self.records += o.records
        self.violations += o.violations
        self.errors += o.errors
        for k, v in o.coverage.items():
            self.coverage[k] = self.coverage.get(k, 0) + v
        self.ok_completed = self.ok_completed and o.ok_completed
        self.postcondition_failed = self.postcondition_failed or o.postcondition_failed
        self.stdout = (self.stdout + "\n" + o.stdout)[-20000:]


def tla_value(v):
    if isinstance(v, bool):
        return "TRUE" if v else "FALSE"
    if isinstance(v, int):
        return str(v)
    if isinstance(v, str):
        return '"%s"' % v
    if isinstance(v, (set, frozenset)):
        return "{" + ", ".join(tla_value(x) for x in sorted(v, key=lambda z: (str(type(z)), z))) + "}"
    if isinstance(v, tuple) and len(v) == 2 and v[0] == "@raw":
        return v[1]
    if isinstance(v, (list, tuple)):
        return "<<" + ", ".join(tla_value(x) for x in v) + ">>"
    raise TypeError(v)


def write_cfg(path, constants, invariants=(), properties=(), spec="Spec", postcondition=None,
              constraint=None, view=None):
    lines = ["SPECIFICATION %s" % spec, "CONSTANTS"]
    for k, v in constants.items():
        lines.append("  %s = %s" % (k, tla_value(v)))
    for inv in invariants:
        lines.append("INVARIANT %s" % inv)
    for p in properties:
        lines.append("PROPERTY %s" % p)
    if constraint:
        lines.append("CONSTRAINT %s" % constraint)
    if view:
        lines.append("VIEW %s" % view)
    if postcondition:
        lines.append("POSTCONDITION %s" % postcondition)
    lines.append("CHECK_DEADLOCK FALSE")
    with open(path, "w") as f:
        f.write("\n".join(lines) + "\n")


_REC = re.compile(r'^<<"@@REC", "(.*)">>$')


def parse_output(out, res):
    lines = out.splitlines()
    i = 0
    while i < len(lines):
        ln = lines[i]
        m = _REC.match(ln)
        if m:
            try:
                res.records.append(json.loads(json.loads('"' + m.group(1) + '"')))
            except Exception as e:       # a broken record is a machinery failure
                res.errors.append("unparsable record: %s (%s)" % (ln[:120], e))
        elif ln.startswith("Error: Invariant ") and ln.endswith(" is violated."):
            inv = ln[len("Error: Invariant "):-len(" is violated.")]
            # collect the behaviour that follows; keep the last state
            j = i + 1
            last = []
            cur = []
            while j < len(lines) and not lines[j].startswith("Error: Invariant") \
                    and not lines[j].startswith("Model checking") and not lines[j].startswith("Progress(") \
                    and not _REC.match(lines[j]):
                if lines[j].startswith("State "):
                    cur = []
                    last = cur
                elif lines[j].strip() and not lines[j].startswith("Error: The behavior"):
                    cur.append(lines[j])
                j += 1
            res.violations.append({"invariant": inv, "state": "\n".join(last)})
        elif ln.startswith("Error: ") and "The behavior up to this point" not in ln:
            if "Invariant" in ln and "violated" in ln:
                pass
            elif "Postcondition" in ln or "POSTCONDITION" in ln.upper():
                res.postcondition_failed = True
            else:
                res.errors.append(ln + " " + " ".join(lines[i + 1:i + 4]))
        else:
            m2 = re.match(r"^(\d+) states generated, (\d+) distinct states found", ln)
            if m2:
                res.generated = int(m2.group(1))
                res.distinct = int(m2.group(2))
            m3 = re.match(r"^<(\w+) line \d+, col \d+ to line \d+, col \d+ of module (\w+)>: (\d+):(\d+)", ln)
            if m3:
                res.coverage[m3.group(1)] = res.coverage.get(m3.group(1), 0) + int(m3.group(4))
        i += 1
    if "Model checking completed" not in out and "states generated" not in out:
        res.ok_completed = False


def run_one(module, cfg_path, workers, tag, env_extra=None, timeout=3600, coverage=True,
            simulate=None, extra_args=(), heap="3g", deque=False, tla_library=None):
    meta = os.path.join(scratch(), "meta-%s-%d" % (tag, int(time.time() * 1e6) % 10 ** 9))
    cmd = ["java", "-Xmx" + heap, "-Xss64m", "-XX:+UseParallelGC"]
    if deque:
        cmd.append("-Dtlc2.tool.queue.IStateQueue=StateDeque")
    if tla_library:
        cmd.append("-DTLA-Library=" + tla_library)
    cmd += ["-cp", JAR + ":" + DEPS, "tlc2.TLC", "-workers", str(workers), "-metadir", meta,
            "-noGenerateSpecTE", "-continue", "-config", cfg_path]
    if coverage:
        cmd += ["-coverage", "1"]
    if simulate:
        cmd += ["-simulate", simulate]
    cmd += list(extra_args)
    cmd.append(module if module.endswith(".tla") else module + ".tla")
    env = dict(os.environ)
    env.pop("JAVA_TOOL_OPTIONS", None)
    if env_extra:
        env.update(env_extra)
    t0 = time.time()
    res = TlcResult()
    try:
        p = subprocess.run(cmd, cwd=SPEC, env=env, stdout=subprocess.PIPE, stderr=subprocess.STDOUT,
                           timeout=timeout, text=True)
        out = p.stdout
        res.returncode = p.returncode
    except subprocess.TimeoutExpired as e:
        out = (e.stdout or b"").decode() if isinstance(e.stdout, bytes) else (e.stdout or "")
        res.errors.append("TLC timed out after %ss (%s)" % (timeout, tag))
        res.returncode = -1
    res.wall = time.time() - t0
    res.stdout = out
    parse_output(out, res)
    if res.returncode not in (0, 12, 13) and not res.errors:
        res.errors.append("TLC exit code %s (%s): %s" % (res.returncode, tag, out[-400:]))
    return res


def run_model(module, constants, invariants=(), shards=1, tag=None, workers=None, **kw):
    """Run a model, optionally sharded (constants Shard/NShards) over parallel JVMs."""
    tag = tag or module
    post = kw.pop("postcondition", None)
    constraint = kw.pop("constraint", None)
    spec = kw.pop("spec", "Spec")
    properties = kw.pop("properties", ())
    t0 = time.time()
    total = TlcResult()
    total.invariants = list(invariants)
    if shards <= 1:
        c = dict(constants)
        if "Shard" in c or kw.pop("sharded_constants", False):
            c["Shard"], c["NShards"] = 0, 1
        cfg = os.path.join(scratch(), "%s.cfg" % tag)
        write_cfg(cfg, c, invariants, properties, spec, post, constraint)
        total.merge(run_one(module, cfg, workers or NCPU, tag, **kw))
    else:
        kw.pop("sharded_constants", None)

        def go(i):
            c = dict(constants)
            c["Shard"], c["NShards"] = i, shards
            cfg = os.path.join(scratch(), "%s-%d.cfg" % (tag, i))
            write_cfg(cfg, c, invariants, properties, spec, post, constraint)
            return run_one(module, cfg, workers or 1, "%s-%d" % (tag, i), **kw)
        with ThreadPoolExecutor(max_workers=min(shards, NCPU)) as ex:
            for r in ex.map(go, range(shards)):
                total.merge(r)
    total.wall = time.time() - t0
    return total


TLAPS_LIB = "/opt/veriftools/tlapm/lib/tlapm/stdlib"


def sany_all():
    """Parse every module of the specification (setup / self-test).  Tables.tla extends TablesData, which is
    generated from the shipped .npz files at check time: generate it into the scratch directory first."""
    bad = []
    lib = scratch()
    try:
        import dtcwt
        from . import tables
        from .common import REPO
        names = ["antonini", "legall", "near_sym_a", "near_sym_b", "near_sym_b_bp", "qshift_06", "qshift_32", "qshift_a",
                 "qshift_b", "qshift_b_bp", "qshift_c", "qshift_d"]
        tables.write_tablesdata(lib, os.path.join(REPO, "pytorch_wavelets", "dtcwt", "data"),
                                os.path.join(os.path.dirname(dtcwt.__file__), "data"), names)
    except Exception as e:   # noqa
        bad.append(("TablesData generation", repr(e)))
    for fn in sorted(os.listdir(SPEC)):
        if fn.endswith(".tla"):
            libs = lib
            if fn.endswith("Proofs.tla"):       # the TLAPS modules need tlapm's standard library (TLAPS.tla)
                libs = lib + os.pathsep + TLAPS_LIB
            p = subprocess.run(["java", "-DTLA-Library=" + libs, "-cp", JAR + ":" + DEPS, "tla2sany.SANY", fn], cwd=SPEC,
                               stdout=subprocess.PIPE, stderr=subprocess.STDOUT, text=True)
            if "*** Errors" in p.stdout or "Fatal" in p.stdout or "Abort" in p.stdout:
                bad.append((fn, p.stdout[-500:]))
    return bad
