"""code -> spec: write recorded events as ndjson and let a TLC trace specification validate them."""
import json
import os

from . import tlc
from .common import scratch


def validate(rep, module, events, constants, label, batch=400, spec="Spec"):
    """Returns the list of rejected events (indices into `events`).  Machinery problems -> rep.fail."""
    rejected = []
    for b0 in range(0, len(events), batch):
        chunk = events[b0:b0 + batch]
        path = os.path.join(scratch(), "%s-%d.ndjson" % (label, b0))
        with open(path, "w") as f:
            for e in chunk:
                f.write(json.dumps(e) + "\n")
        cfg = os.path.join(scratch(), "%s-%d.cfg" % (label, b0))
        tlc.write_cfg(cfg, constants, invariants=["Verdict"], spec=spec)
        res = tlc.run_one(module, cfg, 1, "%s-%d" % (label, b0), env_extra={"TRACE_FILE": path},
                          coverage=False, timeout=3000)
        rep.add_tlc(res, label)
        verdicts = [r for r in res.records if r.get("kind") == "trace.verdict"]
        if res.errors or len(verdicts) != 1 or verdicts[0]["consumed"] != len(chunk):
            rep.fail("%s: trace validation did not complete (%s; verdicts=%s)" % (
                label, (res.errors or ["?"])[0][:300], verdicts[:1]))
            continue
        rejected += [b0 + k - 1 for k in verdicts[0]["rejected"]]
        rep.validated(len(chunk))
    return rejected
