"""TLC runs for the DWT family and the tables built from their replay records."""
import numpy as np

from . import models, tlc, dwtlib
from .common import NCPU


class OpTable:
    """(mode, N, L) -> replay record of MC_DWT1_Ops, with dense tensors built on demand"""

    def __init__(self, records):
        self.rec = {}
        for r in records:
            if r.get("kind") == "dwt1.op":
                self.rec[(r["mode"], r["N"], r["L"])] = r
        self._cache = {}

    def keys(self):
        return sorted(self.rec.keys())

    def has(self, mode, N, L):
        return (mode, N, L) in self.rec

    def _get(self, key, which):
        ck = (key, which)
        if ck not in self._cache:
            r = self.rec[key]
            mode, N, L = key
            if which == "a_ref":
                v = dwtlib.dense(r["a_ref"], r["a_len"], L, N)
            elif which == "a_impl":
                v = self._get(key, "a_ref") if r["a_same"] else dwtlib.dense(r["a_impl"], r["a_impl_len"], L, N)
            elif which == "s_ref":
                v = dwtlib.dense(r["s_ref"], r["s_len"], L, N) if r["s_feasible"] else None
            elif which == "s_impl":
                v = self._get(key, "s_ref") if r["s_same"] else dwtlib.dense(r["s_impl"], r["s_impl_len"], L, N)
            elif which == "ab_impl":      # AFB1D.backward as the code performs it: [N][L][M]
                v = np.transpose(self._get(key, "a_impl"), (2, 1, 0)) if r["ab_same"] else \
                    dwtlib.dense(r["ab_impl"], N, L, r["a_impl_len"])
            elif which == "sb_impl":      # SFB1D.backward: [M][L][P]
                v = np.transpose(self._get(key, "s_impl"), (2, 1, 0)) if r["sb_same"] else \
                    dwtlib.dense(r["sb_impl"], r["sb_impl_len"], L, r["s_impl_len"])
            self._cache[ck] = v
        return self._cache[ck]

    def ab_impl(self, mode, N, L):
        return self._get((mode, N, L), "ab_impl")

    def sb_impl(self, mode, M, L):
        return self._get((mode, M, L), "sb_impl")

    def a_ref(self, mode, N, L):
        return self._get((mode, N, L), "a_ref")

    def a_impl(self, mode, N, L):
        return self._get((mode, N, L), "a_impl")

    def s_ref(self, mode, M, L):
        return self._get((mode, M, L), "s_ref")

    def s_impl(self, mode, M, L):
        return self._get((mode, M, L), "s_impl")


def run_ops(rep, tier, invariants, label="MC_DWT1_Ops", **over):
    c = models.model(models.DWT1_OPS, tier, **over)
    # no -coverage here: its instrumentation slows the operator-heavy evaluation tenfold; the only
    # action is Pick, one per configuration, so the action count is the number of picked states
    res = tlc.run_model("MC_DWT1_Ops", c, invariants=["EmitOK"] + list(invariants), shards=NCPU,
                        tag=label, timeout=3000, coverage=False)
    res.coverage = {"Pick": res.distinct - NCPU}
    rep.add_tlc(res, label)
    design_check(rep, res, label)
    return res, OpTable(res.records)


def run_calls(rep, tier, invariants, apis, label="DWT1Calls", **over):
    c = models.model(models.DWT1_CALLS, tier, Apis=set(apis), **over)
    res = tlc.run_model("DWT1Calls", c, invariants=["EmitOK"] + list(invariants), shards=NCPU,
                        tag=label, timeout=3000)
    rep.add_tlc(res, label)
    design_check(rep, res, label)
    return res


def run_calls2(rep, tier, invariants, apis, label="DWT2", **over):
    c = models.model(models.DWT2_CALLS, tier, Apis=set(apis), **over)
    res = tlc.run_model("DWT2", c, invariants=["EmitOK"] + list(invariants), shards=NCPU,
                        tag=label, timeout=3000)
    rep.add_tlc(res, label)
    design_check(rep, res, label)
    return res


def design_check(rep, res, label):
    """TLC-level problems.  An invariant violation of a registered model means the model of the
    code (Impl) or a law of Ref fails at design level; the replay decides whether the real code
    deviates too (then it is reported there as a VIOLATION) - on its own it is a machinery alarm."""
    for e in res.errors[:5]:
        rep.fail("%s: TLC error: %s" % (label, e[:300]))
    if not res.ok_completed:
        rep.fail("%s: TLC did not complete" % label)
    seen = {}
    for v in res.violations:
        seen.setdefault(v["invariant"], []).append(v["state"])
    for inv, states in seen.items():
        rep.fail("%s: design-level invariant %s violated in %d state(s), e.g. %s" % (
            label, inv, len(states), states[0].replace("\n", " ")[:200]))


def small_inv(tier):
    """bounds of the inverse-call models (every None-mask multiplies the configurations)"""
    if tier == "quick":
        return dict(NSet=models.rng(2, 20), LSet=models.rng(2, 8, 2))
    return dict(NSet=models.rng(2, 40), LSet=models.rng(2, 12, 2))


def small_inv2(tier):
    if tier == "quick":
        return dict(HWCodes=models.code(models.sq(2, 7) | {(12, 3), (3, 12), (17, 2), (5, 17)}),
                    LCodes=models.code(models.eqpairs([2, 4])))
    return dict(HWCodes=models.code(models.sq(2, 12) | {(21, 3), (3, 21), (24, 5), (5, 24)}),
                LCodes=models.code(models.eqpairs([2, 4, 6])))


def grad_bounds(tier):
    if tier == "quick":
        return dict(NSet=models.rng(2, 16), LSet=models.rng(2, 8, 2))
    return dict(NSet=models.rng(2, 32), LSet=models.rng(2, 12, 2))


def grad_call_bounds(tier):
    if tier == "quick":
        return dict(NSet=models.rng(2, 12), LSet={2, 4, 6}, JMax=3)
    return dict(NSet=models.rng(2, 24), LSet={2, 4, 6, 8}, JMax=4)


def grad_call_bounds2(tier):
    if tier == "quick":
        return dict(HWCodes=models.code(models.sq(2, 6) | {(9, 3), (4, 9)}), LCodes=models.code(models.eqpairs([2, 4]) | {(2, 4), (4, 2)}), JMax=2)
    return dict(HWCodes=models.code(models.sq(2, 10) | {(15, 3), (4, 15)}),
                LCodes=models.code(models.eqpairs([2, 4, 6]) | {(2, 4), (4, 2), (6, 4), (2, 6)}), JMax=3)
