"""TLC runs for the DWT family and the tables built from their replay records."""
import numpy as np

from . import models, tlc, dwtlib
from .common import NCPU


class OpTable:
    """(mode, N, L) -> replay record of MC_DWT1_Ops, with dense tensors built on demand"""

    def __init__(self, records):
        self.rec = {}
        for r in records:
            if r.get("kind") == "dwt1.op":
                self.rec[(r["mode"], r["N"], r["L"])] = r
        self._cache = {}

    def keys(self):
        return sorted(self.rec.keys())

    def has(self, mode, N, L):
        return (mode, N, L) in self.rec

    def _get(self, key, which):
        ck = (key, which)
        if ck not in self._cache:
            r = self.rec[key]
            mode, N, L = key
            if which == "a_ref":
                v = dwtlib.dense(r["a_ref"], r["a_len"], L, N)
            elif which == "a_impl":
                v = self._get(key, "a_ref") if r["a_same"] else dwtlib.dense(r["a_impl"], r["a_impl_len"], L, N)
            elif which == "s_ref":
                v = dwtlib.dense(r["s_ref"], r["s_len"], L, N) if r["s_feasible"] else None
            elif which == "s_impl":
                v = self._get(key, "s_ref") if r["s_same"] else dwtlib.dense(r["s_impl"], r["s_impl_len"], L, N)
            self._cache[ck] = v
        return self._cache[ck]

    def a_ref(self, mode, N, L):
        return self._get((mode, N, L), "a_ref")

    def a_impl(self, mode, N, L):
        return self._get((mode, N, L), "a_impl")

    def s_ref(self, mode, M, L):
        return self._get((mode, M, L), "s_ref")

    def s_impl(self, mode, M, L):
        return self._get((mode, M, L), "s_impl")


def run_ops(rep, tier, invariants, label="MC_DWT1_Ops", **over):
    c = models.model(models.DWT1_OPS, tier, **over)
    res = tlc.run_model("MC_DWT1_Ops", c, invariants=list(invariants) + ["EmitOK"], shards=NCPU,
                        tag=label, timeout=3000)
    rep.add_tlc(res, label)
    design_check(rep, res, label)
    return res, OpTable(res.records)


def run_calls(rep, tier, invariants, apis, label="DWT1Calls", **over):
    c = models.model(models.DWT1_CALLS, tier, Apis=set(apis), **over)
    res = tlc.run_model("DWT1Calls", c, invariants=list(invariants) + ["EmitOK"], shards=NCPU,
                        tag=label, timeout=3000)
    rep.add_tlc(res, label)
    design_check(rep, res, label)
    return res


def run_calls2(rep, tier, invariants, apis, label="DWT2", **over):
    c = models.model(models.DWT2_CALLS, tier, Apis=set(apis), **over)
    res = tlc.run_model("DWT2", c, invariants=list(invariants) + ["EmitOK"], shards=NCPU,
                        tag=label, timeout=3000)
    rep.add_tlc(res, label)
    design_check(rep, res, label)
    return res


def design_check(rep, res, label):
    """TLC-level problems.  An invariant violation of a registered model means the model of the
    code (Impl) or a law of Ref fails at design level; the replay decides whether the real code
    deviates too (then it is reported there as a VIOLATION) - on its own it is a machinery alarm."""
    for e in res.errors[:5]:
        rep.fail("%s: TLC error: %s" % (label, e[:300]))
    if not res.ok_completed:
        rep.fail("%s: TLC did not complete" % label)
    seen = {}
    for v in res.violations:
        seen.setdefault(v["invariant"], []).append(v["state"])
    for inv, states in seen.items():
        rep.fail("%s: design-level invariant %s violated in %d state(s), e.g. %s" % (
            label, inv, len(states), states[0].replace("\n", " ")[:200]))
