"""known_findings.json: genuine defects of the pinned tree that are recorded, not repaired.

The file is committed and NEVER written at run time.  An entry identifies a finding by
(property, api, region, signature): a deviation observed by a check is attributed to the entry only
if the configuration lies in the entry's region AND the observed behaviour carries the entry's
signature (e.g. "the operator equals the model of the defective pipeline exactly", "raises
AttributeError").  Anything else is a new violation.  `fixed` holds the log lines of repaired
defects; they suppress nothing.
"""
import json
import os

from .common import VERIF

PATH = os.path.join(VERIF, "known_findings.json")


def load():
    with open(PATH) as f:
        d = json.load(f)
    return d


class Findings:
    def __init__(self):
        d = load()
        self.entries = [e for e in d.get("findings", [])]
        self.fixed = d.get("fixed", [])

    def match(self, prop, api, cfg, signature):
        """Return the entry that lists this deviation, or None."""
        for e in self.entries:
            if prop not in e["properties"]:
                continue
            if api not in e["api"]:
                continue
            # "raises" in an entry stands for an exception of any class ("raises:Class" for that class only)
            if signature not in e["signature"] and not (signature.startswith("raises") and "raises" in e["signature"]):
                continue
            try:
                if eval(e["region"], {"__builtins__": {}}, dict(cfg, min=min, max=max, any=any, all=all, len=len)):
                    return e
            except Exception:
                continue
        return None
