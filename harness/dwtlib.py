"""Operator extraction and assembly for the DWT family (dwt/lowlevel.py, transform1d/2d.py).

extract_*   : run the REAL library on identity batches with indicator / integer taps and return the
              integer tensors  op[o][t][i]  (see spec/Op.tla) or full matrices.
dense/mat   : turn the entry sets printed by TLC into numpy tensors / matrices for given taps.
All probing is done in float64 on small integers, so every comparison is exact (==).
"""
import numpy as np
import torch

import pytorch_wavelets as pw
from pytorch_wavelets.dwt import lowlevel as ll

MODES = ["zero", "symmetric", "reflect", "periodic", "periodization"]


class Raised:
    def __init__(self, exc):
        self.exc = exc
        self.type = type(exc).__name__

    def __repr__(self):
        return "Raised(%s: %s)" % (self.type, str(self.exc)[:80])


def f64():
    torch.set_default_dtype(torch.float64)


def give_past(mod, example):
    """Earlier calls on a module before the call that is compared with the oracle: the same argument structure in float32,
    bfloat16 and float16 (rejected today - the buffers have another dtype - or computed in that precision; either way the
    module must come out of it unchanged).  Exceptions are the business of other checks and are ignored here."""
    def cast(a, dt):
        if isinstance(a, torch.Tensor):
            return torch.zeros_like(a, dtype=dt)
        if isinstance(a, (list, tuple)):
            return type(a)(cast(v, dt) for v in a)
        return a
    for dt in (torch.float32, torch.bfloat16, torch.float16):
        if isinstance(example, torch.Tensor) and example.dtype == dt:
            continue
        try:
            with torch.no_grad():
                mod(cast(example, dt))
        except Exception:   # noqa
            pass
    return mod


def dense(entries, no, nt, ni):
    a = np.zeros((no, nt, ni), dtype=np.int64)
    for o, t, i, c in entries:
        a[o, t, i] = c
    return a


def mat(op, taps):
    """matrix of a one-stage operator for concrete taps: out = M @ in"""
    return np.einsum("oti,t->oi", op, np.asarray(taps))


def ind(L, j, scale=1.0):
    v = np.zeros(L)
    v[j] = scale
    return v


def _probe_pairs(L):
    """tap pairs (lo = e_j, hi = 2 e_j') with j' != j whenever L > 1, so that the two bands are
    distinguishable and a swapped or shared filter cannot go unnoticed"""
    return [(j, (j + 1) % L) for j in range(L)]


def extract_fwd1(mode, N, L):
    """one-level DWT1DForward: returns (lo_op, hi_op) as [M, L, N] integer tensors, or Raised"""
    f64()
    X = torch.eye(N).reshape(N, 1, N)
    lo = hi = None
    for j, jj in _probe_pairs(L):
        try:
            m = pw.DWT1DForward(J=1, wave=(ind(L, j), ind(L, jj, 2.0)), mode=mode)
            yl, yh = m(X)
        except Exception as e:   # noqa
            return Raised(e)
        a = yl[:, 0, :].numpy().T          # [k, n]
        d = yh[0][:, 0, :].numpy().T / 2.0
        if lo is None:
            lo = np.zeros((a.shape[0], L, N))
            hi = np.zeros((d.shape[0], L, N))
        lo[:, j, :] = a
        hi[:, jj, :] = d
    return lo, hi


def extract_inv1(mode, M, L):
    """one-level DWT1DInverse on free coefficient vectors of length M:
    returns (lo_op, hi_op) as [P, L, M], or Raised"""
    f64()
    E = torch.eye(M).reshape(M, 1, M)
    Z = torch.zeros(M, 1, M)
    lo = hi = None
    for j, jj in _probe_pairs(L):
        try:
            m = pw.DWT1DInverse(wave=(ind(L, j), ind(L, jj, 2.0)), mode=mode)
            a = m((E, [Z]))[:, 0, :].numpy().T       # [q, k]
            d = m((Z, [E]))[:, 0, :].numpy().T / 2.0
        except Exception as e:   # noqa
            return Raised(e)
        if lo is None:
            lo = np.zeros((a.shape[0], L, M))
            hi = np.zeros((d.shape[0], L, M))
        lo[:, j, :] = a
        hi[:, jj, :] = d
    return lo, hi


def int_taps(rng, L, B=9):
    """random non-zero small integer taps (exact in float64 through several levels)"""
    t = rng.integers(1, B + 1, size=L) * rng.choice([-1, 1], size=L)
    return t.astype(np.float64)


def eq_int(a, b):
    return a.shape == b.shape and np.array_equal(a, b)


def diff_entries(obs, exp, limit=8):
    """first few differing entries (index, observed, expected)"""
    if obs.shape != exp.shape:
        return [["shape", list(obs.shape), list(exp.shape)]]
    idx = np.argwhere(obs != exp)
    return [[list(map(int, i)), float(obs[tuple(i)]), float(exp[tuple(i)])] for i in idx[:limit]]


FORMS = ("string", "pywt.Wavelet", "custom pywt.Wavelet(filter_bank)", "tuple of arrays", "tuple of lists")


def wave_form(name, k, synthesis=False):
    """the `wave` argument of a DWT module for the wavelet `name` in the k-th accepted form (the constructors take a
    different path for each) -> (argument, label)"""
    import pywt
    w = pywt.Wavelet(name)
    form = FORMS[k % len(FORMS)]
    if form == "string":
        return name, form
    if form == "pywt.Wavelet":
        return w, form
    if form == "custom pywt.Wavelet(filter_bank)":
        return pywt.Wavelet("custom_" + name.replace(".", "_"), filter_bank=w.filter_bank), form
    lo, hi = (w.rec_lo, w.rec_hi) if synthesis else (w.dec_lo, w.dec_hi)
    if form == "tuple of arrays":
        return (np.array(lo), np.array(hi)), form
    return (list(lo), list(hi)), form
