"""Autograd regimes.  The VJP layers of C05 / C06 / C09 establish what ONE backward pass through ONE call returns.  A hand-written
Function can also go wrong in how it keeps what its backward needs: stashed on the module or in a module-level variable instead
of on `ctx` (a second forward before the first backward overwrites it), a saved tensor or the incoming cotangent modified in
place (a second backward through a retained graph differs), a missing gradient treated differently from a zero one.  These are
checked differentially - the same gradients computed one call per graph, which the VJP layers have decided - so no tolerance
beyond rounding is involved and regions with known findings cancel out."""
import numpy as np
import torch

import pytorch_wavelets as pw

from . import dwtlib
from .common import seed


def _flat(o):
    out = []

    def rec(t):
        if isinstance(t, torch.Tensor):
            if t.dim() > 1:
                out.append(t)
        elif isinstance(t, (list, tuple)):
            for q in t:
                rec(q)
    rec(o)
    return out


def _leafify(arg):
    """clone every real tensor of an argument structure into a leaf requiring grad -> (structure, leaves)"""
    leaves = []

    def rec(t):
        if isinstance(t, torch.Tensor):
            if t.dim() > 1:
                l = t.detach().clone().requires_grad_(True)
                leaves.append(l)
                return l
            return t
        if isinstance(t, (list, tuple)):
            return type(t)(rec(q) for q in t)
        return t
    return rec(arg), leaves


def _grads(mod, arg, cots):
    a, leaves = _leafify(arg)
    outs = _flat(mod(a))
    return torch.autograd.grad(outs, leaves, cots, allow_unused=True)


def _close(a, b):
    if a is None or b is None:
        return a is None and b is None
    return a.shape == b.shape and bool(float((a - b).abs().max()) <= 1e-12 * (float(b.abs().max()) + 1e-300))


def regimes(rep, pid, cases, label):
    """cases: list of (name, make_module, [arg1, arg2]) with arg1/arg2 of DIFFERENT sizes"""
    rng = np.random.default_rng(70000 + seed())
    dwtlib.f64()
    n = 0
    for case_ in cases:
        name, make, args = case_[:3]
        other = case_[3] if len(case_) > 3 else None
        mod = make()
        cots, alone = [], []
        for a in args:
            with torch.no_grad():
                outs = _flat(mod(a))
            c = [torch.tensor(rng.standard_normal(tuple(o.shape))) for o in outs]
            cots.append(c)
            alone.append(_grads(mod, a, c))                       # one call per graph: the reference
        cfg = dict(module=name, sizes=[[list(t.shape) for t in _flat(a)][:2] for a in args])
        case = {"api": name, "check": "autograd_regime", "cfg": cfg}

        def report(what):
            rep.violation("%s: %s - the gradient differs from the one obtained with one call per graph (%s)" % (name, what, label), dict(case, regime=what))

        # (a) two forward calls (different sizes) on ONE module before one backward
        rep.validated()
        rep.nontriv(("regime", name, "two calls, one backward"))
        n += 1
        s1, l1 = _leafify(args[0])
        s2, l2 = _leafify(args[1])
        o1, o2 = _flat(mod(s1)), _flat(mod(s2))
        g = torch.autograd.grad(o1 + o2, l1 + l2, cots[0] + cots[1], allow_unused=True)
        if not all(_close(p, q) for p, q in zip(g, list(alone[0]) + list(alone[1]))):
            report("two forward calls with different sizes on one module object, then one backward")
        # (a') the same with two module OBJECTS of the same configuration
        mod2 = make()
        s1, l1 = _leafify(args[0])
        s2, l2 = _leafify(args[1])
        o1, o2 = _flat(mod(s1)), _flat(mod2(s2))
        g = torch.autograd.grad(o2 + o1, l2 + l1, cots[1] + cots[0], allow_unused=True)
        rep.validated()
        n += 1
        if not all(_close(p, q) for p, q in zip(g, list(alone[1]) + list(alone[0]))):
            report("forward calls on two module objects of the same configuration, then one backward")
        # (a'') a module of ANOTHER configuration (other filters, same shapes) runs forward between this call's forward and backward
        if other is not None:
            rep.validated()
            rep.nontriv(("regime", name, "other configuration in between"))
            n += 1
            mo = other()
            s1, l1 = _leafify(args[0])
            o1 = _flat(mod(s1))
            s2, l2 = _leafify(args[1])
            o2 = _flat(mo(s2))
            with torch.no_grad():
                c2 = [torch.ones_like(o) for o in o2]
            g = torch.autograd.grad(o1 + o2, l1 + l2, cots[0] + c2, allow_unused=True)
            if not all(_close(p, q) for p, q in zip(g[:len(l1)], alone[0])):
                report("a forward call of a module with OTHER filters (same kind of transform) between this call's forward and its backward")
        # (b) backward twice through a retained graph; the cotangents handed in stay untouched
        rep.validated()
        rep.nontriv(("regime", name, "backward twice"))
        n += 1
        s1, l1 = _leafify(args[0])
        o1 = _flat(mod(s1))
        keep = [c.clone() for c in cots[0]]
        cots_b = [c.flip(-1) * -0.5 + 0.25 for c in cots[0]]          # the second backward carries OTHER cotangents
        alone_b = _grads(mod, args[0], cots_b)
        ga = torch.autograd.grad(o1, l1, cots[0], retain_graph=True, allow_unused=True)
        gb = torch.autograd.grad(o1, l1, cots_b, allow_unused=True)
        # ga is looked at AFTER the second backward: a gradient handed out must stay what it was
        if not all(_close(p, q) for p, q in zip(ga, alone[0])) or not all(_close(p, q) for p, q in zip(gb, alone_b)):
            report("a second backward (other cotangents) through the retained graph, the first gradient re-read afterwards")
        # (b') two calls of the SAME size on non-leaf inputs (x = 1.5 u, x' = -0.5 u'), one backward: each upstream node must
        # receive its own gradient
        rep.validated()
        rep.nontriv(("regime", name, "same size, non-leaf inputs"))
        n += 1

        def scaled(arg, f):
            st, lv = _leafify(arg)

            def rec(t):
                if isinstance(t, torch.Tensor):
                    return t * f if t.dim() > 1 else t
                if isinstance(t, (list, tuple)):
                    return type(t)(rec(q) for q in t)
                return t
            return rec(st), lv
        xa, la = scaled(args[0], 1.5)
        ra = torch.autograd.grad(_flat(mod(xa)), la, cots[0], allow_unused=True)            # own graph: the reference
        xb, lb = scaled(args[0], -0.5)
        rb = torch.autograd.grad(_flat(mod(xb)), lb, cots_b, allow_unused=True)
        xa, la = scaled(args[0], 1.5)
        xb, lb = scaled(args[0], -0.5)
        g = torch.autograd.grad(_flat(mod(xa)) + _flat(mod(xb)), la + lb, cots[0] + cots_b, allow_unused=True)
        if not all(_close(p, q) for p, q in zip(g, list(ra) + list(rb))):
            report("two calls of the same size on non-leaf inputs in one graph, one backward")
        if not all(torch.equal(p, q) for p, q in zip(keep, cots[0])):
            rep.violation("%s: back-propagation modified the cotangent tensors it was handed" % name, dict(case, regime="cotangent mutated"))
        # (s) two layers STACKED (the output of one is the input of the next, one backward through both) against the chain rule
        # evaluated with one graph per layer
        if other is not None and len(case_) > 4 and case_[4] == "stackable":
            rep.validated()
            rep.nontriv(("regime", name, "stacked"))
            n += 1
            l2 = other()
            x0 = args[0].detach().clone().requires_grad_(True)
            mid = mod(x0)
            top = l2(mid)
            ct = torch.tensor(rng.standard_normal(tuple(top.shape)))
            g_stack, = torch.autograd.grad(top, x0, ct)
            m_leaf = mid.detach().clone().requires_grad_(True)
            g_mid, = torch.autograd.grad(l2(m_leaf), m_leaf, ct)
            x1 = args[0].detach().clone().requires_grad_(True)
            g_chain, = torch.autograd.grad(mod(x1), x1, g_mid)
            if not _close(g_stack, g_chain):
                report("two layers stacked in one graph (one backward through both) vs the chain rule with one graph per layer")
        # (c) only a subset of the outputs is used: a missing gradient must act like a zero gradient
        if len(cots[0]) >= 2:
            for keep_idx in ([0], [len(cots[0]) - 1], list(range(1, len(cots[0])))):
                rep.validated()
                n += 1
                s1, l1 = _leafify(args[0])
                o1 = _flat(mod(s1))
                gsub = torch.autograd.grad([o1[k] for k in keep_idx], l1, [cots[0][k] for k in keep_idx], allow_unused=True)
                zc = [c if k in keep_idx else torch.zeros_like(c) for k, c in enumerate(cots[0])]
                gz = _grads(mod, args[0], zc)
                ok = True
                for p, q in zip(gsub, gz):
                    if p is None:
                        ok = ok and (q is None or float(q.abs().max()) == 0.0)
                    else:
                        ok = ok and _close(p, q)
                if not ok:
                    report("a loss that uses only outputs %s (the others receive no gradient) vs explicit zero cotangents" % keep_idx)
        # (d) the memory layout of the cotangents: `loss = y.sum()` hands the backward an EXPANDED scalar (all strides 0), a
        # transposed / sliced downstream consumer a non-contiguous view - the gradient is that of the contiguous copy
        for lname, relay in (("expanded scalar (what .sum().backward() delivers)",
                              lambda c, k: torch.full((), 0.25 * (k + 1), dtype=c.dtype).expand(c.shape)),
                             ("non-contiguous (transposed storage)",
                              lambda c, k: c.transpose(-1, -2).contiguous().transpose(-1, -2)),
                             ("non-contiguous (every second element of a larger buffer)",
                              lambda c, k: torch.stack((c, -c), dim=-1).reshape(c.shape[:-1] + (2 * c.shape[-1],))[..., ::2])):
            rep.validated()
            rep.nontriv(("regime", name, "cotangent layout", lname))
            n += 1
            cl = [relay(c, k) for k, c in enumerate(cots[0])]
            ref = _grads(mod, args[0], [c.contiguous().clone() for c in cl])
            got = _grads(mod, args[0], cl)
            if not all(_close(p, q) for p, q in zip(got, ref)):
                report("cotangents handed over as %s tensors vs their contiguous copies" % lname)
        # (e) STRUCTURED cotangents.  Back-propagation is linear in the cotangent; a backward that looks at the cotangent's values
        # ("nothing flows back through these bands: skip them") is exercised only by cotangents with structure - confined to one
        # band / part / channel block, one-hot, or cancelling - which a dense random one never has.  For splits g = p + q of the
        # dense cotangent and for contrasts e_i - e_j: VJP(p) + VJP(q) = VJP(g), VJP(e_i - e_j) = VJP(e_i) - VJP(e_j).
        dense = alone[0]

        def vjp(cl):
            return _grads(mod, args[0], cl)

        def add(ga, gb, sign=1.0):
            out = []
            for p_, q_ in zip(ga, gb):
                if p_ is None and q_ is None:
                    out.append(None)
                else:
                    a_ = p_ if p_ is not None else torch.zeros_like(q_)
                    b_ = q_ if q_ is not None else torch.zeros_like(p_)
                    out.append(a_ + sign * b_)
            return out

        def same(ga, gb):
            for p_, q_ in zip(ga, gb):
                if p_ is None or q_ is None:
                    other_ = q_ if p_ is None else p_
                    if other_ is not None and float(other_.abs().max()) > 0.0:
                        return False
                elif not _close(p_, q_):
                    return False
            return True
        zeros = [torch.zeros_like(c) for c in cots[0]]
        for ti, c in enumerate(cots[0]):
            splits = []
            for ax in range(1, c.dim()):
                sz = c.shape[ax]
                if sz < 2:
                    continue
                if sz <= 8:
                    ks = [("index %d of axis %d" % (k_, ax), slice(k_, k_ + 1)) for k_ in sorted({0, int(rng.integers(sz)), sz - 1})]
                elif ax == 1:
                    ks = [("the first %d of the %d channels" % (k_, sz), slice(0, k_)) for k_ in sorted({1, sz // 7 if sz % 7 == 0 else 1, sz // 49 if sz % 49 == 0 else 1, sz // 2})]
                else:
                    continue
                for lbl, sl in ks:
                    m_ = torch.zeros_like(c)
                    idx = [slice(None)] * c.dim()
                    idx[ax] = sl
                    m_[tuple(idx)] = 1.0
                    splits.append((lbl, m_))
            for lbl, m_ in splits:
                rep.validated()
                n += 1
                part = [z.clone() for z in zeros]
                part[ti] = c * m_
                rest = [x_.clone() for x_ in cots[0]]
                rest[ti] = c * (1.0 - m_)
                if not same(add(vjp(part), vjp(rest)), dense):
                    report("a cotangent confined to %s of output %d, plus the rest, vs the dense cotangent (back-propagation is "
                           "linear in the cotangent)" % (lbl, ti))
                    break
            rep.nontriv(("regime", name, "structured cotangents", ti))
            for _ in range(4):
                pos = [int(rng.integers(sz)) for sz in c.shape]
                pos2 = list(pos)
                sp = [ax for ax in range(max(c.dim() - 2, 1), c.dim()) if c.shape[ax] > 1]
                if not sp:
                    break
                for ax in sp:
                    pos2[ax] = (pos[ax] + 1 + int(rng.integers(c.shape[ax] - 1))) % c.shape[ax]
                ei, ej = [z.clone() for z in zeros], [z.clone() for z in zeros]
                ei[ti][tuple(pos)] = 1.0
                ej[ti][tuple(pos2)] = 1.0
                con = [z.clone() for z in zeros]
                con[ti][tuple(pos)] = 1.0
                con[ti][tuple(pos2)] = -1.0
                rep.validated()
                n += 1
                if not same(vjp(con), add(vjp(ei), vjp(ej), -1.0)):
                    report("the contrast cotangent e_i - e_j (positions %s and %s of output %d: its entries cancel) vs VJP(e_i) - VJP(e_j)" % (pos, pos2, ti))
                    break
    rep.count("autograd_regime_cases", n)


def dwt_cases():
    dwtlib.f64()
    rng = np.random.default_rng(71000 + seed())
    t = lambda *s: torch.tensor(rng.standard_normal(s))   # noqa

    def pyr1(mode, wave, J, n):
        with torch.no_grad():
            yl, yh = pw.DWT1DForward(J=J, wave=wave, mode=mode)(t(2, 2, n))
        return (torch.randn_like(yl), [torch.randn_like(h) for h in yh])

    def pyr2(mode, wave, J, h, w):
        with torch.no_grad():
            yl, yh = pw.DWTForward(J=J, wave=wave, mode=mode)(t(1, 2, h, w))
        return (torch.randn_like(yl), [torch.randn_like(q) for q in yh])
    cases = []
    for mode in ("zero", "periodization", "symmetric"):
        # the 4th entry: a module of the same kind with OTHER filters of the same length (accepts the same shapes)
        cases.append(("DWT1DForward(db2,%s,J=2)" % mode, lambda mode=mode: pw.DWT1DForward(J=2, wave="db2", mode=mode), [t(2, 2, 16), t(2, 2, 12)],
                      lambda mode=mode: pw.DWT1DForward(J=2, wave=([0.5, 1.0, -0.25, 0.125], [0.25, -1.0, 0.5, 2.0]), mode=mode)))
        cases.append(("DWTForward(db3,%s,J=2)" % mode, lambda mode=mode: pw.DWTForward(J=2, wave="db3", mode=mode), [t(1, 2, 16, 12), t(1, 2, 8, 20)],
                      lambda mode=mode: pw.DWTForward(J=2, wave="coif1", mode=mode)))
        cases.append(("DWT1DInverse(db2,%s)" % mode, lambda mode=mode: pw.DWT1DInverse(wave="db2", mode=mode),
                      [pyr1(mode, "db2", 2, 16), pyr1(mode, "db2", 2, 12)],
                      lambda mode=mode: pw.DWT1DInverse(wave=([0.5, 1.0, -0.25, 0.125], [0.25, -1.0, 0.5, 2.0]), mode=mode)))
        cases.append(("DWTInverse(db3,%s)" % mode, lambda mode=mode: pw.DWTInverse(wave="db3", mode=mode),
                      [pyr2(mode, "db3", 2, 16, 12), pyr2(mode, "db3", 2, 8, 20)], lambda mode=mode: pw.DWTInverse(wave="coif1", mode=mode)))
    return cases


def dtcwt_cases():
    dwtlib.f64()
    rng = np.random.default_rng(72000 + seed())
    t = lambda *s: torch.tensor(rng.standard_normal(s))   # noqa

    def pyr(J, h, w, **kw):
        with torch.no_grad():
            yl, yh = pw.DTCWTForward(J=J, **kw)(t(1, 2, h, w))
        return (torch.randn_like(yl), [torch.randn_like(q) for q in yh])
    cases = [("DTCWTForward(J=3)", lambda: pw.DTCWTForward(J=3), [t(1, 2, 16, 24), t(1, 2, 12, 20)],
              lambda: pw.DTCWTForward(J=3, biort="legall", qshift="qshift_06")),            # same tap count as qshift_a, other values
             ("DTCWTForward(near_sym_b,qshift_b,J=2,o_dim=1,ri_dim=2)", lambda: pw.DTCWTForward(biort="near_sym_b", qshift="qshift_b", J=2, o_dim=1, ri_dim=2),
              [t(2, 1, 10, 14), t(2, 1, 16, 8)], lambda: pw.DTCWTForward(biort="near_sym_a", qshift="qshift_c", J=2, o_dim=1, ri_dim=2)),
             ("DTCWTInverse()", lambda: pw.DTCWTInverse(), [pyr(3, 16, 24), pyr(2, 12, 20)], lambda: pw.DTCWTInverse(biort="legall", qshift="qshift_06")),
             ("DTCWTInverse(near_sym_b,qshift_b,o_dim=1,ri_dim=2)", lambda: pw.DTCWTInverse(biort="near_sym_b", qshift="qshift_b", o_dim=1, ri_dim=2),
              [pyr(2, 10, 14, biort="near_sym_b", qshift="qshift_b", o_dim=1, ri_dim=2), pyr(2, 16, 8, biort="near_sym_b", qshift="qshift_b", o_dim=1, ri_dim=2)],
              lambda: pw.DTCWTInverse(biort="antonini", qshift="qshift_d", o_dim=1, ri_dim=2))]
    return cases


def scat_cases():
    dwtlib.f64()
    rng = np.random.default_rng(73000 + seed())
    t = lambda *s: torch.tensor(rng.standard_normal(s))   # noqa
    return [("ScatLayer()", lambda: pw.ScatLayer(), [t(1, 2, 8, 12), t(1, 2, 7, 9)], lambda: pw.ScatLayer(biort="near_sym_b", magbias=0.3), "stackable"),
            ("ScatLayer(near_sym_b_bp)", lambda: pw.ScatLayer(biort="near_sym_b_bp"), [t(2, 1, 12, 8), t(1, 2, 6, 10)], lambda: pw.ScatLayer(magbias=0.5), "stackable"),
            ("ScatLayer(near_sym_b_bp,colour)", lambda: pw.ScatLayer(biort="near_sym_b_bp", combine_colour=True), [t(1, 3, 8, 8), t(2, 3, 6, 10)]),
            ("ScatLayer(mode=zero)", lambda: pw.ScatLayer(mode="zero"), [t(1, 2, 8, 10), t(2, 1, 6, 6)], lambda: pw.ScatLayer(biort="near_sym_b", mode="zero")),
            ("ScatLayer(near_sym_b,colour,mode=zero)", lambda: pw.ScatLayer(biort="near_sym_b", combine_colour=True, mode="zero"), [t(1, 3, 8, 8), t(1, 3, 6, 10)]),
            ("ScatLayerj2()", lambda: pw.ScatLayerj2(), [t(1, 2, 16, 8), t(1, 1, 12, 10)], lambda: pw.ScatLayerj2(biort="near_sym_b", qshift="qshift_c")),
            ("ScatLayerj2(near_sym_b_bp)", lambda: pw.ScatLayerj2(biort="near_sym_b_bp", qshift="qshift_b_bp"), [t(1, 2, 8, 16), t(1, 2, 16, 16)])]


# ------------------------------------------------------------------------------------------------------------------
# TLC-generated tape behaviours (spec/Tape.tla) replayed into the real modules
# ------------------------------------------------------------------------------------------------------------------
def tape_histories(rep, tier, label="Tape"):
    """-> list of histories (lists of forward / backward events).  The exhaustive run checks TapeOwn / ResultOwn on every
    behaviour up to the depth; the histories to replay come from the same run (quick) or from a deeper simulation (thorough)."""
    import os
    from . import tlc
    from .common import scratch, NCPU
    from .dwtmodel import design_check
    c = dict(Calls={1, 2, 3}, Mods={"A", "A2", "B"}, Args={1, 2}, Cots={1, 2}, Depth=4, StashOnModule=False, SharedResult=False)
    res = tlc.run_model("Tape", c, invariants=["EmitHist", "TapeOwn", "ResultOwn"], shards=1, tag=label, timeout=900, workers=NCPU, coverage=False)
    rep.add_tlc(res, label + " (exhaustive, depth 4)")
    design_check(rep, res, label)
    hs = [r["hist"] for r in res.records if r.get("kind") == "tape.history"]
    if tier != "quick":
        cfg = os.path.join(scratch(), "tape-sim.cfg")
        tlc.write_cfg(cfg, dict(c, Depth=6), ["EmitHist", "TapeOwn", "ResultOwn"])
        sim = tlc.run_one("Tape", cfg, 1, "Tape.sim", coverage=False, simulate="num=1500", extra_args=["-depth", "8", "-seed", str(11 + seed())], timeout=900)
        rep.add_tlc(sim, label + " (-simulate, depth 6)")
        hs += [r["hist"] for r in sim.records if r.get("kind") == "tape.history"]
    # distinct behaviours with at least two forward calls before some backward, or a call differentiated twice - the others
    # are the one-call-per-graph situation the VJP layers decide
    uniq, seen = [], set()
    for h in hs:
        key = repr(h)
        if key in seen:
            continue
        seen.add(key)
        fwd_open = 0
        interesting = False
        nb = {}
        for e in h:
            if e["a"] == "forward":
                fwd_open += 1
            else:
                nb[e["c"]] = nb.get(e["c"], 0) + 1
                if fwd_open >= 2 or nb[e["c"]] >= 2:
                    interesting = True
        if interesting:
            uniq.append(h)
    return uniq


def tape_replay(rep, pid, cases, histories, per_case):
    """replay `per_case` of the histories (a deterministic spread) into every case (name, make, [arg1, arg2], other, ...)"""
    rng = np.random.default_rng(74000 + seed())
    dwtlib.f64()
    n = 0
    for ci, case_ in enumerate(cases):
        name, make, args = case_[:3]
        other = case_[3] if len(case_) > 3 and case_[3] is not None else make
        objs = {"A": make(), "A2": make(), "B": other()}
        cots, ref = {}, {}
        for x in (1, 2):
            with torch.no_grad():
                outs = _flat(objs["A"](args[x - 1]))
            for k in (1, 2):
                cots[(x, k)] = [torch.tensor(rng.standard_normal(tuple(o.shape))) for o in outs]
        for m in objs:
            for x in (1, 2):
                for k in (1, 2):
                    ref[(m, x, k)] = _grads(objs[m], args[x - 1], cots[(x, k)])          # one call per graph
        step = max(1, len(histories) // per_case)
        for h in histories[ci % step::step][:per_case]:
            live, held, bad = {}, [], None
            rep.validated()
            n += 1
            try:
                for e in h:
                    if e["a"] == "forward":
                        s_, l_ = _leafify(args[e["x"] - 1])
                        live[e["c"]] = (_flat(objs[e["m"]](s_)), l_, e["m"], e["x"])
                    else:
                        outs, leaves, m, x = live[e["c"]]
                        g = torch.autograd.grad(outs, leaves, cots[(x, e["k"])], retain_graph=bool(e["retain"]), allow_unused=True)
                        held.append((g, ref[(m, x, e["k"])], e))
                        if not all(_close(p, q) for p, q in zip(g, ref[(m, x, e["k"])])):
                            bad = "the backward of call %d (event %r)" % (e["c"], e)
                            break
                if bad is None:
                    for g, r_, e in held:               # HeldStable: gradients handed out earlier are re-read at the end
                        if not all(_close(p, q) for p, q in zip(g, r_)):
                            bad = "a gradient handed out earlier (event %r) changed afterwards" % (e,)
                            break
            except Exception as ex:   # noqa
                bad = "raised %r" % ex
            if bad:
                rep.violation("%s: a TLC-generated sequence of forward / backward events (spec/Tape.tla) is not reproduced by the real module - %s: "
                              "the gradient differs from the one obtained with one call per graph" % (name, bad),
                              {"api": name, "check": "tape_replay", "history": h})
            if n == 1 and not bad:
                rep.sample({"tape_history": h, "module": name, "observed": "every gradient equals its one-call-per-graph reference; held gradients unchanged"})
    rep.nontriv(("tape_replay", pid, n))
    rep.count("tape_behaviours_replayed", n)
