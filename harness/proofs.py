"""The deductive third of the trifecta: TLAPS proofs (spec/IdxProofs.tla) of the index facts that the bounded TLC models
establish by enumeration, for ALL sizes.  The proofs are about the specification's own definitions (module Idx, which the
Ref and Impl layers of every family are built on), so a failure is never a verdict on the code: at run time it can only be
a time-out of a back end on a loaded machine, and is reported as a diagnostic."""
import os
import re
import subprocess
import time

from .common import SPEC, scratch

MODULES = ["IdxProofs", "HelpersProofs", "DWT1Proofs", "SWTProofs", "DTCWT1Proofs", "ScatProofs", "TapeProofs", "SessionProofs"]


def prove(module="IdxProofs", stretch=1, timeout=1500, mutate=None):
    """-> dict(module, obligations, proved, failed, wall_s, ok, tail); mutate = (old, new) text replaced in a scratch copy of
    Idx.tla (self-test: the proofs must then fail)"""
    cache = os.path.join(scratch(), "tlapm-" + module + ("-mut" if mutate else ""))
    spec = SPEC
    if mutate:
        import glob
        import shutil
        spec = os.path.join(scratch(), "spec-mut")
        os.makedirs(spec, exist_ok=True)
        for f in glob.glob(os.path.join(SPEC, "*.tla")):
            shutil.copy(f, spec)
        target = mutate[2] if len(mutate) > 2 else "Idx.tla"
        src = open(os.path.join(spec, target)).read()
        assert mutate[0] in src
        open(os.path.join(spec, target), "w").write(src.replace(mutate[0], mutate[1]))
    cmd = ["tlapm", "--cleanfp", "--cache-dir", cache, "-I", spec, "--stretch", str(stretch),
           os.path.join(spec, module + ".tla")]
    t0 = time.time()
    try:
        p = subprocess.run(cmd, stdout=subprocess.PIPE, stderr=subprocess.STDOUT, text=True, timeout=timeout, cwd=scratch())
        out = p.stdout
    except (subprocess.TimeoutExpired, OSError) as e:
        return dict(module=module, obligations=0, proved=0, failed=-1, wall_s=round(time.time() - t0, 1), ok=False, tail=str(e)[:300])
    m = re.search(r"All (\d+) obligations? proved", out)
    if m:
        n = int(m.group(1))
        return dict(module=module, obligations=n, proved=n, failed=0, wall_s=round(time.time() - t0, 1), ok=True, tail="")
    m = re.search(r"(\d+)/(\d+) obligations? failed", out)
    f, n = (int(m.group(1)), int(m.group(2))) if m else (-1, 0)
    lines = [l for l in out.splitlines() if "Could not prove" in l or l.startswith("File ")]
    return dict(module=module, obligations=n, proved=max(n - f, 0), failed=f, wall_s=round(time.time() - t0, 1), ok=False,
                tail=" | ".join(lines[:6])[:600])


THEOREMS_D = ["PadAmounts", "AnalysisLenAll", "AnalysisSrcAll", "SynthesisAll", "RoundTripLen", "ModEqZero", "Half"]
THEOREMS_P = ["TapeOwnInductive", "ResultOwnWithoutSharing"]
THEOREMS_N = ["NoMemo", "AppendKeeps", "SessionSafe", "SessionNoForeignWrite"]
THEOREMS_C = ["DivUnique", "Size1All", "Ext8All", "ChanViewsAll"]
THEOREMS_S = ["SwtPads", "SwtFullResolution", "SwtSrcAll", "ModAdd", "SwtShiftEquivariant"]
THEOREMS_T = ["ColdCountAll", "ColdPosAll", "ColdSrcAll", "IfiltPosAll"]
THEOREMS_H = ["PadMatchesPywtAll", "PadInRangeAll", "RollPlainIsIdx", "RollPlainIsCyclic", "ModeCodesRoundTrip", "PrepContractHolds"]
THEOREMS = ["SrcExtRange", "SrcExtInterior", "HelperSymmIsSymmetric", "HelperWrapIsPeriodic", "HelperTorchReflectIsReflect",
            "RollIsCyclic", "PeriodicPeriod", "SymmetricPeriod", "SymmetricMirror", "ReflectMirror", "CoeffLenFacts"]


def attach(rep, module="IdxProofs"):
    """run the proofs as a supplementary layer of a check: recorded in the evidence, never a verdict"""
    r = prove(module)
    if not r["ok"]:
        r = prove(module, stretch=4)
    th = {"IdxProofs": THEOREMS, "HelpersProofs": THEOREMS_H, "DWT1Proofs": THEOREMS_D, "SWTProofs": THEOREMS_S,
          "DTCWT1Proofs": THEOREMS_T, "ScatProofs": THEOREMS_C, "TapeProofs": THEOREMS_P,
          "SessionProofs": THEOREMS_N}[module]
    rep.extra.setdefault("tlaps", []).append(dict(r, theorems=th))
    if r["ok"]:
        rep.count("tlaps_obligations_proved", r["proved"])
        rep.assumptions.append("facts of spec/%s.tla hold for all sizes (TLAPS, %d obligations): %s" % (module.replace("Proofs", ""), r["proved"], ", ".join(th)))
    else:
        rep.drift.append("TLAPS layer inconclusive for %s (%s of %s obligations failed; back-end time-out on a loaded machine?): %s"
                         % (module, r["failed"], r["obligations"], r["tail"]))
    return r
