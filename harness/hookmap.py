"""Translation of the library's hook events (pytorch_wavelets/_verif.py) into the event vocabulary of the stage-level
trace specifications.  Shared by the drivers of harness/stagetrace.py and by the pytest plugin that records the
repository's own test-suite (harness/suiteplugin.py); imports nothing heavy."""


def dwt1(ev, f, buf, pend=None):
    if ev == "DWT1DForward.level":
        buf.append({"ev": "fwd.level", "level": int(f["level"]), "N": int(f["N"])})
    elif ev == "afb1d.out":
        buf.append({"ev": "afb1d.out", "M": int(f["M"])})
    elif ev == "DWT1DInverse.level":
        buf.append({"ev": "inv.level", "lo": int(f["lo"]), "hi": int(f["hi"])})
    elif ev == "sfb1d":
        buf.append({"ev": "sfb1d", "M": int(f["M"])})


def dwt2(ev, f, buf, pend):
    if ev == "DWTForward.level":
        buf.append({"ev": "fwd.level", "level": int(f["level"]), "H": int(f["H"]), "W": int(f["W"])})
    elif ev == "afb1d.out":
        if int(f["dim"]) == 3:
            pend["mw"] = int(f["M"])
        else:
            buf.append({"ev": "level.out", "mh": int(f["M"]), "mw": pend.pop("mw", -1)})
    elif ev == "DWTInverse.level":
        buf.append({"ev": "inv.level", "lo_h": int(f["lo"][0]), "lo_w": int(f["lo"][1]), "hi_h": int(f["hi"][0]), "hi_w": int(f["hi"][1])})
    elif ev == "sfb1d":
        # three calls per level: (low, lh) and (hl, hh) along dim 2, then (lo, hi) along dim 3
        if int(f["dim"]) == 2 and "mh" not in pend:
            pend["mh"] = int(f["M"])
        elif int(f["dim"]) == 3:
            buf.append({"ev": "level.in", "mh": pend.pop("mh", -1), "mw": int(f["M"])})


def dtcwt(ev, f, buf, pend=None):
    if ev == "DTCWTForward.extend2":
        buf.append({"ev": "extend2", "rows": int(f["rows"]), "cols": int(f["cols"]), "ext_rows": bool(f["ext_rows"]), "ext_cols": bool(f["ext_cols"])})
    elif ev == "DTCWTForward.extend4":
        buf.append({"ev": "extend4", "level": int(f["level"]), "rows": int(f["rows"]), "cols": int(f["cols"]),
                    "ext_rows": bool(f["ext_rows"]), "ext_cols": bool(f["ext_cols"])})
    elif ev == "DTCWTInverse.crop":
        buf.append({"ev": "crop", "level": int(f["level"]), "rows": int(f["rows"]), "cols": int(f["cols"]), "hp_rows": int(f["hp_rows"]),
                    "hp_cols": int(f["hp_cols"]), "crop_rows": bool(f["crop_rows"]), "crop_cols": bool(f["crop_cols"])})


def swt(ev, f, buf, pend=None):
    if ev == "SWTForward.level":
        buf.append({"ev": "level", "level": int(f["level"]), "dilation": int(f["dilation"]), "mode": str(f["mode"])})
    elif ev == "afb1d_atrous":
        pad = [int(p) for p in f["pad"]]
        d = int(f["dim"])
        a, b = (pad[2], pad[3]) if d == 2 else (pad[0], pad[1])
        other = (pad[0], pad[1]) if d == 2 else (pad[2], pad[3])
        buf.append({"ev": "atrous", "dim": d, "N": int(f["N"]), "L": int(f["L"]), "dilation": int(f["dilation"]), "a": a, "b": b,
                    "mode": str(f["mode"]), "other_axis_pad": int(other[0]) + int(other[1])})
