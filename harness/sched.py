"""Deterministic replay of Session behaviours (spec/Session.tla) into the real library.

Every `begin` starts a Python thread that performs the call; the hook points of the library
(pytorch_wavelets._verif.point) are the only places where a worker can be preempted: it parks there until
the scheduler - following the behaviour TLC generated - grants it the next stage.  So the interleaving TLC
chose is the interleaving that runs.  After each `return` the result is compared with the result of the same
(configuration, dtype, argument) computed in isolation; at the end of the history every argument, module
buffer and cached table is re-fingerprinted (bitwise) and every earlier result is checked again (no aliasing).
"""
import hashlib
import threading

import numpy as np
import torch

import pytorch_wavelets as pw
from .hooks import _verif
from pytorch_wavelets.dtcwt import coeffs
from pytorch_wavelets.dwt.transform2d import SWTForward

TD = {"f32": torch.float32, "f64": torch.float64}


def fp(t):
    if t is None:
        return "none"
    if isinstance(t, (list, tuple)):
        return "(" + ",".join(fp(x) for x in t) + ")"
    a = t.detach().cpu().contiguous().numpy()
    return hashlib.sha1(a.tobytes() + str(a.shape).encode() + str(a.dtype).encode()).hexdigest()[:16]


def table_fp(mat):
    h = hashlib.sha1()
    for k in sorted(mat):
        v = np.asarray(mat[k])
        if v.dtype == np.float64:
            h.update(k.encode() + v.tobytes() + str(v.shape).encode())
    return h.hexdigest()[:16]


def snapshot(arg):
    """structure AND content of an argument: container types, lengths, identity of the elements, None entries,
    shape / dtype / bytes of every tensor - a call must leave all of it unchanged"""
    if arg is None:
        return ("None",)
    if isinstance(arg, torch.Tensor):
        return ("T", id(arg), tuple(arg.shape), str(arg.dtype), fp(arg))
    if isinstance(arg, (list, tuple)):
        return (type(arg).__name__, id(arg), tuple(snapshot(a) for a in arg))
    return ("other", repr(arg))


def flat(out):
    res = []

    def rec(o):
        if isinstance(o, torch.Tensor):
            res.append(o)
        elif isinstance(o, (list, tuple)):
            for q in o:
                rec(q)
    rec(out)
    return res


def _pyr_dwt(shape, dt, seed):
    g = torch.Generator().manual_seed(seed)
    x = torch.randn(*shape, generator=g, dtype=torch.float64)
    yl, yh = pw.DWTForward(J=2, wave="bior2.2", mode="zero").double()(x)
    return (torch.randn(*yl.shape, generator=g, dtype=torch.float64).to(dt), [torch.randn(*h.shape, generator=g, dtype=torch.float64).to(dt) for h in yh])


def _pyr_dwt1(shape, dt, seed):
    g = torch.Generator().manual_seed(seed)
    x = torch.randn(*shape, generator=g, dtype=torch.float64)
    yl, yh = pw.DWT1DForward(J=2, wave="db3", mode="periodization").double()(x)
    return (torch.randn(*yl.shape, generator=g, dtype=torch.float64).to(dt), [torch.randn(*h.shape, generator=g, dtype=torch.float64).to(dt) for h in yh])


def _pyr_dtcwt(shape, dt, seed):
    g = torch.Generator().manual_seed(seed)
    x = torch.randn(*shape, generator=g, dtype=torch.float64)
    yl, yh = pw.DTCWTForward(J=2).double()(x)
    return (torch.randn(*yl.shape, generator=g, dtype=torch.float64).to(dt), [torch.randn(*h.shape, generator=g, dtype=torch.float64).to(dt) for h in yh])


def _with_absent(pyr, level, how):
    """a pyramid (as a LIST) whose bandpass level `level` is given the way the library documents for 'absent':
    None, the 0-dim placeholder the forward transform emits for skipped levels, or torch.tensor([])"""
    yl, yh = pyr
    yh = list(yh)
    yh[level - 1] = {"none": None, "placeholder": yl.new_zeros([]), "empty": torch.tensor([], dtype=yl.dtype)}[how]
    return (yl, yh)


def _rand(shape, dt, seed):
    g = torch.Generator().manual_seed(seed)
    return torch.randn(*shape, generator=g, dtype=torch.float64).to(dt)


# the pool the constants Cfgs / Args of the model index (even numbers load DTCWT tables: TablesOf in the spec)
POOL = {
    1: dict(name="DWTForward(J=2,db2,symmetric)", make=lambda: pw.DWTForward(J=2, wave="db2", mode="symmetric"),
            args={1: lambda dt: _rand((1, 2, 9, 12), dt, 11), 2: lambda dt: _rand((2, 1, 8, 8), dt, 12),
                  3: lambda dt: _rand((1, 1, 17, 20), dt, 13)}),
    2: dict(name="DTCWTForward(J=2)", make=lambda: pw.DTCWTForward(J=2),
            args={1: lambda dt: _rand((1, 2, 10, 12), dt, 21), 2: lambda dt: _rand((1, 1, 7, 9), dt, 22),
                  3: lambda dt: _rand((1, 1, 18, 20), dt, 23)}),
    3: dict(name="DWT1DForward(J=2,db3,periodization)", make=lambda: pw.DWT1DForward(J=2, wave="db3", mode="periodization"),
            args={1: lambda dt: _rand((2, 2, 17), dt, 31), 2: lambda dt: _rand((1, 3, 8), dt, 32), 3: lambda dt: _rand((1, 1, 25), dt, 33)}),
    4: dict(name="ScatLayer()", make=lambda: pw.ScatLayer(),
            args={1: lambda dt: _rand((1, 3, 8, 8), dt, 41), 2: lambda dt: _rand((2, 1, 9, 10), dt, 42),
                  3: lambda dt: _rand((1, 1, 16, 18), dt, 43)}),
    5: dict(name="DWTInverse(bior2.2,zero)", make=lambda: pw.DWTInverse(wave="bior2.2", mode="zero"),
            args={1: lambda dt: _pyr_dwt((1, 2, 9, 12), dt, 51), 2: lambda dt: _with_absent(_pyr_dwt((2, 1, 8, 8), dt, 52), 1, "none"),
                  3: lambda dt: _pyr_dwt((1, 1, 17, 20), dt, 53)}),
    6: dict(name="DTCWTInverse()", make=lambda: pw.DTCWTInverse(),
            args={1: lambda dt: _with_absent(_pyr_dtcwt((1, 2, 10, 12), dt, 61), 2, "empty"),
                  2: lambda dt: _with_absent(_pyr_dtcwt((1, 1, 7, 9), dt, 62), 1, "placeholder"),
                  3: lambda dt: _pyr_dtcwt((1, 1, 18, 20), dt, 63)}),
    7: dict(name="DWTForward(J=2,db2,periodic)", make=lambda: pw.DWTForward(J=2, wave="db2", mode="periodic"),
            args={1: lambda dt: _rand((1, 2, 9, 12), dt, 11), 2: lambda dt: _rand((2, 1, 8, 8), dt, 12),
                  3: lambda dt: _rand((1, 1, 17, 20), dt, 13)}),
    9: dict(name="DWT1DForward(J=2,db3,symmetric)", make=lambda: pw.DWT1DForward(J=2, wave="db3", mode="symmetric"),
            args={1: lambda dt: _rand((2, 2, 17), dt, 31), 2: lambda dt: _rand((1, 3, 8), dt, 32), 3: lambda dt: _rand((1, 1, 25), dt, 33)}),
    8: dict(name="ScatLayerj2(near_sym_b_bp)", make=lambda: pw.ScatLayerj2(biort="near_sym_b_bp", qshift="qshift_b_bp"),
            args={1: lambda dt: _rand((1, 2, 8, 8), dt, 81), 2: lambda dt: _rand((2, 1, 9, 12), dt, 82), 3: lambda dt: _rand((1, 1, 16, 16), dt, 83)}),
    13: dict(name="SWTForward(J=2,db2)", make=lambda: SWTForward(J=2, wave="db2"),
             args={1: lambda dt: _rand((1, 2, 8, 12), dt, 131), 2: lambda dt: _rand((2, 1, 8, 8), dt, 132), 3: lambda dt: _rand((1, 1, 16, 20), dt, 133)}),
    15: dict(name="DWT1DInverse(db3,periodization)", make=lambda: pw.DWT1DInverse(wave="db3", mode="periodization"),
             args={1: lambda dt: _pyr_dwt1((2, 2, 18), dt, 151), 2: lambda dt: _with_absent(_pyr_dwt1((1, 3, 8), dt, 152), 1, "none"),
                   3: lambda dt: _pyr_dwt1((1, 1, 26), dt, 153)}),
    11: dict(name="DWT1DForward(J=2,sym3,periodic)", make=lambda: pw.DWT1DForward(J=2, wave="sym3", mode="periodic"),
             args={1: lambda dt: _rand((2, 2, 17), dt, 31), 2: lambda dt: _rand((1, 3, 8), dt, 32), 3: lambda dt: _rand((1, 1, 25), dt, 33)}),
}


POOL[10] = dict(name="DTCWTInverse(qshift_06)", make=lambda: pw.DTCWTInverse(qshift="qshift_06"),
                args={k: v for k, v in POOL[6]["args"].items()})         # same shapes, other 10-tap q-shift table
POOL[12] = dict(name="DTCWTForward(J=2,legall,qshift_06)", make=lambda: pw.DTCWTForward(J=2, biort="legall", qshift="qshift_06"),
                args={k: v for k, v in POOL[2]["args"].items()})


# separate column / row filters of different lengths (the documented 4-tuple form): paths that pass the four buffers on
# positionally in another order are wrong only here
_T4A = ([0.5, 1.0, -0.25, 0.125], [0.25, -1.0, 0.5, 2.0], [1.0, 0.5], [0.5, -1.0])
POOL[17] = dict(name="DWTForward(J=2,4-tuple col4|row2,periodization)", make=lambda: pw.DWTForward(J=2, wave=_T4A, mode="periodization"),
                args={k: v for k, v in POOL[1]["args"].items()})
POOL[19] = dict(name="DWTInverse(4-tuple col4|row2,periodization)", make=lambda: pw.DWTInverse(wave=_T4A, mode="periodization"),
                args={1: lambda dt: _pyr_dwt4((1, 2, 8, 12), dt, 191), 2: lambda dt: _pyr_dwt4((2, 1, 8, 8), dt, 192),
                      3: lambda dt: _pyr_dwt4((1, 1, 16, 20), dt, 193)})


def _pyr_dwt4(shape, dt, seed):
    g = torch.Generator().manual_seed(seed)
    x = torch.randn(*shape, generator=g, dtype=torch.float64)
    yl, yh = pw.DWTForward(J=2, wave=_T4A, mode="periodization").double()(x)
    return (torch.randn(*yl.shape, generator=g, dtype=torch.float64).to(dt), [torch.randn(*h.shape, generator=g, dtype=torch.float64).to(dt) for h in yh])


POOL[19]["args"][4] = lambda dt: _pyr_dwt4((2, 1, 10, 10), dt, 194)


def _bump(shape):
    """a size one larger on every signal axis: lands in the same rounding block (multiple of 2, 4, 8) as the original for most
    sizes - where a cached size decision of an earlier call would be reused wrongly"""
    return tuple(shape[:2]) + tuple(n + 1 for n in shape[2:])


# argument 4 of every configuration: argument 2 with every signal axis one sample longer
_ARG2_SHAPES = {17: (2, 1, 8, 8), 1: (2, 1, 8, 8), 2: (1, 1, 7, 9), 3: (1, 3, 8), 4: (2, 1, 9, 10), 5: (2, 1, 8, 8), 6: (1, 1, 7, 9), 7: (2, 1, 8, 8),
                8: (2, 1, 9, 12), 9: (1, 3, 8), 10: (1, 1, 7, 9), 11: (1, 3, 8), 12: (1, 1, 7, 9), 13: (2, 1, 8, 8), 15: (1, 3, 8)}
for _c, _shp in _ARG2_SHAPES.items():
    if _c in (5,):
        POOL[_c]["args"][4] = (lambda shp: (lambda dt: _pyr_dwt(_bump(shp), dt, 504)))(_shp)
    elif _c == 19:
        pass
    elif _c in (6, 10):
        POOL[_c]["args"][4] = (lambda shp: (lambda dt: _pyr_dtcwt(_bump(shp), dt, 604)))(_shp)
    elif _c == 15:
        POOL[_c]["args"][4] = (lambda shp: (lambda dt: _pyr_dwt1((shp[0], shp[1], shp[2] + 2), dt, 1504)))(_shp)
    elif _c == 13:
        POOL[_c]["args"][4] = (lambda shp: (lambda dt: _rand((shp[0], shp[1], shp[2] + 4, shp[3] + 4), dt, 1304)))(_shp)   # SWT: multiples of 2^J
    else:
        POOL[_c]["args"][4] = (lambda shp, c: (lambda dt: _rand(_bump(shp), dt, 100 * c + 4)))(_shp, _c)


# argument 5 of every forward configuration: a BIG input - beyond the small size thresholds (2^16 elements, and every constant up
# to 2^18 that census finds in the library's source: a scratch buffer, a block cache, an in-place gather "for large inputs only"
# lives above such a constant and is shared between threads exactly there)
def _big_numel():
    try:
        from . import census
        return 2 * max([1 << 16] + [v for v in census.constants() if v <= (1 << 18)])
    except Exception:   # noqa
        return 1 << 17


def _big_shape(nd):
    T = _big_numel()
    if nd == 3:
        return (2, 2, (T // 4 // 8 + 1) * 8)
    side = int((T / 4) ** 0.5) // 8 * 8 + 8
    return (2, 2, side, side + 8)


BIG_FORWARD = (1, 2, 3, 7, 9, 11, 12, 13, 17)
for _c in BIG_FORWARD:
    if _c in POOL:
        _nd = 3 if "1D" in POOL[_c]["name"] else 4
        POOL[_c]["args"][5] = (lambda nd, c: (lambda dt: _rand(_big_shape(nd), dt, 100 * c + 5)))(_nd, _c)


class ArgumentMutated(Exception):
    pass


def run_call(mod, arg, grad):
    """what a caller observes: outputs (and, with grad, the gradients of a fixed scalar functional)"""
    if grad:
        leaves = flat(arg)
        # placeholders for absent levels (0-dim / empty tensors) are passed through as they are
        leaves = [l.clone().requires_grad_(True) if l.dim() > 1 else l for l in leaves]
        it = iter(leaves)

        def rebuild(o):
            if isinstance(o, torch.Tensor):
                return next(it)
            if isinstance(o, (list, tuple)):
                return type(o)(rebuild(q) for q in o)
            return o
        a = rebuild(arg)
        before = snapshot(a)
        outs = [o for o in flat(mod(a)) if o.dim() > 0]
        if snapshot(a) != before:
            raise ArgumentMutated("the call modified the coefficient structure / tensors it was handed")
        loss = sum((o * torch.linspace(0.5, 1.5, o.numel(), dtype=o.dtype).reshape(o.shape)).sum() for o in outs)
        grads = torch.autograd.grad(loss, [l for l in leaves if l.dim() > 1], allow_unused=True)
        return [o.detach() for o in outs] + [g for g in grads if g is not None]
    with torch.no_grad():
        return [o for o in flat(mod(arg)) if o.dim() > 0]


class Worker(threading.Thread):
    def __init__(self, sched, mod, arg, grad):
        super().__init__(daemon=True)
        self.sched, self.mod, self.arg, self.grad = sched, mod, arg, grad
        self.go = threading.Semaphore(0)
        self.parked = threading.Semaphore(0)
        self.done = False
        self.free = False
        self.result = None
        self.error = None

    def run(self):
        self.go.acquire()                       # first stage is granted by the scheduler
        try:
            self.result = run_call(self.mod, self.arg, self.grad)
        except Exception as e:   # noqa
            self.error = e
        self.done = True
        self.parked.release()

    def at_hook(self):
        if self.free:
            return
        self.parked.release()                   # tell the scheduler we are parked at a hook point
        self.go.acquire()                       # wait for the next grant

    def step(self):
        """let the worker run to its next hook point (or to the end)"""
        if self.done:
            return
        self.go.release()
        if not self.parked.acquire(timeout=120):
            raise RuntimeError("worker did not reach a hook point within 120 s")

    def finish(self):
        if not self.done:
            self.free = True
            self.go.release()
            self.join(timeout=120)
            if self.is_alive():
                raise RuntimeError("worker did not finish within 120 s")


class Replayer:
    def __init__(self, reference):
        self.reference = reference              # (c, x, d, g) -> list of tensors computed in isolation
        self.by_ident = {}
        _verif.set_sink(self._sink)

    def close(self):
        _verif.set_sink(None)

    def _sink(self, ev, fields):
        w = self.by_ident.get(threading.get_ident())
        if w is not None:
            w.at_hook()

    def replay(self, hist):
        """returns a list of problems (strings); empty = the behaviour is accepted"""
        problems = []
        torch.set_default_dtype(torch.float32)
        coeffs.COEFF_CACHE.clear()
        mods, modinfo, workers, args_fp, results, arg_objs = {}, {}, {}, [], [], []
        self.by_ident = {}
        try:
            for k, e in enumerate(hist):
                a = e["a"]
                if a == "default":
                    torch.set_default_dtype(TD[e["d"]])
                elif a == "construct":
                    mods[e["m"]] = POOL[e["c"]]["make"]()
                    dt = "f64" if torch.get_default_dtype() == torch.float64 else "f32"
                    # built = the coarsest precision the buffers have passed through (bits lost in float32 stay lost)
                    modinfo[e["m"]] = dict(c=e["c"], built=dt, dtype=dt, fp=fp(list(mods[e["m"]].state_dict().values())))
                elif a == "to":
                    mods[e["m"]] = mods[e["m"]].to(TD[e["d"]])
                    modinfo[e["m"]]["dtype"] = e["d"]
                    if e["d"] == "f32":
                        modinfo[e["m"]]["built"] = "f32"
                    modinfo[e["m"]]["fp"] = fp(list(mods[e["m"]].state_dict().values()))
                elif a == "clone":
                    import copy
                    mods[e["m2"]] = copy.deepcopy(mods[e["m"]])
                    modinfo[e["m2"]] = dict(modinfo[e["m"]])
                    modinfo[e["m2"]]["fp"] = fp(list(mods[e["m2"]].state_dict().values()))
                elif a == "reload":
                    src = modinfo[e["m"]]
                    fresh = POOL[src["c"]]["make"]()
                    fresh.load_state_dict(mods[e["m"]].state_dict())
                    mods[e["m2"]] = fresh
                    dt = "f64" if torch.get_default_dtype() == torch.float64 else "f32"
                    # values pass through the source's precision: as good as the coarser of the two
                    built = "f32" if "f32" in (src["built"], src["dtype"], dt) else "f64"
                    modinfo[e["m2"]] = dict(c=src["c"], built=built, dtype=dt, fp=fp(list(fresh.state_dict().values())))
                elif a == "call_raises":
                    arg = POOL[modinfo[e["m"]]["c"]]["args"][e["x"]](TD[e["d"]])
                    before = fp(flat(arg))
                    try:
                        out = run_call(mods[e["m"]], arg, False)
                        if any(o.dtype != TD[e["d"]] for o in out):
                            problems.append("event %d: call with a %s argument on %s buffers returned dtype %s" % (
                                k, e["d"], modinfo[e["m"]]["dtype"], [str(o.dtype) for o in out][:2]))
                    except Exception:   # noqa   (a dtype mismatch may legitimately raise)
                        pass
                    if fp(flat(arg)) != before:
                        problems.append("event %d: argument modified by a raising call" % k)
                elif a == "begin":
                    info = modinfo[e["m"]]
                    arg = POOL[info["c"]]["args"][e["x"]](TD[e["d"]])
                    w = Worker(self, mods[e["m"]], arg, e["g"])
                    w.key = (info["c"], e["x"], e["d"], e["g"])
                    w.info = dict(info)
                    w.arg_fp = snapshot(arg)
                    workers[e["t"]] = w
                    w.start()
                    self.by_ident[w.ident] = w
                    w.step()                       # run up to the first hook point
                elif a == "stage":
                    w = workers.get(e["t"])
                    if w is not None:
                        w.step()
                elif a == "return":
                    w = workers.pop(e["t"], None)
                    if w is None:
                        continue
                    w.finish()
                    self._judge(k, w, problems, results)
            for t, w in list(workers.items()):         # calls still open at the end of the history
                w.finish()
                self._judge(len(hist), w, problems, results)
            for m, info in modinfo.items():
                if fp(list(mods[m].state_dict().values())) != info["fp"]:
                    problems.append("module %d (%s): buffers/parameters were modified" % (m, POOL[info["c"]]["name"]))
            for (key, res, fps) in results:            # earlier results must not have been overwritten by later work
                if [fp(r) for r in res] != fps:
                    problems.append("a result returned earlier (%s) changed afterwards: it aliases later work" % (key,))
            for name, mat in coeffs.COEFF_CACHE.items():
                ref = self.reference["__tables__"].get(name)
                if ref is not None and table_fp(mat) != ref:
                    problems.append("cached table %s was modified" % name)
        except Exception as e:   # noqa
            problems.append("replay machinery: %r" % (e,))
            for w in workers.values():
                try:
                    w.finish()
                except Exception:   # noqa
                    pass
        return problems

    def _judge(self, k, w, problems, results):
        c, x, d, g = w.key
        name = POOL[c]["name"]
        if snapshot(w.arg) != w.arg_fp:
            problems.append("event %d: %s modified its argument (a tensor's bytes, or the coefficient list / tuple it was handed)" % (k, name))
        if w.error is not None:
            problems.append("event %d: %s(arg %d, %s, grad=%s) raised %r" % (k, name, x, d, g, w.error))
            return
        ref = self.reference[(c, x, d, g)]
        out = w.result
        if len(out) != len(ref):
            problems.append("event %d: %s returned %d tensors, in isolation %d" % (k, name, len(out), len(ref)))
            return
        # buffers built in f32 and converted to f64 keep f32-rounded taps: equal within the f32 rounding of the taps
        loose = (w.info["built"] == "f32" and d == "f64")
        tol = 1e-5 if (loose or d == "f32") else 1e-11
        for o, r in zip(out, ref):
            if o.dtype != TD[d]:
                problems.append("event %d: %s returned dtype %s for a %s argument" % (k, name, o.dtype, d))
                return
            if tuple(o.shape) != tuple(r.shape):
                problems.append("event %d: %s returned shape %s, in isolation %s" % (k, name, tuple(o.shape), tuple(r.shape)))
                return
            scale = float(r.abs().max()) + 1e-30
            err = float((o.double() - r.double()).abs().max())
            if not err <= tol * scale:
                problems.append("event %d: %s(arg %d, %s, grad=%s) returned values differing from the isolated call by %.3g "
                                "(relative %.3g) - the result depends on the history / schedule" % (k, name, x, d, g, err, err / scale))
                return
        results.append((w.key, out, [fp(o) for o in out]))


def _ref_task(task):
    """one (configuration, argument, dtype, grad) call in a FRESH process: no history at all"""
    import warnings
    warnings.filterwarnings("ignore")
    c, x, d, g = task
    torch.set_num_threads(1)
    torch.set_default_dtype(TD[d])
    mod = POOL[c]["make"]()
    arg = POOL[c]["args"][x](TD[d])
    before = snapshot(arg)
    try:
        out = run_call(mod, arg, g)
        mutated = snapshot(arg) != before
    except ArgumentMutated:
        out, mutated = [], True
    tabs = {n: table_fp(m) for n, m in coeffs.COEFF_CACHE.items()}
    return task, [o.numpy() for o in out], tabs, mutated


def build_reference(cfgs, args):
    """every (configuration, argument, dtype, grad) computed in isolation: a fresh PROCESS per call (a history
    dependence cannot contaminate the reference), module constructed in that dtype, single thread"""
    import multiprocessing as mp
    tasks = [(c, x, d, g) for c in sorted(cfgs) for x in sorted(args) for d in ("f32", "f64") for g in (False, True)]
    ref = {"__tables__": {}, "__mutated__": []}
    # fork: the children inherit this process BEFORE it has made any library call (build_reference runs first),
    # so each task still starts from a history-free state, without paying the import cost 72 times
    coeffs.COEFF_CACHE.clear()
    ctx = mp.get_context("fork")
    with ctx.Pool(min(16, len(tasks)), maxtasksperchild=1) as pool:
        for task, out, tabs, mutated in pool.imap_unordered(_ref_task, tasks, chunksize=1):
            ref[task] = [torch.from_numpy(o) for o in out]
            if mutated:
                ref["__mutated__"].append(task)
            ref["__tables__"].update(tabs)
    return ref


# ------------------------------------------------------------------------------------------------------------------
# single preemption at operator granularity
# ------------------------------------------------------------------------------------------------------------------
from torch.overrides import TorchFunctionMode      # noqa: E402


class _PreemptAt(TorchFunctionMode):
    """counts the torch-level operations of the calling thread; before operation number k it runs `action` once"""

    def __init__(self, k, action):
        super().__init__()
        self.k, self.action, self.n, self.fired = k, action, 0, False

    def __torch_function__(self, func, types, args=(), kwargs=None):
        self.n += 1
        if self.k is not None and self.n == self.k and not self.fired:
            self.fired = True
            self.action()
        return func(*args, **(kwargs or {}))


def other_values(arg):
    """an argument of the same structure, shapes and dtypes with different values (absent levels stay absent)"""
    if isinstance(arg, torch.Tensor):
        if arg.dim() <= 1:
            return arg
        return (arg.flip(-1) * -1.75 + 0.375).contiguous()
    if isinstance(arg, (list, tuple)):
        return type(arg)(other_values(a) for a in arg)
    return arg


def _same(out, ref, tol):
    if len(out) != len(ref):
        return "returned %d tensors, alone %d" % (len(out), len(ref))
    for o, r in zip(out, ref):
        if tuple(o.shape) != tuple(r.shape) or o.dtype != r.dtype:
            return "shape/dtype %s %s, alone %s %s" % (tuple(o.shape), o.dtype, tuple(r.shape), r.dtype)
        scale = float(r.abs().max()) + 1e-30
        err = float((o.double() - r.double()).abs().max())
        if not err <= tol * scale:
            return "values differ from the call run alone by %.3g (relative %.3g)" % (err, err / scale)
    return None


def preempt_sweep(c_a, x, grad, partners, stride=1, dt=torch.float32):
    """Run call A = POOL[c_a](arg x) with ONE preemption: before its k-th torch operation (k = 1, 1+stride, ...) a second
    thread runs a complete call B (same shapes, other values; on the same module object, on a fresh instance, or on a
    partner configuration with equal shapes - cycling with k) and returns; then A continues.  A's and B's results must
    equal the results of the same calls run alone, and A's argument must be untouched.
    -> (number of schedules run, number of operations of A, list of problem strings)"""
    prev = torch.get_default_dtype()
    torch.set_default_dtype(torch.float32)
    try:
        mod_a = POOL[c_a]["make"]()
        arg_a = POOL[c_a]["args"][x](dt)
        fp_a = snapshot(arg_a)
        count = _PreemptAt(None, None)
        with count:
            ref_a = run_call(mod_a, arg_a, grad)
        nops = count.n
        arg_b = other_values(POOL[c_a]["args"][x](dt))
        refs_b = {}
        for c_b in partners:
            refs_b[c_b] = run_call(POOL[c_b]["make"](), arg_b, False)
        problems, nrun = [], 0
        tol = 1e-5 if dt == torch.float32 else 1e-11
        for k in range(1, nops + 1, stride):
            c_b = partners[(k // max(stride, 1)) % len(partners)]
            shared = (c_b == c_a) and ((k // max(stride, 1)) // len(partners)) % 2 == 0
            mod_b = mod_a if shared else POOL[c_b]["make"]()
            box = {}

            def run_b():
                def body():
                    try:
                        box["out"] = run_call(mod_b, arg_b, False)
                    except Exception as e:   # noqa
                        box["err"] = e
                t = threading.Thread(target=body, daemon=True)
                t.start()
                t.join(120)
            mode = _PreemptAt(k, run_b)
            try:
                with mode:
                    out_a = run_call(mod_a, arg_a, grad)
            except Exception as e:   # noqa
                problems.append("k=%d: %s raised %r when preempted by %s" % (k, POOL[c_a]["name"], e, POOL[c_b]["name"]))
                continue
            nrun += 1
            where = "before operation %d of %d of %s(arg %d, grad=%s), preempted by a complete call of %s on %s" % (
                k, nops, POOL[c_a]["name"], x, grad, POOL[c_b]["name"], "the same module object" if shared else "another instance")
            if snapshot(arg_a) != fp_a:
                problems.append("%s: the preempted call's argument was modified" % where)
                fp_a = snapshot(arg_a)
            d = _same(out_a, ref_a, tol)
            if d:
                problems.append("%s: the PREEMPTED call %s" % (where, d))
            if "err" in box:
                problems.append("%s: the preempting call raised %r" % (where, box["err"]))
            elif "out" in box:
                d = _same(box["out"], refs_b[c_b], tol)
                if d:
                    problems.append("%s: the PREEMPTING call %s" % (where, d))
        return nrun, nops, problems
    finally:
        torch.set_default_dtype(prev)
