"""C05: the hand-written backward passes of the DWT family against the transpose of the forward
operator extracted from the very same module instance.

verdict   : VJP == (forward matrix)^T exactly, and no leaf that requires grad gets None
known     : VJP differs but equals the model of the backward as coded (spec: ImplABackward /
            ImplSBackward), inside a listed region  -> KNOWN-FINDING
otherwise : VIOLATION
"""
import numpy as np
import torch

import pytorch_wavelets as pw

from . import dwtlib
from .dwtchecks import kron2, chain_in_table, _blocks, _blocks2, chain_in_table2
from .common import seed


def _vjp_fwd1(m, N):
    """matrices of a DWT1DForward module: F [total_out x N] and V [N x total_out]; outputs ordered
    (yl, yh_1, ..., yh_J)"""
    X = torch.eye(N).reshape(N, 1, N)
    yl, yh = m(X)
    outs = [yl] + list(yh)
    F = np.concatenate([o[:, 0].numpy().T for o in outs], axis=0)
    K = F.shape[0]
    x = torch.zeros(K, 1, N, requires_grad=True)
    yl, yh = m(x)
    outs = [yl] + list(yh)
    off = 0
    total = 0
    for o in outs:
        n = o.shape[-1]
        cot = torch.zeros(K, 1, n)
        cot[off:off + n, 0] = torch.eye(n)
        total = total + (o * cot).sum()
        off += n
    g, = torch.autograd.grad(total, x, allow_unused=True)
    if g is None:
        return F, None
    return F, g[:, 0].numpy().T          # [N, K]


def compose_fwd_vjp(table, mode, N, L, J, h0, h1):
    """the VJP of DWT1DForward as the code performs it (chain of AFB1D.backward models)"""
    lens = []
    n = N
    for _ in range(J):
        lens.append(table.rec[(mode, n, L)]["a_len"])
        n = lens[-1]
    K = lens[-1] + sum(lens)
    cols = {0: (0, lens[-1])}
    o = lens[-1]
    for j in range(1, J + 1):
        cols[j] = (o, o + lens[j - 1])
        o += lens[j - 1]
    # G maps the cotangent vector (all outputs) to d a_j ; start at j = J
    G = np.zeros((lens[-1], K))
    G[:, cols[0][0]:cols[0][1]] = np.eye(lens[-1])
    ns = [N] + lens
    for j in range(J, 0, -1):
        B = table.ab_impl(mode, ns[j - 1], L)          # [n_{j-1}][L][n_j]
        D = np.zeros((lens[j - 1], K))
        D[:, cols[j][0]:cols[j][1]] = np.eye(lens[j - 1])
        G = dwtlib.mat(B, h0) @ G + dwtlib.mat(B, h1) @ D
    return G


def forward_vjp_1d(rep, fnd, table, records, pid):
    dwtlib.f64()
    rng = np.random.default_rng(11000 + seed())
    n_ok = 0
    for r in records:
        if r.get("kind") != "dwt1.fwd" or r["outcome"] != "ok":
            continue
        mode, N, L, J = r["mode"], r["N"], r["L"], r["J"]
        if not chain_in_table(table, mode, N, L, J):
            continue
        lens = [N] + r["ref_lens"]
        cfg = {"mode": mode, "N": N, "L": L, "J": J, "odd_any": any(n % 2 for n in lens[:J])}
        case = {"api": "DWT1DForward.backward", "check": "forward_vjp_1d", "cfg": cfg}
        h0, h1 = dwtlib.int_taps(rng, L, 5), dwtlib.int_taps(rng, L, 5)
        try:
            m = pw.DWT1DForward(J=J, wave=(h0, h1), mode=mode)
            F, V = _vjp_fwd1(m, N)
        except Exception as e:   # noqa
            if mode == "reflect":
                continue
            rep.violation("DWT1DForward forward/backward raised %r at %s" % (e, cfg), dict(case, observed=repr(e)))
            continue
        rep.validated()
        rep.nontriv(("fwd_vjp1", mode, N, L, J))
        if V is None:
            rep.violation("DWT1DForward: input requires grad but receives None at %s" % (cfg,), case)
            continue
        if dwtlib.eq_int(V, F.T):
            n_ok += 1
            if n_ok == 1:
                rep.sample({"api": "DWT1DForward.backward", "cfg": cfg, "observed": "VJP matrix == transpose of the forward matrix extracted from the same module"})
            continue
        G = compose_fwd_vjp(table, mode, N, L, J, h0, h1)
        sig = "equals-impl-model" if dwtlib.eq_int(V, G) else "other"
        f = fnd.match(pid, "DWT1DForward.backward", cfg, sig)
        if f:
            rep.known_finding(f["id"], f["what"])
        else:
            d = dwtlib.diff_entries(V, F.T)
            rep.violation("DWT1DForward back-propagation is not the transpose of its forward at %s: [index(n,out), observed, expected] %s"
                          % (cfg, d), dict(case, diff=d, taps=[h0.tolist(), h1.tolist()]))
    rep.count("forward_vjp_1d_exact_adjoint", n_ok)


def _pyramid1(lens, J, K, need):
    """identity-free pyramid of zeros with requires_grad per `need` (0 = yl, j = yh_j)"""
    yl = torch.zeros(K, 1, lens[J - 1], requires_grad=(0 in need))
    yh = [torch.zeros(K, 1, lens[j - 1], requires_grad=(j in need)) for j in range(1, J + 1)]
    return yl, yh


def inverse_vjp_1d(rep, fnd, table, records, pid):
    """every subset R of leaves requiring grad: presence and value of each gradient"""
    dwtlib.f64()
    rng = np.random.default_rng(12000 + seed())
    n_ok = 0
    cache = {}
    for r in records:
        if r.get("kind") != "dwt1.inv_bwd":
            continue
        mode, N, L, J, R = r["mode"], r["N"], r["L"], r["J"], r["R"]
        key = (mode, N, L, J)
        if key not in cache:
            lens = []
            n = N
            ok = True
            for _ in range(J):
                if not table.has(mode, n, L):
                    ok = False
                    break
                lens.append(table.rec[(mode, n, L)]["a_len"])
                n = lens[-1]
            if not ok:
                cache[key] = None
                continue
            g0, g1 = dwtlib.int_taps(rng, L, 5), dwtlib.int_taps(rng, L, 5)
            m = pw.DWT1DInverse(wave=(g0, g1), mode=mode)
            off, total = _blocks(lens, J)
            yl = torch.zeros(total, 1, lens[J - 1])
            yl[off[0][0]:off[0][1], 0] = torch.eye(lens[J - 1])
            yh = []
            for j in range(1, J + 1):
                t = torch.zeros(total, 1, lens[j - 1])
                t[off[j][0]:off[j][1], 0] = torch.eye(lens[j - 1])
                yh.append(t)
            try:
                Y = m((yl, yh))[:, 0].numpy().T          # [P x total]
            except Exception as e:   # noqa
                cache[key] = None
                rep.violation("DWT1DInverse raised %r on a forward-compatible pyramid (%s)" % (e, key),
                              {"api": "DWT1DInverse", "check": "inverse_vjp_1d", "cfg": dict(mode=mode, N=N, L=L, J=J)})
                continue
            cache[key] = (m, lens, off, Y, g0, g1)
        if cache[key] is None:
            continue
        m, lens, off, Y, g0, g1 = cache[key]
        P = Y.shape[0]
        cfg = {"mode": mode, "N": N, "L": L, "J": J, "R": R, "odd_any": any(n % 2 for n in ([N] + lens)[:J])}
        case = {"api": "DWT1DInverse.backward", "check": "inverse_vjp_1d", "cfg": cfg}
        yl, yh = _pyramid1(lens, J, P, set(R))
        y = m((yl, yh))
        leaves = [yl if k == 0 else yh[k - 1] for k in R]
        cot = torch.eye(P).reshape(P, 1, P)
        rep.validated()
        rep.nontriv(("inv_vjp1", mode, N, L, J, tuple(R)))
        try:
            grads = torch.autograd.grad(y, leaves, cot, allow_unused=True)
        except Exception as e:   # noqa
            f = fnd.match(pid, "DWT1DInverse.backward", cfg, "raises")
            if f:
                rep.known_finding(f["id"], f["what"])
            else:
                rep.violation("DWT1DInverse back-propagation raised %r although the forward pass returned, at %s" % (e, cfg),
                              dict(case, observed=repr(e)))
            continue
        missing = [k for k, g in zip(R, grads) if g is None]
        if missing:
            f = fnd.match(pid, "DWT1DInverse.backward", cfg, "none-grad")
            if f:
                rep.known_finding(f["id"], f["what"])
            else:
                rep.violation("DWT1DInverse: leaves %s require grad but receive None (leaves requiring grad: %s; 0 = lowpass, j = highpass level j) at %s"
                              % (missing, R, {k: cfg[k] for k in ("mode", "N", "L", "J")}), case)
            if set(missing) != set(r["none_grads"]):
                rep.drift.append("None-gradient set %s differs from the Calls model %s at %s" % (missing, r["none_grads"], cfg))
            continue
        if r["none_grads"]:
            rep.drift.append("model predicts None gradients %s, code delivers all at %s" % (r["none_grads"], cfg))
        bad = None
        for k, g in zip(R, grads):
            V = g[:, 0].numpy().T                   # [len_k x P]
            if not dwtlib.eq_int(V, Y[:, off[k][0]:off[k][1]].T):
                bad = (k, V)
                break
        if bad is None:
            n_ok += 1
            if n_ok == 1:
                rep.sample({"api": "DWT1DInverse.backward", "cfg": cfg, "observed": "every requested gradient == its block of the transposed inverse matrix"})
            continue
        k, V = bad
        # the backward as coded: chain of SFB1D.backward models along the lowpass path
        sig = "other"
        try:
            G = compose_inv_vjp(table, mode, L, J, lens, g0, g1, k)
            if dwtlib.eq_int(V, G):
                sig = "equals-impl-model"
        except Exception:   # noqa
            pass
        f = fnd.match(pid, "DWT1DInverse.backward", cfg, sig)
        if f:
            rep.known_finding(f["id"], f["what"])
        else:
            d = dwtlib.diff_entries(V, Y[:, off[k][0]:off[k][1]].T)
            rep.violation("DWT1DInverse back-propagation to leaf %d is not the transpose of the forward at %s: %s" % (k, cfg, d),
                          dict(case, diff=d, leaf=k))
    rep.count("inverse_vjp_1d_exact_adjoint", n_ok)


def compose_inv_vjp(table, mode, L, J, lens, g0, g1, leaf):
    """gradient w.r.t. one leaf of DWT1DInverse as the code computes it (SFB1D.backward models);
    returns [len_leaf x P]"""
    # forward chain: a_{j-1} = S_j(a_j[:m_j], d_j); backward visits levels 1..J
    # G = d(cot)/d a_{j-1} as matrix [len(a_{j-1}) x P]; start with identity on the output
    Ps = []
    cur = lens[J - 1]
    sizes = {}
    for j in range(J, 0, -1):
        m = lens[j - 1]
        sizes[j] = (cur, m)              # incoming lowpass length, used length
        cur = table.rec[(mode, m, L)]["s_len"]
    P = cur
    G = np.eye(P)
    for j in range(1, J + 1):
        inc, m = sizes[j]
        B = table.sb_impl(mode, m, L)                 # [m][L][P_j]
        dlo = dwtlib.mat(B, g0) @ G
        dhi = dwtlib.mat(B, g1) @ G
        if leaf == j:
            return dhi
        # un-slice: the lowpass fed to this level was a_j[:m]
        if inc > m:
            dlo = np.concatenate([dlo, np.zeros((inc - m, dlo.shape[1]))], axis=0)
        G = dlo
    return G


# ---------------------------------------------------------------------------------------------
def one_level_vjps(rep, fnd, table, pid):
    """indicator-tap VJP operators of AFB1D / SFB1D against the transposed forward operators"""
    dwtlib.f64()
    n_ok = n_known = 0
    for (mode, N, L) in table.keys():
        r = table.rec[(mode, N, L)]
        # ---- AFB1D (through DWT1DForward J=1)
        cfg = {"mode": mode, "N": N, "L": L, "J": 1, "odd_any": N % 2 == 1}
        A = dwtlib.extract_fwd1(mode, N, L)
        if not isinstance(A, dwtlib.Raised):
            lo, hi = A
            M = lo.shape[0]
            Vlo = np.zeros((N, L, M))
            Vhi = np.zeros((N, L, M))
            none = False
            for j in range(L):
                jj = (j + 1) % L
                m = pw.DWT1DForward(J=1, wave=(dwtlib.ind(L, j), dwtlib.ind(L, jj, 2.0)), mode=mode)
                x = torch.zeros(M, 1, N, requires_grad=True)
                yl, yh = m(x)
                cot = torch.eye(M).reshape(M, 1, M)
                ga, = torch.autograd.grad(yl, x, cot, retain_graph=True, allow_unused=True)
                gd, = torch.autograd.grad(yh[0], x, cot, allow_unused=True)
                if ga is None or gd is None:
                    none = True
                    break
                Vlo[:, j, :] = ga[:, 0].numpy().T
                Vhi[:, jj, :] = gd[:, 0].numpy().T / 2.0
            rep.validated()
            if N % 2 or N < 2 * L:
                rep.nontriv(("afb1d_vjp", mode, N, L))
            case = {"api": "AFB1D.backward", "check": "one_level_vjps", "cfg": cfg}
            if none:
                rep.violation("AFB1D: input requires grad but receives None at %s" % (cfg,), case)
            elif dwtlib.eq_int(Vlo, np.transpose(lo, (2, 1, 0))) and dwtlib.eq_int(Vhi, np.transpose(hi, (2, 1, 0))):
                n_ok += 1
                if not r["ab_same"]:
                    rep.drift.append("AFB1D.backward is the exact adjoint but the Impl model says otherwise at %s" % (cfg,))
                if n_ok == 1:
                    rep.sample({"api": "AFB1D.backward", "cfg": cfg, "observed": "VJP operator [n,tap,k] == transposed forward operator, both bands"})
            else:
                B = table.ab_impl(mode, N, L)
                sig = "equals-impl-model" if (not r["ab_same"] and dwtlib.eq_int(Vlo, B) and dwtlib.eq_int(Vhi, B)) else "other"
                f = fnd.match(pid, "AFB1D.backward", cfg, sig)
                if f:
                    rep.known_finding(f["id"], f["what"])
                    n_known += 1
                else:
                    d = dwtlib.diff_entries(Vlo, np.transpose(lo, (2, 1, 0)))
                    rep.violation("AFB1D.backward is not the transpose of the forward at %s: [index(n,tap,k), observed, expected] %s"
                                  % (cfg, d), dict(case, diff=d))
        # ---- SFB1D (through DWT1DInverse with one level), coefficient length M = N
        if not r["s_feasible"]:
            continue
        M = N
        cfg = {"mode": mode, "M": M, "L": L, "J": 1, "odd_any": False}
        S = dwtlib.extract_inv1(mode, M, L)
        if isinstance(S, dwtlib.Raised):
            continue            # C10's business
        lo, hi = S
        P = lo.shape[0]
        Vlo = np.zeros((M, L, P))
        Vhi = np.zeros((M, L, P))
        raised = None
        for j in range(L):
            jj = (j + 1) % L
            m = pw.DWT1DInverse(wave=(dwtlib.ind(L, j), dwtlib.ind(L, jj, 2.0)), mode=mode)
            a = torch.zeros(P, 1, M, requires_grad=True)
            d = torch.zeros(P, 1, M, requires_grad=True)
            y = m((a, [d]))
            cot = torch.eye(P).reshape(P, 1, P)
            try:
                ga, gd = torch.autograd.grad(y, [a, d], cot, allow_unused=True)
            except Exception as e:   # noqa
                raised = e
                break
            if ga is None or gd is None:
                raised = "None gradient"
                break
            Vlo[:, j, :] = ga[:, 0].numpy().T
            Vhi[:, jj, :] = gd[:, 0].numpy().T / 2.0
        rep.validated()
        case = {"api": "SFB1D.backward", "check": "one_level_vjps", "cfg": cfg}
        if M < L:
            rep.nontriv(("sfb1d_vjp", mode, M, L))
        if raised is not None:
            sig = "raises" if not isinstance(raised, str) else "none-grad"
            f = fnd.match(pid, "SFB1D.backward", cfg, sig)
            if f:
                rep.known_finding(f["id"], f["what"])
                n_known += 1
            else:
                rep.violation("SFB1D.backward failed (%r) at %s" % (raised, cfg), dict(case, observed=repr(raised)))
        elif dwtlib.eq_int(Vlo, np.transpose(lo, (2, 1, 0))) and dwtlib.eq_int(Vhi, np.transpose(hi, (2, 1, 0))):
            n_ok += 1
            if not r["sb_same"]:
                rep.drift.append("SFB1D.backward is the exact adjoint but the Impl model says otherwise at %s" % (cfg,))
        else:
            B = table.sb_impl(mode, M, L)
            sig = "equals-impl-model" if (not r["sb_same"] and dwtlib.eq_int(Vlo, B) and dwtlib.eq_int(Vhi, B)) else "other"
            f = fnd.match(pid, "SFB1D.backward", cfg, sig)
            if f:
                rep.known_finding(f["id"], f["what"])
                n_known += 1
            else:
                d = dwtlib.diff_entries(Vlo, np.transpose(lo, (2, 1, 0)))
                rep.violation("SFB1D.backward is not the transpose of the forward at %s: [index(k,tap,q), observed, expected] %s"
                              % (cfg, d), dict(case, diff=d))
    rep.count("one_level_vjp_exact_adjoint", n_ok)
    rep.count("one_level_vjp_known_deviation", n_known)
