"""Spec -> code replays for the DTCWT family (C03, C04, C06, C11, C12)."""
import numpy as np
import torch

import pytorch_wavelets as pw

from . import dwtlib, dtlib, dtasm, tlc, models
from .common import NCPU, seed
from .dwtmodel import design_check

SQ2 = np.sqrt(2.0)
L1_LENGTHS = [(5, 3), (5, 7), (9, 7), (13, 19)]          # (h0o, h1o) lengths of legall, near_sym_a, antonini, near_sym_b
Q_LENGTHS = [10, 14, 16, 18]


def run_dt2(rep, tier, invariants, apis, label="DTCWT2", **over):
    hw = models.sq(2, 9) | {(h, w) for h in (10, 13, 16, 24) for w in (2, 4, 6)} | {(w, h) for h in (10, 13, 16, 24) for w in (2, 4, 6)}
    if tier != "quick":
        hw = models.sq(2, 20) | {(h, w) for h in (24, 33, 40) for w in (2, 4, 6, 9)} | {(w, h) for h in (24, 33, 40) for w in (2, 4, 6, 9)}
    c = dict(HWCodes=models.code(hw), JMax=3 if tier == "quick" else 4, Apis=set(apis), Shard=0, NShards=1, Emit=True,
             OptFix=models.FIX["OptFix"], AbsentFix=models.FIX["AbsentFix"])
    c.update(over)
    res = tlc.run_model("DTCWT2", c, invariants=["EmitOK"] + list(invariants), shards=NCPU, tag=label, timeout=3000)
    rep.add_tlc(res, label)
    design_check(rep, res, label)
    return res


def int_filter_set(rng, l0, l1, lq, B=3):
    """random integer taps with the polarity premise sum(h0a*h0b) > 0 > sum(h1a*h1b) (an identity of the
    shipped tables, C18); level-1 filters of odd lengths (l0, l1), q-shift filters of even length lq"""
    t = {"h0o": dwtlib.int_taps(rng, l0, B), "h1o": dwtlib.int_taps(rng, l1, B),
         "g0o": dwtlib.int_taps(rng, l1, B), "g1o": dwtlib.int_taps(rng, l0, B)}
    while True:
        a, b = dwtlib.int_taps(rng, lq, B), dwtlib.int_taps(rng, lq, B)
        if a @ b > 0:
            t["h0a"], t["h0b"] = a, b
            break
    while True:
        a, b = dwtlib.int_taps(rng, lq, B), dwtlib.int_taps(rng, lq, B)
        if a @ b < 0:
            t["h1a"], t["h1b"] = a, b
            break
    while True:
        a, b = dwtlib.int_taps(rng, lq, B), dwtlib.int_taps(rng, lq, B)
        if a @ b > 0:
            t["g0a"], t["g0b"] = a, b
            break
    while True:
        a, b = dwtlib.int_taps(rng, lq, B), dwtlib.int_taps(rng, lq, B)
        if a @ b < 0:
            t["g1a"], t["g1b"] = a, b
            break
    return t


def fwd_module(taps, J, **kw):
    return pw.DTCWTForward(biort=(taps["h0o"], taps["h1o"]), qshift=(taps["h0a"], taps["h0b"], taps["h1a"], taps["h1b"]), J=J, **kw)


def inv_module(taps, **kw):
    return pw.DTCWTInverse(biort=(taps["g0o"], taps["g1o"]), qshift=(taps["g0a"], taps["g0b"], taps["g1a"], taps["g1b"]), **kw)


def near_int(a):
    r = np.round(a)
    return r, float(np.abs(a - r).max()) if a.size else 0.0


def numpy_forward(taps, X2d, J):
    """the reference implementation with the same taps"""
    from dtcwt.numpy import Transform2d
    t = Transform2d(biort=(taps["h0o"], taps["g0o"], taps["h1o"], taps["g1o"]),
                    qshift=(taps["h0a"], taps["h0b"], taps["g0a"], taps["g0b"], taps["h1a"], taps["h1b"], taps["g1a"], taps["g1b"]))
    import logging
    logging.disable(logging.WARNING)
    try:
        return t.forward(X2d, nlevels=J, include_scale=True)
    finally:
        logging.disable(logging.NOTSET)


def forward_replay(rep, fnd, tab, records, pid, pin_every=7):
    dwtlib.f64()
    rng = np.random.default_rng(30000 + seed())
    n_ok = 0
    k = 0
    for r in records:
        if r.get("kind") != "dt2.fwd":
            continue
        H, W, J = r["H"], r["W"], r["J"]
        l0, l1 = L1_LENGTHS[k % len(L1_LENGTHS)]
        lq = Q_LENGTHS[(k // 2) % len(Q_LENGTHS)]
        k += 1
        taps = int_filter_set(rng, l0, l1, lq)
        cfg = {"H": H, "W": W, "J": J, "level1_lengths": [l0, l1], "qshift_length": lq}
        case = {"api": "DTCWTForward", "check": "forward_replay", "cfg": cfg, "taps": {a: b.tolist() for a, b in taps.items()}}
        need = [("colfilter", t["in_r"] + t["in_r"] % 2, l0) for t in r["trail"][:1]]
        try:
            lows, highs = dtasm.forward(tab, r, taps)
        except KeyError:
            rep.count("forward_skipped_outside_table")
            continue
        rep.validated()
        if H % 2 or W % 2 or any(t["ext_r"] or t["ext_c"] for t in r["trail"][1:]) or H != W:
            rep.nontriv(("dt_fwd", H, W, J, l0, l1, lq))
        try:
            X = torch.eye(H * W).reshape(H * W, 1, H, W)
            m = fwd_module(taps, J, include_scale=True)
            yls, yhs = m(X)
        except Exception as e:   # noqa
            rep.violation("DTCWTForward raised %r at %s" % (e, cfg), dict(case, observed=repr(e)))
            continue
        ok = len(yhs) == J
        what = ""
        for j in range(J):
            t = r["trail"][j]
            if not ok:
                break
            yl = yls[j]
            if tuple(yl.shape[-2:]) != (t["lo_r"], t["lo_c"]) or tuple(yhs[j].shape) != (H * W, 1, 6, t["hi_r"], t["hi_c"], 2):
                ok, what = False, "level %d shapes: lowpass %s, highpass %s; reference pyramid (%d,%d) / (6,%d,%d,2)" % (
                    j + 1, tuple(yl.shape[-2:]), tuple(yhs[j].shape[2:]), t["lo_r"], t["lo_c"], t["hi_r"], t["hi_c"])
                break
            if not dwtlib.eq_int(yl[:, 0].reshape(H * W, -1).numpy().T, lows[j]):
                ok, what = False, "level %d lowpass differs" % (j + 1)
                break
            for o in range(6):
                for ri, part in enumerate(("re", "im")):
                    got, dev = near_int(yhs[j][:, 0, o, :, :, ri].reshape(H * W, -1).numpy().T * SQ2)
                    if dev > 1e-6 or not dwtlib.eq_int(got, highs[j][o][part]):
                        ok, what = False, "level %d orientation %d (%s part) differs" % (j + 1, o, part)
                        break
                if not ok:
                    break
        if ok:
            n_ok += 1
            if n_ok == 1:
                rep.sample({"api": "DTCWTForward", "cfg": cfg, "taps": case["taps"],
                            "pyramid": r["trail"], "observed": "every lowpass and all 6x2 subband planes of every level equal the assembled Ref operators"})
        else:
            rep.violation("DTCWTForward differs from the reference dual-tree transform at %s: %s" % (cfg, what), case)
        # pin the assembled Ref to the NumPy reference (a machinery check, not a verdict)
        if (k % pin_every) == 0:
            for b in (0, H * W // 2, H * W - 1):
                img = np.zeros(H * W)
                img[b] = 1
                p = numpy_forward(taps, img.reshape(H, W), J)
                for j in range(J):
                    if not np.allclose(p.scales[j].ravel(), lows[j][:, b], atol=1e-9):
                        rep.fail("assembled Ref lowpass disagrees with dtcwt.Transform2d at %s level %d" % (cfg, j + 1))
                    hp = p.highpasses[j]
                    for o in range(6):
                        if not (np.allclose(hp[:, :, o].real.ravel() * SQ2, highs[j][o]["re"][:, b], atol=1e-9)
                                and np.allclose(hp[:, :, o].imag.ravel() * SQ2, highs[j][o]["im"][:, b], atol=1e-9)):
                            rep.fail("assembled Ref highpass disagrees with dtcwt.Transform2d at %s level %d orientation %d" % (cfg, j + 1, o))
            rep.count("oracle_pins")
    rep.count("forward_configs_equal_ref", n_ok)


def one_dim_replay(rep, fnd, tab, pid, kinds):
    """the real 1-D routines (column and row variants) against TLC's Ref entries, and the NumPy pin"""
    n_ok = 0
    for (kind, r, L, hp) in sorted(tab.rec):
        if kind not in kinds:
            continue
        A, B = tab.get(kind, r, L, hp)
        cfg = dict(routine=kind, rows=r, taps=L, highpass=hp)
        try:
            nA, nB = dtlib.numpy_op(kind, r, L, hp)
            if not (dwtlib.eq_int(np.round(nA), A) and dwtlib.eq_int(np.round(nB), B)):
                rep.fail("Ref %s disagrees with the NumPy reference at %s" % (kind, cfg))
                continue
        except Exception as e:   # noqa
            rep.fail("NumPy reference failed at %s: %r" % (cfg, e))
            continue
        for axis, name in (("col", kind), ("row", kind.replace("col", "row"))):
            rep.validated()
            try:
                rA, rB = dtlib.real_op(kind, r, L, hp, axis)
            except Exception as e:   # noqa
                rep.violation("%s raised %r at %s" % (name, e, cfg), {"api": name, "check": "one_dim", "cfg": cfg})
                continue
            if dwtlib.eq_int(rA, A) and dwtlib.eq_int(rB, B):
                n_ok += 1
            else:
                d = dwtlib.diff_entries(rA, A) or dwtlib.diff_entries(rB, B)
                rep.violation("%s operator differs from the reference %s at %s: [index(out,tap,in), observed, expected] %s"
                              % (name, kind, cfg, d), {"api": name, "check": "one_dim", "cfg": cfg, "diff": d})
        if r % 8:
            rep.nontriv(("dt1", kind, r, L, hp))
    rep.count("one_dim_operators_equal_ref", n_ok)


BIORTS = ["antonini", "legall", "near_sym_a", "near_sym_b"]
QSHIFTS = ["qshift_06", "qshift_a", "qshift_b", "qshift_c", "qshift_d"]


def numeric_forward(rep, fnd, pid, tier):
    """all named filter pairs against dtcwt.Transform2d.forward on real-valued images"""
    from dtcwt.numpy import Transform2d
    import logging
    dwtlib.f64()
    rng = np.random.default_rng(31000 + seed())
    pairs = [(b, q) for b in BIORTS for q in QSHIFTS]
    if tier == "quick":
        pairs = [pairs[i] for i in (0, 6, 12, 18, 3, 9)]
    n = 0
    logging.disable(logging.WARNING)
    try:
        for (b, q) in pairs:
            for rep_i in range(3 if tier == "quick" else 8):
                H, W = int(rng.integers(2, 41)), int(rng.integers(2, 41))
                J = int(rng.integers(1, 5))
                x = rng.standard_normal((H, W)) * (10.0 ** rng.integers(-3, 4))
                cfg = dict(biort=b, qshift=q, H=H, W=W, J=J)
                p = Transform2d(biort=b, qshift=q).forward(x, nlevels=J, include_scale=True)
                try:
                    yl, yh = pw.DTCWTForward(biort=b, qshift=q, J=J, include_scale=True)(torch.tensor(x)[None, None])
                except Exception as e:   # noqa
                    rep.violation("DTCWTForward(%s,%s) raised %r at %s" % (b, q, e, cfg), {"api": "DTCWTForward", "check": "numeric", "cfg": cfg})
                    continue
                scale = np.abs(x).max() * 4.0 ** J
                tol = 1e-12 * scale
                err = 0.0
                shape_ok = True
                for j in range(J):
                    hp = p.highpasses[j]
                    a = yh[j][0, 0].numpy()              # (6, h, w, 2)
                    if a.shape != (6,) + hp.shape[:2] + (2,) or tuple(yl[j].shape[-2:]) != p.scales[j].shape:
                        shape_ok = False
                        break
                    err = max(err, np.abs(a[..., 0] - np.moveaxis(hp.real, 2, 0)).max(), np.abs(a[..., 1] - np.moveaxis(hp.imag, 2, 0)).max(),
                              np.abs(yl[j][0, 0].numpy() - p.scales[j]).max())
                n += 1
                rep.nontriv(("dt_num", b, q, H, W, J))
                if not shape_ok or not err <= tol:
                    rep.violation("DTCWTForward(%s,%s) differs from dtcwt.Transform2d.forward at %s: max error %.3g (bound %.3g), shapes ok=%s"
                                  % (b, q, cfg, err, tol, shape_ok), {"api": "DTCWTForward", "check": "numeric", "cfg": cfg})
    finally:
        logging.disable(logging.NOTSET)
    rep.validated(n)
    rep.count("numeric_forward_comparisons", n)


# ------------------------------------------------------------------------------------------
# inverse on free pyramids, absent inputs (C11)
# ------------------------------------------------------------------------------------------
def _absent_value(kind, like):
    if kind == "none":
        return None
    if kind == "empty":
        return torch.tensor([])
    return like.new_zeros([])           # the 0-dim placeholder the forward transform emits for skipped levels


def extract_inverse(taps, rec, absent, abs_low, akind):
    """matrix (pixels x pyramid coefficients) of the real DTCWTInverse on the basis of the whole pyramid"""
    trail = rec["trail"]
    J = len(trail)
    off, total = dtasm.pyramid_offsets(trail)
    t = trail[-1]
    yl = torch.zeros(total, 1, t["lo_r"], t["lo_c"])
    yl[off[0][0]:off[0][1], 0] = torch.eye(off[0][1]).reshape(-1, t["lo_r"], t["lo_c"])
    yh = []
    for j in range(1, J + 1):
        tt = trail[j - 1]
        n = 12 * tt["hi_r"] * tt["hi_c"]
        h = torch.zeros(total, 1, 6, tt["hi_r"], tt["hi_c"], 2)
        # flattened order (o, ri, row, col)
        E = torch.eye(n).reshape(n, 6, 2, tt["hi_r"], tt["hi_c"]).permute(0, 1, 3, 4, 2)
        h[off[j][0]:off[j][1], 0] = E
        yh.append(_absent_value(akind, yl) if j in absent else h)
    low = _absent_value(akind, yl) if abs_low else yl
    m = inv_module(taps)
    y = m((low, yh))
    return y[:, 0].reshape(total, -1).numpy().T, tuple(y.shape[-2:])


def inverse_replay(rep, fnd, tab, records, pid):
    dwtlib.f64()
    rng = np.random.default_rng(32000 + seed())
    n_ok = 0
    k = 0
    for r in records:
        if r.get("kind") != "dt2.inv":
            continue
        H, W, J = r["H"], r["W"], r["J"]
        absent, abs_low, akind = set(r["absent"]), r["absLow"], r["akind"]
        if abs_low and J in absent:
            continue            # nothing left to derive a shape from: outside the property
        l0, l1 = L1_LENGTHS[k % len(L1_LENGTHS)]
        lq = Q_LENGTHS[(k // 3) % len(Q_LENGTHS)]
        k += 1
        taps = int_filter_set(rng, l0, l1, lq)
        ext_lost = any((j in absent) and j < J and (r["trail"][j]["ext_r"] or r["trail"][j]["ext_c"]) for j in range(1, J + 1))
        cfg = {"H": H, "W": W, "J": J, "absent_levels": sorted(absent), "lowpass_absent": abs_low, "absent_as": akind,
               "level1_lengths": [l0, l1], "qshift_length": lq, "ext_lost": ext_lost}
        case = {"api": "DTCWTInverse", "check": "inverse_replay", "cfg": cfg, "taps": {a: b.tolist() for a, b in taps.items()}}
        try:
            Ml, Mh, (er, ec) = dtasm.inverse(tab, r, taps, absent, abs_low)
        except KeyError:
            rep.count("inverse_skipped_outside_table")
            continue
        rep.validated()
        rep.nontriv(("dt_inv", H, W, J, tuple(sorted(absent)), abs_low, akind))
        try:
            Y, (orr, occ) = extract_inverse(taps, r, absent, abs_low, akind)
        except Exception as e:   # noqa
            sig = "raises:" + type(e).__name__
            try:      # does the model of the coded pipeline raise here too?
                dtasm.inverse(tab, r, taps, absent, abs_low, impl=True)
                sig += ":model-returns"
            except dtasm.ImplRaises:
                pass
            except KeyError:
                pass
            f = fnd.match(pid, "DTCWTInverse", cfg, sig)
            if f:
                rep.known_finding(f["id"], f["what"])
            else:
                rep.violation("DTCWTInverse raised %r on a forward-compatible pyramid at %s" % (e, cfg), dict(case, observed=repr(e)))
            if r["outcome"] != "raise":
                rep.drift.append("DTCWTInverse raises, the DTCWT2 model does not, at %s" % (cfg,))
            continue
        off, total = dtasm.pyramid_offsets(r["trail"])
        nl = off[0][1]
        good = (orr, occ) == (er, ec)
        if good:
            lowpart = Y[:, :nl]
            hp, dev = near_int(Y[:, nl:] * SQ2)
            good = dwtlib.eq_int(lowpart, Ml[:, :nl]) and dev < 1e-6 and dwtlib.eq_int(hp, Mh[:, nl:])
        if good:
            n_ok += 1
            if r["outcome"] != "ok":
                rep.drift.append("DTCWTInverse returns, the DTCWT2 model says %s, at %s" % (r["outcome"], cfg))
            if n_ok == 1:
                rep.sample({"api": "DTCWTInverse", "cfg": cfg, "observed": "matrix on the basis of the whole pyramid equals the assembled reference inverse"})
        else:
            sig = "differs"
            try:      # known only if it is exactly what the coded pipeline (crop skipped) computes
                Il, Ih, (ir, ic) = dtasm.inverse(tab, r, taps, absent, abs_low, impl=True)
                hp2, dev2 = near_int(Y[:, nl:] * SQ2)
                if (orr, occ) == (ir, ic) and dwtlib.eq_int(Y[:, :nl], Il[:, :nl]) and dev2 < 1e-6 and dwtlib.eq_int(hp2, Ih[:, nl:]):
                    sig = "equals-impl-model"
            except (dtasm.ImplRaises, KeyError):
                pass
            f = fnd.match(pid, "DTCWTInverse", cfg, sig)
            if f:
                rep.known_finding(f["id"], f["what"])
            else:
                rep.violation("DTCWTInverse differs from the reference inverse at %s: output %dx%d, reference %dx%d"
                              % (cfg, orr, occ, er, ec), case)
    rep.count("inverse_configs_equal_ref", n_ok)


def numeric_inverse(rep, fnd, pid, tier):
    """random (non-image) pyramids, all named filter pairs, against dtcwt.Transform2d.inverse"""
    from dtcwt.numpy import Transform2d, Pyramid
    import logging
    dwtlib.f64()
    rng = np.random.default_rng(33000 + seed())
    pairs = [(b, q) for b in BIORTS for q in QSHIFTS]
    if tier == "quick":
        pairs = [pairs[i] for i in (1, 7, 13, 19, 4, 10)]
    n = 0
    logging.disable(logging.WARNING)
    try:
        for (b, q) in pairs:
            for _ in range(3 if tier == "quick" else 8):
                H, W = int(rng.integers(2, 37)), int(rng.integers(2, 37))
                J = int(rng.integers(1, 5))
                cfg = dict(biort=b, qshift=q, H=H, W=W, J=J)
                tr = Transform2d(biort=b, qshift=q)
                p = tr.forward(np.zeros((H, W)), nlevels=J)
                low = rng.standard_normal(p.lowpass.shape)
                his = [rng.standard_normal(h.shape) + 1j * rng.standard_normal(h.shape) for h in p.highpasses]
                ref = tr.inverse(Pyramid(low, tuple(his)))
                yh = [torch.tensor(np.stack([np.moveaxis(h.real, 2, 0), np.moveaxis(h.imag, 2, 0)], axis=-1))[None, None] for h in his]
                try:
                    y = pw.DTCWTInverse(biort=b, qshift=q)((torch.tensor(low)[None, None], yh))[0, 0].numpy()
                except Exception as e:   # noqa
                    rep.violation("DTCWTInverse(%s,%s) raised %r on a random pyramid at %s" % (b, q, e, cfg),
                                  {"api": "DTCWTInverse", "check": "numeric", "cfg": cfg})
                    continue
                n += 1
                rep.nontriv(("dt_inv_num", b, q, H, W, J))
                tol = 1e-12 * 4.0 ** J * 8
                err = np.abs(y - ref).max() if y.shape == ref.shape else np.inf
                if not err <= tol:
                    rep.violation("DTCWTInverse(%s,%s) differs from dtcwt.Transform2d.inverse at %s: max error %.3g (bound %.3g), shapes %s vs %s"
                                  % (b, q, cfg, err, tol, y.shape, ref.shape), {"api": "DTCWTInverse", "check": "numeric", "cfg": cfg})
    finally:
        logging.disable(logging.NOTSET)
    rep.validated(n)
    rep.count("numeric_inverse_comparisons", n)
