"""Spec -> code replays for the DTCWT family (C03, C04, C06, C11, C12)."""
import numpy as np
import torch

import pytorch_wavelets as pw

from . import dwtlib, dtlib, dtasm, tlc, models
from .common import NCPU, seed
from .dwtmodel import design_check

SQ2 = np.sqrt(2.0)
L1_LENGTHS = [(5, 3), (5, 7), (9, 7), (13, 19)]          # (h0o, h1o) lengths of legall, near_sym_a, antonini, near_sym_b
Q_LENGTHS = [10, 14, 16, 18]


def run_dt2(rep, tier, invariants, apis, label="DTCWT2", **over):
    hw = models.sq(2, 9) | {(h, w) for h in (10, 13, 16, 24) for w in (2, 4, 6)} | {(w, h) for h in (10, 13, 16, 24) for w in (2, 4, 6)}
    if tier != "quick":
        hw = models.sq(2, 20) | {(h, w) for h in (24, 33, 40) for w in (2, 4, 6, 9)} | {(w, h) for h in (24, 33, 40) for w in (2, 4, 6, 9)}
    c = dict(HWCodes=models.code(hw), JMax=3 if tier == "quick" else 4, Apis=set(apis), Shard=0, NShards=1, Emit=True,
             OptFix=models.FIX["OptFix"], AbsentFix=models.FIX["AbsentFix"])
    c.update(over)
    res = tlc.run_model("DTCWT2", c, invariants=["EmitOK"] + list(invariants), shards=NCPU, tag=label, timeout=3000)
    rep.add_tlc(res, label)
    design_check(rep, res, label)
    return res


def int_filter_set(rng, l0, l1, lq, B=3):
    """random integer taps with the polarity premise sum(h0a*h0b) > 0 > sum(h1a*h1b) (an identity of the
    shipped tables, C18); level-1 filters of odd lengths (l0, l1), q-shift filters of even length lq"""
    t = {"h0o": dwtlib.int_taps(rng, l0, B), "h1o": dwtlib.int_taps(rng, l1, B),
         "g0o": dwtlib.int_taps(rng, l1, B), "g1o": dwtlib.int_taps(rng, l0, B)}
    while True:
        a, b = dwtlib.int_taps(rng, lq, B), dwtlib.int_taps(rng, lq, B)
        if a @ b > 0:
            t["h0a"], t["h0b"] = a, b
            break
    while True:
        a, b = dwtlib.int_taps(rng, lq, B), dwtlib.int_taps(rng, lq, B)
        if a @ b < 0:
            t["h1a"], t["h1b"] = a, b
            break
    while True:
        a, b = dwtlib.int_taps(rng, lq, B), dwtlib.int_taps(rng, lq, B)
        if a @ b > 0:
            t["g0a"], t["g0b"] = a, b
            break
    while True:
        a, b = dwtlib.int_taps(rng, lq, B), dwtlib.int_taps(rng, lq, B)
        if a @ b < 0:
            t["g1a"], t["g1b"] = a, b
            break
    return t


def fwd_module(taps, J, **kw):
    return pw.DTCWTForward(biort=(taps["h0o"], taps["h1o"]), qshift=(taps["h0a"], taps["h0b"], taps["h1a"], taps["h1b"]), J=J, **kw)


def inv_module(taps, **kw):
    return pw.DTCWTInverse(biort=(taps["g0o"], taps["g1o"]), qshift=(taps["g0a"], taps["g0b"], taps["g1a"], taps["g1b"]), **kw)


def near_int(a):
    r = np.round(a)
    return r, float(np.abs(a - r).max()) if a.size else 0.0


def numpy_forward(taps, X2d, J):
    """the reference implementation with the same taps"""
    from dtcwt.numpy import Transform2d
    t = Transform2d(biort=(taps["h0o"], taps["g0o"], taps["h1o"], taps["g1o"]),
                    qshift=(taps["h0a"], taps["h0b"], taps["g0a"], taps["g0b"], taps["h1a"], taps["h1b"], taps["g1a"], taps["g1b"]))
    import logging
    logging.disable(logging.WARNING)
    try:
        return t.forward(X2d, nlevels=J, include_scale=True)
    finally:
        logging.disable(logging.NOTSET)


def forward_replay(rep, fnd, tab, records, pid, pin_every=7):
    dwtlib.f64()
    rng = np.random.default_rng(30000 + seed())
    n_ok = 0
    k = 0
    for r in records:
        if r.get("kind") != "dt2.fwd":
            continue
        H, W, J = r["H"], r["W"], r["J"]
        l0, l1 = L1_LENGTHS[k % len(L1_LENGTHS)]
        lq = Q_LENGTHS[(k // 2) % len(Q_LENGTHS)]
        k += 1
        taps = int_filter_set(rng, l0, l1, lq)
        cfg = {"H": H, "W": W, "J": J, "level1_lengths": [l0, l1], "qshift_length": lq}
        case = {"api": "DTCWTForward", "check": "forward_replay", "cfg": cfg, "taps": {a: b.tolist() for a, b in taps.items()}}
        need = [("colfilter", t["in_r"] + t["in_r"] % 2, l0) for t in r["trail"][:1]]
        try:
            lows, highs = dtasm.forward(tab, r, taps)
        except KeyError:
            rep.count("forward_skipped_outside_table")
            continue
        rep.validated()
        if H % 2 or W % 2 or any(t["ext_r"] or t["ext_c"] for t in r["trail"][1:]) or H != W:
            rep.nontriv(("dt_fwd", H, W, J, l0, l1, lq))
        try:
            X = torch.eye(H * W).reshape(H * W, 1, H, W)
            m = fwd_module(taps, J, include_scale=True)
            if k % 3 == 2:          # every third: the input requires grad (the path with a graph being recorded)
                yls, yhs = m(X.clone().requires_grad_(True))
                yls, yhs = [t.detach() for t in yls], [t.detach() for t in yhs]
            else:
                yls, yhs = m(X)
        except Exception as e:   # noqa
            rep.violation("DTCWTForward raised %r at %s" % (e, cfg), dict(case, observed=repr(e)))
            continue
        ok = len(yhs) == J
        what = ""
        for j in range(J):
            t = r["trail"][j]
            if not ok:
                break
            yl = yls[j]
            if tuple(yl.shape[-2:]) != (t["lo_r"], t["lo_c"]) or tuple(yhs[j].shape) != (H * W, 1, 6, t["hi_r"], t["hi_c"], 2):
                ok, what = False, "level %d shapes: lowpass %s, highpass %s; reference pyramid (%d,%d) / (6,%d,%d,2)" % (
                    j + 1, tuple(yl.shape[-2:]), tuple(yhs[j].shape[2:]), t["lo_r"], t["lo_c"], t["hi_r"], t["hi_c"])
                break
            if not dwtlib.eq_int(yl[:, 0].reshape(H * W, -1).numpy().T, lows[j]):
                ok, what = False, "level %d lowpass differs" % (j + 1)
                break
            for o in range(6):
                for ri, part in enumerate(("re", "im")):
                    got, dev = near_int(yhs[j][:, 0, o, :, :, ri].reshape(H * W, -1).numpy().T * SQ2)
                    if dev > 1e-6 or not dwtlib.eq_int(got, highs[j][o][part]):
                        ok, what = False, "level %d orientation %d (%s part) differs" % (j + 1, o, part)
                        break
                if not ok:
                    break
        if ok and k % 2 == 0:
            # the same operator in FLOAT32: with integer taps and indicator inputs every intermediate value is a small integer
            # (times a power of 1/sqrt 2 at the very end), exactly representable - an algorithm that treats float32 data
            # differently from float64 data (a "stabilisation", a reduced-precision shortcut) cannot hide behind rounding here
            torch.set_default_dtype(torch.float32)
            try:
                m32 = fwd_module(taps, J, include_scale=True)
                yls32, yhs32 = m32(X.float())
                la_, ha_ = dtasm.forward(tab, r, {a_: np.abs(b_) for a_, b_ in taps.items()})      # the operator of |taps|: absolute gain
                again = max([float(np.abs(q_).max()) for q_ in la_] + [float(np.abs(d_[pt_]).max()) for lv_ in ha_ for d_ in lv_ for pt_ in ("re", "im")] + [1.0])
                exact32 = again * 4 < 2 ** 24           # every partial sum representable: float32 arithmetic is exact
                for j in range(J):
                    if yls32[j].dtype != torch.float32 or yhs32[j].dtype != torch.float32:
                        ok, what = False, "float32 input: level %d comes back as %s / %s" % (j + 1, yls32[j].dtype, yhs32[j].dtype)
                        break
                    lo32 = yls32[j][:, 0].reshape(H * W, -1).double().numpy().T
                    if lo32.shape != lows[j].shape or (not dwtlib.eq_int(lo32, lows[j]) if exact32 else float(np.abs(lo32 - lows[j]).max()) > 16 * 1.2e-7 * again):
                        ok, what = False, "float32 input: level %d lowpass differs from the (exactly representable) reference operator" % (j + 1)
                        break
                    for o in range(6):
                        for ri, part in enumerate(("re", "im")):
                            v = yhs32[j][:, 0, o, :, :, ri].reshape(H * W, -1).double().numpy().T * SQ2
                            want = highs[j][o][part]
                            if v.shape != want.shape or float(np.abs(v - want).max()) > 8 * 1.2e-7 * ((float(np.abs(want).max()) + 1.0) if exact32 else 2 * again):
                                ok, what = False, "float32 input: level %d orientation %d (%s part) differs from the (exactly representable) reference operator" % (j + 1, o, part)
                                break
                        if not ok:
                            break
                    if not ok:
                        break
            except Exception as e:   # noqa
                ok, what = False, "float32 input: raised %r" % (e,)
            finally:
                torch.set_default_dtype(torch.float64)
            rep.count("forward_configs_float32")
        if ok:
            n_ok += 1
            if n_ok == 1:
                rep.sample({"api": "DTCWTForward", "cfg": cfg, "taps": case["taps"],
                            "pyramid": r["trail"], "observed": "every lowpass and all 6x2 subband planes of every level equal the assembled Ref operators"})
        else:
            rep.violation("DTCWTForward differs from the reference dual-tree transform at %s: %s" % (cfg, what), case)
        # pin the assembled Ref to the NumPy reference (a machinery check, not a verdict)
        if (k % pin_every) == 0:
            for b in (0, H * W // 2, H * W - 1):
                img = np.zeros(H * W)
                img[b] = 1
                p = numpy_forward(taps, img.reshape(H, W), J)
                for j in range(J):
                    if not np.allclose(p.scales[j].ravel(), lows[j][:, b], atol=1e-9):
                        rep.fail("assembled Ref lowpass disagrees with dtcwt.Transform2d at %s level %d" % (cfg, j + 1))
                    hp = p.highpasses[j]
                    for o in range(6):
                        if not (np.allclose(hp[:, :, o].real.ravel() * SQ2, highs[j][o]["re"][:, b], atol=1e-9)
                                and np.allclose(hp[:, :, o].imag.ravel() * SQ2, highs[j][o]["im"][:, b], atol=1e-9)):
                            rep.fail("assembled Ref highpass disagrees with dtcwt.Transform2d at %s level %d orientation %d" % (cfg, j + 1, o))
            rep.count("oracle_pins")
    rep.count("forward_configs_equal_ref", n_ok)


def one_dim_replay(rep, fnd, tab, pid, kinds):
    """the real 1-D routines (column and row variants) against TLC's Ref entries, and the NumPy pin"""
    n_ok = 0
    for (kind, r, L, hp) in sorted(tab.rec):
        if kind not in kinds:
            continue
        A, B = tab.get(kind, r, L, hp)
        cfg = dict(routine=kind, rows=r, taps=L, highpass=hp)
        try:
            nA, nB = dtlib.numpy_op(kind, r, L, hp)
            if not (dwtlib.eq_int(np.round(nA), A) and dwtlib.eq_int(np.round(nB), B)):
                rep.fail("Ref %s disagrees with the NumPy reference at %s" % (kind, cfg))
                continue
        except Exception as e:   # noqa
            rep.fail("NumPy reference failed at %s: %r" % (cfg, e))
            continue
        for axis, name in (("col", kind), ("row", kind.replace("col", "row"))):
            rep.validated()
            try:
                rA, rB = dtlib.real_op(kind, r, L, hp, axis)
            except Exception as e:   # noqa
                if kind == "colfilter0":
                    rep.drift.append("%s(mode='zero') raised %r at %s" % (name, e, cfg))
                else:
                    rep.violation("%s raised %r at %s" % (name, e, cfg), {"api": name, "check": "one_dim", "cfg": cfg})
                continue
            if dwtlib.eq_int(rA, A) and dwtlib.eq_int(rB, B):
                n_ok += 1
            elif kind == "colfilter0":
                # the zero-extension mode is outside the listed properties (the reference package has no such mode):
                # a deviation from the declarative meaning is reported as a diagnostic
                rep.drift.append("%s(mode='zero') differs from the zero-extended convolution at %s" % (name, cfg))
            else:
                d = dwtlib.diff_entries(rA, A) or dwtlib.diff_entries(rB, B)
                rep.violation("%s operator differs from the reference %s at %s: [index(out,tap,in), observed, expected] %s"
                              % (name, kind, cfg, d), {"api": name, "check": "one_dim", "cfg": cfg, "diff": d})
        if r % 8:
            rep.nontriv(("dt1", kind, r, L, hp))
    rep.count("one_dim_operators_equal_ref", n_ok)


BIORTS = ["antonini", "legall", "near_sym_a", "near_sym_b"]
QSHIFTS = ["qshift_06", "qshift_a", "qshift_b", "qshift_c", "qshift_d"]


def numeric_forward(rep, fnd, pid, tier):
    """all named filter pairs against dtcwt.Transform2d.forward on real-valued images"""
    from dtcwt.numpy import Transform2d
    import logging
    dwtlib.f64()
    rng = np.random.default_rng(31000 + seed())
    pairs = [(b, q) for b in BIORTS for q in QSHIFTS]
    if tier == "quick":
        pairs = [pairs[i] for i in (0, 6, 12, 18, 3, 9)]
    n = 0
    logging.disable(logging.WARNING)
    try:
        for (b, q) in pairs:
            for rep_i in range(3 if tier == "quick" else 8):
                H, W = int(rng.integers(2, 41)), int(rng.integers(2, 41))
                J = int(rng.integers(1, 5))
                x = rng.standard_normal((H, W)) * (10.0 ** rng.integers(-3, 4))
                cfg = dict(biort=b, qshift=q, H=H, W=W, J=J)
                p = Transform2d(biort=b, qshift=q).forward(x, nlevels=J, include_scale=True)
                try:
                    yl, yh = pw.DTCWTForward(biort=b, qshift=q, J=J, include_scale=True)(torch.tensor(x)[None, None])
                except Exception as e:   # noqa
                    rep.violation("DTCWTForward(%s,%s) raised %r at %s" % (b, q, e, cfg), {"api": "DTCWTForward", "check": "numeric", "cfg": cfg})
                    continue
                scale = np.abs(x).max() * 4.0 ** J
                tol = 1e-12 * scale
                err = 0.0
                shape_ok = True
                for j in range(J):
                    hp = p.highpasses[j]
                    a = yh[j][0, 0].numpy()              # (6, h, w, 2)
                    if a.shape != (6,) + hp.shape[:2] + (2,) or tuple(yl[j].shape[-2:]) != p.scales[j].shape:
                        shape_ok = False
                        break
                    err = max(err, np.abs(a[..., 0] - np.moveaxis(hp.real, 2, 0)).max(), np.abs(a[..., 1] - np.moveaxis(hp.imag, 2, 0)).max(),
                              np.abs(yl[j][0, 0].numpy() - p.scales[j]).max())
                n += 1
                rep.nontriv(("dt_num", b, q, H, W, J))
                if not shape_ok or not err <= tol:
                    rep.violation("DTCWTForward(%s,%s) differs from dtcwt.Transform2d.forward at %s: max error %.3g (bound %.3g), shapes ok=%s"
                                  % (b, q, cfg, err, tol, shape_ok), {"api": "DTCWTForward", "check": "numeric", "cfg": cfg})
    finally:
        logging.disable(logging.NOTSET)
    rep.validated(n)
    rep.count("numeric_forward_comparisons", n)


# ------------------------------------------------------------------------------------------
# inverse on free pyramids, absent inputs (C11)
# ------------------------------------------------------------------------------------------
def _absent_value(kind, like):
    if kind == "none":
        return None
    if kind == "empty":
        return torch.tensor([])
    return like.new_zeros([])           # the 0-dim placeholder the forward transform emits for skipped levels


def extract_inverse(taps, rec, absent, abs_low, akind, f32=False):
    """matrix (pixels x pyramid coefficients) of the real DTCWTInverse on the basis of the whole pyramid"""
    trail = rec["trail"]
    J = len(trail)
    off, total = dtasm.pyramid_offsets(trail)
    t = trail[-1]
    yl = torch.zeros(total, 1, t["lo_r"], t["lo_c"])
    yl[off[0][0]:off[0][1], 0] = torch.eye(off[0][1]).reshape(-1, t["lo_r"], t["lo_c"])
    yh = []
    for j in range(1, J + 1):
        tt = trail[j - 1]
        n = 12 * tt["hi_r"] * tt["hi_c"]
        h = torch.zeros(total, 1, 6, tt["hi_r"], tt["hi_c"], 2)
        # flattened order (o, ri, row, col)
        E = torch.eye(n).reshape(n, 6, 2, tt["hi_r"], tt["hi_c"]).permute(0, 1, 3, 4, 2)
        h[off[j][0]:off[j][1], 0] = E
        yh.append(_absent_value(akind, yl) if j in absent else h)
    low = _absent_value(akind, yl) if abs_low else yl
    if f32:
        torch.set_default_dtype(torch.float32)
        try:
            m = inv_module(taps)
            low = low.float() if isinstance(low, torch.Tensor) and low.is_floating_point() else low
            yh = [h.float() if isinstance(h, torch.Tensor) and h.is_floating_point() else h for h in yh]
            y = m((low, yh))
        finally:
            torch.set_default_dtype(torch.float64)
        if y.dtype != torch.float32:
            raise TypeError("float32 pyramid, output %s" % y.dtype)
        return y[:, 0].reshape(total, -1).double().numpy().T, tuple(y.shape[-2:])
    m = inv_module(taps)
    y = m((low, yh))
    return y[:, 0].reshape(total, -1).numpy().T, tuple(y.shape[-2:])


def inverse_replay(rep, fnd, tab, records, pid):
    dwtlib.f64()
    rng = np.random.default_rng(32000 + seed())
    n_ok = 0
    k = 0
    for r in records:
        if r.get("kind") != "dt2.inv":
            continue
        H, W, J = r["H"], r["W"], r["J"]
        absent, abs_low, akind = set(r["absent"]), r["absLow"], r["akind"]
        if abs_low and J in absent:
            continue            # nothing left to derive a shape from: outside the property
        l0, l1 = L1_LENGTHS[k % len(L1_LENGTHS)]
        lq = Q_LENGTHS[(k // 3) % len(Q_LENGTHS)]
        k += 1
        taps = int_filter_set(rng, l0, l1, lq)
        ext_lost = any((j in absent) and j < J and (r["trail"][j]["ext_r"] or r["trail"][j]["ext_c"]) for j in range(1, J + 1))
        cfg = {"H": H, "W": W, "J": J, "absent_levels": sorted(absent), "lowpass_absent": abs_low, "absent_as": akind,
               "level1_lengths": [l0, l1], "qshift_length": lq, "ext_lost": ext_lost}
        case = {"api": "DTCWTInverse", "check": "inverse_replay", "cfg": cfg, "taps": {a: b.tolist() for a, b in taps.items()}}
        try:
            Ml, Mh, (er, ec) = dtasm.inverse(tab, r, taps, absent, abs_low)
        except KeyError:
            rep.count("inverse_skipped_outside_table")
            continue
        rep.validated()
        rep.nontriv(("dt_inv", H, W, J, tuple(sorted(absent)), abs_low, akind))
        try:
            Y, (orr, occ) = extract_inverse(taps, r, absent, abs_low, akind)
        except Exception as e:   # noqa
            sig = "raises:" + type(e).__name__
            try:      # does the model of the coded pipeline raise here too?
                dtasm.inverse(tab, r, taps, absent, abs_low, impl=True)
                sig += ":model-returns"
            except dtasm.ImplRaises:
                pass
            except KeyError:
                pass
            f = fnd.match(pid, "DTCWTInverse", cfg, sig)
            if f:
                rep.known_finding(f["id"], f["what"])
            else:
                rep.violation("DTCWTInverse raised %r on a forward-compatible pyramid at %s" % (e, cfg), dict(case, observed=repr(e)))
            if r["outcome"] != "raise":
                rep.drift.append("DTCWTInverse raises, the DTCWT2 model does not, at %s" % (cfg,))
            continue
        off, total = dtasm.pyramid_offsets(r["trail"])
        nl = off[0][1]
        good = (orr, occ) == (er, ec)
        if good:
            lowpart = Y[:, :nl]
            hp, dev = near_int(Y[:, nl:] * SQ2)
            good = dwtlib.eq_int(lowpart, Ml[:, :nl]) and dev < 1e-6 and dwtlib.eq_int(hp, Mh[:, nl:])
        if good and k % 2 == 0:
            # the same operator from a FLOAT32 pyramid (integer taps, indicator coefficients: exactly representable up to the final
            # 1/sqrt 2): a dtype-dependent algorithm cannot hide behind rounding
            rep.count("inverse_configs_float32")
            try:
                Y32, shp32 = extract_inverse(taps, r, absent, abs_low, akind, f32=True)
                # the band-pass coefficients are divided by sqrt 2 BEFORE the synthesis filters (c2q), so their path is not exact in
                # float32: the rounding of that one factor is amplified by the filters' absolute gain - the operator of |taps|
                Mla, Mha, _ = dtasm.inverse(tab, r, {a_: np.abs(b_) for a_, b_ in taps.items()}, absent, abs_low)
                again = max(float(np.abs(Mla).max()), float(np.abs(Mha).max()), 1.0)
                low_ok = dwtlib.eq_int(Y32[:, :nl], Ml[:, :nl]) if again * 4 < 2 ** 24 else \
                    float(np.abs(Y32[:, :nl] - Ml[:, :nl]).max()) <= 16 * 1.2e-7 * again      # exact while every partial sum is representable
                good32 = shp32 == (er, ec) and low_ok \
                    and float(np.abs(Y32[:, nl:] * SQ2 - Mh[:, nl:]).max()) <= 16 * 1.2e-7 * again
                why = "differs from the reference operator (low-pass columns: exactly; band-pass columns: beyond 16 eps32 x the absolute gain)"
            except Exception as e:   # noqa
                good32, why = False, "raised %r" % (e,)
            if not good32:
                rep.violation("DTCWTInverse of a FLOAT32 pyramid %s at %s" % (why, cfg), dict(case, dtype="float32"))
                continue
        if good:
            n_ok += 1
            if r["outcome"] != "ok":
                rep.drift.append("DTCWTInverse returns, the DTCWT2 model says %s, at %s" % (r["outcome"], cfg))
            if n_ok == 1:
                rep.sample({"api": "DTCWTInverse", "cfg": cfg, "observed": "matrix on the basis of the whole pyramid equals the assembled reference inverse"})
        else:
            sig = "differs"
            try:      # known only if it is exactly what the coded pipeline (crop skipped) computes
                Il, Ih, (ir, ic) = dtasm.inverse(tab, r, taps, absent, abs_low, impl=True)
                hp2, dev2 = near_int(Y[:, nl:] * SQ2)
                if (orr, occ) == (ir, ic) and dwtlib.eq_int(Y[:, :nl], Il[:, :nl]) and dev2 < 1e-6 and dwtlib.eq_int(hp2, Ih[:, nl:]):
                    sig = "equals-impl-model"
            except (dtasm.ImplRaises, KeyError):
                pass
            f = fnd.match(pid, "DTCWTInverse", cfg, sig)
            if f:
                rep.known_finding(f["id"], f["what"])
            else:
                rep.violation("DTCWTInverse differs from the reference inverse at %s: output %dx%d, reference %dx%d"
                              % (cfg, orr, occ, er, ec), case)
    rep.count("inverse_configs_equal_ref", n_ok)


def numeric_inverse(rep, fnd, pid, tier):
    """random (non-image) pyramids, all named filter pairs, against dtcwt.Transform2d.inverse"""
    from dtcwt.numpy import Transform2d, Pyramid
    import logging
    dwtlib.f64()
    rng = np.random.default_rng(33000 + seed())
    pairs = [(b, q) for b in BIORTS for q in QSHIFTS]
    if tier == "quick":
        pairs = [pairs[i] for i in (1, 7, 13, 19, 4, 10)]
    n = 0
    logging.disable(logging.WARNING)
    try:
        for (b, q) in pairs:
            reps = 3 if tier == "quick" else 8
            for rk in range(reps):
                H, W = int(rng.integers(2, 37)), int(rng.integers(2, 37))
                J = int(rng.integers(1, 5))
                cfg = dict(biort=b, qshift=q, H=H, W=W, J=J)
                tr = Transform2d(biort=b, qshift=q)
                p = tr.forward(np.zeros((H, W)), nlevels=J)
                low = rng.standard_normal(p.lowpass.shape)
                his = [rng.standard_normal(h.shape) + 1j * rng.standard_normal(h.shape) for h in p.highpasses]
                amp = 1.0
                if rk == 0:
                    # tiny amplitudes: nothing is "numerically zero" for a linear map
                    low, his, amp = low * 1e-30, [h * 1e-30 for h in his], 1e-30 * 4.0
                    cfg["amplitude"] = 1e-30
                elif rk == 1 and reps > 2:
                    # integer-valued bands whose entries cancel exactly (sum == 0 without being zero)
                    def bal(a):
                        v = rng.integers(-5, 6, size=a.shape).astype(np.float64)
                        v.flat[-1] -= v.sum()
                        return v
                    low = bal(low)
                    his = [bal(h.real) + 1j * bal(h.imag) for h in his]
                    amp = 40.0
                    cfg["coefficients"] = "integers with zero sum"
                if rk == reps - 1:
                    # a pyramid with a huge dynamic range BETWEEN its components (an image with a large offset: lowpass ~ 1e6,
                    # details ~ 1e-3 .. 1): the synthesis is linear - no component is "negligible" next to another
                    scl = [10.0 ** int(rng.integers(5, 8))] + [10.0 ** int(rng.integers(-3, 1)) for _ in his]
                    low = low * scl[0]
                    his = [h * s_ for h, s_ in zip(his, scl[1:])]
                    amp = scl[0] * 4.0
                    cfg["component_scales"] = scl
                ref = tr.inverse(Pyramid(low, tuple(his)))
                yh = [torch.tensor(np.stack([np.moveaxis(h.real, 2, 0), np.moveaxis(h.imag, 2, 0)], axis=-1))[None, None] for h in his]
                try:
                    y = pw.DTCWTInverse(biort=b, qshift=q)((torch.tensor(low)[None, None], yh))[0, 0].numpy()
                except Exception as e:   # noqa
                    rep.violation("DTCWTInverse(%s,%s) raised %r on a random pyramid at %s" % (b, q, e, cfg),
                                  {"api": "DTCWTInverse", "check": "numeric", "cfg": cfg})
                    continue
                n += 1
                rep.nontriv(("dt_inv_num", b, q, H, W, J))
                tol = 1e-12 * 4.0 ** J * 8 * amp
                err = np.abs(y - ref).max() if y.shape == ref.shape else np.inf
                if not err <= tol:
                    rep.violation("DTCWTInverse(%s,%s) differs from dtcwt.Transform2d.inverse at %s: max error %.3g (bound %.3g), shapes %s vs %s"
                                  % (b, q, cfg, err, tol, y.shape, ref.shape), {"api": "DTCWTInverse", "check": "numeric", "cfg": cfg})
    finally:
        logging.disable(logging.NOTSET)
    rep.validated(n)
    rep.count("numeric_inverse_comparisons", n)


def reuse_checks(rep, fnd, pid, tier):
    """C12's statements on results that are KEPT while the same module object is used again (pyramids appended to a list in a
    loop): layouts, masks and prefixes compared after a later call of the same object on another image."""
    from .sched import snapshot, fp

    def content(a):          # structure and bytes, without object identities (two results of two module objects)
        if isinstance(a, torch.Tensor):
            return ("T", tuple(a.shape), str(a.dtype), fp(a))
        if isinstance(a, (list, tuple)):
            return (type(a).__name__, tuple(content(q) for q in a))
        return repr(a)
    dwtlib.f64()
    rng = np.random.default_rng(34500 + seed())
    n = 0
    x1, x2 = torch.tensor(rng.standard_normal((1, 2, 16, 12))), torch.tensor(rng.standard_normal((1, 2, 16, 12)))
    x3 = torch.tensor(rng.standard_normal((2, 1, 10, 14)))
    for kw in (dict(), dict(o_dim=1, ri_dim=2), dict(skip_hps=[False, True, False]), dict(include_scale=[True, False, True]),
               dict(include_scale=True, skip_hps=[True, False, False], o_dim=4, ri_dim=0)):
        m = pw.DTCWTForward(J=3, **kw)
        cfg = dict(options={k: str(v) for k, v in kw.items()})
        rep.validated()
        rep.nontriv(("reuse", repr(sorted(cfg["options"].items()))))
        n += 1
        with torch.no_grad():
            p1 = m(x1)
            fp1 = snapshot(p1)
            c1 = content(p1)
            fresh1 = content(pw.DTCWTForward(J=3, **kw)(x1))
            m(x2)
            m(x3)
        if c1 != fresh1:
            rep.violation("DTCWTForward(%s): a fresh module object returns something else for the same input" % cfg["options"],
                          {"api": "DTCWTForward", "check": "reuse", "cfg": cfg})
        elif snapshot(p1) != fp1:
            rep.violation("DTCWTForward(%s): the pyramid returned for the first image changed when the same module object was called on "
                          "other images (its lists / tensors are not the caller's own)" % cfg["options"], {"api": "DTCWTForward", "check": "reuse", "cfg": cfg})
    rep.count("reuse_cases", n)


def absent_batched(rep, fnd, pid, tier):
    """'Absent = zeros of the right shape' on batched multi-channel pyramids (N = 2, C = 3): every absent pattern (lowpass,
    each single level, two adjacent levels; given as None, as an empty tensor, as the 0-dim placeholder) against the SAME call
    with explicit zeros.  Sizes are multiples of 8 so that no level was extended by the forward transform (finding F6c lives
    where the crop information is lost) and at least one input stays present (a pyramid with nothing in it has no shape)."""
    import itertools
    dwtlib.f64()
    rng = np.random.default_rng(33500 + seed())
    n = 0
    pairs = [("near_sym_a", "qshift_a"), ("near_sym_b", "qshift_c")] if tier == "quick" else [(b, q) for b in BIORTS for q in QSHIFTS[1:4]]
    for (b, q) in pairs:
        for (H, W, J) in ((16, 24, 3), (8, 16, 2), (16, 8, 1)):
            with torch.no_grad():
                yl, yh = pw.DTCWTForward(biort=b, qshift=q, J=J)(torch.zeros(2, 3, H, W))
            low = torch.tensor(rng.standard_normal(tuple(yl.shape)))
            his = [torch.tensor(rng.standard_normal(tuple(h.shape))) for h in yh]
            inv = pw.DTCWTInverse(biort=b, qshift=q)
            patterns = [("lowpass", [])] + [("", [j]) for j in range(J)] + [("", [j, j + 1]) for j in range(J - 1)] + \
                       [("lowpass", [j]) for j in range(J - 1)]
            for (lo_abs, levels), kind in itertools.product(patterns, ("none", "empty", "placeholder")):
                def absent(t):
                    return {"none": None, "empty": torch.tensor([], dtype=t.dtype), "placeholder": t.new_zeros([])}[kind]
                a_low = absent(low) if lo_abs else low
                a_his = [absent(h) if j in levels else h for j, h in enumerate(his)]
                z_low = torch.zeros_like(low) if lo_abs else low
                z_his = [torch.zeros_like(h) if j in levels else h for j, h in enumerate(his)]
                cfg = dict(biort=b, qshift=q, H=H, W=W, J=J, batch=2, channels=3, lowpass_absent=bool(lo_abs), absent_levels=[j + 1 for j in levels], absent_as=kind)
                rep.validated()
                rep.nontriv(("absent_batched", b, q, H, W, J, lo_abs, tuple(levels), kind))
                n += 1
                want = inv((z_low, z_his))
                try:
                    got = inv((a_low, a_his))
                except Exception as e:   # noqa
                    rep.violation("DTCWTInverse raised %r where zeros of the right shape reconstruct, at %s" % (e, cfg),
                                  {"api": "DTCWTInverse", "check": "absent_batched", "cfg": cfg})
                    continue
                if got.shape != want.shape or not float((got - want).abs().max()) <= 1e-12 * (float(want.abs().max()) + 1e-300):
                    rep.violation("DTCWTInverse with absent inputs differs from the same call with explicit zeros at %s (shape %s vs %s, max deviation %.3g)"
                                  % (cfg, tuple(got.shape), tuple(want.shape), float((got - want).abs().max()) if got.shape == want.shape else float("nan")),
                                  {"api": "DTCWTInverse", "check": "absent_batched", "cfg": cfg})
    rep.count("absent_batched_cases", n)


def absent_deep(rep, fnd, pid, tier):
    """Deep pyramids (J = 4, 5) on sizes of every dyadic class (8 mod 16, 16 mod 32, 24 mod 32, multiples of 32 ...), EVERY
    subset of absent levels (and the lowpass), against the same call with explicit zeros.  The crop decision of a level that
    is present must not leak into an absent level next to it and vice versa.  Patterns inside the region of finding F6c (an
    absent level whose input the forward transform had extended: the crop information is gone) are left to the replay layer,
    which knows the finding's signature."""
    import itertools
    dwtlib.f64()
    rng = np.random.default_rng(33700 + seed())
    n = 0
    sizes = [(24, 40, 4), (56, 32, 4), (48, 80, 5), (23, 16, 4)] if tier == "quick" else \
        [(24, 40, 4), (56, 32, 4), (48, 80, 5), (23, 16, 4), (40, 24, 5), (72, 104, 4), (16, 112, 5), (39, 50, 4)]
    kinds = ("none", "empty", "placeholder")
    for k, (H, W, J) in enumerate(sizes):
        b, q = BIORTS[k % len(BIORTS)], QSHIFTS[k % len(QSHIFTS)]
        with torch.no_grad():
            yl, yh = pw.DTCWTForward(biort=b, qshift=q, J=J)(torch.zeros(1, 2, H, W))
        # which levels >= 2 had their input extended by the forward transform (rows or columns not a multiple of 4)
        ext = {}
        r, c = H + H % 2, W + W % 2
        for j in range(2, J + 1):
            ext[j] = (r % 4 != 0) or (c % 4 != 0)
            r, c = (r + (2 if r % 4 else 0)) // 2, (c + (2 if c % 4 else 0)) // 2
        low = torch.tensor(rng.standard_normal(tuple(yl.shape)))
        his = [torch.tensor(rng.standard_normal(tuple(h.shape))) for h in yh]
        inv = pw.DTCWTInverse(biort=b, qshift=q)
        for mask in itertools.product((False, True), repeat=J + 1):
            lo_abs, levels = mask[0], [j for j in range(J) if mask[j + 1]]
            if not lo_abs and not levels:
                continue
            if lo_abs and (J - 1) in levels:
                continue            # nothing left that carries the shape
            if any(ext.get(j + 2, False) for j in levels):
                continue            # region of F6c: level j+1 absent while the NEXT coarser level's input (its lowpass) had been extended -
                                    # the crop after reconstructing that coarser level is decided by the absent level's shape
            kind = kinds[(n + k) % 3]

            def absent(t):
                return {"none": None, "empty": torch.tensor([], dtype=t.dtype), "placeholder": t.new_zeros([])}[kind]
            a_low = absent(low) if lo_abs else low
            a_his = [absent(h) if j in levels else h for j, h in enumerate(his)]
            z_low = torch.zeros_like(low) if lo_abs else low
            z_his = [torch.zeros_like(h) if j in levels else h for j, h in enumerate(his)]
            cfg = dict(biort=b, qshift=q, H=H, W=W, J=J, lowpass_absent=bool(lo_abs), absent_levels=[j + 1 for j in levels], absent_as=kind,
                       levels_extended_by_forward=[j for j in ext if ext[j]])
            rep.validated()
            rep.nontriv(("absent_deep", H, W, J, mask))
            n += 1
            want = inv((z_low, z_his))
            try:
                got = inv((a_low, a_his))
            except Exception as e:   # noqa
                rep.violation("DTCWTInverse raised %r where zeros of the right shape reconstruct, at %s" % (e, cfg),
                              {"api": "DTCWTInverse", "check": "absent_deep", "cfg": cfg})
                continue
            if got.shape != want.shape or not float((got - want).abs().max()) <= 1e-12 * (float(want.abs().max()) + 1e-300):
                rep.violation("DTCWTInverse with absent inputs differs from the same call with explicit zeros at %s (shape %s vs %s, max deviation %.3g)"
                              % (cfg, tuple(got.shape), tuple(want.shape), float((got - want).abs().max()) if got.shape == want.shape else float("nan")),
                              {"api": "DTCWTInverse", "check": "absent_deep", "cfg": cfg})
    rep.count("absent_deep_cases", n)


def reuse_walk_dt(rep, pid, tier, what="forward"):
    """ONE DTCWTForward / DTCWTInverse object per filter pair along a WALK of (batch, channels, size) - neighbouring odd / even
    sizes, sizes that are 0 / 2 mod 4, more and then fewer channels, a repeat -, every result against dtcwt.Transform2d.
    Whatever a module remembers between calls (a filter bank built for the widest input so far, an extension plan, a buffer) is
    consulted here with a key that collides; the layers that build a fresh module per case never consult it."""
    from dtcwt.numpy import Transform2d, Pyramid
    import logging
    dwtlib.f64()
    rng = np.random.default_rng(33900 + seed())
    walk = [(2, 3, 12, 16), (2, 2, 12, 16), (1, 1, 11, 16), (1, 4, 12, 16), (3, 1, 10, 14), (1, 2, 10, 13), (1, 2, 9, 13), (1, 2, 16, 8), (2, 3, 12, 16), (1, 1, 22, 6)]
    pairs = [("near_sym_a", "qshift_a", 3), ("near_sym_b", "qshift_c", 2)] if tier == "quick" else \
        [(b, QSHIFTS[(k + 1) % 5], 2 + k % 2) for k, b in enumerate(BIORTS)] + [("near_sym_a", "qshift_06", 3)]
    n = 0
    logging.disable(logging.WARNING)
    try:
        for (b, q, J) in pairs:
            fw, iv = pw.DTCWTForward(biort=b, qshift=q, J=J), pw.DTCWTInverse(biort=b, qshift=q)
            tr = Transform2d(biort=b, qshift=q)
            hist = []
            for shp in walk:
                hist.append(list(shp))
                x = rng.standard_normal(shp)
                cfg = dict(biort=b, qshift=q, J=J, shapes_so_far=[list(h) for h in hist])
                case = {"api": "DTCWTForward" if what == "forward" else "DTCWTInverse", "check": "reuse_walk", "cfg": cfg}
                rep.validated()
                rep.nontriv(("reuse_walk_dt", what, b, q, J, tuple(shp), len(hist)))
                n += 1
                try:
                    err = 0.0
                    if what == "forward":
                        yl, yh = fw(torch.tensor(x))
                        for i in range(shp[0]):
                            for c in range(shp[1]):
                                p = tr.forward(x[i, c], nlevels=J)
                                err = max(err, np.abs(yl[i, c].numpy() - p.lowpass).max() if tuple(yl.shape[-2:]) == p.lowpass.shape else np.inf)
                                for j in range(J):
                                    a, hp = yh[j][i, c].numpy(), p.highpasses[j]
                                    if a.shape != (6,) + hp.shape[:2] + (2,):
                                        err = np.inf
                                        break
                                    err = max(err, np.abs(a[..., 0] - np.moveaxis(hp.real, 2, 0)).max(), np.abs(a[..., 1] - np.moveaxis(hp.imag, 2, 0)).max())
                        tol = 1e-12 * np.abs(x).max() * 4.0 ** J
                    else:
                        with torch.no_grad():
                            yl, yh = pw.DTCWTForward(biort=b, qshift=q, J=J)(torch.tensor(x))
                        g = torch.Generator().manual_seed(n)
                        yl = torch.randn(yl.shape, generator=g, dtype=torch.float64)
                        yh = [torch.randn(h.shape, generator=g, dtype=torch.float64) for h in yh]
                        y = iv((yl, yh)).numpy()
                        for i in range(shp[0]):
                            for c in range(shp[1]):
                                hps = tuple(np.moveaxis(h[i, c, ..., 0].numpy() + 1j * h[i, c, ..., 1].numpy(), 0, 2) for h in yh)
                                r = tr.inverse(Pyramid(yl[i, c].numpy(), hps))
                                err = max(err, np.abs(y[i, c] - r).max() if y[i, c].shape == r.shape else np.inf)
                        tol = 1e-12 * 6.0 * 4.0 ** J
                except Exception as e:   # noqa
                    rep.violation("%s(%s, %s, J=%d), ONE module called with shapes %s: raised %r at the last one" % (case["api"], b, q, J, hist, e),
                                  dict(case, observed=repr(e)))
                    break
                if not err <= tol:
                    rep.violation("%s(%s, %s, J=%d), ONE module called with shapes %s: the result for the last shape differs from the reference "
                                  "dtcwt.Transform2d by %.3g (bound %.3g)" % (case["api"], b, q, J, hist, err, tol), dict(case, err=float(err)))
                    break
    finally:
        logging.disable(logging.NOTSET)
    rep.count("reuse_walk_dt_comparisons", n)


# ------------------------------------------------------------------------------------------
# options (C12)
# ------------------------------------------------------------------------------------------
def options_replay(rep, fnd, records, pid, tier):
    """all (o_dim, ri_dim) pairs on real tensors: the subbands of the chosen layout are the default subbands
    with the orientation / real-imag axes moved where TLC's RefLayout says; the inverse with the same pair accepts
    that layout and reconstructs what the default inverse reconstructs"""
    torch.set_default_dtype(torch.float64)
    rng = np.random.default_rng(34000 + seed())
    opts = [r for r in records if r.get("kind") == "dt2.opts"]
    if len(opts) != 1:
        rep.fail("expected one dt2.opts record, got %d" % len(opts))
        return
    pairs = opts[0]["pairs"]
    rep.count("option_pairs", len(pairs))
    shapes = [(1, 2, 8, 12), (2, 1, 7, 5)] if tier == "quick" else [(1, 2, 8, 12), (2, 1, 7, 5), (1, 1, 6, 6), (2, 3, 10, 9)]
    n_ok = 0
    for shp in shapes:
        J = 2 if tier == "quick" else 3
        x = torch.tensor(rng.standard_normal(shp))
        fd = pw.DTCWTForward(J=J, biort="near_sym_b", qshift="qshift_b")
        yl0, yh0 = fd(x)
        x0 = pw.DTCWTInverse(biort="near_sym_b", qshift="qshift_b")((yl0, yh0))
        for p in pairs:
            od, rd, lay = p["o_dim"], p["ri_dim"], p["layout"]
            cfg = dict(o_dim=od, ri_dim=rd, shape=list(shp), J=J)
            case = {"api": "DTCWTForward/Inverse(o_dim, ri_dim)", "check": "options", "cfg": cfg}
            rep.validated()
            rep.nontriv(("opts", od, rd, shp))
            try:
                yl, yh = pw.DTCWTForward(J=J, biort="near_sym_b", qshift="qshift_b", o_dim=od, ri_dim=rd)(x)
            except Exception as e:   # noqa
                rep.violation("DTCWTForward(o_dim=%d, ri_dim=%d) raised %r" % (od, rd, e), dict(case, observed=repr(e)))
                continue
            # default layout is (N, C, O, H, W, RI); the spec's layout gives the position of each of those axes
            perm_src = [None] * 6
            for name, dflt in (("n", 0), ("c", 1), ("o", 2), ("h", 3), ("w", 4), ("ri", 5)):
                perm_src[lay[name]] = dflt
            ok = torch.equal(yl, yl0)
            for a, b in zip(yh, yh0):
                want = b.permute(*perm_src)
                ok = ok and tuple(a.shape) == tuple(want.shape) and torch.equal(a, want)
            if not ok:
                rep.violation("DTCWTForward(o_dim=%d, ri_dim=%d): subbands are not the default subbands with the axes moved to "
                              "O@%d, RI@%d (N,C,H,W in order elsewhere)" % (od, rd, lay["o"], lay["ri"]), case)
                continue
            try:
                xr = pw.DTCWTInverse(biort="near_sym_b", qshift="qshift_b", o_dim=od, ri_dim=rd)((yl, yh))
            except Exception as e:   # noqa
                f = fnd.match(pid, "DTCWTInverse(o_dim, ri_dim)", cfg, "raises")
                if f:
                    rep.known_finding(f["id"], f["what"])
                else:
                    rep.violation("DTCWTInverse(o_dim=%d, ri_dim=%d) raised %r on the output of the forward transform with the same pair"
                                  % (od, rd, e), dict(case, observed=repr(e)))
                if (p["impl_h6"], p["impl_w6"]) == (lay["h"], lay["w"]):
                    rep.drift.append("inverse raises for (%d,%d) but the table model is right there" % (od, rd))
                continue
            if tuple(xr.shape) != tuple(x0.shape) or float((xr - x0).abs().max()) > 1e-12 * float(x0.abs().max() + 1):
                rep.violation("DTCWTInverse(o_dim=%d, ri_dim=%d) does not reconstruct what the default layout reconstructs "
                              "(shape %s vs %s)" % (od, rd, tuple(xr.shape), tuple(x0.shape)), case)
                continue
            n_ok += 1
    rep.count("option_pairs_ok", n_ok)
    if pairs:
        rep.sample({"o_dim": pairs[0]["o_dim"], "ri_dim": pairs[0]["ri_dim"], "layout_positions": pairs[0]["layout"]})


def masks_and_prefixes(rep, fnd, pid, tier):
    torch.set_default_dtype(torch.float64)
    rng = np.random.default_rng(35000 + seed())
    import itertools
    n_ok = 0
    shapes = [(1, 2, 9, 12), (2, 1, 16, 6)] if tier == "quick" else [(1, 2, 9, 12), (2, 1, 16, 6), (1, 1, 5, 7), (1, 3, 24, 20)]
    for shp in shapes:
        x = torch.tensor(rng.standard_normal(shp))
        for (b, q) in [("near_sym_a", "qshift_a"), ("legall", "qshift_d")]:
            for J in (1, 2, 3) if tier == "quick" else (1, 2, 3, 4):
                yl, yh = pw.DTCWTForward(J=J, biort=b, qshift=q)(x)
                # prefixes and requested intermediate lowpasses
                lows_short = [pw.DTCWTForward(J=j, biort=b, qshift=q)(x) for j in range(1, J + 1)]
                for j in range(1, J + 1):
                    ylj, yhj = lows_short[j - 1]
                    rep.validated()
                    if not all(torch.equal(a, c) for a, c in zip(yh[:j], yhj)):
                        rep.violation("the first %d levels of the %d-level DTCWT differ from the %d-level transform (%s,%s,%s)"
                                      % (j, J, j, b, q, shp), {"api": "DTCWTForward", "check": "prefix", "cfg": dict(J=J, j=j, biort=b, qshift=q, shape=list(shp))})
                for inc in itertools.product([False, True], repeat=J):
                    if not any(inc):
                        continue
                    cfg = dict(J=J, include_scale=list(inc), biort=b, qshift=q, shape=list(shp))
                    sc, yh2 = pw.DTCWTForward(J=J, biort=b, qshift=q, include_scale=list(inc))(x)
                    rep.validated()
                    rep.nontriv(("include", J, inc, shp, b))
                    ok = len(sc) == J and all(torch.equal(a, c) for a, c in zip(yh2, yh))
                    for j in range(J):
                        if inc[j]:
                            ok = ok and torch.equal(sc[j], lows_short[j][0])
                        else:
                            ok = ok and sc[j].numel() <= 1
                    if not ok:
                        rep.violation("include_scale=%s does not return exactly the lowpasses of the shorter transforms (and unchanged subbands) at %s"
                                      % (list(inc), cfg), {"api": "DTCWTForward", "check": "include_scale", "cfg": cfg})
                    else:
                        n_ok += 1
                for skip in itertools.product([False, True], repeat=J):
                    cfg = dict(J=J, skip_hps=list(skip), biort=b, qshift=q, shape=list(shp))
                    yl3, yh3 = pw.DTCWTForward(J=J, biort=b, qshift=q, skip_hps=list(skip))(x)
                    rep.validated()
                    rep.nontriv(("skip", J, skip, shp, b))
                    ok = torch.equal(yl3, yl) and len(yh3) == J
                    for j in range(J):
                        if skip[j]:
                            ok = ok and yh3[j].numel() <= 1
                        else:
                            ok = ok and torch.equal(yh3[j], yh[j])
                    if not ok:
                        rep.violation("skip_hps=%s changes the lowpass or a level that was not skipped, or does not empty the skipped ones, at %s"
                                      % (list(skip), cfg), {"api": "DTCWTForward", "check": "skip_hps", "cfg": cfg})
                    else:
                        n_ok += 1
                # ---- the two selections TOGETHER (each is "only select": their combination must select both ways at once),
                # with the mask given as list / tuple / ndarray, in the default and one other layout
                if J <= 3:
                    for kmask, (inc, skip) in enumerate(itertools.product(itertools.product([False, True], repeat=J), repeat=2)):
                        if not any(inc) or not any(skip):
                            continue
                        wrap = [list, tuple, np.array][kmask % 3]
                        lay = dict(o_dim=1, ri_dim=2) if (kmask % 5 == 0) else {}
                        cfg = dict(J=J, include_scale=list(inc), skip_hps=list(skip), mask_type=wrap.__name__, biort=b, qshift=q, shape=list(shp), **lay)
                        rep.validated()
                        rep.nontriv(("include_x_skip", J, inc, skip, shp, b))
                        try:
                            sc, yh4 = pw.DTCWTForward(J=J, biort=b, qshift=q, include_scale=wrap(inc), skip_hps=wrap(skip), **lay)(x)
                        except Exception as e:   # noqa
                            rep.violation("include_scale=%s with skip_hps=%s raised %r at %s" % (list(inc), list(skip), e, cfg),
                                          {"api": "DTCWTForward", "check": "include_x_skip", "cfg": cfg})
                            continue
                        ref_h = yh if not lay else pw.DTCWTForward(J=J, biort=b, qshift=q, **lay)(x)[1]
                        ok = len(sc) == J and len(yh4) == J
                        for j in range(J):
                            if not ok:
                                break
                            ok = ok and (torch.equal(sc[j], lows_short[j][0]) if inc[j] else sc[j].numel() <= 1)
                            ok = ok and (yh4[j].numel() <= 1 if skip[j] else torch.equal(yh4[j], ref_h[j]))
                        if not ok:
                            rep.violation("include_scale=%s together with skip_hps=%s: a requested lowpass or a level that was not skipped is missing "
                                          "or changed at %s" % (list(inc), list(skip), cfg), {"api": "DTCWTForward", "check": "include_x_skip", "cfg": cfg})
                        else:
                            n_ok += 1
    rep.count("mask_cases_ok", n_ok)


# ------------------------------------------------------------------------------------------
# perfect reconstruction (C04)
# ------------------------------------------------------------------------------------------
LEGALL_INT = dict(h0o=np.array([-1., 2, 6, 2, -1]), h1o=np.array([-1., 2, -1]),
                  g0o=np.array([1., 2, 1]), g1o=np.array([-1., -2, 6, -2, -1]))       # S o A = 32 I per axis


def masks_replay(rep, fnd, records, pid, tier):
    """S->C for the mask machine of DTCWT2 (api "fwdm"): every (H, W, J, skip set, include set) TLC enumerated is run on
    the real DTCWTForward (masks as list / tuple / ndarray, cycling) and compared with what the specification says the
    call hands back - the kind of `yl`, per level subbands-or-placeholder with the pyramid's shapes - and, for the
    values, with the plain transform of the same input (levels that are present are bitwise the plain ones, requested
    scales are bitwise the lowpasses of the shorter transforms)."""
    rng = np.random.default_rng(46500 + seed())
    recs = [r for r in records if r.get("kind") == "dt2.fwdm"]
    if not recs:
        rep.fail("DTCWT2 produced no mask records")
        return
    plain = {}
    n_ok = 0
    for k, r in enumerate(recs):
        H, W, J = r["H"], r["W"], r["J"]
        skip = [(j + 1) in r["skip"] for j in range(J)]
        incl = [(j + 1) in r["incl"] for j in range(J)]
        wrap = [list, tuple, np.array][k % 3]
        key = (H, W, J)
        if key not in plain:
            x = torch.tensor(rng.standard_normal((1, 2, H, W)))
            plain[key] = (x, pw.DTCWTForward(J=J)(x), [pw.DTCWTForward(J=j)(x)[0] for j in range(1, J + 1)])
        x, (yl0, yh0), lows = plain[key]
        cfg = dict(H=H, W=W, J=J, skip_hps=skip, include_scale=incl, mask_type=wrap.__name__)
        case = {"api": "DTCWTForward", "check": "mask_machine", "cfg": cfg}
        rep.validated()
        if any(skip) and any(incl):
            rep.nontriv(("fwdm", H, W, J, tuple(skip), tuple(incl)))
        try:
            yl, yh = pw.DTCWTForward(J=J, skip_hps=wrap(skip), include_scale=wrap(incl))(x)
        except Exception as e:   # noqa
            rep.violation("DTCWTForward(skip_hps=%s, include_scale=%s) raised %r at %s" % (skip, incl, e, cfg), dict(case, observed=repr(e)))
            continue
        kind = "list" if isinstance(yl, (list, tuple)) else "tensor"
        bad = None
        if kind != r["yl"]:
            bad = "yl is a %s, the specification says %s" % (kind, r["yl"])
        elif len(yh) != J:
            bad = "%d bandpass entries for J=%d" % (len(yh), J)
        else:
            for j in range(J):
                t = r["trail"][j]
                o = r["outs"][j]
                h = yh[j]
                if o["hp"] == "subbands":
                    if tuple(h.shape) != (1, 2, 6, t["hi_r"], t["hi_c"], 2) or not torch.equal(h, yh0[j]):
                        bad = "level %d is not the plain transform's level (shape %s)" % (j + 1, tuple(h.shape))
                        break
                elif h.numel() > 1:
                    bad = "level %d was skipped but is not a placeholder (shape %s)" % (j + 1, tuple(h.shape))
                    break
                if kind == "list":
                    sc = yl[j]
                    if o["scale"] == "lowpass":
                        if tuple(sc.shape) != (1, 2, t["lo_r"], t["lo_c"]) or not torch.equal(sc, lows[j]):
                            bad = "the requested scale of level %d is not the lowpass of the %d-level transform" % (j + 1, j + 1)
                            break
                    elif sc.numel() > 1:
                        bad = "scale %d was not requested but is returned" % (j + 1)
                        break
            if bad is None and kind == "tensor" and not torch.equal(yl, yl0):
                bad = "the lowpass differs from the plain transform's"
        if bad:
            rep.violation("DTCWTForward(skip_hps=%s, include_scale=%s): %s at %s" % (skip, incl, bad, cfg), case)
        else:
            n_ok += 1
    rep.count("mask_machine_cases_ok", n_ok)


def lattice_set(m, off):
    """the rational q-shift instance of spec/DTCWT1Laws.tla (65*h = (15,20,-48,36) at an even offset)"""
    h0a = np.zeros(m)
    h0a[off:off + 4] = [15, 20, -48, 36]
    alt = np.array([(-1.0) ** i for i in range(m)])
    t = dict(h0a=h0a, h0b=h0a[::-1].copy(), h1a=alt * h0a[::-1])
    t["h1b"] = t["h1a"][::-1].copy()
    t.update(g0a=t["h0a"][::-1].copy(), g0b=t["h0b"][::-1].copy(), g1a=t["h1a"][::-1].copy(), g1b=t["h1b"][::-1].copy())
    return t


def integer_pr(rep, fnd, pid, tier):
    dwtlib.f64()
    n_ok = 0
    sizes = [(h, w) for h in range(2, 10) for w in range(2, 10)] + [(16, 5), (3, 12), (13, 13)]
    if tier != "quick":
        sizes = [(h, w) for h in range(2, 18) for w in range(2, 18)] + [(24, 5), (3, 20), (21, 23)]
    k = 0
    for (H, W) in sizes:
        for J in (1, 2):
            m = Q_LENGTHS[k % 4]
            off = 2 * (k % ((m - 4) // 2 + 1))
            k += 1
            taps = dict(LEGALL_INT)
            taps.update(lattice_set(m, off))
            cfg = dict(H=H, W=W, J=J, qshift_length=m, lattice_offset=off)
            case = {"api": "DTCWT round trip", "check": "integer_pr", "cfg": cfg}
            rep.validated()
            rep.nontriv(("dt_int_pr", H, W, J, m, off))
            try:
                X = torch.eye(H * W).reshape(H * W, 1, H, W)
                yl, yh = fwd_module(taps, J)(X)
                K2 = float(65 ** 4)
                yh = [h * (K2 ** (J - 1 - j)) for j, h in enumerate(yh)]
                xr = inv_module(taps)((yl, yh))
            except Exception as e:   # noqa
                rep.violation("DTCWT forward/inverse raised %r at %s" % (e, cfg), dict(case, observed=repr(e)))
                continue
            K = 1024.0 * K2 ** (J - 1)
            E = dtasm.kron2(dtasm.rep_last(H), dtasm.rep_last(W))            # the image extended to even size
            got = xr[:, 0].reshape(H * W, -1).numpy().T / K
            okshape = tuple(xr.shape[-2:]) == (H + H % 2, W + W % 2)
            err = np.abs(got - E).max() if okshape else np.inf
            if err <= 1e-10:
                n_ok += 1
                if n_ok == 1:
                    rep.sample({"round_trip": cfg, "observed": "Inverse(Forward(I)) / %g == [image extended to even size], max deviation %.2g" % (K, err)})
            else:
                rep.violation("DTCWTInverse(DTCWTForward(I)) is not the (even-extended) identity at %s: output %s, max deviation %.3g"
                              % (cfg, tuple(xr.shape[-2:]), err), case)
    rep.count("integer_instance_round_trips", n_ok)


def numeric_pr(rep, fnd, pid, tier):
    dwtlib.f64()
    rng = np.random.default_rng(36000 + seed())
    pairs = [(b, q) for b in BIORTS for q in QSHIFTS]
    n = 0
    for (b, q) in pairs:
        for _ in range(2 if tier == "quick" else 8):
            H, W = int(rng.integers(2, 45)), int(rng.integers(2, 45))
            J = int(rng.integers(1, 5))
            # amplitudes from 1e-30 to 1e+3: the transform is linear - nothing is "numerically zero" (thresholds, allclose with its
            # hidden absolute tolerance, eps as an absolute bound) - and a flat pedestal with faint detail
            x = rng.standard_normal((2, 2, H, W)) * 10.0 ** int(rng.choice([-30, -12, -9, -3, -1, 0, 1, 3]))
            if rng.integers(0, 5) == 0:
                x = 1.0 + 1e-9 * rng.standard_normal((2, 2, H, W))
            if rng.integers(0, 4) == 0:
                x[:] = 0
                x[..., 0, 0] = 1
                x[..., -1, -1] = -3
            # how the modules come about, in turn: from the names; from TUPLES of the named tables' arrays (the other constructor
            # path); from names but used after a life-cycle operation (deep copy, .double() of float32-built modules compared at
            # float32 accuracy is C16's business - here: copies and reuse of ONE object across images)
            kind = ["names", "tuples", "deepcopy", "names, objects reused"][n % 4]
            if q in ("qshift_06", "qshift_a") and n % 2:
                kind = "state_dict loaded into modules built from the OTHER 10-tap q-shift table"
            cfg = dict(biort=b, qshift=q, H=H, W=W, J=J, modules=kind)
            try:
                if kind == "tuples":
                    from pytorch_wavelets.dtcwt import coeffs as _co
                    h0o, g0o, h1o, g1o = _co.biort(b)
                    h0a, h0b, g0a, g0b, h1a, h1b, g1a, g1b = _co.qshift(q)
                    fwd = pw.DTCWTForward(biort=(h0o, h1o), qshift=(h0a, h0b, h1a, h1b), J=J)
                    inv = pw.DTCWTInverse(biort=(g0o, g1o), qshift=(g0a, g0b, g1a, g1b))
                else:
                    fwd, inv = pw.DTCWTForward(biort=b, qshift=q, J=J), pw.DTCWTInverse(biort=b, qshift=q)
                if kind.startswith("state_dict"):
                    q2 = "qshift_a" if q == "qshift_06" else "qshift_06"
                    f2, i2 = pw.DTCWTForward(biort=b, qshift=q2, J=J), pw.DTCWTInverse(biort=b, qshift=q2)
                    f2.load_state_dict(fwd.state_dict())
                    i2.load_state_dict(inv.state_dict())
                    fwd, inv = f2, i2
                if kind == "deepcopy":
                    import copy
                    fwd, inv = copy.deepcopy(fwd), copy.deepcopy(inv)
                if kind == "names, objects reused":
                    other = torch.tensor(rng.standard_normal((1, 1, H + 6, W + 2)))
                    inv(fwd(other))                                  # an earlier image of another size through the same objects
                yl, yh = fwd(torch.tensor(x))
                xr = inv((yl, yh)).numpy()
            except Exception as e:   # noqa
                rep.violation("DTCWT round trip raised %r at %s" % (e, cfg), {"api": "DTCWT round trip", "check": "numeric_pr", "cfg": cfg})
                continue
            n += 1
            rep.nontriv(("dt_num_pr", b, q, H, W, J))
            want = x
            if H % 2:
                want = np.concatenate([want, want[..., -1:, :]], axis=-2)
            if W % 2:
                want = np.concatenate([want, want[..., -1:]], axis=-1)
            tol = 1e-10 * max(np.abs(x).max(), 1e-300) * J
            err = np.abs(xr - want).max() if xr.shape == want.shape else np.inf
            if not err <= tol:
                rep.violation("DTCWT(%s,%s) round trip error %.3g exceeds %.3g at %s (output %s; odd sizes must come back extended "
                              "to even size with the image in the top-left corner)" % (b, q, err, tol, cfg, xr.shape[-2:]),
                              {"api": "DTCWT round trip", "check": "numeric_pr", "cfg": cfg})
    rep.validated(n)
    rep.count("numeric_round_trips", n)


# ------------------------------------------------------------------------------------------
# back-propagation (C06)
# ------------------------------------------------------------------------------------------
def structured_int_set(rng, l0, l1, lq, B=3):
    """integer taps satisfying the identities the hand-written gradients rely on (C18): symmetric level-1
    filters; tree b = reverse(tree a); h1a[i] = (-1)^i h0a[m-1-i]; polarity premise"""
    def sym(n):
        half = dwtlib.int_taps(rng, (n + 1) // 2, B)
        return np.concatenate([half, half[:n // 2][::-1]])
    t = {"h0o": sym(l0), "h1o": sym(l1)}
    while True:
        a = dwtlib.int_taps(rng, lq, B)
        if a @ a[::-1] > 0:
            break
    alt = np.array([(-1.0) ** i for i in range(lq)])
    t.update(h0a=a, h0b=a[::-1].copy(), h1a=alt * a[::-1])
    t["h1b"] = t["h1a"][::-1].copy()
    # synthesis side (used when the INVERSE is differentiated): the same identities
    t.update(g0o=sym(l1), g1o=sym(l0))
    while True:
        c = dwtlib.int_taps(rng, lq, B)
        if c @ c[::-1] > 0:
            break
    t.update(g0a=c, g0b=c[::-1].copy(), g1a=alt * c[::-1])
    t["g1b"] = t["g1a"][::-1].copy()
    return t


def layout_perms(od, rd):
    """perm: default (N,C,O,H,W,RI) -> chosen layout; inv: back"""
    rest = [d for d in range(6) if d not in (od % 6, rd % 6)]
    perm = [None] * 6
    perm[od % 6], perm[rd % 6] = 2, 5
    for pos, src in zip(rest, (0, 1, 3, 4)):
        perm[pos] = src
    return perm, [perm.index(d) for d in range(6)]


def _flat_outputs(yl, yh, od=2, rd=-1):
    """all tensor outputs with the batch axis first (subbands brought back to the default layout)"""
    _, inv = layout_perms(od, rd)
    outs = []
    for o in (yl if isinstance(yl, (list, tuple)) else [yl]):
        if o.dim() > 1:
            outs.append((o, 1.0))
    for h in yh:
        if h.dim() > 1:
            outs.append((h.permute(*inv), SQ2))
    return outs


def forward_vjp(rep, fnd, pid, tier):
    """DTCWTForward: VJP matrix vs transpose of the forward matrix of the same module (exact after the sqrt 2 scaling)"""
    dwtlib.f64()
    rng = np.random.default_rng(37000 + seed())
    sizes = [(h, w) for h in range(2, 8) for w in range(2, 8)] + [(12, 5), (6, 13), (16, 4)]
    if tier != "quick":
        sizes = [(h, w) for h in range(2, 13) for w in range(2, 13)] + [(20, 5), (6, 21), (24, 4)]
    opts = [dict(), dict(o_dim=1, ri_dim=2), dict(o_dim=-1, ri_dim=0), dict(o_dim=4, ri_dim=1), dict(o_dim=3, ri_dim=5)]
    n_ok = 0
    k = 0
    for (H, W) in sizes:
        for J in (1, 2, 3):
            l0, l1 = L1_LENGTHS[k % 4]
            lq = Q_LENGTHS[(k // 2) % 4]
            kw = dict(opts[k % len(opts)])
            if k % 3 == 1 and J > 1:
                kw["skip_hps"] = [bool((k >> i) & 1) for i in range(J)]
            if k % 4 == 2:
                kw["include_scale"] = [bool((k >> (i + 1)) & 1) or i == J - 1 for i in range(J)]
            k += 1
            taps = structured_int_set(rng, l0, l1, lq)
            cfg = dict(H=H, W=W, J=J, level1_lengths=[l0, l1], qshift_length=lq, options={a: b for a, b in kw.items()})
            case = {"api": "DTCWTForward.backward", "check": "forward_vjp", "cfg": cfg, "taps": {a: b.tolist() for a, b in taps.items()}}
            rep.validated()
            rep.nontriv(("dt_fwd_vjp", H, W, J, l0, lq, str(kw)))
            try:
                m = fwd_module(taps, J, **kw)
                X = torch.eye(H * W).reshape(H * W, 1, H, W)
                od_, rd_ = kw.get("o_dim", 2), kw.get("ri_dim", -1)
                outs = _flat_outputs(*m(X), od=od_, rd=rd_)
                F = np.concatenate([o[:, 0].reshape(H * W, -1).numpy().T * s if o.shape[1] == 1 else
                                    o.reshape(H * W, -1).numpy().T * s for o, s in outs], axis=0)
                Kn = F.shape[0]
                x = torch.zeros(Kn, 1, H, W, requires_grad=True)
                outs2 = _flat_outputs(*m(x), od=od_, rd=rd_)
                total = 0
                off = 0
                for o, s in outs2:
                    n = int(np.prod(o.shape[1:]))
                    cot = torch.zeros(Kn, n)
                    cot[off:off + n] = torch.eye(n) * s
                    total = total + (o.reshape(Kn, -1) * cot).sum()
                    off += n
                g, = torch.autograd.grad(total, x, allow_unused=True)
            except Exception as e:   # noqa
                rep.violation("DTCWTForward forward/backward raised %r at %s" % (e, cfg), dict(case, observed=repr(e)))
                continue
            if g is None:
                rep.violation("DTCWTForward: the input requires grad but receives None at %s" % (cfg,), case)
                continue
            V = g[:, 0].reshape(Kn, -1).numpy().T
            Fr, d1 = near_int(F)
            Vr, d2 = near_int(V)
            if d1 < 1e-6 and d2 < 1e-6 and dwtlib.eq_int(Vr, Fr.T):
                n_ok += 1
                if n_ok == 1:
                    rep.sample({"api": "DTCWTForward.backward", "cfg": cfg, "observed": "VJP matrix == transpose of the forward matrix (exact integers after scaling complex planes by sqrt 2)"})
            else:
                d = dwtlib.diff_entries(Vr, Fr.T)
                rep.violation("DTCWTForward back-propagation is not the transpose of its forward at %s: [index(pixel,output), observed, expected] %s"
                              % (cfg, d), dict(case, diff=d))
    rep.count("forward_vjp_exact_adjoint", n_ok)


def inverse_vjp(rep, fnd, tab2_records, pid, tier):
    """DTCWTInverse: for every subset of {lowpass, level 1..J} requiring grad, each receives its block of the transpose"""
    import itertools
    dwtlib.f64()
    rng = np.random.default_rng(38000 + seed())
    recs = [r for r in tab2_records if r.get("kind") == "dt2.fwd"]
    opts = [dict(), dict(o_dim=1, ri_dim=2), dict(o_dim=4, ri_dim=0), dict(o_dim=-2, ri_dim=3)]
    n_ok = 0
    k = 0
    for r in recs:
        H, W, J = r["H"], r["W"], r["J"]
        if H * W > 64 and tier == "quick":
            continue
        l0, l1 = L1_LENGTHS[k % 4]
        lq = Q_LENGTHS[(k // 2) % 4]
        kw = dict(opts[k % len(opts)])
        k += 1
        taps = structured_int_set(rng, l0, l1, lq)
        trail = r["trail"]
        m = inv_module(taps, **kw)
        t = trail[-1]
        od, rd = kw.get("o_dim", 2), kw.get("ri_dim", -1)
        # leaves are built in the default layout (N, C, 6, h, w, 2) and permuted into the chosen one
        rest = [d for d in range(6) if d not in (od % 6, rd % 6)]
        perm = [None] * 6
        perm[od % 6], perm[rd % 6] = 2, 5
        for pos, src in zip(rest, (0, 1, 3, 4)):
            perm[pos] = src
        inv_perm = [perm.index(d) for d in range(6)]

        def to_layout(t6):
            return t6.permute(*perm).contiguous()

        def to_default(t6):
            return t6.permute(*inv_perm)
        subsets = [s for n in range(1, J + 2) for s in itertools.combinations(range(J + 1), n)]
        if tier == "quick" and len(subsets) > 5:
            idx = rng.choice(len(subsets), 5, replace=False)
            subsets = [subsets[i] for i in idx]
        # forward matrix of the inverse on the whole pyramid basis (default ordering of coefficients inside each leaf = its own memory order)
        leaves_n = [t["lo_r"] * t["lo_c"]] + [12 * tt["hi_r"] * tt["hi_c"] for tt in trail]
        total = sum(leaves_n)
        offs = np.cumsum([0] + leaves_n)
        try:
            yl = torch.zeros(total, 1, t["lo_r"], t["lo_c"])
            yl[:leaves_n[0]] = torch.eye(leaves_n[0]).reshape(-1, 1, t["lo_r"], t["lo_c"])
            yh = []
            for j, tt in enumerate(trail):
                h = torch.zeros(total, 1, 6, tt["hi_r"], tt["hi_c"], 2)
                n = leaves_n[j + 1]
                h[offs[j + 1]:offs[j + 2]] = torch.eye(n).reshape(n, 1, 6, tt["hi_r"], tt["hi_c"], 2)
                yh.append(to_layout(h))
            Y = m((yl, yh))
            P = int(np.prod(Y.shape[1:]))
            F = Y.reshape(total, P).numpy().T                       # [P x total]
        except Exception as e:   # noqa
            rep.violation("DTCWTInverse raised %r at H=%d W=%d J=%d %s" % (e, H, W, J, kw),
                          {"api": "DTCWTInverse", "check": "inverse_vjp", "cfg": dict(H=H, W=W, J=J, options=kw)})
            continue
        for R in subsets:
            cfg = dict(H=H, W=W, J=J, requires_grad=list(R), options=kw, level1_lengths=[l0, l1], qshift_length=lq)
            case = {"api": "DTCWTInverse.backward", "check": "inverse_vjp", "cfg": cfg}
            rep.validated()
            rep.nontriv(("dt_inv_vjp", H, W, J, R, str(kw)))
            yl = torch.zeros(P, 1, t["lo_r"], t["lo_c"], requires_grad=(0 in R))
            yh = [to_layout(torch.zeros(P, 1, 6, tt["hi_r"], tt["hi_c"], 2)).requires_grad_((j + 1) in R)
                  for j, tt in enumerate(trail)]
            try:
                y = m((yl, yh))
                cot = torch.eye(P).reshape((P,) + tuple(y.shape[1:]))
                leaves = [yl if q == 0 else yh[q - 1] for q in R]
                grads = torch.autograd.grad(y, leaves, cot, allow_unused=True)
            except Exception as e:   # noqa
                rep.violation("DTCWTInverse backward raised %r at %s" % (e, cfg), dict(case, observed=repr(e)))
                continue
            missing = [q for q, g in zip(R, grads) if g is None]
            if missing:
                rep.violation("DTCWTInverse: leaves %s require grad but receive None (0 = lowpass, j = bandpass level j) at %s" % (missing, cfg), case)
                continue
            ok = True
            for q, g in zip(R, grads):
                gd = g if q == 0 else to_default(g)
                V = gd.reshape(P, -1).numpy().T                    # [len_leaf x P]
                want = F[:, offs[q]:offs[q + 1]].T
                s = 1.0 if q == 0 else SQ2
                a, d1 = near_int(V * s)
                b, d2 = near_int(want * s)
                if not (d1 < 1e-6 and d2 < 1e-6 and dwtlib.eq_int(a, b)):
                    ok = False
                    rep.violation("DTCWTInverse back-propagation to leaf %d is not the transpose of the forward at %s" % (q, cfg), dict(case, leaf=q))
                    break
            if ok:
                n_ok += 1
    rep.count("inverse_vjp_exact_adjoint", n_ok)


def numeric_vjp(rep, fnd, pid, tier):
    """named filter pairs: <T x, c> == <x, T^* c> with T^* from back-propagation (forward and inverse)"""
    dwtlib.f64()
    rng = np.random.default_rng(39000 + seed())
    pairs = [(b, q) for b in BIORTS for q in QSHIFTS]
    n = 0
    for (b, q) in pairs:
        for _ in range(1 if tier == "quick" else 4):
            H, W = int(rng.integers(2, 33)), int(rng.integers(2, 33))
            J = int(rng.integers(1, 4))
            cfg = dict(biort=b, qshift=q, H=H, W=W, J=J)
            x = torch.tensor(rng.standard_normal((2, 2, H, W)), requires_grad=True)
            yl, yh = pw.DTCWTForward(biort=b, qshift=q, J=J)(x)
            cl = torch.tensor(rng.standard_normal(tuple(yl.shape)))
            ch = [torch.tensor(rng.standard_normal(tuple(h.shape))) for h in yh]
            lhs = (yl * cl).sum() + sum((a * c).sum() for a, c in zip(yh, ch))
            g, = torch.autograd.grad(lhs, x)
            # the adjoint applied to (cl, ch) must reproduce <T dx, c> for random directions dx
            dx = torch.tensor(rng.standard_normal((2, 2, H, W)))
            yl2, yh2 = pw.DTCWTForward(biort=b, qshift=q, J=J)(dx)
            want = float((yl2 * cl).sum() + sum((a * c).sum() for a, c in zip(yh2, ch)))
            got = float((g * dx).sum())
            n += 1
            rep.nontriv(("dt_num_vjp", b, q, H, W, J))
            if abs(got - want) > 1e-9 * (abs(want) + float(dx.abs().sum()) * 1e-3 + 1):
                rep.violation("DTCWTForward(%s,%s) back-propagation is not the adjoint: <g,dx>=%.12g vs <T dx,c>=%.12g at %s"
                              % (b, q, got, want, cfg), {"api": "DTCWTForward.backward", "check": "numeric_vjp", "cfg": cfg})
            # inverse
            pl = torch.tensor(rng.standard_normal(tuple(yl.shape)), requires_grad=True)
            ph = [torch.tensor(rng.standard_normal(tuple(h.shape)), requires_grad=True) for h in yh]
            inv = pw.DTCWTInverse(biort=b, qshift=q)
            y = inv((pl, ph))
            c = torch.tensor(rng.standard_normal(tuple(y.shape)))
            grads = torch.autograd.grad((y * c).sum(), [pl] + ph)
            dl = torch.tensor(rng.standard_normal(tuple(yl.shape)))
            dh = [torch.tensor(rng.standard_normal(tuple(h.shape))) for h in yh]
            want = float((inv((dl, dh)) * c).sum())
            got = float((grads[0] * dl).sum() + sum((a * bb).sum() for a, bb in zip(grads[1:], dh)))
            n += 1
            if abs(got - want) > 1e-9 * (abs(want) + 1):
                rep.violation("DTCWTInverse(%s,%s) back-propagation is not the adjoint: %.12g vs %.12g at %s" % (b, q, got, want, cfg),
                              {"api": "DTCWTInverse.backward", "check": "numeric_vjp", "cfg": cfg})
    rep.validated(n)
    rep.count("numeric_adjoint_checks", n)


def big_layouts(rep, fnd, records, pid, tier):
    """The layouts again on batches beyond every size threshold (the default ladder 2^16 / 2^20 / 2^22 elements and every
    constant census.thresholds() finds in the library's source; N >= 2 items): the subbands of each of the 30 layouts (and a
    sample of their negative aliases) are the default layout's subbands OF EACH ITEM ALONE with the axes moved, and the
    inverse with the same pair reconstructs.  A code path that exists only for big inputs (chunked batches, another
    arrangement above a size) meets every layout here."""
    from . import census
    torch.set_default_dtype(torch.float32)
    try:
        rng = np.random.default_rng(35000 + seed())
        opts = [r for r in records if r.get("kind") == "dt2.opts"]
        if len(opts) != 1:
            return
        pairs = opts[0]["pairs"]
        canon = [p for p in pairs if p["o_dim"] >= 0 and p["ri_dim"] >= 0]
        alias = [p for p in pairs if p["o_dim"] < 0 or p["ri_dim"] < 0]
        ths = census.thresholds()
        rep.extra["census_thresholds"] = ths
        n_ok = 0
        for T in ths:
            top = T == max(ths)
            # every threshold gets a sample of layouts; the largest gets all of them (the cost is the transform of > T elements)
            sel = canon if (top or tier != "quick") else canon[::5]
            sel = sel + [alias[int(i)] for i in rng.integers(0, len(alias), size=6 if top else 2)]
            N = 2 if T >= (1 << 20) else 3
            side = int(np.ceil(np.sqrt((T + 1) / N)))
            side += side % 2
            shp = (N, 1, side, side + 2)
            x = torch.tensor(rng.standard_normal(shp), dtype=torch.float32)
            base = pw.DTCWTForward(J=1)
            items = [base(x[k:k + 1]) for k in range(N)]
            yl0 = torch.cat([i[0] for i in items], dim=0)
            yh0 = [torch.cat([i[1][j] for i in items], dim=0) for j in range(1)]
            for idx, p in enumerate(sel):
                od, rd, lay = p["o_dim"], p["ri_dim"], p["layout"]
                cfg = dict(o_dim=od, ri_dim=rd, shape=list(shp), J=1, dtype="float32", threshold=T)
                case = {"api": "DTCWTForward/Inverse(o_dim, ri_dim)", "check": "big_layouts", "cfg": cfg}
                rep.validated()
                rep.nontriv(("big_layouts", od, rd, shp))
                try:
                    yl, yh = pw.DTCWTForward(J=1, o_dim=od, ri_dim=rd)(x)
                except Exception as e:   # noqa
                    rep.violation("DTCWTForward(o_dim=%d, ri_dim=%d) raised %r on a batch of shape %s" % (od, rd, e, list(shp)), dict(case, observed=repr(e)))
                    continue
                perm_src = [None] * 6
                for name, dflt in (("n", 0), ("c", 1), ("o", 2), ("h", 3), ("w", 4), ("ri", 5)):
                    perm_src[lay[name]] = dflt
                ok = tuple(yl.shape) == tuple(yl0.shape) and torch.equal(yl, yl0)
                for a, b in zip(yh, yh0):
                    want = b.permute(*perm_src)
                    ok = ok and tuple(a.shape) == tuple(want.shape) and torch.equal(a, want)
                if not ok:
                    rep.violation("DTCWTForward(o_dim=%d, ri_dim=%d) on a batch of shape %s (%d elements): the subbands are not the default "
                                  "subbands of each item with the axes moved to O@%d, RI@%d (got %s)"
                                  % (od, rd, list(shp), int(np.prod(shp)), lay["o"], lay["ri"], [tuple(a.shape) for a in yh]), case)
                    continue
                if idx % 5 == 0:
                    try:
                        xr = pw.DTCWTInverse(o_dim=od, ri_dim=rd)((yl, yh))
                    except Exception as e:   # noqa
                        rep.violation("DTCWTInverse(o_dim=%d, ri_dim=%d) raised %r on the forward's output for a batch of shape %s"
                                      % (od, rd, e, list(shp)), dict(case, observed=repr(e)))
                        continue
                    if tuple(xr.shape) != tuple(x.shape) or float((xr - x).abs().max()) > 1e-4 * float(x.abs().max()):
                        rep.violation("DTCWTInverse(o_dim=%d, ri_dim=%d) does not reconstruct a batch of shape %s" % (od, rd, list(shp)), case)
                        continue
                n_ok += 1
        rep.count("big_layouts_ok", n_ok)
    finally:
        torch.set_default_dtype(torch.float64)
