"""Helper fidelity: MC_Helpers (TLC) -> the real helper functions.

Every state TLC enumerates for mypad / roll / mode_to_int / prep_filt_* / symm_pad_1d carries the value the
specification assigns to the call; this module performs the call on the real function with probes whose values
ARE their indices (so the returned tensor is the index vector) and compares exactly.  A mismatch is attributed to
the property whose check asked for the layer: the helpers are what its Impl layer is made of.
"""
import numpy as np
import torch

from . import tlc
from .common import NCPU
from .dwtmodel import design_check

BOUNDS = {"quick": dict(NMax=6, PadMax=9, Emit=True), "thorough": dict(NMax=12, PadMax=19, Emit=True)}
INVS = ["EmitOK", "PadOK", "RollOK", "ModeOK", "PrepOK", "SymmOK"]


def _dev(rep, what, case):
    """A helper that differs from its transcription is a MODEL-FIDELITY deviation: the listed properties speak
    about the transforms, and a refactoring may move a flip or a pad between a helper and its caller without
    breaking any of them.  So it is reported as impl-drift (diagnostic) and counted, never as a VIOLATION; the
    property-level layers built on the same Impl models decide."""
    rep.drift.append("helpers: %s %s" % (what, {k: v for k, v in case.items() if k != "layer"}))
    rep.count("helper_deviations")


def _probe(n, axis):
    """4-D tensor whose value along `axis` is index+1 (0 is kept for 'the pad value')"""
    shape = [1, 1, 1, 1]
    shape[axis] = n
    return (torch.arange(n, dtype=torch.float64) + 1).reshape(shape)


def _pad_case(rep, pid, r, lowlevel):
    mode, n, a, b = r["mode"], r["n"], r["a"], r["b"]
    want = None if r["raises"] else np.array(r["idx"], dtype=np.int64)
    out = []
    for axis, pad in ((3, (a, b, 0, 0)), (2, (0, 0, a, b))):
        x = _probe(n, axis)
        try:
            y = lowlevel.mypad(x, pad=pad, mode=mode)
            got = (y.reshape(-1).numpy().round().astype(np.int64) - 1)
            exp_shape = [1, 1, 1, 1]
            exp_shape[axis] = n + a + b
            if list(y.shape) != exp_shape:
                got = ("shape", list(y.shape))
        except Exception as e:   # noqa
            got = ("raises", type(e).__name__)
        out.append((axis, got))
    # both axes at once: rows padded (a, b), columns padded (b, a) - an asymmetric probe of the 2-D branch
    if want is not None and a + b > 0:
        other = None
        try:
            x2 = (_probe(n, 2) * 100 + _probe(n, 3))
            y2 = lowlevel.mypad(x2, pad=(b, a, a, b), mode=mode)[0, 0].numpy().round().astype(np.int64)
            other = y2
        except Exception as e:   # noqa
            other = ("raises", type(e).__name__)
        out.append(("2d", other))
    for axis, got in out:
        rep.validated()
        case = {"layer": "helpers", "kind": "h.pad", "mode": mode, "n": n, "pad": [a, b], "axis": axis}
        if axis == "2d":
            # expected: value = 100*(row_src+1) + (col_src+1), pad value 0 contributes 0 to its part
            rev = r.get("rev_idx")
            if rev is None:
                continue
            if isinstance(got, tuple):
                _dev(rep, "mypad(%s) on both axes %s where the specification pads" % (mode, got), case)
                continue
            rows = want + 1
            cols = np.array(rev, dtype=np.int64) + 1
            if mode in ("zero", "constant"):
                exp = np.where((rows[:, None] > 0) & (cols[None, :] > 0), 100 * rows[:, None] + cols[None, :], 0)
            else:
                exp = 100 * rows[:, None] + cols[None, :]
            if got.shape != exp.shape or not np.array_equal(got, exp):
                _dev(rep, "mypad(%s) with both axes padded differs from the per-axis index maps" % mode, case)
            continue
        if want is None:
            if not (isinstance(got, tuple) and got[0] == "raises"):
                _dev(rep, "mypad(%s, n=%d, pad=(%d,%d)) returns where torch's reflect pad is undefined" % (mode, n, a, b), case)
        else:
            if isinstance(got, tuple) or len(got) != len(want) or not np.array_equal(got, want):
                _dev(rep, "mypad(%s, n=%d, pad=(%d,%d)) index map differs from Helpers!PadIdx: %s" % (
                    mode, n, a, b, got if isinstance(got, tuple) else got.tolist()), case)
    if a + b > n or r["raises"]:
        rep.nontriv(("h.pad", mode, n, a, b))


def _roll_case(rep, pid, r, lowlevel):
    ln, n0, even = r["len"], r["n0"], r["even"]
    want = np.array(r["idx"], dtype=np.int64)
    for dim in (0, 1, 2, 3, -1, -2):
        axis = dim % 4
        x = _probe(ln, axis)
        rep.validated()
        case = {"layer": "helpers", "kind": "h.roll", "len": ln, "n": n0, "dim": dim, "make_even": even}
        try:
            y = lowlevel.roll(x, n0, dim, make_even=even)
            got = y.reshape(-1).numpy().round().astype(np.int64) - 1
        except Exception as e:   # noqa
            _dev(rep, "roll raises %s" % type(e).__name__, case)
            continue
        if len(got) != len(want) or not np.array_equal(got, want):
            _dev(rep, "roll(len=%d, n=%d, dim=%d, make_even=%s) = %s, specification %s" % (
                ln, n0, dim, even, got.tolist(), want.tolist()), case)
    if n0 < 0 or n0 >= ln or even:
        rep.nontriv(("h.roll", ln, n0, even))


def _mode_case(rep, pid, r, lowlevel):
    rep.validated()
    case = {"layer": "helpers", "kind": "h.mode", "name": r["name"]}
    i = lowlevel.mode_to_int(r["name"])
    if i != r["int"] or lowlevel.int_to_mode(i) != r["back"]:
        _dev(rep, "mode_to_int/int_to_mode(%s) = %r/%r, specification %r/%r" % (
            r["name"], i, lowlevel.int_to_mode(i), r["int"], r["back"]), case)
    rep.nontriv(("h.mode", r["name"]))


def _prep_case(rep, pid, r, lowlevel, dt_lowlevel):
    kind, L = r["prep"], r["L"]
    h0 = np.arange(1, L + 1, dtype=np.float64)            # tap k has value k+1
    h1 = np.arange(101, L + 101, dtype=np.float64)
    want0 = np.array(r["taps"], dtype=np.int64) + 1
    rep.validated()
    case = {"layer": "helpers", "kind": "h.prep", "prep": kind, "L": L}
    try:
        if kind == "afb1d":
            t0, t1 = lowlevel.prep_filt_afb1d(h0, h1)
        elif kind == "sfb1d":
            t0, t1 = lowlevel.prep_filt_sfb1d(h0, h1)
        elif kind.startswith("afb2d") or kind.startswith("sfb2d"):
            f = lowlevel.prep_filt_afb2d if kind.startswith("afb2d") else lowlevel.prep_filt_sfb2d
            # column filters (1.., 101..), row filters (1001.., 1101..): a swap of the slots shows
            c0, c1, r0, r1 = f(h0, h1, h0 + 1000, h1 + 1000)
            if kind.endswith("col"):
                t0, t1 = c0, c1
            else:
                t0, t1 = r0 - 1000, r1 - 1000
            # the 2-argument form must reuse the column pair for the rows
            d0, d1, e0, e1 = f(h0, h1)
            if not (torch.equal(d0.reshape(-1), e0.reshape(-1)) and torch.equal(d1.reshape(-1), e1.reshape(-1))):
                _dev(rep, "%s: two-filter form does not reuse the column filters for the rows" % kind, case)
        else:
            t0 = dt_lowlevel.prep_filt(h0, 1, transpose=kind.endswith(".T"))
            t1 = dt_lowlevel.prep_filt(h1, 1, transpose=kind.endswith(".T"))
    except Exception as e:   # noqa
        _dev(rep, "prep routine %s raises %s" % (kind, type(e).__name__), case)
        return
    shape = [1] * r["rank"]
    shape[r["axis"]] = L
    for t, base in ((t0, 0), (t1, 100)):
        got = t.reshape(-1).to(torch.float64).numpy().round().astype(np.int64) - base
        if list(t.shape) != shape or not np.array_equal(got, want0):
            _dev(rep, "%s(L=%d): stored taps %s shape %s, specification %s shape %s" % (
                kind, L, got.tolist(), list(t.shape), want0.tolist(), shape), case)
            break
    if L > 1:
        rep.nontriv(("h.prep", kind, L))


def _symm_case(rep, pid, r, utils):
    l, m = r["l"], r["m"]
    want = np.array(r["idx"], dtype=np.int64)
    rep.validated()
    got = np.asarray(utils.symm_pad_1d(l, m)).astype(np.int64)
    case = {"layer": "helpers", "kind": "h.symm", "l": l, "m": m}
    if len(got) != len(want) or not np.array_equal(got, want):
        _dev(rep, "symm_pad_1d(%d, %d) = %s, specification %s" % (l, m, got.tolist(), want.tolist()), case)
    # utils.reflect itself, on the same ramp shifted by whole periods (it is defined for any integer)
    far = np.arange(-m - 4 * l, l + m + 4 * l, dtype="int32")
    g2 = np.asarray(utils.reflect(far, -0.5, l - 0.5)).astype(np.int64)
    u = np.mod(far.astype(np.int64), 2 * l)
    e2 = np.where(u < l, u, 2 * l - 1 - u)
    if not np.array_equal(g2, e2):
        _dev(rep, "utils.reflect(., -0.5, %d-0.5) is not the half-sample symmetric ramp" % l, case)
    if m > l:
        rep.nontriv(("h.symm", l, m))


def helper_fidelity(rep, pid, tier, kinds=None):
    from pytorch_wavelets.dwt import lowlevel
    from pytorch_wavelets.dtcwt import lowlevel as dt_lowlevel
    from pytorch_wavelets import utils
    res = tlc.run_model("MC_Helpers", BOUNDS[tier], invariants=INVS, shards=1, tag="MC_Helpers-" + pid,
                        timeout=1200, workers=NCPU)
    rep.add_tlc(res, "MC_Helpers")
    design_check(rep, res, "MC_Helpers")
    recs = [r for r in res.records if str(r.get("kind", "")).startswith("h.")]
    if not recs:
        rep.fail("MC_Helpers produced no replay records")
        return
    # the 2-D probe needs the index map of the swapped pad (b, a): look it up among the records
    pads = {(r["mode"], r["n"], r["a"], r["b"]): r for r in recs if r["kind"] == "h.pad"}
    prev = torch.get_default_dtype()
    torch.set_default_dtype(torch.float64)
    nthreads = torch.get_num_threads()
    torch.set_num_threads(1)        # thousands of tiny calls: thread hand-off dominates otherwise
    n = 0
    try:
        for r in recs:
            k = r["kind"]
            if kinds and k not in kinds:
                continue
            n += 1
            if k == "h.pad":
                o = pads.get((r["mode"], r["n"], r["b"], r["a"]))
                if o is not None and not o["raises"]:
                    r = dict(r, rev_idx=o["idx"])
                _pad_case(rep, pid, r, lowlevel)
            elif k == "h.roll":
                _roll_case(rep, pid, r, lowlevel)
            elif k == "h.mode":
                _mode_case(rep, pid, r, lowlevel)
            elif k == "h.prep":
                _prep_case(rep, pid, r, lowlevel, dt_lowlevel)
            elif k == "h.symm":
                _symm_case(rep, pid, r, utils)
    finally:
        torch.set_default_dtype(prev)
        torch.set_num_threads(nthreads)
    rep.count("helper_records_replayed", n)
    rep.sample({"layer": "helpers", "record": {k: v for k, v in recs[len(recs) // 2].items()}})
