"""Module construction / persistent state: MC_Ctor (TLC) -> real modules.

Each TLC state carries constructor arguments and the object the specification predicts (or the exception class);
the real module is built from the same arguments (integer taps for tuple forms, the named tables otherwise) and its
owned tensors, attributes, dtype, .to() and load_state_dict(strict) behaviour are compared.  Deviations are model-
fidelity diagnostics (impl-drift): no listed property speaks about the state schema itself; C16's dtype layers and
C15's Session model rest on it, and they decide.
"""
import numpy as np
import torch
import pywt

from . import tlc
from .common import NCPU
from .dwtmodel import design_check

PYWT = {"db1": "db1", "db2": "db2", "db3": "db3", "sym4": "sym4", "bior13": "bior1.3", "bior22": "bior2.2"}
DT = {"f32": torch.float32, "f64": torch.float64}


def _dev(rep, what, args):
    rep.drift.append("ctor: %s at %s" % (what, args))
    rep.count("ctor_deviations")


def _taps(L, base):
    return np.arange(1, L + 1, dtype=np.float64) + base


def build(a):
    """-> (module, sources) where sources[name] = the 1-D array the tensor `name` was made from"""
    import pytorch_wavelets as pw
    from pytorch_wavelets.dwt.transform2d import SWTForward
    from pytorch_wavelets.scatternet import ScatLayer, ScatLayerj2
    cls = a["cls"]
    src = {}
    if cls in ("DWT1DForward", "DWT1DInverse", "DWTForward", "DWTInverse", "SWTForward"):
        form = a["form"]
        inv = cls.endswith("Inverse")
        p = "g" if inv else "h"
        if form in ("name", "wavelet"):
            w = pywt.Wavelet(PYWT[a["name"]])
            lo, hi = (w.rec_lo, w.rec_hi) if inv else (w.dec_lo, w.dec_hi)
            arrs = [np.array(lo), np.array(hi), np.array(lo), np.array(hi)]
            wave = PYWT[a["name"]] if form == "name" else w
        else:
            arrs = [_taps(a["lc"], 0), _taps(a["lc"], 100), _taps(a["lr"], 200), _taps(a["lr"], 300)]
            n = {"t2": 2, "t3": 3, "t4": 4}[form]
            wave = tuple(arrs[:n])
            if form == "t2":
                arrs = [arrs[0], arrs[1], arrs[0], arrs[1]]
        if cls.startswith("DWT1D"):
            src = {p + "0": arrs[0], p + "1": arrs[1]}
        else:
            src = {p + "0_col": arrs[0], p + "1_col": arrs[1], p + "0_row": arrs[2], p + "1_row": arrs[3]}
        ctor = {"DWT1DForward": pw.DWT1DForward, "DWT1DInverse": pw.DWT1DInverse, "DWTForward": pw.DWTForward,
                "DWTInverse": pw.DWTInverse, "SWTForward": SWTForward}[cls]
        return ctor(wave=wave), src
    from pytorch_wavelets.dtcwt import coeffs
    if cls in ("DTCWTForward", "DTCWTInverse"):
        fw = cls == "DTCWTForward"
        p = "h" if fw else "g"
        kw = dict(o_dim=a["dims"][0], ri_dim=a["dims"][1])
        if a["bform"] == "tuple":
            kw["biort"] = (_taps(a["lc"], 0), _taps(a["lr"], 100))
            src[p + "0o"], src[p + "1o"] = kw["biort"]
        else:
            kw["biort"] = a["biort"]
            if not a["biort"].endswith("_bp"):
                h0o, g0o, h1o, g1o = coeffs.biort(a["biort"])
                src[p + "0o"], src[p + "1o"] = (h0o, h1o) if fw else (g0o, g1o)
        if a["qform"] == "tuple":
            kw["qshift"] = (_taps(a["lc"], 200), _taps(a["lc"], 300), _taps(a["lr"], 400), _taps(a["lr"], 500))
            src[p + "0a"], src[p + "0b"], src[p + "1a"], src[p + "1b"] = kw["qshift"]
        else:
            kw["qshift"] = a["qshift"]
            if not a["qshift"].endswith("_bp"):
                h0a, h0b, g0a, g0b, h1a, h1b, g1a, g1b = coeffs.qshift(a["qshift"])
                src[p + "0a"], src[p + "0b"], src[p + "1a"], src[p + "1b"] = (h0a, h0b, h1a, h1b) if fw else (g0a, g0b, g1a, g1b)
        return (pw.DTCWTForward if fw else pw.DTCWTInverse)(**kw), src
    if cls == "ScatLayer":
        m = ScatLayer(biort=a["biort"])
    else:
        m = ScatLayerj2(biort=a["biort"], qshift=a["qshift"])
    b = coeffs.biort(a["biort"])
    src["h0o"], src["h1o"] = b[0], b[2]
    if len(b) == 6:
        src["h2o"] = b[4]
    if cls == "ScatLayerj2":
        q = coeffs.qshift("qshift_b_bp" if a["biort"].endswith("_bp") else a["qshift"])
        src["h0a"], src["h0b"], src["h1a"], src["h1b"] = q[0], q[1], q[4], q[5]
        if len(q) == 12:
            src["h2a"], src["h2b"] = q[8], q[9]
    return m, src


def owned(m):
    """ordered [(name, tensor, is_param)] as state_dict sees them"""
    params = {k for k, _ in m.named_parameters()}
    return [(k, v, k in params) for k, v in m.state_dict(keep_vars=True).items()]


def _try_build(a):
    prev = torch.get_default_dtype()
    torch.set_default_dtype(DT[a["dd"]])
    try:
        return build(a) + (None,)
    except Exception as e:   # noqa
        return None, None, type(e).__name__
    finally:
        torch.set_default_dtype(prev)


def _check_obj(rep, a, want, m, src, err, after_to=None):
    if not want["ok"]:
        if err is None:
            _dev(rep, "constructs where the specification raises %s" % want["raises"], a)
        elif err != want["raises"]:
            _dev(rep, "raises %s, specification %s" % (err, want["raises"]), a)
        return
    if err is not None:
        _dev(rep, "raises %s where the specification constructs" % err, a)
        return
    if after_to:
        m = m.to(DT[after_to])
    got = owned(m)
    names = [g[0] for g in got]
    wnames = [b["name"] for b in want["bufs"]]
    if sorted(names) != sorted(wnames):
        _dev(rep, "state keys %s, specification %s" % (names, wnames), a)
        return
    if names != wnames:
        _dev(rep, "state key ORDER %s, specification %s" % (names, wnames), a)
    byname = {g[0]: g for g in got}
    for b in want["bufs"]:
        _, t, isparam = byname[b["name"]]
        shape = [1] * b["rank"]
        shape[b["axis"]] = b["len"]
        if list(t.shape) != shape:
            _dev(rep, "%s has shape %s, specification %s" % (b["name"], list(t.shape), shape), a)
            continue
        if isparam != b["param"] or (isparam and t.requires_grad):
            _dev(rep, "%s: parameter=%s requires_grad=%s, specification parameter=%s (frozen)" % (b["name"], isparam, t.requires_grad, b["param"]), a)
        if t.dtype != DT[want["dtype"]]:
            _dev(rep, "%s has dtype %s, specification %s" % (b["name"], t.dtype, want["dtype"]), a)
        s = np.asarray(src[b["name"]], dtype=np.float64).ravel()
        exp = s[::-1] if b["rev"] else s
        val = t.detach().reshape(-1).to(torch.float64).numpy()
        if len(exp) != len(val) or not np.allclose(val, exp, rtol=0, atol=1e-6 * max(1.0, np.abs(exp).max())):
            also = np.allclose(val, exp[::-1], rtol=0, atol=1e-6) if len(exp) == len(val) else False
            _dev(rep, "%s stored taps are not %s source%s" % (b["name"], "the reversed" if b["rev"] else "the",
                                                             " (they are the other orientation)" if also else ""), a)
    attrs = sorted(k for k in vars(m) if not k.startswith("_") and k != "training")
    if attrs != sorted(want["attrs"]):
        _dev(rep, "public attributes %s, specification %s" % (attrs, sorted(want["attrs"])), a)


def ctor_fidelity(rep, pid, tier):
    res = tlc.run_model("MC_Ctor", dict(Emit=True), invariants=["EmitOK", "SchemaOK", "ToOK", "CrossClassLoads"], shards=1,
                        tag="MC_Ctor-" + pid, timeout=1200, workers=NCPU)
    rep.add_tlc(res, "MC_Ctor")
    design_check(rep, res, "MC_Ctor")
    recs = [r for r in res.records if str(r.get("kind", "")).startswith("ctor.")]
    if not recs:
        rep.fail("MC_Ctor produced no replay records")
        return
    nthreads = torch.get_num_threads()
    torch.set_num_threads(1)
    n = 0
    cache = {}

    def key(a):
        return repr(sorted(a.items()))
    try:
        loads = [r for r in recs if r["kind"] == "ctor.load"]
        if tier == "quick":         # the pairs repeat per (default dtype, converted?) of the target: keep a deterministic third
            loads = loads[::3]
        for r in recs:
            if r["kind"] == "ctor.load":
                continue
            a = r["args"]
            m, src, err = _try_build(a)
            n += 1
            rep.validated()
            _check_obj(rep, a, r["obj"], m, src, err, after_to=r["obj"].get("dtype") if r["kind"] == "ctor.to" else None)
            if not r["obj"]["ok"] or a.get("form") in ("t3", "t4") or a.get("bform") == "tuple" or a["cls"].startswith("Scat"):
                rep.nontriv(("ctor", key(a), r["kind"]))
        for r in loads:
            a, b = r["args"], r["bargs"]
            ma, _, ea = _try_build(a)
            mb, _, eb = _try_build(b)
            n += 1
            rep.validated()
            if ea or eb:
                _dev(rep, "load pair: a constructor raised (%s / %s)" % (ea, eb), (a, b))
                continue
            ma = ma.to(DT[r["adtype"]])
            try:
                ma.load_state_dict(mb.state_dict())
                ok = True
            except RuntimeError:
                ok = False
            if ok != r["loads"]:
                _dev(rep, "load_state_dict(strict) %s, specification says it %s" % (
                    "succeeds" if ok else "fails", "succeeds" if r["loads"] else "fails"), (a, b))
            elif ok:
                for (k, ta, _), (_, tb, _) in zip(owned(ma), owned(mb)):
                    if ta.dtype != DT[r["adtype"]] or not torch.equal(ta.to(torch.float64), tb.to(ta.dtype).to(torch.float64)):
                        _dev(rep, "after load_state_dict, %s is not the source value in the target's dtype" % k, (a, b))
                        break
            if a["cls"] != b["cls"] or not r["loads"]:
                rep.nontriv(("ctor.load", key(a), key(b), r["adtype"]))
    finally:
        torch.set_num_threads(nthreads)
    rep.count("ctor_records_replayed", n)
    rep.sample({"layer": "ctor", "record": recs[len(recs) // 7]})
