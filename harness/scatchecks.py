"""C08 / C09: the scattering layers against the composition of the reference DTCWT with the defining formulas,
and their back-propagation against central finite differences."""
import logging

import numpy as np
import torch
import torch.nn.functional as F

import pytorch_wavelets as pw

from .common import seed

FAMILIES = [("near_sym_a", "qshift_a"), ("near_sym_b", "qshift_b"), ("near_sym_b_bp", "qshift_b_bp"), ("antonini", "qshift_c"),
            ("legall", "qshift_06")]


def ref_level1(x2d, biort):
    """reference level-1 DTCWT of a 2-D array: (lowpass at full size, complex highpass (h/2, w/2, 6))"""
    from dtcwt.numpy import Transform2d
    logging.disable(logging.WARNING)
    try:
        p = Transform2d(biort=biort, qshift="qshift_a").forward(x2d, nlevels=1, include_scale=True)
    finally:
        logging.disable(logging.NOTSET)
    return p.scales[0], p.highpasses[0]


def ref_levels2(x2d, biort, qshift):
    from dtcwt.numpy import Transform2d
    logging.disable(logging.WARNING)
    try:
        p = Transform2d(biort=biort, qshift=qshift).forward(x2d, nlevels=2, include_scale=True)
    finally:
        logging.disable(logging.NOTSET)
    return p.scales, p.highpasses


def pool2(a):
    return F.avg_pool2d(torch.tensor(a)[None, None], 2)[0, 0].numpy()


def smag(z, b):
    return np.sqrt(z.real ** 2 + z.imag ** 2 + b * b) - b


def ref_scat1(x, biort, b, colour):
    """x: (C, H, W) even-sized; returns (7C, H/2, W/2) or (C+6, ...) in colour mode"""
    C = x.shape[0]
    lows, his = [], []
    for c in range(C):
        lo, hi = ref_level1(x[c], biort)
        lows.append(pool2(lo))
        his.append(hi)
    if colour:
        mags = [np.sqrt(sum(his[c][:, :, o].real ** 2 + his[c][:, :, o].imag ** 2 for c in range(3)) + b * b) - b for o in range(6)]
        return np.stack(lows + mags, axis=0)
    out = list(lows)
    for o in range(6):
        for c in range(C):
            out.append(smag(his[c][:, :, o], b))
    return np.stack(out, axis=0)


def ref_scat2(x, biort, qshift, b):
    """x: (C, H, W) with H, W multiples of 8; returns (49C, H/4, W/4), band-major"""
    C = x.shape[0]
    bands = [[None] * C for _ in range(49)]
    for c in range(C):
        scales, his = ref_levels2(x[c], biort, qshift)
        bands[0][c] = pool2(scales[1])
        U1 = [smag(his[0][:, :, o], b) for o in range(6)]
        for o in range(6):
            bands[7 + o][c] = smag(his[1][:, :, o], b)
        for o1 in range(6):
            lo, hi = ref_level1(U1[o1], biort)
            bands[1 + o1][c] = pool2(lo)
            for o2 in range(6):
                bands[13 + 6 * o2 + o1][c] = smag(hi[:, :, o2], b)
    return np.stack([bands[k][c] for k in range(49) for c in range(C)], axis=0)


def scat_inputs(rng, shape):
    g = rng.standard_normal(shape)
    imp = np.zeros(shape)
    imp[..., shape[-2] // 2, shape[-1] // 3] = 1.0
    sparse = g * (rng.uniform(size=shape) < 0.05)
    return [("gaussian", g), ("zeros", np.zeros(shape)), ("impulse", imp), ("scaled-1e6", g * 1e6), ("scaled-1e-6", g * 1e-6), ("sparse", sparse)]


def forward_checks(rep, fnd, pid, tier):
    torch.set_default_dtype(torch.float64)
    rng = np.random.default_rng(42000 + seed())
    biases = [0.0, 1e-3, 1e-2, 1.0]
    n_ok = 0
    # ---- first order, even sizes: values
    sizes1 = [(8, 8), (6, 10), (2, 4), (12, 2), (16, 14)] if tier == "quick" else [(8, 8), (6, 10), (2, 4), (12, 2), (16, 14), (2, 2), (30, 22), (4, 26)]
    for (biort, qshift) in FAMILIES:
        for (H, W) in sizes1:
            for colour in (False, True):
              b0 = biases[(FAMILIES.index((biort, qshift)) + sizes1.index((H, W)) + int(colour)) % 4]     # every bias with every family
              for b in ([b0] if tier == "quick" else biases):
                C = 3 if colour else int(rng.integers(1, 4))
                lay = pw.ScatLayer(biort=biort, magbias=b, combine_colour=colour)
                for kind, x in scat_inputs(rng, (2 if tier == "quick" else 3, C, H, W))[:4 if tier == "quick" else 6]:
                    cfg = dict(layer="ScatLayer", biort=biort, H=H, W=W, C=C, magbias=b, combine_colour=colour, input=kind)
                    case = {"api": "ScatLayer", "check": "scat_forward", "cfg": cfg}
                    rep.validated()
                    rep.nontriv(("scat1", biort, H, W, C, b, colour, kind))
                    try:
                        z = lay(torch.tensor(x)).numpy()
                    except Exception as e:   # noqa
                        rep.violation("ScatLayer raised %r at %s" % (e, cfg), dict(case, observed=repr(e)))
                        continue
                    ok = True
                    for n in range(x.shape[0]):
                        want = ref_scat1(x[n], biort, b, colour)
                        scale = max(np.abs(x).max(), 1e-300) * 8 + b
                        if z[n].shape != want.shape or not np.isfinite(z[n]).all() or not (np.abs(z[n] - want).max() <= 1e-9 * scale):
                            ok = False
                            rep.violation("ScatLayer differs from the reference composition (pooled level-1 lowpass, smooth magnitudes, "
                                          "band-major channels) at %s: shape %s vs %s, max error %.3g" % (
                                              cfg, z[n].shape, want.shape,
                                              np.abs(z[n] - want).max() if z[n].shape == want.shape else float("nan")), case)
                            break
                    nmag = z[:, (3 if colour else C):]
                    if ok and not (nmag.min() >= 0):
                        ok = False
                        rep.violation("ScatLayer returns a negative magnitude channel (%.3g) at %s" % (nmag.min(), cfg), case)
                    n_ok += ok
                    if ok:
                        rep.sample({"layer": "ScatLayer", "cfg": cfg, "observed": "equals the reference composition channel by channel; magnitudes >= 0",
                                    "max_abs_output": float(np.abs(z).max())}, cap=3)
    # ---- second order, multiples of 8: values
    sizes2 = [(8, 8), (16, 8), (8, 24)] if tier == "quick" else [(8, 8), (16, 8), (8, 24), (16, 16), (32, 8)]
    for (biort, qshift) in FAMILIES[:3] if tier == "quick" else FAMILIES:
        if biort == "near_sym_b_bp" or True:
            for (H, W) in sizes2:
              b0 = biases[(sizes2.index((H, W)) + FAMILIES.index((biort, qshift))) % 4]
              for b in ([b0] if tier == "quick" else biases):
                C = int(rng.integers(1, 3)) if tier == "quick" else int(rng.integers(1, 5))
                lay = pw.ScatLayerj2(biort=biort, qshift=qshift, magbias=b)
                for kind, x in scat_inputs(rng, (1, C, H, W))[:3 if tier == "quick" else 6]:
                    cfg = dict(layer="ScatLayerj2", biort=biort, qshift=qshift, H=H, W=W, C=C, magbias=b, input=kind)
                    case = {"api": "ScatLayerj2", "check": "scat_forward", "cfg": cfg}
                    rep.validated()
                    rep.nontriv(("scat2", biort, H, W, C, b, kind))
                    try:
                        z = lay(torch.tensor(x)).numpy()
                    except Exception as e:   # noqa
                        rep.violation("ScatLayerj2 raised %r at %s" % (e, cfg), dict(case, observed=repr(e)))
                        continue
                    want = ref_scat2(x[0], biort, qshift, b)
                    scale = max(np.abs(x).max(), 1e-300) * 64 + b
                    if z[0].shape != want.shape or not np.isfinite(z[0]).all() or not (np.abs(z[0] - want).max() <= 1e-9 * scale):
                        bad = ""
                        if z[0].shape == want.shape:
                            k = int(np.argmax(np.abs(z[0] - want).reshape(want.shape[0], -1).max(1)))
                            bad = "; worst output channel %d (band %d, input channel %d)" % (k, k // C, k % C)
                        rep.violation("ScatLayerj2 differs from the reference two-scale second-order cascade at %s: shape %s vs %s%s"
                                      % (cfg, z[0].shape, want.shape, bad), case)
                    elif not (z[0][7 * C:].min() >= 0):        # bands 7..48 are magnitudes (1..6 are pooled lowpasses of U1)
                        rep.violation("ScatLayerj2 returns a negative magnitude channel at %s" % (cfg,), case)
                    else:
                        n_ok += 1
    # ---- many channels / larger batches: the channel bookkeeping has to be band-major over ALL C (stacked scattering layers
    # see 21, 147, ... channels), so a few wide inputs are compared channel by channel as well
    wide = [("ScatLayer", 17, 2), ("ScatLayer", 40, 1), ("ScatLayer", 2, 5), ("ScatLayerj2", 17, 1), ("ScatLayerj2", 3, 3),
            ("ScatLayer", 67, 1), ("ScatLayerj2", 67, 1)]       # beyond a slab of 64 channels
    if tier != "quick":
        wide += [("ScatLayer", 147, 1), ("ScatLayerj2", 33, 2)]
    wide = [w + (8, 8) for w in wide] + [("ScatLayer", 3, 2, 132, 158), ("ScatLayerj2", 2, 1, 136, 72)]     # ... and large images
    for k, (name, C, N, H_, W_) in enumerate(wide):
        biort, qshift = FAMILIES[k % len(FAMILIES)]
        b = biases[(k + 1) % 4]
        lay = pw.ScatLayer(biort=biort, magbias=b) if name == "ScatLayer" else pw.ScatLayerj2(biort=biort, qshift=qshift, magbias=b)
        x = rng.standard_normal((N, C, H_, W_))
        cfg = dict(layer=name, biort=biort, qshift=qshift, H=H_, W=W_, C=C, N=N, magbias=b, input="gaussian-wide")
        case = {"api": name, "check": "scat_forward", "cfg": cfg}
        rep.validated()
        rep.nontriv(("scat_wide", name, C, N))
        try:
            z = lay(torch.tensor(x)).numpy()
        except Exception as e:   # noqa
            rep.violation("%s raised %r at %s" % (name, e, cfg), dict(case, observed=repr(e)))
            continue
        good = True
        for n in range(N):
            want = ref_scat1(x[n], biort, b, False) if name == "ScatLayer" else ref_scat2(x[n], biort, qshift, b)
            if z[n].shape != want.shape or not (np.abs(z[n] - want).max() <= 1e-9 * (np.abs(x).max() * 64 + b)):
                bad = ""
                if z[n].shape == want.shape:
                    kk = int(np.argmax(np.abs(z[n] - want).reshape(want.shape[0], -1).max(1)))
                    bad = "; first/worst wrong output channel %d (band %d, input channel %d)" % (kk, kk // C, kk % C)
                rep.violation("%s with %d channels, batch %d differs from the reference composition channel by channel: "
                              "shape %s vs %s%s" % (name, C, N, z[n].shape, want.shape, bad), case)
                good = False
                break
        n_ok += good
    # ---- other sizes: documented shapes, non-negativity, never raise
    # one long-lived object per layer type, called with every size in turn: a layer must not remember anything about
    # earlier sizes (an extension decision cached per block of 8 would show here and nowhere in one-call-per-object runs)
    persistent = {"ScatLayer": pw.ScatLayer(), "ScatLayerj2": pw.ScatLayerj2()}
    for H in range(2, 20):
        for W in (2, 3, 8, 13):
            x = torch.tensor(rng.standard_normal((1, 2, H, W)))
            for name, lay, want, first_mag in (("ScatLayer", pw.ScatLayer(), (1, 14, (H + 1) // 2, (W + 1) // 2), 2),
                                               ("ScatLayerj2", pw.ScatLayerj2(), (1, 98, ((H + 7) // 8) * 2, ((W + 7) // 8) * 2), 14)):
                cfg = dict(layer=name, H=H, W=W, short=min(H, W) < 3)
                rep.validated()
                rep.nontriv(("scat_shape", name, H, W))
                try:
                    z = lay(x)
                except Exception as e:   # noqa
                    f = fnd.match(pid, name, cfg, "raises:" + type(e).__name__)
                    if f:
                        rep.known_finding(f["id"], f["what"])
                    else:
                        rep.violation("%s raised %r on a %dx%d input (sizes >= 2 must be edge-extended)" % (name, e, H, W),
                                      {"api": name, "check": "scat_shape", "cfg": cfg})
                    continue
                try:
                    zp = persistent[name](x)
                    same = tuple(zp.shape) == tuple(z.shape) and bool(torch.equal(zp, z))
                except Exception as e:   # noqa
                    same = False
                    zp = repr(e)
                if not same:
                    rep.violation("%s: a layer object that has been called with other sizes before returns something else on a %dx%d input than a "
                                  "fresh layer (%s)" % (name, H, W, zp if isinstance(zp, str) else "values differ by %.3g" % (
                                      float((zp - z).abs().max()) if tuple(zp.shape) == tuple(z.shape) else float("nan"))),
                                  {"api": name, "check": "scat_reuse", "cfg": cfg})
                    continue
                # values for sizes that need the extension: the layer on x is the layer on the explicitly extended image (ScatLayer:
                # last row / column repeated, corner included; ScatLayerj2: cat(x[:before], x, x[-after:]) along each axis, module
                # Scat: Before / After) - and extended images have even sizes / multiples of 8, whose values the reference decides
                def ext_(t, ax, layer_name):
                    r_ = t.shape[ax]
                    if layer_name == "ScatLayer":
                        return torch.cat((t, t.narrow(ax, r_ - 1, 1)), dim=ax) if r_ % 2 else t
                    rem = r_ % 8
                    if rem == 0:
                        return t
                    bf, af = (8 - rem) // 2, (9 - rem) // 2
                    return torch.cat((t.narrow(ax, 0, min(bf, r_)), t, t.narrow(ax, r_ - min(af, r_), min(af, r_))), dim=ax)
                xe_ = ext_(ext_(x, 2, name), 3, name)
                if tuple(xe_.shape) != tuple(x.shape) and not (name == "ScatLayerj2" and min(H, W) < 3):
                    try:
                        ze = (pw.ScatLayer() if name == "ScatLayer" else pw.ScatLayerj2())(xe_)
                        if tuple(ze.shape) != tuple(z.shape) or float((ze - z).abs().max()) > 1e-12 * (float(ze.abs().max()) + 1.0):
                            rep.violation("%s on a %dx%d input differs from the layer on the explicitly extended %dx%d image (max difference %.3g)"
                                          % (name, H, W, xe_.shape[-2], xe_.shape[-1], float((ze - z).abs().max()) if tuple(ze.shape) == tuple(z.shape) else float("nan")),
                                          {"api": name, "check": "scat_extension_values", "cfg": cfg})
                            continue
                    except Exception as e:   # noqa
                        rep.violation("%s raised %r on the explicitly extended %dx%d image" % (name, e, xe_.shape[-2], xe_.shape[-1]),
                                      {"api": name, "check": "scat_extension_values", "cfg": cfg})
                        continue
                if tuple(z.shape) != want or not (float(z[:, first_mag:].min()) >= 0) or not bool(torch.isfinite(z).all()):
                    rep.violation("%s on a %dx%d input: shape %s (documented %s) or a negative magnitude" % (name, H, W, tuple(z.shape), want),
                                  {"api": name, "check": "scat_shape", "cfg": cfg})
                else:
                    n_ok += 1
    rep.count("scat_forward_cases_ok", n_ok)


def fd_check(f, x, direction, eps):
    return (f(x + eps * direction) - f(x - eps * direction)) / (2 * eps)


def backward_checks(rep, fnd, pid, tier):
    torch.set_default_dtype(torch.float64)
    rng = np.random.default_rng(43000 + seed())
    n_ok = 0
    layers = []
    for (biort, qshift) in FAMILIES[:3]:
        for colour in (False, True):
            layers.append(("ScatLayer(%s,colour=%s)" % (biort, colour), lambda biort=biort, colour=colour, b=1e-2: pw.ScatLayer(biort=biort, magbias=b, combine_colour=colour), (1, 3, 8, 6)))
            layers.append(("ScatLayerj2(%s,colour=%s)" % (biort, colour), lambda biort=biort, qshift=qshift, colour=colour, b=1e-2: pw.ScatLayerj2(biort=biort, qshift=qshift, magbias=b, combine_colour=colour), (1, 3, 8, 16)))
    # the layers' other padding mode (the backward of the band-pass family threads `mode` through separate calls)
    for (biort, qshift) in FAMILIES[:3]:
        for colour in (False, True):
            layers.append(("ScatLayer(%s,colour=%s,mode=zero)" % (biort, colour),
                           lambda biort=biort, colour=colour: pw.ScatLayer(biort=biort, magbias=1e-2, combine_colour=colour, mode="zero"), (2, 3, 10, 8)))
    layers.append(("ScatLayer(near_sym_a, odd size)", lambda: pw.ScatLayer(magbias=1e-2), (1, 2, 7, 9)))
    layers.append(("ScatLayerj2(near_sym_a, size 12x10)", lambda: pw.ScatLayerj2(magbias=1e-2), (1, 1, 12, 10)))
    layers.append(("ScatLayer(magbias=1)", lambda: pw.ScatLayer(magbias=1.0), (2, 1, 6, 6)))
    # wide / deep batches (the backward's view arithmetic is per (batch, band, channel): thresholds show only there)
    layers.append(("ScatLayer(near_sym_b_bp, 17 channels)", lambda: pw.ScatLayer(biort="near_sym_b_bp", magbias=1e-2), (1, 17, 4, 6)))
    layers.append(("ScatLayerj2(near_sym_b_bp, batch 2 x 5 channels)",
                   lambda: pw.ScatLayerj2(biort="near_sym_b_bp", qshift="qshift_b_bp", magbias=1e-2), (2, 5, 8, 8)))
    layers.append(("ScatLayerj2(near_sym_a, batch 3 x 2 channels)", lambda: pw.ScatLayerj2(magbias=0.3), (3, 2, 8, 8)))
    if tier != "quick":
        for (biort, qshift) in FAMILIES:
            for colour in (False, True):
                for b in (1e-3, 0.3):
                    for shape in ([(1, 1, 8, 6), (2, 2, 6, 10), (1, 5, 4, 4)] if not colour else [(2, 3, 6, 10), (1, 3, 5, 7)]):
                        layers.append(("ScatLayer(%s,colour=%s,magbias=%g,%s)" % (biort, colour, b, "x".join(map(str, shape))),
                                       lambda biort=biort, colour=colour, b=b: pw.ScatLayer(biort=biort, magbias=b, combine_colour=colour), shape))
                    for shape in ([(1, 1, 8, 8), (2, 2, 8, 16), (1, 4, 16, 8)] if not colour else [(2, 3, 8, 8), (1, 3, 16, 8)]):
                        layers.append(("ScatLayerj2(%s,colour=%s,magbias=%g,%s)" % (biort, colour, b, "x".join(map(str, shape))),
                                       lambda biort=biort, qshift=qshift, colour=colour, b=b: pw.ScatLayerj2(
                                           biort=biort, qshift=qshift, magbias=b, combine_colour=colour), shape))
            layers.append(("ScatLayer(%s,mode=zero,batch 2)" % biort, lambda biort=biort: pw.ScatLayer(biort=biort, magbias=0.1, mode="zero"), (2, 2, 8, 8)))
    for name, make, shape in layers:
        lay = make()
        points = [("generic", rng.standard_normal(shape)), ("zero image", np.zeros(shape)),
                  ("tiny", rng.standard_normal(shape) * 1e-9), ("huge", rng.standard_normal(shape) * 1e8)]
        if tier != "quick":
            sp = rng.standard_normal(shape) * (rng.uniform(size=shape) < 0.15)
            mixed = rng.standard_normal(shape) * np.exp(rng.uniform(-3, 3, size=(shape[0], shape[1], 1, 1)))
            points += [("sparse", sp), ("per-channel scales", mixed)]
        for pname, x0 in points:
            x = torch.tensor(x0, requires_grad=True)
            z = lay(x)
            dense = torch.tensor(rng.standard_normal(tuple(z.shape)))
            cots = [("dense", dense)]
            if pname == "generic":
                # structured cotangents: a loss on the lowpass channels only, on one magnitude channel only, on one lowpass sample at
                # the image corner - a backward that special-cases "this part of the cotangent is zero" takes another path there
                nlow = 3 if "colour=True" in name else shape[1]
                lo = torch.zeros_like(dense); lo[:, :nlow] = dense[:, :nlow]
                hi = torch.zeros_like(dense); hi[:, -1] = dense[:, -1]
                hot = torch.zeros_like(dense); hot[:, 0, 0, 0] = 1.0; hot[:, nlow - 1, -1, -1] = -2.0
                cots += [("lowpass channels only", lo), ("last magnitude channel only", hi), ("lowpass corner samples only", hot)]
            for cname, c in cots:
                g, = torch.autograd.grad((z * c).sum(), x, retain_graph=True)
                cfg = dict(layer=name, point=pname, shape=list(shape), cotangent=cname)
                case = {"api": name, "check": "scat_backward", "cfg": cfg}
                rep.validated()
                rep.nontriv(("scat_bwd", name, pname, cname))
                if not bool(torch.isfinite(g).all()):
                    rep.violation("%s: gradient at the %s is not finite (magbias > 0)" % (name, pname), case)
                    continue

                def f(xx):
                    with torch.no_grad():
                        return float((lay(torch.tensor(xx)) * c).sum())
                scale = max(np.abs(x0).max(), 1e-2)
                ok = True
                dirs = [rng.standard_normal(shape) for _ in range(3 if tier == "quick" else 6)]
                e = np.zeros(shape)
                e.flat[int(rng.integers(0, e.size))] = 1.0
                dirs.append(e)
                if pname == "tiny":
                    # sqrt(z^2 + b^2) - b cancels catastrophically for |z| << b in the FORWARD pass, so finite differences
                    # carry no information there; the requirement at such points is a finite gradient (checked above)
                    n_ok += 1
                    continue
                for d in dirs:
                    eps = 1e-5 * scale
                    if pname == "zero image":
                        eps = 1e-6          # |x| << bias: the function is smooth (quadratic) around zero
                    fd1 = fd_check(f, x0, d, eps)
                    fd2 = fd_check(f, x0, d, eps / 2)
                    fd = (4 * fd2 - fd1) / 3          # Richardson: removes the eps^2 truncation term of the central difference
                    an = float((g.numpy() * d).sum())
                    # |fd2 - fd1| measures the truncation error actually present at this point (the smooth modulus has
                    # curvature ~ 1/bias where |z| ~ bias): it widens the tolerance there instead of raising a false alarm
                    tol = 1e-5 * (abs(fd) + abs(an)) + 0.5 * abs(fd2 - fd1) + 1e-7 * float(c.abs().sum()) * (eps ** 2 * 1e4 + 1e-9 * scale)
                    if not (abs(fd - an) <= tol):
                        ok = False
                        rep.violation("%s: back-propagated directional derivative %.10g differs from the central finite difference %.10g at the %s"
                                      % (name, an, fd, pname), dict(case, analytic=an, finite_difference=fd))
                        break
                n_ok += ok
                if ok:
                    rep.sample({"layer": name, "point": pname, "shape": list(shape), "directional_derivative_autograd": an, "finite_difference": fd}, cap=4)
    # ---- the stand-alone smooth magnitude function, every grad subset
    from pytorch_wavelets.scatternet.lowlevel import SmoothMagFn
    for need in ((True, True), (True, False), (False, True)):
        for b in (1e-2, 1.0):
            x = torch.tensor(rng.standard_normal((2, 3, 4)), requires_grad=need[0])
            y = torch.tensor(rng.standard_normal((2, 3, 4)), requires_grad=need[1])
            cfg = dict(function="SmoothMagFn", requires_grad=list(need), magbias=b)
            case = {"api": "SmoothMagFn", "check": "scat_backward", "cfg": cfg}
            rep.validated()
            rep.nontriv(("smag", need, b))
            try:
                r = SmoothMagFn.apply(x, y, b)
                leaves = [t for t, n in zip((x, y), need) if n]
                grads = torch.autograd.grad(r.sum(), leaves, allow_unused=True)
            except Exception as e:   # noqa
                f = fnd.match(pid, "SmoothMagFn", cfg, "raises:" + type(e).__name__)
                if f:
                    rep.known_finding(f["id"], f["what"])
                else:
                    rep.violation("SmoothMagFn back-propagation raised %r with requires_grad=%s" % (e, need), dict(case, observed=repr(e)))
                continue
            rr = torch.sqrt(x ** 2 + y ** 2 + b * b).detach()
            want = [t.detach() / rr for t, n in zip((x, y), need) if n]
            if any(g is None for g in grads) or any(float((g - w).abs().max()) > 1e-12 for g, w in zip(grads, want)):
                rep.violation("SmoothMagFn gradient differs from x/r, y/r (or is None) with requires_grad=%s" % (need,), case)
            else:
                n_ok += 1
    rep.count("scat_backward_cases_ok", n_ok)


def forward_regimes(rep, pid, tier):
    """The forward values of the scattering layers must not depend on HOW the layer is used: autograd mode, the input
    requiring grad, a non-contiguous (permuted-view) input, the Python type the bias was given in, a deep copy / pickle of the
    layer.  Differential against the plain call (float bias, contiguous input, grad enabled), whose values the reference
    composition above has decided."""
    import copy
    import pickle
    torch.set_default_dtype(torch.float64)
    rng = np.random.default_rng(44000 + seed())
    n = 0
    for name, make, shape in (("ScatLayer(near_sym_a)", lambda b: pw.ScatLayer(magbias=b), (2, 3, 10, 12)),
                              ("ScatLayer(near_sym_b_bp,colour)", lambda b: pw.ScatLayer(biort="near_sym_b_bp", magbias=b, combine_colour=True), (1, 3, 8, 8)),
                              ("ScatLayerj2(near_sym_a)", lambda b: pw.ScatLayerj2(magbias=b), (1, 2, 16, 8)),
                              ("ScatLayerj2(near_sym_b_bp)", lambda b: pw.ScatLayerj2(biort="near_sym_b_bp", qshift="qshift_b_bp", magbias=b), (2, 2, 8, 16))):
        for b in (0.0, 0.5, 1.0):
            x = torch.tensor(rng.standard_normal(shape))
            if b != 0.5:
                # exact zeros: a black border region and isolated zero pixels (where every subband vanishes the modulus is
                # exactly b - b = 0; a "safe division" that touches such entries shows only here, and only for some regimes)
                x[..., : shape[-2] // 2, :] = 0.0
                x[..., ::3] = 0.0
            lay = make(float(b))
            base = lay(x).detach()
            xp = torch.tensor(np.ascontiguousarray(np.moveaxis(x.numpy(), 1, -1))).permute(0, 3, 1, 2)      # NHWC storage, NCHW view
            variants = [("torch.no_grad()", lambda: _ng(lay, x)), ("torch.inference_mode()", lambda: _im(lay, x)),
                        ("input requires grad", lambda: lay(x.clone().requires_grad_(True)).detach()),
                        ("permuted-view (channels-last storage) input", lambda: lay(xp)),
                        ("magbias given as numpy.float64", lambda: make(np.float64(b))(x)),
                        ("magbias given as numpy.float32", lambda: make(np.float32(b))(x)),
                        ("deep copy of the layer", lambda: copy.deepcopy(lay)(x)),
                        ("pickled layer", lambda: pickle.loads(pickle.dumps(lay))(x)),
                        ("second call of the same object", lambda: lay(x))]
            if b == 1.0:
                variants.append(("magbias given as the int 1", lambda: make(1)(x)))
            for label, fn in variants:
                cfg = dict(layer=name, magbias=b, regime=label, shape=list(shape))
                rep.validated()
                rep.nontriv(("scat_regime", name, b, label))
                n += 1
                try:
                    z = fn().detach()
                except Exception as e:   # noqa
                    rep.violation("%s raised %r in the regime '%s'" % (name, e, label), {"api": name, "check": "scat_regime", "cfg": cfg})
                    continue
                if z.dtype != base.dtype or z.shape != base.shape or not float((z - base).abs().max()) <= 1e-12 * (float(base.abs().max()) + 1e-300):
                    rep.violation("%s: the forward values in the regime '%s' differ from the plain call (dtype %s, max deviation %.3g)"
                                  % (name, label, z.dtype, float((z.double() - base).abs().max()) if z.shape == base.shape else float("nan")),
                                  {"api": name, "check": "scat_regime", "cfg": cfg})
    rep.count("scat_forward_regimes", n)


def _ng(lay, x):
    with torch.no_grad():
        return lay(x)


def _im(lay, x):
    with torch.inference_mode():
        return lay(x).clone()


def big_forward(rep, pid, tier):
    """Both layers, both filter families, on inputs beyond every size threshold (census.thresholds(): the default ladder up to
    2^22 elements plus every constant found in the library's source), with and without a recorded graph: the values are the
    reference composition's, channel by channel.  A code path that exists only for big inputs (band-wise / chunked
    processing "to save memory", often only when no graph is recorded) is met here and nowhere in the small-size layers."""
    from . import census
    torch.set_default_dtype(torch.float64)
    rng = np.random.default_rng(44000 + seed())
    T = max(census.thresholds())
    rep.extra["census_thresholds"] = census.thresholds()
    kinds = [("ScatLayerj2", "near_sym_b_bp", "qshift_b_bp", False), ("ScatLayerj2", "near_sym_a", "qshift_a", False),
             ("ScatLayer", "near_sym_b_bp", "qshift_b_bp", False), ("ScatLayer", "near_sym_a", "qshift_a", True)]
    if tier != "quick":
        kinds += [("ScatLayerj2", "near_sym_b_bp", "qshift_b_bp", True), ("ScatLayerj2", "near_sym_b", "qshift_b", True),
                  ("ScatLayer", "near_sym_b_bp", "qshift_b_bp", True), ("ScatLayer", "near_sym_b", "qshift_b", False)]
    n_ok = 0
    for k, (layer, biort, qshift, colour) in enumerate(kinds):
        C = 3 if colour else (1 if k % 2 else 2)
        N = 2
        # few big images (k even) or many small ones (k odd): N*C*H*W just beyond the largest threshold either way
        if k % 2 == 0:
            H = 512
            W = int(np.ceil((T + 1) / (N * C * H) / 8)) * 8
        else:
            H, W = 32, 24
            N = int(np.ceil((T + 1) / (C * H * W)))
        b = [1e-2, 0.0, 1e-3, 1.0][k % 4]
        lay = pw.ScatLayer(biort=biort, magbias=b, combine_colour=colour) if layer == "ScatLayer" else \
            pw.ScatLayerj2(biort=biort, qshift=qshift, magbias=b, combine_colour=colour)
        x = rng.standard_normal((N, C, H, W))
        cfg = dict(layer=layer, biort=biort, qshift=qshift, combine_colour=colour, shape=[N, C, H, W], magbias=b, elements=int(N * C * H * W))
        case = {"api": layer, "check": "scat_big_forward", "cfg": cfg}
        outs = {}
        try:
            with torch.no_grad():
                outs["no_grad"] = lay(torch.tensor(x)).numpy()
            outs["requires_grad"] = lay(torch.tensor(x, requires_grad=True)).detach().numpy()
        except Exception as e:   # noqa
            rep.violation("%s raised %r on a large input at %s" % (layer, e, cfg), dict(case, observed=repr(e)))
            continue
        items = sorted({0, N - 1}) if N <= 4 else sorted({0, N // 3, N - 1})
        ok = True
        for n in items:
            if layer == "ScatLayer":
                want = ref_scat1(x[n], biort, b, colour)
            elif colour:
                want = None          # (the colour form of the second-order layer has no per-channel reference here: modes only)
            else:
                want = ref_scat2(x[n], biort, qshift, b)
            for mode, z in outs.items():
                rep.validated()
                rep.nontriv(("scat_big", layer, biort, colour, mode, n))
                if want is None:
                    continue
                scale = np.abs(x).max() * 8 + b
                if z[n].shape != want.shape or not (np.abs(z[n] - want).max() <= 1e-9 * scale):
                    ok = False
                    bad = int(np.abs(z[n] - want).reshape(want.shape[0], -1).max(1).argmax()) if z[n].shape == want.shape else -1
                    rep.violation("%s (%s) on a LARGE input (%d elements): item %d differs from the reference composition (worst output "
                                  "channel %d, max error %.3g) at %s" % (layer, mode, cfg["elements"], n, bad,
                                                                         np.abs(z[n] - want).max() if z[n].shape == want.shape else float("nan"), cfg), dict(case, mode=mode))
                    break
            if not ok:
                break
        if ok and not (np.abs(outs["no_grad"] - outs["requires_grad"]).max() <= 1e-12 * (np.abs(x).max() * 8 + b)):
            ok = False
            rep.violation("%s on a LARGE input (%d elements): the values under torch.no_grad() differ from the values with a recorded graph "
                          "(max %.3g) at %s" % (layer, cfg["elements"], np.abs(outs["no_grad"] - outs["requires_grad"]).max(), cfg), case)
        n_ok += ok
    rep.count("scat_big_forward_ok", n_ok)
