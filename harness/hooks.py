"""Access to the library's optional tracing hook (pytorch_wavelets/_verif.py, added by the hooks commit).  A tree in which the
hook module or some hook calls have been removed is still a tree the properties can be decided on: the layers that need hook
events degrade to 'inconclusive' (impl-drift), everything API-level keeps working."""


class _NoHooks:
    ENABLED = False

    @staticmethod
    def set_sink(fn):
        pass

    @staticmethod
    def point(event, **fields):
        pass


try:
    from pytorch_wavelets import _verif          # noqa: F401
    if not hasattr(_verif, "set_sink"):
        _verif = _NoHooks()
except Exception:   # noqa
    _verif = _NoHooks()
