"""C09 - the scattering layers back-propagate the true gradient, finite everywhere.

TLC   : spec/Scat.tla - the backward passes' bookkeeping: the slices splitting the cotangent ([:,0], [:,1:7], [:,7:13],
        [:,13:]) hit exactly the paths the forward concatenated, the view arithmetic inverts the forward's, and
        1/4 * nearest up-sampling is the transpose of avg_pool2d(2) (operator identity); every division is by
        r = sqrt(. + b^2) >= b > 0.  The linear inverse levels used by the backward are C06's adjoint laws.
S->C  : VJPs of both layers (3 filter families incl. band-pass, colour on/off, odd and non-multiple-of-8 sizes)
        against central finite differences in float64 along random and basis directions at generic points, at the
        all-zero image, at tiny and huge inputs; finiteness; the stand-alone SmoothMagFn for every grad subset.
"""
from .. import tlc, models, scatchecks
from ..dwtmodel import design_check
from ..findings import Findings

LEVEL = "model_checking"
RULE = ("cases = (layer configuration, evaluation point, direction) derivative comparisons; non-trivial = the all-zero "
        "image, tiny / huge inputs, colour combination, band-pass filters, second order; distinct (layer, point) counted")


def run(rep):
    if rep.tier == "thorough":
        from .. import proofs
        proofs.attach(rep, "TapeProofs")      # TLAPS: the state machine's invariants for ANY number of calls / threads / modules / history length
    fnd = Findings()
    c = dict(SizeSet=models.rng(2, 32), CSet={1, 2, 3, 4}, ExtFix=models.FIX.get("ExtFix", False))
    res = tlc.run_model("Scat", c, invariants=["BwdSplitOK", "StBwdView2", "BwdSplit1OK", "PoolAdjointOK", "StChan2"],
                        shards=1, workers=4, tag="Scat.bwd", coverage=False)
    rep.add_tlc(res, "Scat (backward bookkeeping)")
    design_check(rep, res, "Scat")
    scatchecks.backward_checks(rep, fnd, "C09", rep.tier)
    from .. import scatgrad
    scatgrad.checks(rep, "C09", rep.tier, "gradient")   # chain rule over ScatGrad.tla's terms: every coordinate; the real forward arbitrates
    from .. import autogradchecks
    autogradchecks.regimes(rep, "C09", autogradchecks.scat_cases(), "C09: two calls before one backward, second backward")
    hs = autogradchecks.tape_histories(rep, rep.tier)
    autogradchecks.tape_replay(rep, "C09", autogradchecks.scat_cases(), hs, 12 if rep.tier == "quick" else 120)
    rep.assumptions += ["finite differences in float64 with step 1e-5 * scale; tolerance 1e-5 relative",
                        "the property requires magbias > 0"]


def replay(rep, case):
    from ..replay import rerun
    rerun(rep, case, run)
