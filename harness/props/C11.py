"""C11 - DTCWT synthesis equals the reference inverse on arbitrary pyramids; absent inputs are zeros.

TLC   : MC_DTCWT1 (colfilter / colifilt: torch arrangement = NumPy reference), DTCWT2 (c2q combination, inverse
        band wiring, the inverse pyramid machine: crop [1:-1] exactly when the forward extended, absent lowpass /
        levels given as None, empty tensor or the 0-dim placeholder behave like zeros of the right shape).
S->C  : DTCWTInverse on the basis of the WHOLE pyramid (every coefficient of every band, not images of signals)
        with random integer filter sets, every size / J / absence mask in the bounds, compared exactly with the
        reference inverse assembled from TLC's Ref pieces; random pyramids for the named filter pairs against
        dtcwt.Transform2d.inverse.
"""
from .. import dtlib, dtchecks, stagetrace, suitetrace
from ..findings import Findings

LEVEL = "model_checking"
RULE = ("cases = (HxW, J, absent-level mask, absent lowpass, kind of placeholder, length classes) enumerated by TLC; "
        "non-trivial = a crop branch is taken or something is absent; distinct tuples counted")


def run(rep):
    if rep.tier == "thorough":
        from .. import proofs
        proofs.attach(rep, "DTCWT1Proofs")      # TLAPS: IfiltPosAll - colifilt reads the reference's positions, all even m
    fnd = Findings()
    res1, tab = dtlib.run_dt1(rep, rep.tier)
    dtchecks.one_dim_replay(rep, fnd, tab, "C11", kinds=("colifilt",))
    # every absence mask multiplies the replays (2^J masks x absent lowpass x 3 spellings): keep the size grid moderate
    small = dict(HWCodes=dtchecks.models.code(dtchecks.models.sq(2, 11) | {(16, 6), (6, 24), (20, 20), (13, 32)})) if rep.tier != "quick" else \
        dict(HWCodes=dtchecks.models.code(dtchecks.models.sq(2, 7) | {(10, 4), (4, 13), (16, 6)}))
    res2 = dtchecks.run_dt2(rep, rep.tier, ["C2QOK", "BandWiringOK", "InvFullOK", "InvAbsentOK"], {"inv"}, **small)
    dtchecks.inverse_replay(rep, fnd, tab, res2.records, "C11")
    dtchecks.numeric_inverse(rep, fnd, "C11", rep.tier)
    stagetrace.validate_dtcwt(rep, "C11", rep.tier, "DTCWTInverse")
    dtchecks.absent_batched(rep, fnd, "C11", rep.tier)
    dtchecks.reuse_walk_dt(rep, "C11", rep.tier, "inverse")     # ONE inverse module along a walk of (batch, channels, size)
    dtchecks.absent_deep(rep, fnd, "C11", rep.tier)            # J = 4, 5, every dyadic size class, every absence subset outside F6c's region
    from .. import scalechecks
    scalechecks.dtcwt(rep, "C11", rep.tier, "inverse")          # large inputs (size thresholds)
    if rep.tier == "thorough":
        suitetrace.validate_suite(rep, "C11", "DTCWTInverse")
    rep.assumptions += ["bounded sizes (coverage.tlc_runs)", "a pyramid whose lowpass AND coarsest level are both absent has no shape: outside the property"]


def replay(rep, case):
    from ..replay import rerun
    rerun(rep, case, run)
