"""C02 - DWT synthesis inverts analysis: perfect reconstruction.

TLC   : MC_DWT1_Ops RefPR / ImplPR - the composition (synthesis o analysis) of the PyWavelets
        definition and of the stage model of the code is FORMALLY perfect-reconstructing: every
        entry of S o A is class-complete (spec/DWT1Laws.tla), hence equals the identity on the
        signal's extent for EVERY PR filter bank of that length, all five modes, odd and short sizes;
        DWT1Calls / DWT2 machines: the inverse loop's unpad rule returns N or N+1 samples.
S->C  : (a) exact integer round trips through the real modules with the dyadic biorthogonal
        wavelets (taps recovered from PyWavelets' tables as integers): Inverse(Forward(I)) == K^J * I;
        (b) the numeric premise Q_p(d) = [d = L-1] for every PyWavelets wavelet and real-valued
        round trips on adversarial inputs under a bound derived from the filters' gains
        (dmey: PyWavelets' own reconstruction error).
"""
import numpy as np

from .. import dwtmodel, dwtchecks, dwtlib
from ..findings import Findings

LEVEL = "model_checking"
RULE = ("cases = (mode, N, L) one-level formal-PR obligations enumerated by TLC plus (wavelet, mode, size, J) round "
        "trips through the real modules; non-trivial = odd size, size < 2L, or J > 1; distinct tuples counted")


def run(rep):
    if rep.tier == "thorough":
        from .. import proofs
        proofs.attach(rep, "DWT1Proofs")      # TLAPS: RoundTripLen, AnalysisSrcAll, SynthesisAll for ALL sizes
    if rep.tier == "thorough":
        from .. import apalache
        apalache.shape_lemmas(rep)
    fnd = Findings()
    res, table = dwtmodel.run_ops(rep, rep.tier, ["RefPR", "ImplPR"], Emit=False)
    calls = dwtmodel.run_calls(rep, rep.tier, ["InvNoRaise", "InvExtent", "FwdShapesOK"], {"fwd", "inv"},
                               Emit=False, **dwtmodel.small_inv(rep.tier))
    rep.extra["formal_pr_obligations"] = sum(r["action_counts"].get("Pick", 0) for r in rep.extra["tlc_runs"]
                                             if r["model"] == "MC_DWT1_Ops")
    dwtchecks.integer_round_trips(rep, fnd, "C02", rep.tier)
    dwtchecks.numeric_round_trips(rep, fnd, "C02", rep.tier)
    from .. import scalechecks
    scalechecks.dwt_inverse(rep, "C02", rep.tier, roundtrip=True)          # large inputs (size thresholds)
    rep.assumptions += ["formal PR is proved within the PR bounds of coverage.tlc_runs (PRMaxN, PRMaxL)",
                        "the tap-value premise is checked numerically per wavelet (residual recorded)"]


def replay(rep, case):
    from ..replay import rerun
    rerun(rep, case, run)
