"""C06 - DTCWT back-propagation is the exact adjoint.

TLC   : MC_DTCWT1 AdjointOK - under the table identities (level-1 filters symmetric, tree b = reverse(tree a);
        module Tables, C18) the stage models satisfy  Transpose(colfilter) = colfilter  and
        Transpose(coldfilt(x, hb, ha)) = colifilt(y, ha, hb)  - exactly what FWD_J1/FWD_J2PLUS/INV_J1/INV_J2PLUS.backward
        assume when they re-use the analysis filters with the trees swapped; DTCWT2: c2q is the transpose of q2c,
        the three-way needs_input_grad split gives every requested gradient.
S->C  : integer filter sets satisfying those identities: VJP matrix of the real DTCWTForward (layouts, skip masks,
        requested intermediate lowpasses) and of DTCWTInverse (every subset of {lowpass, level 1..J} requiring grad)
        compared exactly with the transpose of the forward matrix of the same module; named filter pairs numerically.
"""
from .. import dtlib, dtchecks
from ..findings import Findings

LEVEL = "model_checking"
RULE = ("cases = (routine, rows, length, highpass) adjoint obligations enumerated by TLC and (HxW, J, layout, mask, grad "
        "subset) VJP extractions from the real modules; every case is non-trivial (borders are symmetric-extended); "
        "distinct tuples counted")


def run(rep):
    if rep.tier == "thorough":
        from .. import proofs
        proofs.attach(rep, "TapeProofs")      # TLAPS: the state machine's invariants for ANY number of calls / threads / modules / history length
    fnd = Findings()
    res1, tab = dtlib.run_dt1(rep, rep.tier, invariants=("AdjointOK",), Emit=False)
    res2 = dtchecks.run_dt2(rep, rep.tier, ["C2QIsQ2CTranspose", "GradPresent", "FwdPyramidOK"], {"fwd"},
                            HWCodes=dtchecks.models.code(dtchecks.models.sq(2, 8) | {(12, 5), (6, 13)}))
    dtchecks.forward_vjp(rep, fnd, "C06", rep.tier)
    dtchecks.inverse_vjp(rep, fnd, res2.records, "C06", rep.tier)
    dtchecks.numeric_vjp(rep, fnd, "C06", rep.tier)
    from .. import scalechecks
    scalechecks.dtcwt(rep, "C06", rep.tier, "vjp")          # large inputs (size thresholds)
    from .. import autogradchecks
    autogradchecks.regimes(rep, "C06", autogradchecks.dtcwt_cases(), "C06: two calls before one backward, second backward, unused outputs")
    hs = autogradchecks.tape_histories(rep, rep.tier)
    autogradchecks.tape_replay(rep, "C06", autogradchecks.dtcwt_cases(), hs, 12 if rep.tier == "quick" else 120)
    rep.assumptions += ["the identities of the shipped tables (C18) are the premise of adjointness; user-supplied filters "
                        "that violate them are outside the property"]


def replay(rep, case):
    from ..replay import rerun
    rerun(rep, case, run)
