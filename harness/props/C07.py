"""C07 - transforms are linear and act per (batch, channel) slice.

TLC   : LinearProgSound - the rules of the op-level acceptor (spec/LinearProg.tla) are sound: over an
        abstract value semantics, every program of accepted operators up to the bound leaves all
        input-dependent values homogeneous-linear (TLC refuted two earlier rule drafts).
        DWT2 BandsOK / Nonsep ChannelSame - the grouped-convolution channel arithmetic returns slice c.
C->S  : every DWT / SWT / DTCWT forward and inverse and each of their backward passes is executed under
        an aten-level dispatch tracer; the TLC trace specification Trace_LinearProg infers the class of
        every storage from the data flow and must accept every event: no input-dependent operand is
        multiplied by another, divided by, added to a non-zero constant, used as an index, fed to a
        non-linear operator or read back into Python.  Negative controls must be rejected.
S->C  : per-slice operators on identity batches vs the full (N, C) call; superposition and T(0) = 0 probes.
"""
from .. import tlc, models, linchecks
from ..common import NCPU
from ..dwtmodel import design_check, run_calls2

LEVEL = "model_checking"
RULE = ("cases = recorded executions (transform x direction x forward/backward) validated event by event by the TLC "
        "acceptor, plus (transform, N, C) slice-independence cases; every execution is non-trivial (it contains "
        "convolutions, gathers and in-place writes on input-dependent storages); distinct executions counted")


def run(rep):
    res = tlc.run_model("LinearProgSound", dict(NReg=3, MaxLen=5 if rep.tier == "quick" else 7), invariants=["Sound"],
                        tag="LinearProgSound", coverage=False)
    rep.add_tlc(res, "LinearProgSound")
    design_check(rep, res, "LinearProgSound")
    run_calls2(rep, rep.tier, ["BandsOK"], {"fwd"}, HWCodes={404}, LCodes={202}, JMax=1, Emit=False)
    linchecks.validate_executions(rep, "C07", rep.tier)
    linchecks.slice_independence(rep, "C07", rep.tier)
    linchecks.expanded_operands(rep, "C07", rep.tier)     # broadcast (stride-0) operands = their contiguous copies
    linchecks.special_values(rep, "C07", rep.tier)        # one slice of NaN / inf / exact zeros: that slice only, and not cleaned up
    linchecks.wide_channels(rep, "C07", rep.tier)          # channel counts beyond the usual slab sizes (67, 131, 259)
    linchecks.superposition(rep, "C07", rep.tier)
    linchecks.numeric_maps(rep, "C07", rep.tier)
    rep.assumptions += ["the category table of harness/dispatch.py (operator name -> category) is trusted; unknown operators "
                        "with input-dependent arguments are rejected",
                        "linearity is established per recorded execution shape, not for shapes never run (DESIGN.md 10)"]
    from .. import scalechecks
    scalechecks.batch_split(rep, "C07", rep.tier, which=("dwt", "dtcwt", "swt"))      # item n of a big batch = that item alone (values, gradients)


def replay(rep, case):
    from ..replay import rerun
    rerun(rep, case, run)
