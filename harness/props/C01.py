"""C01 - DWT analysis equals PyWavelets on every input (1-D and 2-D).

TLC   : MC_DWT1_Ops (Impl = Ref for every one-level (mode, N, L), deviation region exact),
        DWT1Calls (level loop: shapes = pywt.wavedec, finest first, admissible raises).
S->C  : every enumerated configuration replayed into DWT1DForward / DWTForward with indicator taps
        (one level) and random integer taps (multi level, 2-D), exact integer comparison with the
        operator TLC printed for Ref; PyWavelets run on the same probes pins Ref to the oracle.
        MC_Helpers (mypad / roll / mode_to_int / prep_filt_* / symm_pad_1d as total functions, proved equal to the
        declarative extension maps, replayed into the real helpers; deviations are impl-drift diagnostics).
C->S  : the hook events of every distinct DWT1DForward / DWTForward call made by the repository's own test files (run under
        the recording plugin harness/suiteplugin.py) validated by Trace_DWT1Calls / Trace_DWT2; operators recorded from the real code for real wavelets / hypothesis-chosen sizes outside
        the bounded model are validated by the TLC trace specification Trace_DWT1.
"""
import numpy as np

from .. import dwtlib, dwtmodel, oracles, dwtchecks, stagetrace, helperchecks, suitetrace
from ..findings import Findings

LEVEL = "model_checking"
RULE = ("cases = (mode, N, L[, J]) configurations enumerated by TLC within the model bounds plus recorded "
        "executions for real wavelets; a case is non-trivial when the boundary extension is exercised "
        "(N < 2L, odd N, N < L) or J > 1; distinct = distinct (api, mode, N/HxW, L, J) tuples; plus MC_Helpers states "
        "replayed into the helper functions (non-trivial = pad longer than the axis, raising, out-of-range or "
        "negative roll, make_even, every mode name / prep routine)")
EXHAUSTIVE = False


def run(rep):
    if rep.tier == "thorough":
        from .. import apalache
        apalache.shape_lemmas(rep)
        from .. import proofs
        proofs.attach(rep, "HelpersProofs")
        proofs.attach(rep, "DWT1Proofs")
        proofs.attach(rep)       # TLAPS: the extension maps / helper transcriptions of Idx.tla for all sizes
    fnd = Findings()
    res, table = dwtmodel.run_ops(rep, rep.tier, ["AnalysisOK", "AnalysisDevExact", "ScalarFormOK"])
    calls = dwtmodel.run_calls(rep, rep.tier, ["FwdShapesOK", "FwdRaiseOK", "FwdChain"], {"fwd"})
    dwtchecks.analysis_one_level(rep, fnd, table, "C01")
    dwtchecks.analysis_multi_level(rep, fnd, table, calls.records, "C01")
    calls2 = dwtmodel.run_calls2(rep, rep.tier, ["FwdShapesOK", "FwdRaiseOK", "BandsOK", "FunctionalSlotsOK"], {"fwd"})
    dwtchecks.analysis_2d(rep, fnd, table, calls2.records, "C01")
    dwtchecks.trace_validate_analysis(rep, "C01", rep.tier)
    stagetrace.validate_dwt1(rep, "C01", rep.tier, "DWT1DForward")
    stagetrace.validate_dwt2(rep, "C01", rep.tier, "DWTForward")
    # the repository's own tests as the driver: every distinct call they make must be a behaviour of the call machines
    suitetrace.validate_suite(rep, "C01", "DWT1DForward")
    suitetrace.validate_suite(rep, "C01", "DWTForward")
    dwtchecks.numeric_vs_pywt(rep, "C01", rep.tier)
    dwtchecks.reuse_walk(rep, "C01", rep.tier, "forward")       # ONE module along a walk of sizes (what a module remembers between calls)
    helperchecks.helper_fidelity(rep, "C01", rep.tier)
    from .. import scalechecks
    scalechecks.dwt_forward(rep, "C01", rep.tier)          # one to two orders of magnitude larger inputs (size thresholds)
    rep.assumptions += [
        "TLC bounds: see coverage.tlc_runs; beyond them only the recorded executions are checked",
        "PyWavelets (pywt.dwt with indicator taps) pins the Ref layer; disagreement = machinery failure",
    ]


def replay(rep, case):
    from ..replay import rerun
    rerun(rep, case, run)
