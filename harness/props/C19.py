"""C19 - the non-separable one-level filter bank equals the separable one.

TLC   : spec/Nonsep.tla - the per-axis pipeline written from afb2d_nonsep / sfb2d_nonsep equals the
        separable stage model ImplA / ImplS for every (mode, N, L) (both are Kronecker factors), the joint
        pre-padding test equals independent per-axis padding, same raise conditions, same band order and
        channel arithmetic.
S->C  : identity image batches through afb2d_nonsep and afb2d (and sfb2d_nonsep / sfb2d) of the REAL
        code with integer filters in the 2- and 4-filter forms (unequal lengths), all four modes, every
        size pair in the bounds: the four subbands / the reconstruction must be equal exactly, and both
        must raise together.
"""
import numpy as np
import torch

from pytorch_wavelets.dwt import lowlevel as ll

from .. import dwtlib, tlc, models
from ..common import NCPU, seed
from ..dwtmodel import design_check

LEVEL = "model_checking"
RULE = ("cases = (mode, HxW, Lcol, Lrow, filter form) with H,W over all residue pairs in the bounds; non-trivial = "
        "odd size, size < 2L or unequal filter lengths; distinct tuples counted")
MODES4 = ["zero", "symmetric", "reflect", "periodization"]


def run(rep):
    dwtlib.f64()
    tier = rep.tier
    c = dict(NSet=models.rng(2, 24 if tier == "quick" else 48), LSet=models.rng(2, 12 if tier == "quick" else 20, 2),
             ModeSet=set(MODES4), Shard=0, NShards=1, PerFix=True)
    res = tlc.run_model("Nonsep", c, invariants=["AnalysisAxisSame", "SynthesisAxisSame", "PrepadIndependent",
                                                 "BandOrderSame", "ChannelSame"], shards=NCPU, tag="Nonsep", coverage=False)
    res.coverage = {"Pick": res.distinct - NCPU}
    rep.add_tlc(res, "Nonsep")
    design_check(rep, res, "Nonsep")
    rng = np.random.default_rng(19000 + seed())
    hi = 9 if tier == "quick" else 16
    sizes = [(h, w) for h in range(2, hi + 1) for w in range(2, hi + 1)] + [(21, 3), (4, 19), (2, 24)]
    lpairs = [(2, 2), (4, 4), (2, 6), (6, 4)] if tier == "quick" else [(2, 2), (4, 4), (2, 6), (6, 4), (8, 2), (6, 10), (10, 10)]
    n_ok = n_raise = 0
    for mode in MODES4:
        for (H, W) in sizes:
            for (Lc, Lr) in lpairs:
                four = (Lc != Lr) or bool(rng.integers(0, 2))
                hc = (dwtlib.int_taps(rng, Lc, 4), dwtlib.int_taps(rng, Lc, 4))
                hr = (dwtlib.int_taps(rng, Lr, 4), dwtlib.int_taps(rng, Lr, 4)) if four else hc
                filts = (hc[0], hc[1], hr[0], hr[1]) if four else (hc[0], hc[1])
                cfg = dict(mode=mode, H=H, W=W, Lc=Lc, Lr=Lr, form=len(filts))
                case = {"api": "afb2d_nonsep", "check": "nonsep", "cfg": cfg,
                        "filters": [t.tolist() for t in filts]}
                X = torch.eye(H * W).reshape(H * W, 1, H, W)
                a = b = None
                try:
                    a = ll.afb2d(X, filts, mode=mode)
                except Exception as e:   # noqa
                    ea = e
                try:
                    # the non-separable routine gets its filters in every accepted form in turn: raw arrays (tuple), lists of
                    # floats, the prepared (4,1,h,w) kernel tensor; 'per' is the documented alias of 'periodization'
                    kf = H + W + Lc + Lr
                    f_ns = filts if kf % 3 == 0 else ([t.tolist() for t in filts] if kf % 3 == 1 else ll.prep_filt_afb2d_nonsep(*filts))
                    b = ll.afb2d_nonsep(X, f_ns, mode="per" if (mode == "periodization" and kf % 2) else mode)
                except Exception as e:   # noqa
                    eb = e
                rep.validated()
                if H % 2 or W % 2 or H < 2 * Lc or W < 2 * Lr or Lc != Lr:
                    rep.nontriv(("afb", mode, H, W, Lc, Lr, len(filts)))
                if a is None and b is None:
                    n_raise += 1
                elif a is None or b is None:
                    rep.violation("afb2d and afb2d_nonsep do not raise together at %s: separable %s, non-separable %s"
                                  % (cfg, "raised %r" % ea if a is None else "returned", "raised %r" % eb if b is None else "returned"), case)
                    continue
                elif tuple(a.shape) != tuple(b.shape) or not torch.equal(a, b):
                    bands = ["LL", "LH", "HL", "HH"]
                    bad = [bands[k] for k in range(4) if tuple(a.shape) != tuple(b.shape) or not torch.equal(a[:, k], b[:, k])]
                    rep.violation("afb2d_nonsep differs from afb2d at %s: shapes %s vs %s, differing subbands %s"
                                  % (cfg, tuple(b.shape), tuple(a.shape), bad), case)
                    continue
                else:
                    n_ok += 1
                    if n_ok == 1:
                        rep.sample({"api": "afb2d_nonsep vs afb2d", "cfg": cfg, "filters": case["filters"],
                                    "observed": "all four subbands equal exactly on the identity image batch"})
                # synthesis on free coefficients of the shape the analysis produced
                if a is None:
                    continue
                lh, lw = a.shape[-2], a.shape[-1]
                n = lh * lw
                C = torch.zeros(4 * n, 1, 4, lh, lw)
                C[:, 0] = torch.eye(4 * n).reshape(4 * n, 4, lh, lw)
                gc = (dwtlib.int_taps(rng, Lc, 4), dwtlib.int_taps(rng, Lc, 4))
                gr = (dwtlib.int_taps(rng, Lr, 4), dwtlib.int_taps(rng, Lr, 4)) if four else gc
                gf = (gc[0], gc[1], gr[0], gr[1]) if four else (gc[0], gc[1])
                case = {"api": "sfb2d_nonsep", "check": "nonsep", "cfg": cfg, "filters": [t.tolist() for t in gf]}
                ys = yn = None
                try:
                    ys = ll.sfb2d(C[:, :, 0], C[:, :, 1], C[:, :, 2], C[:, :, 3], gf, mode=mode)
                except Exception as e:   # noqa
                    ea = e
                try:
                    g_ns = gf if kf % 3 == 1 else ([t.tolist() for t in gf] if kf % 3 == 2 else ll.prep_filt_sfb2d_nonsep(*gf))
                    yn = ll.sfb2d_nonsep(C, g_ns, mode="per" if (mode == "periodization" and kf % 2 == 0) else mode)
                except Exception as e:   # noqa
                    eb = e
                rep.validated()
                rep.nontriv(("sfb", mode, lh, lw, Lc, Lr, len(gf)))
                if ys is None and yn is None:
                    n_raise += 1
                elif ys is None or yn is None:
                    rep.violation("sfb2d and sfb2d_nonsep do not raise together at %s (coefficients %dx%d): separable %s, non-separable %s"
                                  % (cfg, lh, lw, "raised %r" % ea if ys is None else "returned", "raised %r" % eb if yn is None else "returned"), case)
                elif tuple(ys.shape) != tuple(yn.shape) or not torch.equal(ys, yn):
                    rep.violation("sfb2d_nonsep differs from sfb2d at %s (coefficients %dx%d): shapes %s vs %s"
                                  % (cfg, lh, lw, tuple(yn.shape), tuple(ys.shape)), case)
                else:
                    n_ok += 1
    # ---- call history: filter sets that a cache keyed on too little would confuse - the row/column-swapped set, another set
    # with rows = columns given in the 4-filter form, another set of the same lengths - used one after the other
    n_hist = 0
    for mode in MODES4:
        for L in (2, 4):
            c = (dwtlib.int_taps(rng, L, 4), dwtlib.int_taps(rng, L, 4))
            r = (dwtlib.int_taps(rng, L, 4), dwtlib.int_taps(rng, L, 4))
            d = (dwtlib.int_taps(rng, L, 4), dwtlib.int_taps(rng, L, 4))
            seqs = [[(c[0], c[1], r[0], r[1]), (r[0], r[1], c[0], c[1])], [(c[0], c[1], c[0], c[1]), (d[0], d[1], d[0], d[1])],
                    [(c[0], c[1]), (d[0], d[1])], [(c[0], c[1], r[0], r[1]), (d[0], d[1], r[0], r[1])]]
            X = torch.tensor(rng.integers(-5, 6, size=(2, 2, 8, 6)).astype(np.float64))
            for si, seq in enumerate(seqs):
                for k, f in enumerate(seq):
                    cfg = dict(mode=mode, L=L, form=len(f), position_in_sequence=k + 1)
                    rep.validated()
                    rep.nontriv(("nonsep_history", mode, L, len(f), k, si))
                    n_hist += 1
                    try:
                        a = ll.afb2d(X, f, mode=mode)
                        b = ll.afb2d_nonsep(X, f, mode=mode)
                        co = torch.tensor(rng.integers(-5, 6, size=(2, 2, 4, b.shape[-2], b.shape[-1])).astype(np.float64))
                        ys = ll.sfb2d(co[:, :, 0], co[:, :, 1], co[:, :, 2], co[:, :, 3], f, mode=mode)
                        yn = ll.sfb2d_nonsep(co, f, mode=mode)
                        same = a.shape == b.shape and torch.equal(a, b) and ys.shape == yn.shape and torch.equal(ys, yn)
                    except Exception as e:   # noqa
                        same = False
                    if not same:
                        rep.violation("the non-separable bank differs from the separable one when the filter set is used AFTER another set in the same "
                                      "process (swapped rows/columns, rows = columns, same lengths) at %s" % (cfg,),
                                      {"api": "afb2d_nonsep", "check": "nonsep_history", "cfg": cfg, "filters": [t.tolist() for t in f]})
    rep.count("history_cases", n_hist)
    rep.count("pairs_equal", n_ok)
    rep.count("pairs_raising_together", n_raise)
    from .. import scalechecks
    scalechecks.nonsep(rep, "C19", rep.tier)          # large inputs (size thresholds)
    rep.assumptions += ["linearity of both routines (C07) makes equality on the identity batch equality for all inputs",
                        "integer filters: float64 arithmetic exact, comparison is torch.equal"]


def replay(rep, case):
    from ..replay import rerun
    rerun(rep, case, run)
