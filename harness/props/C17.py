"""C17 - orthogonal wavelets with periodization give an orthogonal transform.

TLC   : MC_DWT1_Ops OrthoOK - in the admissible region (N even, N >= L) the stage model of the analysis
        bank has a Gram operator A*A^T that is diagonal-uniform with the zero-lag class on the diagonal
        only (spec/DWT1Laws.tla FormalOrthogonal), hence A*A^T = I for EVERY orthonormal filter pair of
        that length; the square shape gives A^T*A = I; the synthesis model equals the transpose under
        rec = reversed dec; the hand-written backward equals the transpose.
S->C  : real operators with indicator taps (exact): A == Ref, S == flip-transpose of A, VJP == A^T in the
        admissible region; for every orthogonal PyWavelets wavelet: the premise (orthonormal taps,
        rec = reversed dec) and, numerically, A^T A, A A^T, energy, <Tx,Ty> = <x,y>, inverse(g) ==
        backward(g) for multi-level 1-D and 2-D transforms with N = m*2^J, N/2^(J-1) >= L.
"""
import numpy as np

from .. import dwtmodel, dwtchecks, dwtlib, orthochecks
from ..findings import Findings

LEVEL = "model_checking"
RULE = ("cases = admissible (N even >= L, L) one-level configurations enumerated by TLC and (orthogonal wavelet, "
        "size, J) numeric checks; non-trivial = N < 2L (wrap-around active) or J > 1; distinct tuples counted")


def run(rep):
    fnd = Findings()
    res, table = dwtmodel.run_ops(rep, rep.tier, ["OrthoOK", "AnalysisOK", "SynthesisOK"],
                                  ModeSet={"periodization"}, EmitGrad=True)
    orthochecks.one_level_exact(rep, fnd, table, "C17")
    orthochecks.numeric(rep, fnd, "C17", rep.tier)
    from .. import scalechecks
    scalechecks.orthogonal(rep, "C17", rep.tier)          # large inputs (size thresholds)
    rep.assumptions += ["orthogonality is formal in the taps: it needs only the premise SUM h[i]h[i+2t] = [t=0], checked per wavelet",
                        "admissible region as stated by the property: every level's input even and >= L"]
    from .. import scalechecks as _sc
    _sc.batch_split(rep, "C17", rep.tier, which=("dwt",))      # more than 2^20 elements: every item of the batch is transformed


def replay(rep, case):
    from ..replay import rerun
    rerun(rep, case, run)
