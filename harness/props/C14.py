"""C14 - separate row and column filters act on the axis they are named for.

TLC   : DWT2 SlotsOK - the wiring from the user's 4-tuple through module buffers and the POSITIONAL
        arguments of AFB2D/SFB2D.apply to the dim each afb1d/sfb1d call filters along puts the column
        filters on the vertical axis; FunctionalSlotsOK for the functional API; BandsOK (channel
        arithmetic -> band order); the call machine with UNEQUAL column/row filter lengths gives
        pywt's per-axis shapes.
S->C  : 4-tuples of distinct integer filters of unequal lengths through DWTForward / DWTInverse and the
        functional afb2d / sfb2d, exact comparison with kron(column operator on axis -2, row operator
        on axis -1) of the Ref operators; two different real wavelets against pywt with one wavelet per axis.
"""
from .. import dwtmodel, axischecks, models
from ..findings import Findings

LEVEL = "model_checking"
RULE = ("cases = (mode, HxW, Lcol != Lrow, J) enumerated by TLC with distinct column/row filters and ordered pairs "
        "of real wavelets; every case is non-trivial (the two axes are distinguishable); distinct tuples counted")


def bounds(tier):
    if tier == "quick":
        return dict(HWCodes=models.code(models.sq(2, 7) | {(11, 4), (3, 10)}),
                    LCodes=models.code({(2, 4), (4, 2), (2, 6), (6, 4), (4, 4)}), JMax=2)
    return dict(HWCodes=models.code(models.sq(2, 12) | {(19, 4), (3, 18)}),
                LCodes=models.code({(2, 4), (4, 2), (2, 6), (6, 2), (6, 4), (4, 8), (8, 2), (4, 4)}), JMax=3)


def run(rep):
    fnd = Findings()
    res, table = dwtmodel.run_ops(rep, rep.tier, ["AnalysisOK", "SynthesisOK"])
    calls2 = dwtmodel.run_calls2(rep, rep.tier, ["SlotsOK", "FunctionalSlotsOK", "BandsOK", "FwdShapesOK", "InvNoRaise"],
                                 {"fwd", "inv"}, **bounds(rep.tier))
    axischecks.forward_4tuple(rep, fnd, table, calls2.records, "C14")
    axischecks.inverse_4tuple(rep, fnd, table, calls2.records, "C14")
    axischecks.numeric_two_wavelets(rep, fnd, "C14", rep.tier)
    axischecks.functional_forms(rep, fnd, "C14", rep.tier)
    from .. import scalechecks
    scalechecks.two_wavelets(rep, "C14", rep.tier)          # large inputs (size thresholds)
    rep.assumptions += ["bounded sizes / filter lengths (coverage.tlc_runs)", "pywt with a wavelet per axis is the named oracle"]


def replay(rep, case):
    from ..replay import rerun
    rerun(rep, case, run)
