"""C04 - DTCWT perfect reconstruction with symmetric extension.

TLC   : MC_DTCWT1 PROK - exact integer perfect reconstruction of the 1-D analysis/synthesis stage models on
        rational filter instances: LeGall (5,3) for level 1 (S o A = 32 I) and an orthonormal 4-tap lattice filter
        at EVERY even offset of every q-shift length for levels >= 2 (S o A = 65^2 I), every row count in the bounds;
        DTCWT2 - c2q o q2c = identity on quads, and the pyramid machine: the inverse crops [1:-1] exactly when the
        forward extended, so Inverse(Forward(x)) has the even-extended size (InvFullOK).
S->C  : the same rational instances through the REAL DTCWTForward / DTCWTInverse on identity image batches, every
        size (odd sizes: the result must be the image extended to even size, original in the top-left corner);
        all 20 named filter pairs numerically.
"""
from .. import dtlib, dtchecks
from ..findings import Findings

LEVEL = "model_checking"
RULE = ("cases = (rows, q-shift length, lattice offset) exact PR obligations enumerated by TLC, (HxW, J, instance) and "
        "(biort, qshift, size, J) round trips through the real modules; non-trivial = odd size or a level needing "
        "extension to a multiple of 4; distinct tuples counted")


def run(rep):
    fnd = Findings()
    res1, tab = dtlib.run_dt1(rep, rep.tier, invariants=("PROK", "ColdfiltOK", "ColifiltOK", "ColfilterOK"), Emit=False,
                              RSet=dtchecks.models.rng(2, 16 if rep.tier == "quick" else 40),
                              PRMaxR=16 if rep.tier == "quick" else 40)
    res2 = dtchecks.run_dt2(rep, rep.tier, ["C2QInvertsQ2C", "InvFullOK", "FwdPyramidOK"], {"fwd", "inv"}, Emit=False,
                            HWCodes=dtchecks.models.code(dtchecks.models.sq(2, 12)))
    dtchecks.integer_pr(rep, fnd, "C04", rep.tier)
    dtchecks.numeric_pr(rep, fnd, "C04", rep.tier)
    from .. import scalechecks
    scalechecks.dtcwt(rep, "C04", rep.tier, "roundtrip")          # large inputs (size thresholds)
    rep.assumptions += ["PR of the shipped tables' VALUES is C18's business (residual <= 2^-24 there); here the bookkeeping is exact"]


def replay(rep, case):
    from ..replay import rerun
    rerun(rep, case, run)
