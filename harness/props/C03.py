"""C03 - DTCWT analysis equals the reference dual-tree implementation.

TLC   : MC_DTCWT1 - colfilter / coldfilt / colifilt: the torch arrangement (tree stacking xe[2::2] / xe[3::2],
        strided correlation with flipped filters, stack().view interleave, `highpass` flag) equals the NumPy
        reference (t = 5, 9, ... polyphase picks, polarity rule) as symbolic operators for every row count and
        filter length; DTCWT2 - band wiring, quad -> complex combination, orientation order, and the pyramid
        machine (odd-size replication, extension to a multiple of 4) against the reference pyramid.
S->C  : DTCWTForward on identity image batches with random integer filter sets (polarity premise kept) for every
        size in the bounds: every lowpass (include_scale) and all 6 x 2 planes of every level compared exactly
        with the operators assembled from TLC's Ref pieces; dtcwt.Transform2d pins the assembly.
        The real 1-D routines (column and row variants) against TLC's Ref entries; all named filter pairs
        numerically against dtcwt.Transform2d.forward.
"""
from .. import dtlib, dtchecks, stagetrace, suitetrace
from ..findings import Findings

LEVEL = "model_checking"
RULE = ("cases = (routine, rows, length, polarity) 1-D operators and (HxW, J, length classes) pyramids enumerated by TLC, "
        "plus (biort, qshift, size, J) numeric comparisons; non-trivial = odd size, a level that needs extension to a "
        "multiple of 4, or H != W; distinct tuples counted")


def run(rep):
    if rep.tier == "thorough":
        from .. import proofs
        proofs.attach(rep, "DTCWT1Proofs")      # TLAPS: the scalar index layer of this family for ALL sizes
    if rep.tier == "thorough":
        from .. import apalache
        apalache.shape_lemmas(rep)
    fnd = Findings()
    res1, tab = dtlib.run_dt1(rep, rep.tier)
    dtchecks.one_dim_replay(rep, fnd, tab, "C03", kinds=("colfilter", "colfilter0", "coldfilt"))   # colfilter0 = mode 'zero': diagnostic only
    res2 = dtchecks.run_dt2(rep, rep.tier, ["BandWiringOK", "OrientOK", "FwdPyramidOK", "FwdAlignOK"], {"fwd"})
    dtchecks.forward_replay(rep, fnd, tab, res2.records, "C03")
    dtchecks.numeric_forward(rep, fnd, "C03", rep.tier)
    dtchecks.reuse_walk_dt(rep, "C03", rep.tier, "forward")     # ONE forward module along a walk of (batch, channels, size)
    stagetrace.validate_dtcwt(rep, "C03", rep.tier, "DTCWTForward")
    from .. import scalechecks
    scalechecks.dtcwt(rep, "C03", rep.tier, "forward")          # large inputs (size thresholds)
    if rep.tier == "thorough":       # the DTCWT test file is slow under the recorder: thorough tier only
        suitetrace.validate_suite(rep, "C03", "DTCWTForward")
    rep.assumptions += ["polarity premise sum(h0a*h0b) > 0 > sum(h1a*h1b): identity of the shipped tables (C18)",
                        "bounded sizes (coverage.tlc_runs); numeric comparison covers the named filter pairs"]


def replay(rep, case):
    from ..replay import rerun
    rerun(rep, case, run)
