"""C12 - DTCWT options only re-arrange or select outputs; pyramids are prefix-consistent.

TLC   : DTCWT2 - the layout produced by stack(dim=o) / stack(dim=ri) and the (h_dim, w_dim) tables of
        get_dimensions5 / get_dimensions6 against the declarative meaning (O at o_dim mod 6, RI at ri_dim mod 6,
        N, C, H, W in order elsewhere) for all 120 ordered pairs in (-6..5)^2 with distinct residues (the 30 layouts
        and every negative alias); PrefixOK over the pyramid machine.
S->C  : all 120 pairs on real tensors: subbands bitwise equal to the default subbands with the axes moved where TLC's
        layout says, inverse with the same pair reconstructs what the default inverse reconstructs; every skip mask and
        include mask of length J (bitwise), every prefix j <= J.
"""
from .. import dtchecks
from ..findings import Findings

LEVEL = "model_checking"
EXHAUSTIVE = False
RULE = ("cases = 120 (o_dim, ri_dim) pairs x input shapes, all 2^J skip masks, all 2^J-1 include masks, all prefixes; "
        "every pair with a non-default layout and every non-empty mask is non-trivial; distinct tuples counted")


def run(rep):
    fnd = Findings()
    res2 = dtchecks.run_dt2(rep, rep.tier, ["EmitOpts", "ForwardLayoutOK", "Dims5OK", "Dims6OK", "PrefixOK", "FwdPyramidOK"], {"fwd"},
                            HWCodes=dtchecks.models.code(dtchecks.models.sq(2, 12)))
    dtchecks.options_replay(rep, fnd, res2.records, "C12", rep.tier)
    dtchecks.masks_and_prefixes(rep, fnd, "C12", rep.tier)
    rep.assumptions += ["values are compared bitwise with the default-layout run of the same input (same kernels, same order)"]


def replay(rep, case):
    from ..replay import rerun
    rerun(rep, case, run)
