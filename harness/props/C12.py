"""C12 - DTCWT options only re-arrange or select outputs; pyramids are prefix-consistent.

TLC   : DTCWT2 - the layout produced by stack(dim=o) / stack(dim=ri) and the (h_dim, w_dim) tables of
        get_dimensions5 / get_dimensions6 against the declarative meaning (O at o_dim mod 6, RI at ri_dim mod 6,
        N, C, H, W in order elsewhere) for all 120 ordered pairs in (-6..5)^2 with distinct residues (the 30 layouts
        and every negative alias); PrefixOK over the pyramid machine; the mask machine (api "fwdm": skip_hps and include_scale
        as per-level sets, jointly): MaskSelectOK - the options select outputs and never change the level loop.
S->C  : all 120 pairs on real tensors: subbands bitwise equal to the default subbands with the axes moved where TLC's
        layout says, inverse with the same pair reconstructs what the default inverse reconstructs; every skip mask and
        include mask of length J (bitwise), every prefix j <= J; every TLC-enumerated (size, J, skip set, include set)
        jointly: kind of yl, placeholders, shapes, values against the plain transform and the shorter transforms.
"""
from .. import dtchecks
from ..findings import Findings

LEVEL = "model_checking"
EXHAUSTIVE = False
RULE = ("cases = 120 (o_dim, ri_dim) pairs x input shapes, all 2^J skip masks, all 2^J-1 include masks, all prefixes; "
        "every pair with a non-default layout and every non-empty mask is non-trivial; distinct tuples counted")


def run(rep):
    fnd = Findings()
    res2 = dtchecks.run_dt2(rep, rep.tier, ["EmitOpts", "ForwardLayoutOK", "Dims5OK", "Dims6OK", "PrefixOK", "FwdPyramidOK"], {"fwd"},
                            HWCodes=dtchecks.models.code(dtchecks.models.sq(2, 12)))
    dtchecks.options_replay(rep, fnd, res2.records, "C12", rep.tier)
    dtchecks.big_layouts(rep, fnd, res2.records, "C12", rep.tier)       # every layout on batches beyond every size threshold
    dtchecks.masks_and_prefixes(rep, fnd, "C12", rep.tier)
    dtchecks.reuse_checks(rep, fnd, "C12", rep.tier)
    # the mask machine: every (size, J, skip set, include set) jointly, enumerated by TLC
    hw = {(8, 8), (10, 12), (5, 7), (12, 20)} if rep.tier == "quick" else dtchecks.models.sq(2, 9) | {(12, 20), (10, 14), (24, 6)}
    res3 = dtchecks.run_dt2(rep, rep.tier, ["MaskSelectOK", "FwdPyramidOK"], {"fwdm"}, label="DTCWT2.masks",
                            HWCodes=dtchecks.models.code(hw), JMax=3 if rep.tier == "quick" else 4)
    dtchecks.masks_replay(rep, fnd, res3.records, "C12", rep.tier)
    rep.assumptions += ["values are compared bitwise with the default-layout run of the same input (same kernels, same order)"]


def replay(rep, case):
    from ..replay import rerun
    rerun(rep, case, run)
