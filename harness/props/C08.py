"""C08 - the scattering layers compute the defined DTCWT scattering coefficients.

TLC   : spec/Scat.tla - size extension (odd -> replicate; second order: to a multiple of 8 by slicing rows before /
        after), documented output sizes, channel arithmetic of cat + view for the 7C and 49C layouts against the
        declarative band-major path table (which scattering path lands in which channel), 49 paths cover 0..48.
        The linear DTCWT levels underneath are C03's models; the modulus sqrt(.+b^2)-b is >= 0 structurally.
S->C  : both layers against the composition of the reference dtcwt.Transform2d with the formulas: all filter families
        incl. the band-pass variants, biases {0, 1e-3, 1e-2, 1}, colour on/off, inputs {gaussian, zeros, impulse,
        1e+-6-scaled, sparse}; every H, W in 2..19 x {2,3,8,13}: documented shape, non-negative magnitudes, no raise.
"""
from .. import tlc, models, scatchecks
from ..dwtmodel import design_check
from ..findings import Findings

LEVEL = "model_checking"
RULE = ("cases = (layer, filter family, size, channels, bias, colour, input kind) numeric comparisons and (layer, HxW) shape "
        "cases; non-trivial = band-pass family, colour combination, bias 0, odd or non-multiple-of-8 size; distinct tuples counted")


def run(rep):
    if rep.tier == "thorough":
        from .. import proofs
        proofs.attach(rep, "ScatProofs")      # TLAPS: size extensions and channel flattenings for ALL sizes / channel counts
    if rep.tier == "thorough":
        from .. import apalache
        apalache.shape_lemmas(rep)
    fnd = Findings()
    c = dict(SizeSet=models.rng(2, 64 if rep.tier == "quick" else 200), CSet={1, 2, 3, 4, 5, 17, 40, 147}, ExtFix=models.FIX.get("ExtFix", False))
    res = tlc.run_model("Scat", c, invariants=["StSize1", "StSize2", "StShortExact", "StChan1", "StChan2", "Bands2Cover"],
                        shards=1, workers=4, tag="Scat", coverage=False)
    rep.add_tlc(res, "Scat")
    design_check(rep, res, "Scat")
    scatchecks.forward_checks(rep, fnd, "C08", rep.tier)
    scatchecks.forward_regimes(rep, "C08", rep.tier)
    scatchecks.big_forward(rep, "C08", rep.tier)         # beyond every size threshold, with and without a recorded graph
    from .. import scatgrad
    scatgrad.checks(rep, "C08", rep.tier, "value")      # ScatGrad.tla's term table interpreted with the reference operators
    rep.assumptions += ["value equality is required on even-sized (first order) / multiple-of-8 (second order) images; other sizes: shape and sign",
                        "the linear DTCWT levels are C03's obligation"]


def replay(rep, case):
    from ..replay import rerun
    rerun(rep, case, run)
