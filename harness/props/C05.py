"""C05 - DWT back-propagation is the exact adjoint, for every grad subset.

TLC   : MC_DWT1_Ops ABackwardOK / SBackwardOK - the hand-written backward passes (sfb1d with the saved
        analysis filters / afb1d with the saved synthesis filters, crop to the input size) equal the
        transposes of the forward stage models as symbolic operators, outside the documented
        deviation regions (finding F2/F3); with GradFix = TRUE (the proposed repair: zero-mode
        routines in the backward) TLC shows which part of the region would close.
        DWT1Calls / DWT2 inv_bwd machines: for every subset R of leaves requiring grad, every leaf of R
        receives a gradient (GradPresent); AFB2D's three-way crop equals independent crops (CropOK).
S->C  : real VJP operators (identity cotangent batches through torch.autograd.grad) compared exactly
        with the transpose of the forward operator extracted from the same module, one level with
        indicator taps, multi level / 2-D with integer taps, all subsets R.
"""
from .. import dwtmodel, gradchecks, grad2d
from ..findings import Findings

LEVEL = "model_checking"
RULE = ("cases = (api, mode, size, L, J, subset R) enumerated by TLC; non-trivial = padding modes that read "
        "signal samples, odd sizes, J > 1 or a proper subset R; distinct tuples counted")


def run(rep):
    if rep.tier == "thorough":
        from .. import proofs
        proofs.attach(rep, "TapeProofs")      # TLAPS: the state machine's invariants for ANY number of calls / threads / modules / history length
    fnd = Findings()
    res, table = dwtmodel.run_ops(rep, rep.tier, ["ABackwardOK", "SBackwardOK"], EmitGrad=True,
                                  **dwtmodel.grad_bounds(rep.tier))
    gradchecks.one_level_vjps(rep, fnd, table, "C05")
    calls = dwtmodel.run_calls(rep, rep.tier, ["GradPresent", "GradOnlyRequested", "FwdShapesOK"],
                               {"fwd", "inv_bwd"}, **dwtmodel.grad_call_bounds(rep.tier))
    gradchecks.forward_vjp_1d(rep, fnd, table, calls.records, "C05")
    gradchecks.inverse_vjp_1d(rep, fnd, table, calls.records, "C05")
    calls2 = dwtmodel.run_calls2(rep, rep.tier, ["GradPresent", "CropOK", "FwdShapesOK"], {"fwd", "inv_bwd"},
                                 **dwtmodel.grad_call_bounds2(rep.tier))
    grad2d.forward_vjp_2d(rep, fnd, table, calls2.records, "C05")
    grad2d.inverse_vjp_2d(rep, fnd, table, calls2.records, "C05")
    from .. import scalechecks
    scalechecks.dwt_vjp(rep, "C05", rep.tier)          # large inputs (size thresholds)
    from .. import autogradchecks
    autogradchecks.regimes(rep, "C05", autogradchecks.dwt_cases(), "C05: two calls before one backward, second backward, unused outputs")
    hs = autogradchecks.tape_histories(rep, rep.tier)
    autogradchecks.tape_replay(rep, "C05", autogradchecks.dwt_cases(), hs, 12 if rep.tier == "quick" else 120)
    rep.assumptions += ["cotangents and inputs are eliminated by linearity (C07): the VJP operator is extracted on identity batches",
                        "TLC bounds in coverage.tlc_runs"]


def replay(rep, case):
    from ..replay import rerun
    rerun(rep, case, run)
