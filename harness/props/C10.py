"""C10 - DWT synthesis equals PyWavelets on arbitrary coefficient pyramids; None = zeros.

TLC   : MC_DWT1_Ops SynthesisOK (stage model of sfb1d = pywt.idwt as symbolic operators on FREE
        coefficient vectors, every forward-compatible length), DWT1Calls / DWT2 inverse machines
        (unpad rule, None -> zeros substitution incl. dtype, never raises, covers the extent).
S->C  : identity batches over every coefficient of every band of the pyramid through
        DWT1DInverse / DWTInverse, integer taps, exact comparison with the composed Ref operators;
        None levels compared on the signal's extent under both readings of "zeros".
"""
from .. import dwtmodel, dwtchecks, stagetrace, suitetrace
from ..findings import Findings

LEVEL = "model_checking"
RULE = ("cases = one-level (mode, M, L) synthesis operators and multi-level (mode, N, L, J, None-mask[, dtype]) "
        "pyramids enumerated by TLC; non-trivial = M < L, J > 1 or a None level; distinct tuples counted")


def run(rep):
    fnd = Findings()
    if rep.tier == "thorough":
        from .. import proofs
        proofs.attach(rep, "DWT1Proofs")     # TLAPS: SynthesisAll - the scalar form of sfb1d equals pywt.idwt for all sizes
    res, table = dwtmodel.run_ops(rep, rep.tier, ["SynthesisOK", "SynthesisDevExact", "ScalarFormOK"])
    calls = dwtmodel.run_calls(rep, rep.tier, ["InvNoRaise", "InvExtent"], {"inv"},
                               **dwtmodel.small_inv(rep.tier))
    dwtchecks.synthesis_one_level(rep, fnd, table, "C10")
    dwtchecks.synthesis_multi_level(rep, fnd, table, calls.records, "C10")
    calls2 = dwtmodel.run_calls2(rep, rep.tier, ["InvNoRaise", "InvExtent"], {"inv"},
                                 **dwtmodel.small_inv2(rep.tier))
    dwtchecks.synthesis_2d(rep, fnd, table, calls2.records, "C10")
    dwtchecks.numeric_inverse_vs_pywt(rep, "C10", rep.tier)
    dwtchecks.reuse_walk(rep, "C10", rep.tier, "inverse")       # ONE inverse module along a walk of pyramid sizes
    stagetrace.validate_dwt1(rep, "C10", rep.tier, "DWT1DInverse")
    stagetrace.validate_dwt2(rep, "C10", rep.tier, "DWTInverse")
    suitetrace.validate_suite(rep, "C10", "DWT1DInverse")      # the calls of the repository's own tests
    suitetrace.validate_suite(rep, "C10", "DWTInverse")
    from .. import scalechecks
    scalechecks.dwt_inverse(rep, "C10", rep.tier)          # large inputs (size thresholds)
    rep.assumptions += ["TLC bounds in coverage.tlc_runs", "pywt.idwt with indicator taps pins Ref"]


def replay(rep, case):
    from ..replay import rerun
    rerun(rep, case, run)
