"""C18 - the shipped DTCWT filter tables satisfy the identities the code relies on.

TLC   : spec/Tables.tla over TablesData generated at check time from /repo's .npz files and the reference
        dtcwt package: every tap as an exact integer (tap * 2^F) in base-2^11 limbs.  Exact identities by
        integer equality (equal to the reference table; tree b = reverse(tree a); g = reverse(h); band-pass
        variants; exact symmetry of legall / near_sym_a / near_sym_b), symmetry of the irrational tables
        within 2^-40, product identities in exact limb arithmetic within 2^-24 (level-1 biorthogonal PR,
        q-shift orthonormality and cross-orthogonality), polarity signs; loader state machine.
C->S  : the real loaders (level1 / biort / qshift) called twice per name, results fingerprinted and
        compared with the arrays TLC was given; hook events coeffs.load (hit/miss) against the model.
The set of names is finite and enumerated completely.
"""
import hashlib
import os

import numpy as np

from .. import tables, tlc
from ..common import scratch, REPO
from ..dwtmodel import design_check

LEVEL = "model_checking"
EXHAUSTIVE = True
RULE = ("cases = table names accepted by the level-1 and q-shift loaders that have a counterpart in the reference "
        "package (5 + 7, enumerated completely) x identity families; every table is non-trivial (7..32 taps per filter)")
LEVEL1 = ["antonini", "legall", "near_sym_a", "near_sym_b", "near_sym_b_bp"]
QSHIFT = ["qshift_06", "qshift_32", "qshift_a", "qshift_b", "qshift_b_bp", "qshift_c", "qshift_d"]


def fp(arrs):
    h = hashlib.sha256()
    for a in arrs:
        h.update(np.ascontiguousarray(np.asarray(a, dtype=np.float64)).tobytes())
        h.update(str(np.asarray(a).shape).encode())
    return h.hexdigest()[:16]


def _use_tables_in_modules():
    """construct and call every consumer of the tables with every name"""
    import torch
    import pytorch_wavelets as pw
    x = torch.zeros(1, 3, 16, 16)
    with torch.no_grad():
        for b in LEVEL1[:4]:
            for q in ("qshift_06", "qshift_a", "qshift_b", "qshift_c", "qshift_d"):
                yl, yh = pw.DTCWTForward(biort=b, qshift=q, J=2)(x)
                pw.DTCWTInverse(biort=b, qshift=q)((yl, yh))
        for b in LEVEL1:
            pw.ScatLayer(biort=b)(x)
            pw.ScatLayerj2(biort=b, qshift="qshift_b_bp" if b.endswith("_bp") else "qshift_a")(x)


def run(rep):
    import dtcwt
    from pytorch_wavelets.dtcwt import coeffs
    from ..hooks import _verif
    names = LEVEL1 + QSHIFT
    d = scratch()
    repo_dir = os.path.join(REPO, "pytorch_wavelets", "dtcwt", "data")
    ref_dir = os.path.join(os.path.dirname(dtcwt.__file__), "data")
    F, repo, ref = tables.write_tablesdata(d, repo_dir, ref_dir, names)
    rep.extra["frac_bits"] = F
    cfg = os.path.join(d, "tables.cfg")
    tlc.write_cfg(cfg, {"MaxLoads": 4, "SharedBuf": False}, ["LoadReturnsTable", "HeldStable", "TableOK"])
    # one worker: TLC's lazy evaluation of the (large) constant tables is not safe to share between workers
    res = tlc.run_one("Tables", cfg, 1, "Tables", coverage=True, tla_library=d, timeout=1500)
    res.invariants = ["LoadReturnsTable", "HeldStable", "TableOK"]
    rep.add_tlc(res, "Tables")
    for e in res.errors[:3]:
        rep.fail("Tables: TLC error: %s" % e[:300])
    # every violated state of TableOK names a table: that IS the API-level observable (the shipped array)
    for v in res.violations:
        st = v["state"]
        nm = st.split('name = "')[1].split('"')[0] if 'name = "' in st else "?"
        rep.violation("shipped table '%s' violates %s (exact arithmetic; identities: equal to the reference table, symmetry, "
                      "time-reverse relations, PR / orthonormality within 2^-24, polarity)" % (nm, v["invariant"]),
                      {"api": "dtcwt/data/%s.npz" % nm, "check": "tables", "invariant": v["invariant"], "state": st})
    for n in names:
        rep.nontriv(("table", n))
    rep.sample({"table": "qshift_a", "h0a": [float(x) for x in repo["qshift_a"]["h0a"]],
                "exact_integer_scale": "2^%d" % F})
    # ---- the real loader, twice, against the arrays handed to TLC
    events = []
    _verif.set_sink(lambda ev, f: events.append((ev, dict(f))))
    coeffs.COEFF_CACHE.clear()
    held = []          # (what, arrays, fingerprint at return): everything a caller might still hold (HeldStable)
    try:
        for rnd in (1, 2, 3):
            if rnd == 2:
                _use_tables_in_modules()          # the library's own consumers must not write into what the loader hands out
                # ... and EVERY public loader entry point with every argument form for every name, including the requests that
                # the documented signatures refuse (the two-tree form of a compact table, a q-shift name given to the level-1
                # loader and vice versa): raising is the documented answer, returning something is allowed - but whatever they
                # do, the tables loaded AFTERWARDS (round 3) must still be the shipped ones and what was handed out before
                # must not change (a conversion "on demand" that works on the cached arrays in place shows here)
                for n in LEVEL1 + QSHIFT:
                    for call in (lambda: coeffs.level1(n, compact=False), lambda: coeffs.level1(n), lambda: coeffs.level1(n, compact=True),
                                 lambda: coeffs.biort(n), lambda: coeffs.qshift(n)):
                        try:
                            call()
                        except Exception:   # noqa
                            pass
                        rep.validated()
            order1 = LEVEL1 if rnd != 2 else LEVEL1[::-1]
            order2 = QSHIFT if rnd != 2 else QSHIFT[::-1]
            for n in order1:
                a = coeffs.level1(n, compact=True)
                b = coeffs.biort(n)
                held.append(("level1('%s', compact=True), load #%d" % (n, rnd), a, fp(a)))
                held.append(("biort('%s'), load #%d" % (n, rnd), b, fp(b)))
                keys = ("h0o", "g0o", "h1o", "g1o") + (("h2o", "g2o") if n == "near_sym_b_bp" else ())
                want = [repo[n][k] for k in keys]
                rep.validated()
                if fp(a) != fp([w.reshape(-1, 1) for w in want]) or fp(a) != fp(b):
                    rep.violation("level1('%s') (load #%d) does not return the shipped h0o,g0o,h1o,g1o arrays" % (n, rnd),
                                  {"api": "coeffs.level1", "check": "loader", "name": n, "round": rnd})
            for n in order2:
                a = coeffs.qshift(n)
                held.append(("qshift('%s'), load #%d" % (n, rnd), a, fp(a)))
                keys = ("h0a", "h0b", "g0a", "g0b", "h1a", "h1b", "g1a", "g1b") + (
                    ("h2a", "h2b", "g2a", "g2b") if n == "qshift_b_bp" else ())
                want = [repo[n][k] for k in keys]
                rep.validated()
                if fp(a) != fp([w.reshape(-1, 1) for w in want]):
                    rep.violation("qshift('%s') (load #%d) does not return the shipped arrays in the documented order" % (n, rnd),
                                  {"api": "coeffs.qshift", "check": "loader", "name": n, "round": rnd})
        # what was handed out earlier must still show the same values after all the other loads (no shared buffers)
        for what, arrs, f0 in held:
            rep.validated()
            if fp(arrs) != f0:
                rep.violation("the arrays returned by %s changed after later loads of other tables (a returned table is not stable: "
                              "loading twice does not give equal values to a caller that keeps the first result)" % what,
                              {"api": "coeffs", "check": "held_stable", "what": what})
                break
        # ---- names: only the documented spellings name a table; anything else raises, or - if a loader ever accepts it - must
        # return exactly the table of the intended name; a same-named file in the working directory is not a table source
        import tempfile
        for loader, good, kind in ((coeffs.qshift, "qshift_a", "qshift"), (coeffs.biort, "near_sym_a", "level1")):
            want = fp(loader(good))
            for variant in (good.upper(), good.title(), " " + good, good + " ", good + ".npz", "./" + good):
                rep.validated()
                try:
                    got = loader(variant)
                except Exception:   # noqa   (IOError / FileNotFoundError / ValueError: the documented behaviour for unknown names)
                    continue
                if fp(got) != want:
                    rep.violation("coeffs.%s(%r) is accepted and returns a table that is not '%s'" % (loader.__name__, variant, good),
                                  {"api": "coeffs." + loader.__name__, "check": "names", "name": variant})
        cwd = os.getcwd()
        with tempfile.TemporaryDirectory(dir=scratch()) as td:
            try:
                for n in ("qshift_a", "near_sym_a"):
                    np.savez(os.path.join(td, n + ".npz"), **{k: np.asarray(v) * 0.5 for k, v in repo[n].items()})
                os.chdir(td)
                coeffs.COEFF_CACHE.clear()
                events.append(("cache.clear", {}))
                rep.validated(2)
                if fp(coeffs.qshift("qshift_a")) != fp([repo["qshift_a"][k].reshape(-1, 1) for k in ("h0a", "h0b", "g0a", "g0b", "h1a", "h1b", "g1a", "g1b")]) \
                        or fp(coeffs.biort("near_sym_a")) != fp([repo["near_sym_a"][k].reshape(-1, 1) for k in ("h0o", "g0o", "h1o", "g1o")]):
                    rep.violation("a same-named .npz file in the current working directory changes what the loaders return",
                                  {"api": "coeffs", "check": "cwd_decoy"})
            finally:
                os.chdir(cwd)
                coeffs.COEFF_CACHE.clear()
    finally:
        _verif.set_sink(None)
    # hit/miss discipline of the cache as the loader model has it: first load of a name misses, later ones hit
    seen = set()
    for ev, f in events:
        if ev == "cache.clear":
            seen = set()
        if ev != "coeffs.load":
            continue
        if f["hit"] != (f["table"] in seen):
            rep.drift.append("coeffs.load hit=%s for '%s' but the loader model says %s" % (f["hit"], f["table"], f["table"] in seen))
        seen.add(f["table"])
    rep.count("loader_events", len(events))
    # the two shipped files without a reference counterpart: loadable twice with equal values
    for n in ("farras", "near_sym_a2"):
        a, b = coeffs.level1(n, compact=False), coeffs.level1(n, compact=False)
        rep.validated()
        if fp(a) != fp(b):
            rep.violation("level1('%s', compact=False) returns different values when loaded twice" % n,
                          {"api": "coeffs.level1", "check": "loader", "name": n})
    rep.extra["out_of_scope_tables"] = ("farras, near_sym_a2: shipped but absent from the reference package and not returned by "
                                        "the documented level-1/q-shift loader signatures; only 'load twice' is checked")
    rep.assumptions += ["float64 -> integer conversion (fractions.Fraction) is exact", "the reference is the installed dtcwt package"]


def replay(rep, case):
    from ..replay import rerun
    rerun(rep, case, run)
