"""C13 - the stationary WT is undecimated, shift-equivariant and equals PyWavelets' swt2.

TLC   : spec/SWT.tla - the a-trous stage model (periodic index padding L*d/2-d | L*d/2, dilated correlation
        with the flipped filter) equals swt's definition for every (N, L, d); full resolution; circular
        shift-equivariance as an operator identity; the SWTForward level loop (mode string reaching the
        padding routine, (N,C,4,H,W) regrouping, LL feeding the next level) never raises.
S->C  : one-axis operators of the real afb1d_atrous with indicator taps (exact, vs TLC's Ref entries);
        SWTForward on identity image batches with integer taps vs the Kronecker/level composition of Ref
        operators (shape (N,C,4,H,W), band order A,H,V,D, default and 'periodic' mode); exact shift
        equivariance on integer data; real wavelets vs pywt.swt2.
C->S  : hook events (level, dilation, mode; per pass: axis, length, filter length, dilation, pad before | after) of real
        SWTForward calls, incl. a wavelet per axis, validated by Trace_SWT (the level machine of SWT.tla).
"""
import numpy as np
import torch

import pytorch_wavelets as pw
from pytorch_wavelets.dwt.transform2d import SWTForward
from pytorch_wavelets.dwt import lowlevel as ll

from .. import dwtlib, tlc, models
from ..common import NCPU, seed
from ..dwtmodel import design_check
from ..dwtchecks import kron2, EPS64
from ..findings import Findings

LEVEL = "model_checking"
RULE = ("cases = (N, L, dilation) one-axis operators enumerated by TLC and (HxW, L, J, mode) module calls; "
        "non-trivial = dilation > 1, N < L*d (multiple wrap-around) or J > 1; distinct tuples counted")


def swt_model(rep, tier, fix=True):
    c = dict(NSet=models.rng(2, 32 if tier == "quick" else 64), LSet=models.rng(2, 12 if tier == "quick" else 20, 2),
             DSet={1, 2, 4} if tier == "quick" else {1, 2, 4, 8}, Shard=0, NShards=1, Emit=True, SwtFix=fix, PerFix=True)
    res = tlc.run_model("SWT", c, invariants=["EmitOK", "OpOK", "ShiftOK", "SwtNoRaise", "SwtFeedsLL"],
                        shards=NCPU, tag="SWT", coverage=False)
    rep.add_tlc(res, "SWT")
    design_check(rep, res, "SWT")
    return {(r["N"], r["L"], r["d"]): r for r in res.records if r.get("kind") == "swt.op"}


def run(rep):
    if rep.tier == "thorough":
        from .. import proofs
        proofs.attach(rep, "SWTProofs")      # TLAPS: the scalar index layer of this family for ALL sizes
    if rep.tier == "thorough":
        from .. import apalache
        apalache.shape_lemmas(rep)
    dwtlib.f64()
    fnd = Findings()
    tier = rep.tier
    ops = swt_model(rep, tier)
    rng = np.random.default_rng(20000 + seed())
    # ---- one-axis operators
    n_ok = 0
    for (N, L, d), r in sorted(ops.items()):
        ref = dwtlib.dense(r["ref"], N, L, N)
        cfg = dict(N=N, L=L, dilation=d)
        case = {"api": "afb1d_atrous", "check": "atrous_op", "cfg": cfg}
        obs = {}
        err = None
        for dim in (2, 3):
            lo = np.zeros((N, L, N))
            hi = np.zeros((N, L, N))
            for j in range(L):
                jj = (j + 1) % L
                try:
                    x = torch.eye(N)
                    x = x.reshape(N, 1, N, 1) if dim == 2 else x.reshape(N, 1, 1, N)
                    f0, f1 = ll.prep_filt_afb1d(dwtlib.ind(L, j), dwtlib.ind(L, jj, 2.0))   # as the modules prepare them
                    y = ll.afb1d_atrous(x, f0, f1, mode="periodic", dim=dim, dilation=d)
                except Exception as e:   # noqa
                    err = e
                    break
                y = y.reshape(N, 2, -1).numpy()
                lo[:, j, :] = y[:, 0].T if y.shape[2] == N else np.nan
                hi[:, jj, :] = y[:, 1].T / 2.0 if y.shape[2] == N else np.nan
            obs[dim] = (lo, hi)
            if err:
                break
        rep.validated()
        if d > 1 or N < L * d:
            rep.nontriv(("atrous", N, L, d))
        if err is not None:
            rep.violation("afb1d_atrous raised %r at %s" % (err, cfg), dict(case, observed=repr(err)))
        elif all(dwtlib.eq_int(a, ref) and dwtlib.eq_int(b, ref) for a, b in obs.values()):
            n_ok += 1
            if n_ok == 1:
                rep.sample({"api": "afb1d_atrous", "cfg": cfg, "ref_entries[n,tap,src,count]": r["ref"][:6], "observed": "equal on both axes, both bands"})
        else:
            rep.violation("afb1d_atrous operator differs from swt's definition at %s" % (cfg,), case)
    rep.count("atrous_ops_equal_ref", n_ok)

    # ---- the module on identity image batches
    sizes = [(4, 4), (8, 4), (4, 12), (8, 8), (12, 8), (16, 8)] if tier == "quick" else \
            [(4, 4), (8, 4), (4, 12), (8, 8), (12, 8), (16, 8), (16, 16), (24, 8), (8, 32)]
    n_mod = 0
    for (H, W) in sizes:
        # (L, Lr): the same pair of filters on both axes (2-tuple) or separate column / row filters (4-tuple, also of
        # different lengths): the column filters act along H, the row filters along W, at EVERY level
        for (L, Lr) in ((2, 2), (4, 4), (6, 6), (4, 2), (2, 6), (6, 4)):
            for J in (1, 2, 3):
                if H % 2 ** J or W % 2 ** J:
                    continue
                for mode in ("default", "periodic"):
                    if L != Lr and mode == "periodic" and (H + W + J) % 2:
                        continue                      # thin the 4-tuple cases
                    cfg = dict(H=H, W=W, L=L, Lr=Lr, J=J, mode=mode, form=2 if L == Lr else 4)
                    case = {"api": "SWTForward", "check": "swt_module", "cfg": cfg}
                    h0, h1 = dwtlib.int_taps(rng, L, 3), dwtlib.int_taps(rng, L, 3)
                    g0, g1 = (h0, h1) if L == Lr else (dwtlib.int_taps(rng, Lr, 3), dwtlib.int_taps(rng, Lr, 3))
                    wave = (h0, h1) if L == Lr else (h0, h1, g0, g1)
                    rep.validated()
                    rep.nontriv(("swt", H, W, L, Lr, J, mode))
                    try:
                        m = SWTForward(J=J, wave=wave) if mode == "default" else SWTForward(J=J, wave=wave, mode=mode)
                        X = torch.eye(H * W).reshape(H * W, 1, H, W)
                        coeffs = m(X)
                        shapes = [tuple(c.shape) for c in coeffs]
                    except Exception as e:   # noqa
                        f = fnd.match("C13", "SWTForward", cfg, "raises")
                        if f:
                            rep.known_finding(f["id"], f["what"])
                        else:
                            rep.violation("SWTForward raised %r at %s" % (e, cfg), dict(case, observed=repr(e)))
                        continue
                    if len(coeffs) != J or any(s != (H * W, 1, 4, H, W) for s in shapes):
                        rep.violation("SWTForward returns shapes %s, expected %d tensors (N,C,4,H,W)=(%d,1,4,%d,%d) at %s"
                                      % (shapes[:2], J, H * W, H, W, cfg), dict(case, shapes=shapes))
                        continue
                    Xm = np.eye(H * W)
                    ok = True
                    for j in range(1, J + 1):
                        d = 2 ** (j - 1)
                        Rh, Rw = dwtlib.dense(ops[(H, L, d)]["ref"], H, L, H), dwtlib.dense(ops[(W, Lr, d)]["ref"], W, Lr, W)
                        c0, c1 = dwtlib.mat(Rh, h0), dwtlib.mat(Rh, h1)
                        r0, r1 = dwtlib.mat(Rw, g0), dwtlib.mat(Rw, g1)
                        exp = [kron2(c0, r0) @ Xm, kron2(c1, r0) @ Xm, kron2(c0, r1) @ Xm, kron2(c1, r1) @ Xm]   # A, H, V, D
                        for b in range(4):
                            got = coeffs[j - 1][:, 0, b].reshape(H * W, -1).numpy().T
                            if not dwtlib.eq_int(got, exp[b]):
                                ok = False
                                rep.violation("SWTForward level %d band %s differs from swt2's definition at %s" % (j, "AHVD"[b], cfg),
                                              dict(case, level=j, band=b, taps=[h0.tolist(), h1.tolist(), g0.tolist(), g1.tolist()]))
                                break
                        if not ok:
                            break
                        Xm = exp[0]
                    if ok:
                        # shift equivariance on integer data, exactly
                        x = torch.tensor(rng.integers(-9, 10, size=(2, 3, H, W)).astype(np.float64))
                        sh, sw = int(rng.integers(0, H)), int(rng.integers(0, W))
                        a = m(torch.roll(x, (sh, sw), (2, 3)))
                        b = [torch.roll(c, (sh, sw), (3, 4)) for c in m(x)]
                        if not all(torch.equal(p, q) for p, q in zip(a, b)):
                            rep.violation("SWTForward is not circularly shift-equivariant at %s (shift %d,%d)" % (cfg, sh, sw), case)
                        else:
                            n_mod += 1
    rep.count("swt_module_calls_equal_ref", n_mod)

    # ---- real wavelets vs pywt.swt2
    import pywt
    names = ["haar", "db2", "db4", "sym3", "coif1", "bior2.2", "bior1.3", "rbio3.1"] if tier == "quick" else \
        [n for n in pywt.wavelist(kind="discrete") if pywt.Wavelet(n).dec_len <= 24]
    n_num = 0
    for name in names:
        w = pywt.Wavelet(name)
        J = int(rng.integers(1, 4))
        H, W = 2 ** J * int(rng.integers(1, 5)), 2 ** J * int(rng.integers(1, 5))
        x = rng.standard_normal((2, 2, H, W))
        cfg = dict(wavelet=name, H=H, W=W, J=J)
        try:
            ref = pywt.swt2(x, w, level=J, axes=(-2, -1))        # coarsest first
        except ValueError:
            continue
        G = max(np.abs(w.dec_lo).sum(), np.abs(w.dec_hi).sum())
        bound = 64 * EPS64 * w.dec_len ** 2 * J * G ** (2 * J) * max(np.abs(x).max(), 1.0)
        n_num += 1
        rep.validated()
        rep.nontriv(("swt_num", name, H, W, J))
        try:
            # the wavelet in every accepted form in turn, the three spellings of the mode, and ONE module object called
            # first on an image of another size / channel count (a module must not remember anything about earlier inputs)
            kf = names.index(name)
            wave, form = dwtlib.wave_form(name, kf)
            cfg["wave_form"] = form
            mod = SWTForward(J=J, wave=wave, mode=["periodization", "per", "periodic"][kf % 3])
            mod(torch.tensor(rng.standard_normal((1, 3, 2 ** J * 3, 2 ** J))))
            out = mod(torch.tensor(x))
            err = 0.0
            for j in range(J):
                cA, (cH, cV, cD) = ref[J - 1 - j]
                want = np.stack([cA, cH, cV, cD], axis=2)
                got = out[j].numpy()
                err = max(err, np.abs(got - want).max() if got.shape == want.shape else np.inf)
        except Exception as e:   # noqa
            f = fnd.match("C13", "SWTForward", cfg, "raises")
            if f:
                rep.known_finding(f["id"], f["what"])
            else:
                rep.violation("SWTForward(%s) raised %r at %s" % (name, e, cfg), {"api": "SWTForward", "check": "swt_numeric", "cfg": cfg})
            continue
        if not err <= bound:
            rep.violation("SWTForward(%s) differs from pywt.swt2 by %.3g (bound %.3g) at %s" % (name, err, bound, cfg),
                          {"api": "SWTForward", "check": "swt_numeric", "cfg": cfg})
    # ---- one wavelet per axis (4-tuple) vs pywt.swt2 with a pair of wavelets
    pairs = [("db2", "db3"), ("db3", "haar"), ("bior2.2", "db2")] if tier == "quick" else \
        [("db2", "db3"), ("db3", "haar"), ("bior2.2", "db2"), ("haar", "db4"), ("sym4", "db2"), ("coif1", "bior1.3")]
    for (wc, wr) in pairs:
        a, b = pywt.Wavelet(wc), pywt.Wavelet(wr)
        for J in (2, 3):
            H, W = 2 ** J * int(rng.integers(1, 4)), 2 ** J * int(rng.integers(1, 4))
            x = rng.standard_normal((2, 2, H, W))
            cfg = dict(wavelet_cols=wc, wavelet_rows=wr, H=H, W=W, J=J)
            ref = pywt.swt2(x, (a, b), level=J, axes=(-2, -1))
            G = max(np.abs(a.dec_lo).sum(), np.abs(a.dec_hi).sum(), np.abs(b.dec_lo).sum(), np.abs(b.dec_hi).sum())
            bound = 64 * EPS64 * max(a.dec_len, b.dec_len) ** 2 * J * G ** (2 * J) * max(np.abs(x).max(), 1.0)
            n_num += 1
            rep.validated()
            rep.nontriv(("swt_num_pair", wc, wr, H, W, J))
            try:
                out = SWTForward(J=J, wave=(a.dec_lo, a.dec_hi, b.dec_lo, b.dec_hi))(torch.tensor(x))
                err = 0.0
                for j in range(J):
                    cA, (cH, cV, cD) = ref[J - 1 - j]
                    want = np.stack([cA, cH, cV, cD], axis=2)
                    got = out[j].numpy()
                    err = max(err, np.abs(got - want).max() if got.shape == want.shape else np.inf)
            except Exception as e:   # noqa
                rep.violation("SWTForward(cols %s, rows %s) raised %r at %s" % (wc, wr, e, cfg), {"api": "SWTForward", "check": "swt_numeric_pair", "cfg": cfg})
                continue
            if not err <= bound:
                rep.violation("SWTForward with column wavelet %s and row wavelet %s differs from pywt.swt2((%s, %s)) by %.3g (bound %.3g) at %s"
                              % (wc, wr, wc, wr, err, bound, cfg), {"api": "SWTForward", "check": "swt_numeric_pair", "cfg": cfg})
    rep.count("swt_numeric_comparisons", n_num)
    from .. import scalechecks, stagetrace
    scalechecks.swt(rep, "C13", tier)
    stagetrace.validate_swt(rep, "C13", tier)      # code -> spec: hook events of real calls against the level machine
    rep.assumptions += ["sizes are multiples of 2^J as pywt.swt2 requires", "bounded sizes/dilations (coverage.tlc_runs)"]


def replay(rep, case):
    from ..replay import rerun
    rerun(rep, case, run)
