"""C14: separate row and column filters act on the axis they are named for."""
import numpy as np
import torch

import pytorch_wavelets as pw
from pytorch_wavelets.dwt import lowlevel as ll

from . import dwtlib
from .dwtchecks import compose_fwd2, extract_fwd2, chain_in_table2, compose_inv2, extract_inv2, kron2, EPS64
from .common import seed


def forward_4tuple(rep, fnd, table, records, pid):
    dwtlib.f64()
    rng = np.random.default_rng(16000 + seed())
    n_ok = 0
    for r in records:
        if r.get("kind") != "dwt2.fwd":
            continue
        mode, H, W, J, Lc, Lr = r["mode"], r["H"], r["W"], r["J"], r["Lc"], r["Lr"]
        # Ref chain: column filters (length Lc) along H, row filters (length Lr) along W
        if not chain_in_table2(table, r):
            continue
        cfg = {"mode": mode, "H": H, "W": W, "Lc": Lc, "Lr": Lr, "J": J}
        case = {"api": "DWTForward(4-tuple)", "check": "forward_4tuple", "cfg": cfg}
        taps = {"col": (dwtlib.int_taps(rng, Lc, 4), dwtlib.int_taps(rng, Lc, 4)),
                "row": (dwtlib.int_taps(rng, Lr, 4), dwtlib.int_taps(rng, Lr, 4))}
        wave = (taps["col"][0], taps["col"][1], taps["row"][0], taps["row"][1])
        ref_rec = dict(r)
        exp_low, exp_high = compose_fwd2(table, ref_rec, taps, "ref")
        with_graph = (n_ok % 2 == 1)        # every other configuration with an input that requires grad (graph being recorded)
        obs = extract_fwd2(mode, H, W, J, wave, grad=with_graph)
        if with_graph:
            cfg["input_requires_grad"] = True
        rep.validated()
        rep.nontriv(("fwd4", mode, H, W, Lc, Lr, J, with_graph))
        if isinstance(obs, dwtlib.Raised):
            lh, lw = [H] + r["ref_lensH"], [W] + r["ref_lensW"]
            if mode == "reflect" and (any(n < max(Lc, Lr) for n in (lh[:J] + lw[:J]))):
                continue
            rep.violation("DWTForward with a 4-tuple raised %r at %s" % (obs, cfg), dict(case, observed=repr(obs)))
            continue
        low, highs, shapes, _ = obs
        exp_shapes = list(zip(r["ref_lensH"], r["ref_lensW"]))
        good = shapes == exp_shapes and dwtlib.eq_int(low, exp_low) and all(
            dwtlib.eq_int(a, b) for la, lb in zip(highs, exp_high) for a, b in zip(la, lb))
        # the functional one-level filter bank given the same four filters (level 1 only)
        fun_ok = True
        if good and J == 1:
            y = ll.afb2d(torch.eye(H * W).reshape(H * W, 1, H, W), wave, mode=mode)
            y = y.reshape(H * W, 1, 4, y.shape[-2], y.shape[-1])
            fun_ok = dwtlib.eq_int(y[:, 0, 0].reshape(H * W, -1).numpy().T, low) and all(
                dwtlib.eq_int(y[:, 0, b + 1].reshape(H * W, -1).numpy().T, highs[0][b]) for b in range(3))
        if good and fun_ok:
            n_ok += 1
            if n_ok == 1:
                rep.sample({"api": "DWTForward(4-tuple)", "cfg": cfg, "col_taps": [t.tolist() for t in taps["col"]],
                            "row_taps": [t.tolist() for t in taps["row"]],
                            "observed": "equals kron(column operator on axis -2, row operator on axis -1) and the functional afb2d"})
            continue
        # diagnosis: is it the transposed assignment (row filters on the vertical axis)?
        sw = dict(r, Lc=Lr, Lr=Lc, ref_lensH=None, ref_lensW=None)
        what = "band shapes %s, expected %s" % (shapes, exp_shapes) if shapes != exp_shapes else "values differ"
        try:
            sl, sh = compose_fwd2(table, dict(r, Lc=Lr, Lr=Lc), {"col": taps["row"], "row": taps["col"]}, "ref")
            if dwtlib.eq_int(low, sl):
                what += "; the output equals the transform with the ROW filters applied along the vertical axis and the COLUMN filters along the horizontal axis"
        except Exception:   # noqa
            pass
        if not fun_ok:
            what = "module output differs from the functional afb2d given the same four filters"
        f = fnd.match(pid, "DWTForward(4-tuple)", cfg, "axes-swapped" if "ROW filters" in what else "other")
        if f:
            rep.known_finding(f["id"], f["what"])
        else:
            rep.violation("DWTForward with separate column/row filters differs from the per-axis reference at %s: %s" % (cfg, what),
                          dict(case, taps={k: [t.tolist() for t in v] for k, v in taps.items()}))
    rep.count("forward_4tuple_equal_ref", n_ok)


def inverse_4tuple(rep, fnd, table, records, pid):
    dwtlib.f64()
    rng = np.random.default_rng(17000 + seed())
    n_ok = 0
    for r in records:
        if r.get("kind") != "dwt2.inv" or r["dtype"] != "f64":
            continue
        none = set(r["none"])          # levels handed over as None ("treated as zeros"): the module's own branch
        mode, H, W, J, Lc, Lr = r["mode"], r["H"], r["W"], r["J"], r["Lc"], r["Lr"]
        cfg = {"mode": mode, "H": H, "W": W, "Lc": Lc, "Lr": Lr, "J": J}
        if none:
            cfg["none"] = sorted(none)
        case = {"api": "DWTInverse(4-tuple)", "check": "inverse_4tuple", "cfg": cfg}
        g = {"col": (dwtlib.int_taps(rng, Lc, 3), dwtlib.int_taps(rng, Lc, 3)),
             "row": (dwtlib.int_taps(rng, Lr, 3), dwtlib.int_taps(rng, Lr, 3))}
        wave = (g["col"][0], g["col"][1], g["row"][0], g["row"][1])
        exp = compose_inv2(table, r, g, none, "shape")
        if exp is None:
            continue
        with_graph = (n_ok % 2 == 1)
        obs = extract_inv2(r, wave, none, "f64", grad=with_graph)
        if with_graph:
            cfg["coefficients_require_grad"] = True
        rep.validated()
        rep.nontriv(("inv4", mode, H, W, Lc, Lr, J, tuple(sorted(none)), with_graph))
        if isinstance(obs, dwtlib.Raised):
            f = fnd.match(pid, "DWTInverse(4-tuple)", cfg, "raises")
            if f:
                rep.known_finding(f["id"], f["what"])
            else:
                rep.violation("DWTInverse with a 4-tuple raised %r on a forward-compatible pyramid at %s" % (obs, cfg),
                              dict(case, observed=repr(obs)))
            continue
        Y, (oh, ow) = obs
        E, (eh, ew) = exp
        if not none:
            good = (oh, ow) == (eh, ew) and dwtlib.eq_int(Y, E)
        else:
            # a None level leaves the extent of its zeros to the module (as long as the running lowpass, or as long as a
            # forward transform would have made it): both readings of "treated as zeros" are accepted, on the common part
            total = Y.shape[1]

            def crop(M, h, w):
                return M.reshape(h, w, total)[:H, :W]
            alt = compose_inv2(table, r, g, none, "like")
            good = oh >= H and ow >= W and (np.array_equal(crop(Y, oh, ow), crop(E, eh, ew)) or (
                alt is not None and np.array_equal(crop(Y, oh, ow), crop(alt[0], *alt[1]))))
        fun_ok = True
        if good and J == 1 and not none:
            lh, lw = r["lensH"][0], r["lensW"][0]
            n = lh * lw
            tot = 4 * n
            bands = [torch.zeros(tot, 1, lh, lw) for _ in range(4)]
            for b in range(4):
                bands[b][b * n:(b + 1) * n, 0] = torch.eye(n).reshape(n, lh, lw)
            yf = ll.sfb2d(bands[0], bands[1], bands[2], bands[3], wave, mode=mode)
            fun_ok = dwtlib.eq_int(yf[:, 0].reshape(tot, -1).numpy().T, Y)
        if good and fun_ok:
            n_ok += 1
            continue
        what = "output %dx%d, expected %dx%d" % (oh, ow, eh, ew) if (oh, ow) != (eh, ew) else "values differ"
        if not fun_ok:
            what = "module output differs from the functional sfb2d given the same four filters"
        rep.violation("DWTInverse with separate column/row filters differs from the per-axis reference at %s: %s" % (cfg, what),
                      dict(case, taps={k: [t.tolist() for t in v] for k, v in g.items()}))
    rep.count("inverse_4tuple_equal_ref", n_ok)


def numeric_two_wavelets(rep, fnd, pid, tier):
    """two different real wavelets, one per axis, against pywt called with one wavelet per axis"""
    import pywt
    dwtlib.f64()
    rng = np.random.default_rng(18000 + seed())
    pairs = [("db2", "haar"), ("haar", "db3"), ("bior2.2", "db2"), ("sym4", "bior1.3"), ("db1", "coif1"), ("db4", "sym2")]
    if tier != "quick":
        names = [n for n in pywt.wavelist(kind="discrete") if pywt.Wavelet(n).dec_len <= 16]
        pairs += [(str(a), str(b)) for a, b in zip(rng.permutation(names)[:40], rng.permutation(names)[:40]) if a != b]
    n = 0
    for wc, wr in pairs:
        a, b = pywt.Wavelet(wc), pywt.Wavelet(wr)
        for mode in dwtlib.MODES:
            H = int(rng.integers(max(a.dec_len, 3), 3 * a.dec_len + 6))
            W = int(rng.integers(max(b.dec_len, 3), 3 * b.dec_len + 6))
            J = int(rng.integers(1, 3))
            x = rng.standard_normal((2, 2, H, W))
            cfg = dict(col_wavelet=wc, row_wavelet=wr, mode=mode, H=H, W=W, J=J)
            try:
                ref = pywt.wavedec2(x, (a, b), mode=mode, level=J, axes=(-2, -1))
            except ValueError:
                continue
            G = max(np.abs(v).sum() for v in (a.dec_lo, a.dec_hi, b.dec_lo, b.dec_hi, a.rec_lo, a.rec_hi, b.rec_lo, b.rec_hi))
            bound = 64 * EPS64 * max(a.dec_len, b.dec_len) ** 2 * J * (2 * G) ** (2 * J) * max(np.abs(x).max(), 4.0)
            try:
                fw = pw.DWTForward(J=J, wave=(a.dec_lo, a.dec_hi, b.dec_lo, b.dec_hi), mode=mode)
                yl, yh = fw(torch.tensor(x))
                err = np.abs(yl.numpy() - ref[0]).max() if tuple(yl.shape) == ref[0].shape else np.inf
                for j in range(J):
                    r3 = np.stack(ref[J - j], axis=2)
                    err = max(err, np.abs(yh[j].numpy() - r3).max() if tuple(yh[j].shape) == r3.shape else np.inf)
            except Exception as e:   # noqa
                if mode == "reflect":
                    continue
                err = np.inf
            n += 1
            rep.nontriv(("two_wavelets", wc, wr, mode))
            if not err <= bound:
                f = fnd.match(pid, "DWTForward(4-tuple)", cfg, "axes-swapped")
                if f:
                    rep.known_finding(f["id"], f["what"])
                else:
                    rep.violation("DWTForward(col=%s,row=%s) differs from pywt.wavedec2(wavelet=(%s,%s)) by %.3g (bound %.3g) at %s"
                                  % (wc, wr, wc, wr, err, bound, cfg), {"api": "DWTForward(4-tuple)", "check": "two_wavelets", "cfg": cfg})
                continue
            # synthesis: a random pyramid of those shapes against pywt.waverec2 with per-axis wavelets
            c2 = [rng.standard_normal(ref[0].shape)] + [tuple(rng.standard_normal(d.shape) for d in lev) for lev in ref[1:]]
            refx = pywt.waverec2(c2, (a, b), mode=mode, axes=(-2, -1))
            try:
                iv = pw.DWTInverse(wave=(a.rec_lo, a.rec_hi, b.rec_lo, b.rec_hi), mode=mode)
                y = iv((torch.tensor(c2[0]), [torch.tensor(np.stack(lev, axis=2)) for lev in c2[1:][::-1]])).numpy()
                err = np.abs(y - refx).max() if y.shape == refx.shape else np.inf
            except Exception as e:   # noqa
                err = np.inf
            n += 1
            if not err <= bound:
                rep.violation("DWTInverse(col=%s,row=%s) differs from pywt.waverec2(wavelet=(%s,%s)) by %.3g (bound %.3g) at %s"
                              % (wc, wr, wc, wr, err, bound, cfg), {"api": "DWTInverse(4-tuple)", "check": "two_wavelets", "cfg": cfg})
    rep.validated(n)
    rep.count("two_wavelet_numeric_comparisons", n)


def functional_forms(rep, fnd, pid, tier):
    """The functional one-level banks afb2d / sfb2d given the same four filters in every form they accept - raw arrays (list /
    tuple), lists of floats, (L,1) column arrays, tensors as prepared by prep_filt_afb2d / prep_filt_sfb2d (list / tuple), flat
    1-D tensors and (1,1,L) tensors of the prepared taps - against PyWavelets with one wavelet per axis."""
    import pywt
    from pytorch_wavelets.dwt import lowlevel as ll
    dwtlib.f64()
    rng = np.random.default_rng(18500 + seed())
    pairs = [("db3", "db2"), ("db2", "db3"), ("bior2.2", "haar"), ("haar", "bior2.2"), ("sym4", "db2"), ("db3", "coif1")]
    modes = ["zero", "symmetric", "periodization"] if tier == "quick" else ["zero", "symmetric", "reflect", "periodization"]
    n = 0

    def forms(c0, c1, r0, r1, analysis):
        flip = (lambda v: np.array(v)[::-1].copy()) if analysis else (lambda v: np.array(v))
        prep = ll.prep_filt_afb2d if analysis else ll.prep_filt_sfb2d
        t = lambda v: torch.tensor(flip(v))   # noqa   prepared taps as a flat tensor
        return [("arrays, list", [np.array(c0), np.array(c1), np.array(r0), np.array(r1)]),
                ("arrays, tuple", (np.array(c0), np.array(c1), np.array(r0), np.array(r1))),
                ("lists of floats", [list(c0), list(c1), list(r0), list(r1)]),
                ("(L,1) arrays", [np.array(c0)[:, None], np.array(c1)[:, None], np.array(r0)[:, None], np.array(r1)[:, None]]),
                ("prepared tensors, list", list(prep(c0, c1, r0, r1))),
                ("prepared tensors, tuple", tuple(prep(c0, c1, r0, r1))),
                ("flat 1-D tensors of the prepared taps", [t(c0), t(c1), t(r0), t(r1)]),
                ("(1,1,L) tensors of the prepared taps", [t(c0).reshape(1, 1, -1), t(c1).reshape(1, 1, -1), t(r0).reshape(1, 1, -1), t(r1).reshape(1, 1, -1)])]
    for wc, wr in pairs:
        a, b = pywt.Wavelet(wc), pywt.Wavelet(wr)
        for mode in modes:
            H, W = int(rng.integers(max(a.dec_len, 4), 2 * a.dec_len + 8)), int(rng.integers(max(b.dec_len, 4), 2 * b.dec_len + 8))
            x = rng.standard_normal((2, 2, H, W))
            cA, (cH, cV, cD) = pywt.dwt2(x, (a, b), mode=mode, axes=(-2, -1))
            want = np.stack([cA, cH, cV, cD], axis=2)
            co = rng.standard_normal(want.shape)
            wantx = pywt.idwt2((co[:, :, 0], (co[:, :, 1], co[:, :, 2], co[:, :, 3])), (a, b), mode=mode, axes=(-2, -1))
            for (fname, fa), (_, fs) in zip(forms(a.dec_lo, a.dec_hi, b.dec_lo, b.dec_hi, True), forms(a.rec_lo, a.rec_hi, b.rec_lo, b.rec_hi, False)):
                cfg = dict(col_wavelet=wc, row_wavelet=wr, mode=mode, H=H, W=W, filter_form=fname)
                rep.validated()
                rep.nontriv(("functional_form", wc, wr, mode, fname))
                n += 1
                try:
                    y = ll.afb2d(torch.tensor(x), fa, mode=mode)
                    y = y.reshape(2, 2, 4, y.shape[-2], y.shape[-1]).numpy()
                    ea = np.abs(y - want).max() if y.shape == want.shape else np.inf
                except Exception as e:   # noqa
                    ea = "raises %r" % e
                try:
                    t_ = torch.tensor(co)
                    z = ll.sfb2d(t_[:, :, 0], t_[:, :, 1], t_[:, :, 2], t_[:, :, 3], fs, mode=mode).numpy()
                    es = np.abs(z - wantx).max() if z.shape == wantx.shape else np.inf
                except Exception as e:   # noqa
                    es = "raises %r" % e
                for api, err in (("afb2d", ea), ("sfb2d", es)):
                    if isinstance(err, str) or not err <= 1e-10:
                        rep.violation("%s with column wavelet %s, row wavelet %s and the filters given as %s differs from PyWavelets with one wavelet per "
                                      "axis (%s) at %s" % (api, wc, wr, fname, err if isinstance(err, str) else "max error %.3g" % err, cfg),
                                      {"api": api, "check": "functional_forms", "cfg": cfg})
    rep.count("functional_form_cases", n)
