"""C08 / C09: the Ref tables of spec/ScatGrad.tla INTERPRETED.

TLC checks (StOut, StGrad) that the coded forward puts the defined term into every output channel and that the coded
backward delivers exactly the definition's paths, and prints the table  channel -> term.  Here every term is evaluated
with the operators of the reference NumPy DTCWT (dense matrices extracted from dtcwt.Transform2d on basis images) and
differentiated by plain autograd.  The real layer must show that value (C08) and that vector-Jacobian product (C09) -
every coordinate of the gradient, to rounding, for dense and for single-channel cotangents.

Verdict rule for the gradient: a disagreement nominates the direction d = g_layer - g_reference; the REAL forward pass
is then differenced along d (several steps, Richardson, the one with the least noise counts).  VIOLATION only when the
real function's own derivative sides with the reference against the back-propagated value; when it sides with the layer,
the forward itself differs from the definition near that point (C08's business: diagnostic); otherwise inconclusive."""
import logging
import re

import numpy as np
import torch
import torch.nn.functional as F

import pytorch_wavelets as pw

from . import tlc
from .common import seed
from .dwtmodel import design_check

_TOK = re.compile(r"\s*([A-Za-z0-9]+(?:\[\d+\])?|[();])")


def parse(s):
    """term string -> nested tuple (name, arg, ...);  X3 -> ('X', 3)"""
    toks = _TOK.findall(s)
    pos = [0]

    def term():
        t = toks[pos[0]]
        pos[0] += 1
        if pos[0] < len(toks) and toks[pos[0]] == "(":
            pos[0] += 1
            args = [term()]
            while toks[pos[0]] == ";":
                pos[0] += 1
                args.append(term())
            assert toks[pos[0]] == ")", s
            pos[0] += 1
            return (t,) + tuple(args)
        m = re.fullmatch(r"X(\d+)", t)
        assert m, (t, s)
        return ("X", int(m.group(1)))
    r = term()
    assert pos[0] == len(toks), s
    return r


_OPS = {}


def ref_ops(biort, qshift, H, W, levels):
    """dense reference operators on H x W images: lo1 (HW x HW), hi1[o] re/im (HW/4 x HW); with levels == 2 also the
    composites  x -> level-2 lowpass (HW/4 x HW)  and  x -> level-2 band o (HW/16 x HW)"""
    key = (biort, qshift, H, W, levels)
    if key in _OPS:
        return _OPS[key]
    from dtcwt.numpy import Transform2d
    t = Transform2d(biort=biort, qshift=qshift)
    n = H * W
    lo1 = np.zeros((n, n))
    hi1 = np.zeros((6, 2, n // 4, n))
    lo2 = np.zeros((n // 4, n)) if levels == 2 else None
    hi2 = np.zeros((6, 2, n // 16, n)) if levels == 2 else None
    logging.disable(logging.WARNING)
    try:
        for i in range(n):
            e = np.zeros(n)
            e[i] = 1.0
            p = t.forward(e.reshape(H, W), nlevels=levels, include_scale=True)
            lo1[:, i] = p.scales[0].reshape(-1)
            for o in range(6):
                hi1[o, 0, :, i] = p.highpasses[0][:, :, o].real.reshape(-1)
                hi1[o, 1, :, i] = p.highpasses[0][:, :, o].imag.reshape(-1)
            if levels == 2:
                lo2[:, i] = p.scales[1].reshape(-1)
                for o in range(6):
                    hi2[o, 0, :, i] = p.highpasses[1][:, :, o].real.reshape(-1)
                    hi2[o, 1, :, i] = p.highpasses[1][:, :, o].imag.reshape(-1)
    finally:
        logging.disable(logging.NOTSET)
    ops = dict(lo1=torch.tensor(lo1), hi1=torch.tensor(hi1), lo2=None if lo2 is None else torch.tensor(lo2),
               hi2=None if hi2 is None else torch.tensor(hi2))
    _OPS[key] = ops
    return ops


class Interp:
    """evaluates terms on a batch x: (N, C, H, W) float64; real images are (N, h, w), complex ones pairs of them"""

    def __init__(self, biort, qshift, b):
        self.biort, self.qshift, self.b = biort, qshift, b
        self.memo = {}
        self.rmin = float("inf")       # smallest sqrt(|z|^2 + b^2) met: the phase z / r is only as accurate as eps * |z-error| / r

    def _apply(self, M, img, h, w):
        return (img.reshape(img.shape[0], -1) @ M.T).reshape(img.shape[0], h, w)

    def ev(self, t, x):
        if t in self.memo:
            return self.memo[t]
        r = self._ev(t, x)
        self.memo[t] = r
        return r

    def _ev(self, t, x):
        name = t[0]
        if name == "X":
            return x[:, t[1]]
        if name == "Pool":
            return F.avg_pool2d(self.ev(t[1], x)[:, None], 2)[:, 0]
        if name == "Mag":
            s = 0
            for a in t[1:]:
                re_, im_ = self.ev(a, x)
                s = s + re_ ** 2 + im_ ** 2
            r = torch.sqrt(s + self.b ** 2)
            self.rmin = min(self.rmin, float(r.min()))
            return r - self.b
        if name in ("L2lo",) or name.startswith("L2hi"):
            assert t[1][0] == "Lo1", t            # the level-2 stage reads the level-1 lowpass: evaluate the composite
            img = self.ev(t[1][1], x)
            H, W = img.shape[-2:]
            ops = ref_ops(self.biort, self.qshift, H, W, 2)
            if name == "L2lo":
                return self._apply(ops["lo2"], img, H // 2, W // 2)
            o = int(name[5:-1])
            return (self._apply(ops["hi2"][o, 0], img, H // 4, W // 4), self._apply(ops["hi2"][o, 1], img, H // 4, W // 4))
        img = self.ev(t[1], x)
        H, W = img.shape[-2:]
        ops = ref_ops(self.biort, "qshift_a", H, W, 1)
        if name == "Lo1":
            return self._apply(ops["lo1"], img, H, W)
        assert name.startswith("Hi1"), t
        o = int(name[4:-1])
        return (self._apply(ops["hi1"][o, 0], img, H // 2, W // 2), self._apply(ops["hi1"][o, 1], img, H // 2, W // 2))


def ref_forward(table, biort, qshift, b, x, info=None):
    it = Interp(biort, qshift, b)
    out = torch.stack([it.ev(t, x) for t in table], dim=1)
    if info is not None:
        info["rmin"] = it.rmin
    return out


def tables(rep, tier, csets):
    res = tlc.run_model("ScatGrad", dict(CSet=set(csets), Emit=True, ViewBug=False, PhaseBug=False),
                        invariants=["StOut", "StGrad", "StCount", "EmitOK"], shards=1, workers=1, tag="ScatGrad", coverage=False)
    rep.add_tlc(res, "ScatGrad (dataflow: output terms, backward paths)")
    design_check(rep, res, "ScatGrad")
    out = {}
    for r in res.records:
        if r.get("module") == "ScatGrad":
            out[(r["order"], bool(r["colour"]), r["C"])] = [parse(s) for s in r["out"]]
    if not out:
        rep.fail("ScatGrad: TLC printed no table")
    return out


def extend(x, order):
    """the documented size extension, written independently of the layer (Scat.tla: Ext1 / Before / After)"""
    if order == 1:
        if x.shape[2] % 2:
            x = torch.cat((x, x[:, :, -1:]), dim=2)
        if x.shape[3] % 2:
            x = torch.cat((x, x[:, :, :, -1:]), dim=3)
        return x
    for dim in (2, 3):
        rem = x.shape[dim] % 8
        if rem:
            before, after = (8 - rem) // 2, (9 - rem) // 2
            n = x.shape[dim]
            idx = list(range(before)) + list(range(n)) + list(range(n - after, n))
            x = x.index_select(dim, torch.tensor(idx))
    return x


FAMILIES = [("near_sym_a", "qshift_a"), ("near_sym_b", "qshift_b"), ("near_sym_b_bp", "qshift_b_bp"), ("antonini", "qshift_c"),
            ("legall", "qshift_06")]


def _configs(tier):
    """(order, family, colour, C, N, H, W, bias)"""
    out = []
    fams = FAMILIES[:3] if tier == "quick" else FAMILIES
    for fi, fam in enumerate(fams):
        out += [(1, fam, False, 2, 2, 8, 6, 1e-2), (1, fam, True, 3, 1, 4, 8, 1e-3 if fi % 2 else 0.3), (1, fam, False, 1, 1, 5, 7, 1.0),
                (2, fam, False, 2, 1, 8, 16, 1e-2), (2, fam, True, 3, 1, 8, 8, 0.3 if fi % 2 else 1e-3), (2, fam, False, 1, 2, 12, 10, 1e-2)]
        if tier != "quick":
            out += [(1, fam, False, 3, 2, 10, 4, 1e-3), (2, fam, False, 3, 1, 16, 8, 0.3), (2, fam, True, 3, 2, 11, 8, 1e-2),
                    (1, fam, True, 3, 2, 7, 6, 1e-2), (2, fam, False, 1, 1, 16, 16, 1.0)]
    return out


def _layer(order, fam, colour, b):
    if order == 1:
        return pw.ScatLayer(biort=fam[0], magbias=b, combine_colour=colour)
    return pw.ScatLayerj2(biort=fam[0], qshift=fam[1], magbias=b, combine_colour=colour)


def _points(rng, shape, tier):
    g = rng.standard_normal(shape)
    const = np.ones(shape) * 0.7
    sp = g * (rng.uniform(size=shape) < 0.15)
    pts = [("generic", g), ("zero image", np.zeros(shape)), ("tiny", g * 1e-9), ("huge", g * 1e8), ("constant image", const), ("sparse", sp)]
    if tier != "quick":
        pts.append(("per-channel scales", g * np.exp(rng.uniform(-6, 6, size=(shape[0], shape[1], 1, 1)))))
        pts.append(("ramp", np.broadcast_to(np.arange(shape[-1], dtype=float), shape).copy()))
    return pts


def _fd_arbitrate(f, x0, d, scales):
    """central differences of the real forward along d, Richardson-extrapolated, for several steps; (value, noise) of the
    step with the least noise"""
    best = None
    for eps in scales:
        f1 = (f(x0 + eps * d) - f(x0 - eps * d)) / (2 * eps)
        f2 = (f(x0 + eps / 2 * d) - f(x0 - eps / 2 * d)) / eps
        fd = (4 * f2 - f1) / 3
        noise = abs(f2 - f1)
        if np.isfinite(fd) and (best is None or noise < best[1]):
            best = (fd, noise, eps)
    return best


def checks(rep, pid, tier, want):
    """want in {'value', 'gradient'}: C08 compares the forward values, C09 the vector-Jacobian products"""
    torch.set_default_dtype(torch.float64)
    rng = np.random.default_rng(47000 + seed())
    tabs = tables(rep, tier, {1, 2, 3})
    if not tabs:
        return
    n_ok = n_inc = n_fwd = 0
    for (order, fam, colour, C, N, H, W, b) in _configs(tier):
        table = tabs.get((order, colour, C))
        if table is None:
            rep.fail("ScatGrad: no table for order=%d colour=%s C=%d" % (order, colour, C))
            continue
        lay = _layer(order, fam, colour, b)
        shape = (N, C, H, W)
        for pname, x0 in _points(rng, shape, tier):
            cfg = dict(layer="ScatLayer" if order == 1 else "ScatLayerj2", biort=fam[0], qshift=fam[1], combine_colour=colour,
                       shape=list(shape), magbias=b, point=pname)
            case = {"api": cfg["layer"], "check": "scat_terms_" + want, "cfg": cfg}
            rep.validated()
            rep.nontriv(("scat_terms", want, order, fam[0], colour, C, H, W, b, pname))
            x = torch.tensor(x0, requires_grad=True)
            xr = torch.tensor(x0, requires_grad=True)
            try:
                z = lay(x)
            except Exception as e:      # noqa
                rep.violation("%s raised %r at %s" % (cfg["layer"], e, cfg), dict(case, observed=repr(e)))
                continue
            rinfo = {}
            zr = ref_forward(table, fam[0], fam[1], b, extend(xr, order), rinfo)
            if tuple(z.shape) != tuple(zr.shape):
                if want == "value":
                    rep.violation("%s: output shape %s, the definition's terms give %s at %s" % (cfg["layer"], tuple(z.shape), tuple(zr.shape), cfg), case)
                continue
            scale = float(np.abs(x0).max()) * 8 + b
            verr = float((z - zr).abs().max())
            if want == "value":
                if not (verr <= 1e-9 * scale) or not bool(torch.isfinite(z).all()):
                    k = int((z - zr).abs().amax(dim=(0, 2, 3)).argmax())
                    rep.violation("%s: output channel %d differs from the term the definition puts there (max error %.3g, scale %.3g) at %s"
                                  % (cfg["layer"], k, verr, scale, cfg), dict(case, channel=k))
                else:
                    n_ok += 1
                    rep.sample({"layer": cfg["layer"], "cfg": cfg, "observed": "every output channel equals its ScatGrad term evaluated "
                                "with the reference operators", "max_abs_error": verr}, cap=3)
                continue
            # ---- gradient: dense and single-channel cotangents
            if b <= 0:
                continue
            K = z.shape[1]
            cots = [("dense", torch.tensor(rng.standard_normal(tuple(z.shape))))]
            picks = sorted(set(int(k) for k in rng.integers(0, K, size=2)) | {0, K - 1}) if tier == "quick" else (list(range(K)) if K <= 60 else list(range(0, K, 3)))
            for k in picks:
                c = torch.zeros(tuple(z.shape))
                c[:, k] = torch.tensor(rng.standard_normal((z.shape[0],) + tuple(z.shape[2:])))
                cots.append(("channel %d only" % k, c))
            ok = True
            for cname, c in cots:
                g, = torch.autograd.grad((z * c).sum(), x, retain_graph=True)
                gr, = torch.autograd.grad((zr * c).sum(), xr, retain_graph=True)
                if not bool(torch.isfinite(g).all()):
                    rep.violation("%s: gradient at the %s is not finite (magbias %g > 0, cotangent: %s)" % (cfg["layer"], pname, b, cname), case)
                    ok = False
                    break
                diff = float((g - gr).abs().max())
                # rounding floor of a phase z / r: the band values carry an absolute error of about eps * gain * max|x|, which the
                # division by r >= rmin turns into a phase error (bands that are exactly annihilated - a ramp, a constant - are
                # pure rounding noise there, and two correct implementations differ by this much)
                xmax = float(np.abs(x0).max())
                floor = 256 * 2.2e-16 * 16.0 * xmax / max(rinfo.get("rmin", b), 1e-300) * float(c.abs().max())
                tol = 1e-10 * (float(gr.abs().max()) + float(g.abs().max())) + 1e-13 * float(c.abs().max()) + floor
                if diff <= tol:
                    continue
                # the reference nominates the direction, the real forward decides
                d = (g - gr).detach().numpy()
                d = d / np.abs(d).max()

                def f(xx):
                    with torch.no_grad():
                        return float((lay(torch.tensor(xx)) * c).sum())
                mag = max(float(np.abs(x0).max()), 1e-300)
                best = _fd_arbitrate(f, x0, d, [1e-5 * mag, 1e-3 * mag, 1e-4 * b, 1e-2 * b, 1e-6])
                an_l = float((g.numpy() * d).sum())
                an_r = float((gr.numpy() * d).sum())
                where = np.unravel_index(int(np.abs((g - gr).numpy()).argmax()), g.shape)
                info = dict(case, cotangent=cname, backpropagated=an_l, definition=an_r, finite_difference=None if best is None else best[0],
                            worst_coordinate=[int(i) for i in where])
                if best is not None:
                    fd, noise, _ = best
                    e_l, e_r = abs(fd - an_l), abs(fd - an_r)
                    floor = noise + 1e-9 * abs(fd)
                    if e_l > 4 * e_r + floor:
                        rep.violation("%s: back-propagated gradient differs from the gradient of the computed function at the %s (cotangent: %s): "
                                      "along the disagreement direction autograd gives %.12g, the definition's chain rule %.12g, central "
                                      "differences of the layer's own forward %.12g; worst coordinate %s, |difference| %.3g"
                                      % (cfg["layer"], pname, cname, an_l, an_r, fd, tuple(int(i) for i in where), diff), info)
                        ok = False
                        break
                    if e_r > 4 * e_l + floor:
                        n_fwd += 1
                        rep.drift.append("%s at %s: the layer's forward differs from the ScatGrad terms near this point (its own finite "
                                         "difference sides with its gradient): C08 decides" % (cfg["layer"], cfg))
                        continue
                n_inc += 1
            if ok:
                n_ok += 1
                rep.sample({"layer": cfg["layer"], "cfg": cfg, "observed": "every coordinate of the VJP equals the chain rule over the ScatGrad "
                            "terms (dense and single-channel cotangents)", "cotangents": len(cots)}, cap=3)
    rep.count("scat_terms_%s_ok" % want, n_ok)
    if want == "gradient":
        rep.count("scat_terms_gradient_inconclusive", n_inc)
        rep.count("scat_terms_forward_disagrees", n_fwd)
