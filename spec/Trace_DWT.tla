----------------------------- MODULE Trace_DWT -----------------------------
(***************************************************************************)
(* Trace specification (code -> spec) for the DWT family.                  *)
(*                                                                         *)
(* The harness records executions of the REAL library as ndjson, one event *)
(* per line; each event carries the API-level observable of one call       *)
(* (operator entries extracted with indicator taps, output lengths,        *)
(* outcome).  An event is accepted iff the observable is one that Ref      *)
(* (modules DWT1, DWT1Laws) admits for the logged configuration.  Rejected  *)
(* line numbers are collected so that one run reports every rejection.      *)
(***************************************************************************)
EXTENDS DWT1, Json, IOUtils, SequencesExt

TraceLog == ndJsonDeserialize(IOEnv.TRACE_FILE)

VARIABLES i, bad
vars == <<i, bad>>

SeqSet(s) == {s[x] : x \in DOMAIN s}

AcceptAnalysis(e) ==
    IF e.outcome = "raise" THEN e.mode = "reflect" /\ e.N < e.L
    ELSE /\ e.len = RefALen(e.mode, e.N, e.L)
         /\ SeqSet(e.lo) = Entries3(RefA(e.mode, e.N, e.L))
         /\ SeqSet(e.hi) = SeqSet(e.lo)

AcceptSynthesis(e) ==
    /\ e.outcome = "ok"
    /\ e.len = RefSLen(e.mode, e.M, e.L)
    /\ SeqSet(e.lo) = Entries3(RefS(e.mode, e.M, e.L))
    /\ SeqSet(e.hi) = SeqSet(e.lo)

\* shapes of a multi-level call: pywt.wavedec's band lengths, finest first
RECURSIVE Lens(_, _, _, _)
Lens(mode, N, L, J) == IF J = 0 THEN << >>
                       ELSE LET M == DwtCoeffLen(N, L, mode) IN <<M>> \o Lens(mode, M, L, J - 1)
RECURSIVE AnyShort(_, _, _, _)
AnyShort(mode, N, L, J) == J > 0 /\ (N < L \/ AnyShort(mode, DwtCoeffLen(N, L, mode), L, J - 1))
AcceptShapes(e) ==
    IF e.outcome = "raise" THEN e.mode = "reflect" /\ AnyShort(e.mode, e.N, e.L, e.J)
    ELSE e.lens = Lens(e.mode, e.N, e.L, e.J)

Accept(e) ==
    CASE e.ev = "dwt1.analysis"  -> AcceptAnalysis(e)
      [] e.ev = "dwt1.synthesis" -> AcceptSynthesis(e)
      [] e.ev = "dwt1.shapes"    -> AcceptShapes(e)
      [] OTHER -> FALSE

Init == i = 1 /\ bad = << >>
Next == /\ i <= Len(TraceLog)
        /\ i' = i + 1
        /\ bad' = IF Accept(TraceLog[i]) THEN bad ELSE Append(bad, i)
Spec == Init /\ [][Next]_vars

\* the verdict is printed in the state that has consumed the whole log
Verdict == (i = Len(TraceLog) + 1) =>
              PrintT(<<"@@REC", ToJson([kind |-> "trace.verdict", consumed |-> i - 1, rejected |-> bad])>>)
=============================================================================
