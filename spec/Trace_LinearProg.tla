-------------------------- MODULE Trace_LinearProg --------------------------
(***************************************************************************)
(* Trace specification for C07: validates aten-level execution traces        *)
(* recorded by harness/dispatch.py against the acceptor of module LinearProg. *)
(* The log carries only raw facts (operator category, argument storages with  *)
(* an "is identically zero" flag, destination, result storages); the class of *)
(* every storage is STATE of this specification, inferred from the data flow: *)
(* an "input" event taints a storage, every accepted event classifies its     *)
(* results with LinearProg!Out.  A "reset" event starts a new execution.      *)
(***************************************************************************)
EXTENDS LinearProg, Json, IOUtils, TLC

TraceLog == ndJsonDeserialize(IOEnv.TRACE_FILE)

VARIABLES i, cls, bad
vars == <<i, cls, bad>>

SeqSet(s) == {s[x] : x \in DOMAIN s}
ClassOf(sid, zero) == IF sid \in DOMAIN cls THEN cls[sid] ELSE IF zero = 1 THEN "Z" ELSE "K"

Ev(e) == [cat  |-> e.cat,
          a    |-> [k \in DOMAIN e.args |-> ClassOf(e.args[k][1], e.args[k][2])],
          role |-> SeqSet(e.role),
          snz  |-> e.snz,
          dst  |-> IF e.dst = 0 THEN "Z" ELSE ClassOf(e.dst, e.dstzero),
          full |-> e.full]

Update(f, S, c) == [s \in (DOMAIN f) \cup S |-> IF s \in S THEN c ELSE f[s]]

Init == i = 1 /\ cls = << >> /\ bad = << >>
Next ==
    /\ i <= Len(TraceLog)
    /\ i' = i + 1
    /\ LET e == TraceLog[i] IN
       CASE e.cat = "reset" -> cls' = << >> /\ bad' = bad
         \* marks which storages the execution RETURNED (used by the harness to see whether a rejected operation can reach them)
         [] e.cat = "result" -> cls' = cls /\ bad' = bad
         [] e.cat = "input" -> cls' = Update(cls, SeqSet(e.outs), "T") /\ bad' = bad
         [] OTHER ->
              LET ev == Ev(e)
                  targets == SeqSet(e.outs) \cup (IF e.dst = 0 THEN {} ELSE {e.dst})
              IN  IF Accepts(ev)
                  THEN cls' = Update(cls, targets, Out(ev)) /\ bad' = bad
                  ELSE \* rejected: remember the line, keep going conservatively
                       cls' = Update(cls, targets, "T") /\ bad' = Append(bad, i)
Spec == Init /\ [][Next]_vars

Verdict == (i = Len(TraceLog) + 1) =>
              PrintT(<<"@@REC", ToJson([kind |-> "trace.verdict", consumed |-> i - 1, rejected |-> bad])>>)
=============================================================================
