-------------------------------- MODULE Tape --------------------------------
(***************************************************************************)
(* Autograd tapes of the hand-written Functions (AFB1D/AFB2D/SFB1D/SFB2D,   *)
(* FWD_J1/FWD_J2PLUS/INV_J1/INV_J2PLUS, ScatLayerj*_f, SmoothMagFn).         *)
(*                                                                         *)
(* A forward call records what its backward will need (filters, mode, the   *)
(* input shape, layout options, phases of the modulus) in ITS OWN context;  *)
(* a backward pass reads the context of the call it differentiates, any     *)
(* number of times while the graph is retained, and writes nothing that a   *)
(* later backward (of this or another call) reads.  The VJP layers of C05 / *)
(* C06 / C09 decide what one backward of one call returns; this module is   *)
(* about the bookkeeping between several calls and several backward passes: *)
(*   Forward(c, m, x)     call c runs module object m on argument x         *)
(*   Backward(c, k, r)    call c is differentiated with cotangent set k,    *)
(*                        retaining the graph iff r                         *)
(* The negative models are the two ways seeded changes broke this:          *)
(*   StashOnModule  the state is kept on the module object / Function class *)
(*                  (a later forward overwrites it)                         *)
(*   SharedResult   a backward writes its result into a buffer shared by    *)
(*                  all calls of the same argument shape (a gradient handed *)
(*                  out earlier changes)                                    *)
(* TLC enumerates the behaviours; the harness replays them into the real    *)
(* modules and compares every gradient with the one obtained with one call  *)
(* per graph (harness/autogradchecks.py).                                   *)
(***************************************************************************)
EXTENDS TapeCore, TLC, Json

\* state machine, invariants and negative models: module TapeCore (shared with the TLAPS proofs of TapeProofs)

Complete == Len(hist) = Depth
\* behaviours worth replaying: at least one backward
EmitHist == (Complete /\ \E i \in DOMAIN hist : hist[i].a = "backward") =>
                PrintT(<<"@@REC", ToJson([kind |-> "tape.history", hist |-> hist])>>)
=============================================================================
