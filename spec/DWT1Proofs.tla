----------------------------- MODULE DWT1Proofs -----------------------------
(***************************************************************************)
(* For ALL signal lengths N >= 1 and ALL even filter lengths L >= 2: the    *)
(* scalar source maps of the code's one-level analysis (pad amounts from    *)
(* dwt_coeff_len, index vector of the pad, flipped stored taps, stride-2     *)
(* correlation) and synthesis (transposed convolution with crop L-2, or the  *)
(* wrap-around index_add of periodization) are those of PyWavelets, and the  *)
(* output lengths agree.  TLC confirms within its bounds (MC_DWT1_Ops,       *)
(* invariant ScalarFormOK) that the operator tensors of module DWT1, built   *)
(* stage by stage, are the tensors of these scalar maps; the conformance     *)
(* layers bind those tensors to the code.  Checked by tlapm                  *)
(* (harness/proofs.py: ./check selftest and the thorough tiers of C01/C10).  *)
(***************************************************************************)
EXTENDS DWT1Src, IdxProofs

EvenPos == {L \in Pos : L % 2 = 0}
NPModes == Modes \ {"periodization"}

LEMMA Half == \A a \in Int, q \in Int : \A r \in 0 .. 1 : a = 2 * q + r => (a \div 2 = q /\ a % 2 = r)
  <1> TAKE a \in Int, q \in Int
  <1> TAKE r \in 0 .. 1
  <1> HAVE a = 2 * q + r
  <1>0. 2 \in Pos  BY DEF Pos
  <1>1. a % 2 = r  BY <1>0, ModUnique
  <1>2. a = 2 * (a \div 2) + (a % 2) /\ a \div 2 \in Int  BY <1>0, DivMod
  <1> DEFINE d == a \div 2
  <1>3. a = 2 * d + r /\ d \in Int /\ a = 2 * q + r /\ r \in Int  BY <1>1, <1>2
  <1> HIDE DEF d
  <1>4. d = q  BY ONLY <1>3, q \in Int, a \in Int
  <1> QED BY <1>1, <1>4 DEF d

LEMMA EvenHalf == \A L \in EvenPos : L \div 2 \in Pos /\ L = 2 * (L \div 2)
  <1> TAKE L \in EvenPos
  <1>1. L \in Int /\ 2 \in Pos /\ L % 2 = 0 /\ L >= 1  BY DEF EvenPos, Pos
  <1>2. L = 2 * (L \div 2) + (L % 2) /\ L \div 2 \in Int  BY <1>1, DivMod
  <1> DEFINE h == L \div 2
  <1>3. L = 2 * h /\ h \in Int /\ L >= 1 /\ L \in Int  BY <1>1, <1>2
  <1> HIDE DEF h
  <1>4. h \in Pos  BY ONLY <1>3 DEF Pos
  <1> QED BY <1>3, <1>4 DEF h

(* the pad amounts of afb1d: L-2 in front, L-2 or L-1 behind *)
LEMMA PadAmounts ==
    \A N \in Pos, L \in EvenPos, mode \in NPModes :
        /\ DwtCoeffLen(N, L, mode) = (N \div 2) + (L \div 2) - 1 + (N % 2)
        /\ ImplAPads(N, L, mode).lo = L - 2
        /\ ImplAPads(N, L, mode).p = 2 * (L - 2) + (N % 2)
        /\ ImplAPads(N, L, mode).hi = L - 2 + (N % 2)
  <1> TAKE N \in Pos, L \in EvenPos, mode \in NPModes
  <1> DEFINE h == L \div 2
  <1> DEFINE r == N % 2
  <1> DEFINE g == N \div 2
  <1> DEFINE f == N + L - 1
  <1> DEFINE o == f \div 2
  <1> DEFINE p == 2 * (o - 1) - N + L
  <1> DEFINE lo == p \div 2
  <1> DEFINE hi == (p + 1) \div 2
  <1>1. L = 2 * h /\ h \in Pos  BY EvenHalf
  <1>2. N = 2 * g + r /\ r \in 0 .. 1 /\ g \in Int /\ N \in Int
    <2>1. 2 \in Pos /\ N \in Int  BY DEF Pos
    <2> QED BY <2>1, DivMod
  <1>3. DwtCoeffLen(N, L, mode) = o  BY DEF DwtCoeffLen, NPModes, Modes
  <1>4. ImplAPads(N, L, mode) = [p |-> p, lo |-> lo, hi |-> hi]  BY <1>3 DEF ImplAPads
  <1>5. h \in Int /\ L \in Int  BY <1>1 DEF Pos, EvenPos
  <1> HIDE DEF h, r, g
  <1>6. o = g + h - 1 + r
    <2> DEFINE q == g + h - 1 + r
    <2> DEFINE z == 1 - r
    <2>1. f = 2 * q + z /\ f \in Int /\ q \in Int /\ z \in 0 .. 1  BY ONLY <1>1, <1>2, <1>5
    <2> HIDE DEF f, q, z
    <2>2. f \div 2 = q  BY <2>1, Half
    <2> QED BY <2>2 DEF q
  <1> HIDE DEF o
  <1>7. p = 2 * (L - 2) + r /\ p \in Int  BY ONLY <1>1, <1>2, <1>5, <1>6
  <1>8. lo = L - 2
    <2> DEFINE q == L - 2
    <2>1. p = 2 * q + r /\ p \in Int /\ q \in Int /\ r \in 0 .. 1  BY ONLY <1>7, <1>5, <1>2
    <2> HIDE DEF p, q
    <2>2. p \div 2 = q  BY <2>1, Half
    <2> QED BY <2>2 DEF q
  <1>9. hi = L - 2 + r
    <2> DEFINE q == L - 2 + r
    <2> DEFINE z == 1 - r
    <2> DEFINE e == p + 1
    <2>1. e = 2 * q + z /\ e \in Int /\ q \in Int /\ z \in 0 .. 1  BY ONLY <1>7, <1>5, <1>2
    <2> HIDE DEF p, q, z, e
    <2>2. e \div 2 = q  BY <2>1, Half
    <2> QED BY <2>2 DEF q, e
  <1> QED BY <1>3, <1>4, <1>6, <1>7, <1>8, <1>9 DEF h, r, g

LEMMA ModEqZero == \A a \in Int, b \in Pos : \A q \in 0 .. (b - 1) : (a % b = q) <=> ((a - q) % b = 0)
  <1> TAKE a \in Int, b \in Pos
  <1> TAKE q \in 0 .. (b - 1)
  <1>0. a - q \in Int /\ 0 \in 0 .. (b - 1) /\ q \in Int  BY DEF Pos
  <1>1. ASSUME a % b = q PROVE (a - q) % b = 0
    <2>1. a = b * (a \div b) + (a % b) /\ a \div b \in Int  BY DivMod
    <2> DEFINE d == a \div b
    <2> DEFINE c == a - q
    <2>2. c = b * d + 0 /\ d \in Int /\ c \in Int
      <3> DEFINE bd == b * d
      <3>1. a = bd + q /\ bd \in Int  BY <2>1, <1>1 DEF Pos
      <3> HIDE DEF bd
      <3>2. c = bd + 0  BY ONLY <3>1, <1>0
      <3> QED BY <3>2, <2>1, <1>0 DEF bd
    <2> HIDE DEF d, c
    <2>3. c % b = 0  BY <2>2, <1>0, ModUnique
    <2> QED BY <2>3 DEF c
  <1>2. ASSUME (a - q) % b = 0 PROVE a % b = q
    <2> DEFINE c == a - q
    <2>1. c = b * (c \div b) + (c % b) /\ c \div b \in Int
      <3> HIDE DEF c
      <3> QED BY <1>0, DivMod DEF c
    <2> DEFINE e == c \div b
    <2>2. a = b * e + q /\ e \in Int
      <3> DEFINE be == b * e
      <3>1. c = be + 0 /\ be \in Int  BY <2>1, <1>2 DEF Pos
      <3> HIDE DEF be, e
      <3>2. a = be + q  BY ONLY <3>1, <1>0, a \in Int
      <3> QED BY <3>2, <2>1 DEF be, e
    <2> HIDE DEF e
    <2> QED BY <2>2, ModUnique
  <1> QED BY <1>1, <1>2

(* ----------------------------------------------------------------------- *)
(* C01, one level, every size: the code produces as many coefficients as    *)
(* pywt and multiplies every tap with the sample pywt multiplies it with    *)
(* ----------------------------------------------------------------------- *)
THEOREM AnalysisLenAll ==
    \A N \in Pos, L \in EvenPos, mode \in Modes : ImplACount(mode, N, L) = RefALen(mode, N, L)
  <1> TAKE N \in Pos, L \in EvenPos, mode \in Modes
  <1> DEFINE h == L \div 2
  <1> DEFINE r == N % 2
  <1> DEFINE g == N \div 2
  <1>1. L = 2 * h /\ h \in Pos /\ h \in Int /\ L \in Int  BY EvenHalf DEF Pos, EvenPos
  <1>2. N = 2 * g + r /\ r \in 0 .. 1 /\ g \in Int /\ N \in Int /\ N >= 1
    <2>1. 2 \in Pos /\ N \in Int /\ N >= 1  BY DEF Pos
    <2> QED BY <2>1, DivMod
  <1>3. CASE mode = "periodization"
    <2> DEFINE n == (N + r) + 2 * (h - 1)
    <2> DEFINE a == n - L
    <2> DEFINE q == g + r - 1
    <2>1. ImplACount(mode, N, L) = CorrLen(n, L, 2)  BY <1>3 DEF ImplACount
    <2>2. a = 2 * q + 0 /\ a \in Int /\ q \in Int /\ 0 \in 0 .. 1 /\ n >= L /\ q >= 0
      <3> HIDE DEF h, r, g
      <3>0. r \in Int /\ h \in Int /\ g \in Int /\ (r = 0 \/ r = 1) /\ 0 \in 0 .. 1  BY <1>1, <1>2
      <3>1. g + r >= 1  BY ONLY <1>2, <3>0
      <3>2. a = 2 * q + 0 /\ a \in Int /\ q \in Int  BY ONLY <1>1, <1>2, <3>0
      <3>3. n >= L /\ q >= 0  BY ONLY <1>1, <1>2, <3>0, <3>1
      <3> QED BY <3>0, <3>2, <3>3
    <2>3. a \div 2 = q
      <3> HIDE DEF a, q
      <3> QED BY <2>2, Half
    <2>4. CorrLen(n, L, 2) = q + 1
      <3>0. n \in Int /\ L \in Int /\ n >= L  BY <2>2, <1>1, <1>2
      <3>1. ~(n < L)
        <4> HIDE DEF n
        <4> QED BY ONLY <3>0
      <3>2. CorrLen(n, L, 2) = ((n - L) \div 2) + 1  BY <3>1 DEF CorrLen
      <3> QED BY <3>2, <2>3
    <2> DEFINE e == N + 1
    <2> DEFINE z == 1 - r
    <2> DEFINE w == g + r
    <2>5. e = 2 * w + z /\ e \in Int /\ w \in Int /\ z \in 0 .. 1
      <3> HIDE DEF r, g
      <3> QED BY ONLY <1>2
    <2>6. e \div 2 = w
      <3> HIDE DEF e, w, z
      <3> QED BY <2>5, Half
    <2>7. RefALen(mode, N, L) = e \div 2  BY <1>3 DEF RefALen, DwtCoeffLen
    <2>8. q + 1 = w
      <3> HIDE DEF r, g
      <3> QED BY ONLY <1>2
    <2> QED BY <2>1, <2>4, <2>6, <2>7, <2>8
  <1>4. CASE mode # "periodization"
    <2>0. mode \in NPModes  BY <1>4 DEF NPModes
    <2>1. /\ DwtCoeffLen(N, L, mode) = g + h - 1 + r
          /\ ImplAPads(N, L, mode).lo = L - 2
          /\ ImplAPads(N, L, mode).p = 2 * (L - 2) + r
          /\ ImplAPads(N, L, mode).hi = L - 2 + r
      BY <2>0, PadAmounts
    <2> DEFINE n == N + 2 * (L - 2) + r
    <2>2. ImplACount(mode, N, L) = CorrLen(n, L, 2)
      <3>1. CASE mode = "zero"
        <4> DEFINE pp == 2 * (L - 2) + r
        <4> DEFINE qq == L - 2
        <4>1. pp = 2 * qq + r /\ pp \in Int /\ qq \in Int /\ r \in 0 .. 1  BY <1>1, <1>2
        <4>2. pp % 2 = r
          <5> HIDE DEF pp, qq, r
          <5> QED BY <4>1, Half
        <4>3. (IF pp % 2 = 1 THEN 1 ELSE 0) = r  BY <4>2, <1>2
        <4>4. N + (IF pp % 2 = 1 THEN 1 ELSE 0) + 2 * (L - 2) = n
          <5> HIDE DEF pp, r
          <5> QED BY ONLY <4>3, <1>1, <1>2
        <4> QED BY <3>1, <2>1, <4>4, <1>4 DEF ImplACount
      <3>2. CASE mode # "zero"
        <4>1. N + (L - 2) + (L - 2 + r) = n
          <5> HIDE DEF r
          <5> QED BY ONLY <1>1, <1>2
        <4> QED BY <3>2, <2>1, <4>1, <1>4 DEF ImplACount
      <3> QED BY <3>1, <3>2
    <2> DEFINE a == n - L
    <2> DEFINE q == g + r + h - 2
    <2>3. a = 2 * q + 0 /\ a \in Int /\ q \in Int /\ 0 \in 0 .. 1 /\ n >= L /\ q >= 0
      <3> HIDE DEF h, r, g
      <3>0. r \in Int /\ h \in Int /\ g \in Int /\ (r = 0 \/ r = 1) /\ 0 \in 0 .. 1 /\ h >= 1  BY <1>1, <1>2 DEF Pos
      <3>1. g + r >= 1  BY ONLY <1>2, <3>0
      <3>2. a = 2 * q + 0 /\ a \in Int /\ q \in Int  BY ONLY <1>1, <1>2, <3>0
      <3>3. n >= L /\ q >= 0  BY ONLY <1>1, <1>2, <3>0, <3>1
      <3> QED BY <3>0, <3>2, <3>3
    <2>4. a \div 2 = q
      <3> HIDE DEF a, q
      <3> QED BY <2>3, Half
    <2>5. CorrLen(n, L, 2) = q + 1
      <3>0. n \in Int /\ L \in Int /\ n >= L  BY <2>3, <1>1, <1>2
      <3>1. ~(n < L)
        <4> HIDE DEF n
        <4> QED BY ONLY <3>0
      <3>2. CorrLen(n, L, 2) = ((n - L) \div 2) + 1  BY <3>1 DEF CorrLen
      <3> QED BY <3>2, <2>4
    <2>6. q + 1 = g + h - 1 + r
      <3> HIDE DEF h, r, g
      <3> QED BY ONLY <1>1, <1>2
    <2> QED BY <2>1, <2>2, <2>5, <2>6 DEF RefALen
  <1> QED BY <1>3, <1>4

THEOREM AnalysisSrcAll ==
    \A N \in Pos, L \in EvenPos, mode \in Modes :
        ~ImplARaises(mode, N, L) =>
            \A m \in 0 .. (ImplACount(mode, N, L) - 1), t \in 0 .. (L - 1) :
                ImplASrc(mode, N, L, m, t) = RefASrc(mode, N, L, m, t)
  <1> TAKE N \in Pos, L \in EvenPos, mode \in Modes
  <1> HAVE ~ImplARaises(mode, N, L)
  <1> TAKE m \in 0 .. (ImplACount(mode, N, L) - 1), t \in 0 .. (L - 1)
  <1> DEFINE h == L \div 2
  <1> DEFINE r == N % 2
  <1> DEFINE g == N \div 2
  <1> DEFINE pos == 2 * m + (L - 1 - t)
  <1>1. L = 2 * h /\ h \in Pos /\ h \in Int /\ L \in Int  BY EvenHalf DEF Pos, EvenPos
  <1>2. N = 2 * g + r /\ r \in 0 .. 1 /\ g \in Int /\ N \in Int /\ N >= 1
    <2>1. 2 \in Pos /\ N \in Int /\ N >= 1  BY DEF Pos
    <2> QED BY <2>1, DivMod
  <1>3. ImplACount(mode, N, L) = RefALen(mode, N, L)  BY AnalysisLenAll
  <1>4. CASE mode = "periodization"
    <2>1. RefALen(mode, N, L) \in Nat  BY CoeffLenFacts DEF RefALen, EvenPos
    <2>2. m \in Int /\ t \in Int  BY <1>3, <2>1
    <2>3. pos - (h - 1) = h + 2 * m - t
      <3> HIDE DEF h
      <3> QED BY ONLY <1>1, <2>2
    <2> DEFINE Ne == N + (N % 2)
    <2> DEFINE q == PMod(h + 2 * m - t, Ne)
    <2>4. ImplASrc(mode, N, L, m, t) = IF q < N THEN q ELSE N - 1  BY <1>4, <2>3 DEF ImplASrc
    <2>5. RefASrc(mode, N, L, m, t) = Min2(q, N - 1)  BY <1>4 DEF RefASrc, SrcExt
    <2>6. q \in Int
      <3>1. Ne \in Pos  BY <1>2 DEF Pos
      <3>2. h + 2 * m - t \in Int  BY <1>1, <2>2
      <3> HIDE DEF Ne, h
      <3> QED BY <3>1, <3>2, ModRange DEF PMod, Pos
    <2> HIDE DEF q
    <2>7. (IF q < N THEN q ELSE N - 1) = Min2(q, N - 1)  BY <2>6, <1>2 DEF Min2
    <2> QED BY <2>4, <2>5, <2>7
  <1>5. CASE mode # "periodization"
    <2>0. mode \in NPModes  BY <1>5 DEF NPModes
    <2>1. /\ DwtCoeffLen(N, L, mode) = g + h - 1 + r
          /\ ImplAPads(N, L, mode).lo = L - 2
          /\ ImplAPads(N, L, mode).hi = L - 2 + r
      BY <2>0, PadAmounts
    <2>2. m \in Int /\ t \in Int /\ m >= 0 /\ m <= g + h - 2 + r /\ t >= 0 /\ t <= L - 1
      <3> DEFINE k == g + h - 1 + r
      <3>1. k \in Int /\ L \in Int  BY <1>1, <1>2
      <3>2. ImplACount(mode, N, L) = k  BY <1>3, <2>1 DEF RefALen
      <3>3. m \in 0 .. (k - 1) /\ t \in 0 .. (L - 1)  BY <3>2
      <3> HIDE DEF k
      <3>4. m \in Int /\ t \in Int /\ m >= 0 /\ m <= k - 1 /\ t >= 0 /\ t <= L - 1  BY ONLY <3>1, <3>3
      <3>5. k - 1 = g + h - 2 + r
        <4> HIDE DEF g, h, r
        <4> QED BY ONLY <1>1, <1>2 DEF k
      <3> QED BY <3>4, <3>5
    <2> DEFINE s == pos - (L - 2)
    <2>3. s = 2 * m + 1 - t /\ s \in Int  BY <1>1, <2>2
    <2>4. RefASrc(mode, N, L, m, t) = SrcExt(mode, N, s)  BY <1>5, <2>3 DEF RefASrc
    <2>5. CASE mode = "zero"
      <3>1. ImplASrc(mode, N, L, m, t) = IF s < 0 \/ s >= N THEN -1 ELSE s  BY <2>5, <2>1 DEF ImplASrc
      <3>2. SrcExt(mode, N, s) = IF s >= 0 /\ s < N THEN s ELSE -1  BY <2>5 DEF SrcExt
      <3> HIDE DEF s
      <3>3. (IF s < 0 \/ s >= N THEN -1 ELSE s) = (IF s >= 0 /\ s < N THEN s ELSE -1)  BY ONLY <2>3, <1>2
      <3> QED BY <3>1, <3>2, <3>3, <2>4
    <2>6. CASE mode = "symmetric"
      BY <2>6, <2>1, <2>3, <2>4 DEF ImplASrc, SrcExt, NpReflectHalf
    <2>7. CASE mode = "periodic"
      BY <2>7, <2>1, <2>3, <2>4 DEF ImplASrc, SrcExt
    <2>8. CASE mode = "reflect"
      <3> DEFINE lo == L - 2
      <3> DEFINE hi == L - 2 + r
      <3>1. TorchReflectOk(N, lo, hi)  BY <2>8, <2>1 DEF ImplARaises
      <3>2. lo \in Nat /\ hi \in Nat  BY <1>1, <1>2 DEF Pos
      <3>3. pos \in 0 .. (N + lo + hi - 1)
        <4> HIDE DEF h, r, g
        <4> QED BY ONLY <1>1, <1>2, <2>2
      <3>4. TorchReflectPad(N, lo, hi)[pos] = SrcExt("reflect", N, pos - lo)
        <4> HIDE DEF lo, hi, pos
        <4> QED BY <3>1, <3>2, <3>3, HelperTorchReflectIsReflect
      <3>5. TorchReflectPad(N, lo, hi)[pos] = IF s < 0 THEN -s ELSE IF s >= N THEN 2 * N - 2 - s ELSE s
        <4> HIDE DEF pos
        <4> QED BY <3>3 DEF TorchReflectPad
      <3>6. ImplASrc(mode, N, L, m, t) = IF s < 0 THEN -s ELSE IF s >= N THEN 2 * N - 2 - s ELSE s
        BY <2>8, <2>1 DEF ImplASrc
      <3> QED BY <2>8, <2>4, <3>4, <3>5, <3>6
    <2> QED BY <2>5, <2>6, <2>7, <2>8, <2>0 DEF NPModes, Modes
  <1> QED BY <1>4, <1>5

(* ----------------------------------------------------------------------- *)
(* C10, one level, every size                                               *)
(* ----------------------------------------------------------------------- *)
THEOREM SynthesisAll ==
    \A M \in Pos, L \in EvenPos, mode \in Modes :
        /\ ImplSLenS(mode, M, L) = RefSLenS(mode, M, L)
        /\ \A q \in 0 .. (RefSLenS(mode, M, L) - 1), i \in 0 .. (L - 1), k \in 0 .. (M - 1) :
               ImplSCoef(mode, M, L, q, i, k) = RefSCoef(mode, M, L, q, i, k)
  <1> TAKE M \in Pos, L \in EvenPos, mode \in Modes
  <1>0. L \in Int /\ M \in Int /\ M >= 1 /\ L >= 1  BY DEF Pos, EvenPos
  <1>1. ImplSLenS(mode, M, L) = RefSLenS(mode, M, L)
    <2>1. 2 * (M - 1) + L - 2 * (L - 2) = 2 * M - L + 2  BY ONLY <1>0
    <2> QED BY <2>1 DEF ImplSLenS, RefSLenS
  <1>2. ASSUME NEW q \in 0 .. (RefSLenS(mode, M, L) - 1), NEW i \in 0 .. (L - 1), NEW k \in 0 .. (M - 1)
        PROVE  ImplSCoef(mode, M, L, q, i, k) = RefSCoef(mode, M, L, q, i, k)
    <2>1. CASE mode # "periodization"
      <3>1. RefSLenS(mode, M, L) = 2 * M - L + 2  BY <2>1 DEF RefSLenS
      <3>2. q \in Int /\ i \in Int /\ k \in Int /\ i >= 0 /\ i < L  BY <1>0, <3>1
      <3> DEFINE u == q + (L - 2) - 2 * k
      <3>3. ImplSCoef(mode, M, L, q, i, k) = IF u >= 0 /\ u < L /\ u = i THEN 1 ELSE 0  BY <2>1 DEF ImplSCoef
      <3>4. RefSCoef(mode, M, L, q, i, k) = IF i = q - 2 * k + L - 2 THEN 1 ELSE 0  BY <2>1 DEF RefSCoef
      <3>5. (u >= 0 /\ u < L /\ u = i) <=> (i = q - 2 * k + L - 2)  BY ONLY <3>2, <1>0
      <3> QED BY <3>3, <3>4, <3>5
    <2>2. CASE mode = "periodization"
      <3> DEFINE h == L \div 2
      <3> DEFINE b == 2 * M
      <3> DEFINE a == i + 2 * k - (h - 1)
      <3>0. L = 2 * h /\ h \in Pos /\ h \in Int  BY EvenHalf DEF Pos
      <3>1. RefSLenS(mode, M, L) = b  BY <2>2 DEF RefSLenS
      <3>2. b \in Pos /\ q \in 0 .. (b - 1) /\ a \in Int /\ q \in Int /\ i \in Int /\ k \in Int
        BY <1>0, <3>0, <3>1 DEF Pos
      <3>3. ImplSCoef(mode, M, L, q, i, k) = IF a % b = q THEN 1 ELSE 0  BY <2>2 DEF ImplSCoef, PMod
      <3>4. 2 * k + i - (h - 1) - q = a - q
        <4> HIDE DEF h
        <4> QED BY ONLY <3>2, <3>0
      <3>5. RefSCoef(mode, M, L, q, i, k) = IF (a - q) % b = 0 THEN 1 ELSE 0  BY <2>2, <3>4 DEF RefSCoef, PMod
      <3>6. (a % b = q) <=> ((a - q) % b = 0)
        <4> HIDE DEF a, b
        <4> QED BY <3>2, ModEqZero
      <3> QED BY <3>3, <3>5, <3>6
    <2> QED BY <2>1, <2>2
  <1> QED BY <1>1, <1>2

(* C02 / C10 between levels: reconstructing one level gives back N samples, or N+1 when N is odd - the one sample  *)
(* DWT1DInverse / DWTInverse drop ("if ll is longer than the next band, unpad") is all that can ever be in excess    *)
THEOREM RoundTripLen ==
    \A N \in Pos, L \in EvenPos, mode \in Modes : RefSLenS(mode, RefALen(mode, N, L), L) = N + (N % 2)
  <1> TAKE N \in Pos, L \in EvenPos, mode \in Modes
  <1> DEFINE h == L \div 2
  <1> DEFINE r == N % 2
  <1> DEFINE g == N \div 2
  <1>1. L = 2 * h /\ h \in Int /\ L \in Int  BY EvenHalf DEF Pos, EvenPos
  <1>2. N = 2 * g + r /\ r \in 0 .. 1 /\ g \in Int /\ N \in Int
    <2>1. 2 \in Pos /\ N \in Int  BY DEF Pos
    <2> QED BY <2>1, DivMod
  <1>3. CASE mode = "periodization"
    <2>1. 2 * RefALen(mode, N, L) = N + r  BY <1>3, CoeffLenFacts DEF RefALen, EvenPos
    <2> QED BY <2>1, <1>3 DEF RefSLenS
  <1>4. CASE mode # "periodization"
    <2>0. mode \in NPModes  BY <1>4 DEF NPModes
    <2>1. RefALen(mode, N, L) = g + h - 1 + r  BY <2>0, PadAmounts DEF RefALen
    <2>2. RefSLenS(mode, RefALen(mode, N, L), L) = 2 * (g + h - 1 + r) - L + 2  BY <2>1, <1>4 DEF RefSLenS
    <2>3. 2 * (g + h - 1 + r) - L + 2 = N + r
      <3> HIDE DEF g, h, r
      <3> QED BY ONLY <1>1, <1>2
    <2> QED BY <2>2, <2>3
  <1> QED BY <1>3, <1>4
=============================================================================
