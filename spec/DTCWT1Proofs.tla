---------------------------- MODULE DTCWT1Proofs ----------------------------
(***************************************************************************)
(* C03, level >= 2, one axis, ALL sizes: for every column length r = 4k and  *)
(* every even filter length m the code's coldfilt produces r/2 outputs like  *)
(* the reference and reads, for every tap of both trees, the position of the *)
(* extended column the reference reads.                                      *)
(***************************************************************************)
EXTENDS DTCWT1Src, DWT1Proofs

Trees == {"a", "b"}

THEOREM ColdCountAll ==
    \A k \in Pos, m2 \in Pos :
        /\ RefColdCount(4 * k, 2 * m2) = 2 * k
        /\ ImplColdCount(4 * k, 2 * m2) = 2 * k
  <1> TAKE k \in Pos, m2 \in Pos
  <1> DEFINE r == 4 * k
  <1> DEFINE m == 2 * m2
  <1>0. k \in Int /\ m2 \in Int /\ k >= 1 /\ m2 >= 1  BY DEF Pos
  <1>1. m \div 2 = m2
    <2>1. m = 2 * m2 + 0 /\ m \in Int /\ 0 \in 0 .. 1  BY <1>0
    <2> HIDE DEF m
    <2> QED BY <2>1, <1>0, Half
  <1>2. RefColdQ(r, m) = k + m2 - 1
    <2> DEFINE a == r + 2 * m - 2 - 5 - 1
    <2> DEFINE q == k + m2 - 2
    <2>1. a = 4 * q + 0 /\ a \in Int /\ q \in Int  BY <1>0
    <2>2. a \div 4 = q
      <3>1. 4 \in Pos /\ 0 \in 0 .. (4 - 1)  BY DEF Pos
      <3>2. a % 4 = 0
        <4> HIDE DEF a, q
        <4> QED BY <2>1, <3>1, ModUnique
      <3>3. a = 4 * (a \div 4) + (a % 4) /\ a \div 4 \in Int
        <4> HIDE DEF a
        <4> QED BY <2>1, <3>1, DivMod
      <3> DEFINE d == a \div 4
      <3>4. a = 4 * d /\ d \in Int /\ a = 4 * q /\ q \in Int /\ a \in Int  BY <3>2, <3>3, <2>1
      <3> HIDE DEF a, q, d
      <3>5. d = q  BY ONLY <3>4
      <3> QED BY <3>5 DEF d
    <2>3. RefColdQ(r, m) = (a \div 4) + 1  BY DEF RefColdQ
    <2> HIDE DEF a
    <2> QED BY <2>2, <2>3, <1>0
  <1>3. RefColdCount(r, m) = 2 * k
    <2>1. RefColdCount(r, m) = 2 * ((k + m2 - 1) - m2 + 1)  BY <1>1, <1>2 DEF RefColdCount
    <2>2. 2 * ((k + m2 - 1) - m2 + 1) = 2 * k  BY ONLY <1>0
    <2> QED BY <2>1, <2>2
  <1>4. ImplColdLa(r, m) = 2 * k + 2 * m2 - 1
    <2> DEFINE n1 == r + 2 * m
    <2> DEFINE a == n1 - 2 - 1
    <2> DEFINE q == 2 * k + 2 * m2 - 2
    <2>1. a = 2 * q + 1 /\ a \in Int /\ q \in Int /\ 1 \in 0 .. 1 /\ n1 > 2 /\ n1 \in Int  BY <1>0
    <2>2. a \div 2 = q
      <3> HIDE DEF a, q
      <3> QED BY <2>1, Half
    <2>3. ImplColdLa(r, m) = (a \div 2) + 1  BY <2>1 DEF ImplColdLa
    <2> HIDE DEF a
    <2>4. q + 1 = 2 * k + 2 * m2 - 1  BY ONLY <1>0
    <2> QED BY <2>2, <2>3, <2>4
  <1>5. ImplColdNv(r, m) = k
    <2> DEFINE la == 2 * k + 2 * m2 - 1
    <2> DEFINE a == la - m
    <2> DEFINE q == k - 1
    <2>1. a = 2 * q + 1 /\ a \in Int /\ q \in Int /\ 1 \in 0 .. 1 /\ ~(la < m) /\ la \in Int  BY <1>0
    <2>2. a \div 2 = q
      <3> HIDE DEF a, q
      <3> QED BY <2>1, Half
    <2>3. ImplColdNv(r, m) = (a \div 2) + 1  BY <1>4, <2>1 DEF ImplColdNv
    <2> HIDE DEF a
    <2> QED BY <2>2, <2>3, <1>0
  <1> QED BY <1>3, <1>5 DEF ImplColdCount

THEOREM ColdPosAll ==
    \A m2 \in Pos, tree \in Trees, v \in Int : \A t \in 0 .. (2 * m2 - 1) :
        ImplColdPos(2 * m2, tree, v, t) = RefColdPos(2 * m2, tree, v, t)
  <1> TAKE m2 \in Pos, tree \in Trees, v \in Int
  <1> TAKE t \in 0 .. (2 * m2 - 1)
  <1> DEFINE m == 2 * m2
  <1> DEFINE idx == t \div 2
  <1> DEFINE par == t % 2
  <1>0. m2 \in Int /\ t \in Int /\ v \in Int  BY DEF Pos
  <1>1. m \div 2 = m2
    <2>1. m = 2 * m2 + 0 /\ m \in Int /\ 0 \in 0 .. 1  BY <1>0
    <2> HIDE DEF m
    <2> QED BY <2>1, <1>0, Half
  <1>2. t = 2 * idx + par /\ par \in 0 .. 1 /\ idx \in Int
    <2>1. 2 \in Pos  BY DEF Pos
    <2> QED BY <2>1, <1>0, DivMod
  <1> DEFINE q == v + m2 - 1 - idx
  <1>3. RefColdPos(m, tree, v, t) =
            IF tree = "a" THEN (IF par = 0 THEN ColdT(q) - 1 ELSE ColdT(q) - 3)
            ELSE (IF par = 0 THEN ColdT(q) ELSE ColdT(q) - 2)
    BY <1>1 DEF RefColdPos
  <1>4. ImplColdPos(m, tree, v, t) = (IF tree = "a" THEN 2 ELSE 3) + 2 * (2 * v + (m - 1 - t))  BY DEF ImplColdPos
  <1>5. ColdT(q) = 5 + 4 * q  BY DEF ColdT
  <1> HIDE DEF idx, par, q
  <1>6. q = v + m2 - 1 - idx /\ q \in Int  BY <1>0, <1>2 DEF q
  <1>7. CASE tree = "a" /\ par = 0
    <2>1. 2 + 2 * (2 * v + (m - 1 - t)) = (5 + 4 * q) - 1  BY ONLY <1>0, <1>2, <1>6, <1>7
    <2> QED BY <1>3, <1>4, <1>5, <1>7, <2>1
  <1>8. CASE tree = "a" /\ par = 1
    <2>1. 2 + 2 * (2 * v + (m - 1 - t)) = (5 + 4 * q) - 3  BY ONLY <1>0, <1>2, <1>6, <1>8
    <2> QED BY <1>3, <1>4, <1>5, <1>8, <2>1
  <1>9. CASE tree = "b" /\ par = 0
    <2>1. 3 + 2 * (2 * v + (m - 1 - t)) = 5 + 4 * q  BY ONLY <1>0, <1>2, <1>6, <1>9
    <2> QED BY <1>3, <1>4, <1>5, <1>9, <2>1
  <1>10. CASE tree = "b" /\ par = 1
    <2>1. 3 + 2 * (2 * v + (m - 1 - t)) = (5 + 4 * q) - 2  BY ONLY <1>0, <1>2, <1>6, <1>10
    <2> QED BY <1>3, <1>4, <1>5, <1>10, <2>1
  <1> QED BY <1>2, <1>7, <1>8, <1>9, <1>10 DEF Trees

THEOREM ColdSrcAll ==
    \A k \in Pos, m2 \in Pos, tree \in Trees, v \in Int : \A t \in 0 .. (2 * m2 - 1) :
        ImplColdSrc(4 * k, 2 * m2, tree, v, t) = RefColdSrc(4 * k, 2 * m2, tree, v, t)
  BY ColdPosAll DEF ImplColdSrc, RefColdSrc

(* ----------------------------------------------------------------------- *)
(* C11, level >= 2, one axis, ALL sizes: for every even filter length m and *)
(* every output row y the code's colifilt reads, for every tap of both      *)
(* trees, the position of the extended column the reference reads (or       *)
(* neither uses that tap for that row).                                     *)
(* ----------------------------------------------------------------------- *)
THEOREM IfiltPosAll ==
    \A m2 \in Pos, hp \in BOOLEAN, tree \in Trees, y \in Nat : \A t \in 0 .. (2 * m2 - 1) :
        ImplIfiltPos(2 * m2, hp, tree, y, t) = RefIfiltPos(2 * m2, ~hp, tree, y, t)
  <1> TAKE m2 \in Pos, hp \in BOOLEAN, tree \in Trees, y \in Nat
  <1> TAKE t \in 0 .. (2 * m2 - 1)
  <1> DEFINE m == 2 * m2
  <1> DEFINE v == y \div 4
  <1> DEFINE g == y % 4
  <1> DEFINE idx == t \div 2
  <1> DEFINE par == t % 2
  <1> DEFINE e == m2 % 2
  <1> DEFINE q == v + m2 - 1 - idx
  <1>0. m2 \in Int /\ t \in Int /\ y \in Int /\ m2 >= 1 /\ t >= 0 /\ t <= 2 * m2 - 1  BY DEF Pos
  <1>1. m \div 2 = m2
    <2>1. m = 2 * m2 + 0 /\ m \in Int /\ 0 \in 0 .. 1  BY <1>0
    <2> HIDE DEF m
    <2> QED BY <2>1, <1>0, Half
  <1>2. t = 2 * idx + par /\ par \in 0 .. 1 /\ idx \in Int
    <2>1. 2 \in Pos  BY DEF Pos
    <2> QED BY <2>1, <1>0, DivMod
  <1>3. g \in 0 .. 3 /\ v \in Int
    <2>1. 4 \in Pos  BY DEF Pos
    <2> QED BY <2>1, <1>0, DivMod
  <1>4. e \in 0 .. 1
    <2>1. 2 \in Pos  BY DEF Pos
    <2> QED BY <2>1, <1>0, DivMod
  <1>5. q \in Int /\ idx >= 0 /\ idx <= m2 - 1
    <2> HIDE DEF idx, par, v
    <2>1. idx >= 0 /\ idx <= m2 - 1  BY ONLY <1>0, <1>2
    <2> QED BY <2>1, <1>0, <1>2, <1>3 DEF q
  <1> DEFINE kindOdd == IF e = 0 THEN g >= 2 ELSE g < 2
  <1> DEFINE num == IF kindOdd THEN m - 2 - t ELSE m - 1 - t
  <1> DEFINE gtree == IF g % 2 = 0 THEN "a" ELSE "b"
  <1> DEFINE w == m2 - 1 - idx
  (* the validity test of the code: the tap has the parity of the sub-filter, and then num/2 = m2-1-idx *)
  <1>6. ASSUME kindOdd <=> (par = 0)
        PROVE  ImplIfiltPos(m, hp, tree, y, t) = IF gtree # tree THEN -1 ELSE IfiltStart(e = 0, hp, g) + 2 * q
    <2>1. num = 2 * w + 0 /\ num \in Int /\ w \in Int /\ 0 \in 0 .. 1 /\ w >= 0 /\ w < m2
      <3> HIDE DEF idx, par, kindOdd
      <3>1. CASE kindOdd
        <4>1. par = 0  BY <3>1, <1>6
        <4> QED BY ONLY <4>1, <3>1, <1>0, <1>2, <1>5 DEF num, w, m
      <3>2. CASE ~kindOdd
        <4>1. par = 1  BY <3>2, <1>6, <1>2
        <4> QED BY ONLY <4>1, <3>2, <1>0, <1>2, <1>5 DEF num, w, m
      <3> QED BY <3>1, <3>2
    <2>2. num \div 2 = w /\ num % 2 = 0
      <3> HIDE DEF num, w
      <3> QED BY <2>1, Half
    <2>3. ~(num < 0 \/ num % 2 # 0 \/ (num \div 2) >= m2)
      <3> HIDE DEF num, w
      <3> QED BY ONLY <2>1, <2>2, <1>0
    <2>4. ImplIfiltPos(m, hp, tree, y, t) =
              IF gtree # tree THEN -1 ELSE IfiltStart(e = 0, hp, g) + 2 * (v + w)
      BY <1>1, <2>2, <2>3 DEF ImplIfiltPos
    <2>5. v + w = q  BY <1>3, <1>5, <1>0 DEF q, w
    <2> QED BY <2>4, <2>5
  <1>7. ASSUME ~(kindOdd <=> (par = 0))
        PROVE  ImplIfiltPos(m, hp, tree, y, t) = -1
    <2> DEFINE w2 == IF kindOdd THEN m2 - 2 - idx ELSE m2 - 1 - idx
    <2>1. num = 2 * w2 + 1 /\ num \in Int /\ w2 \in Int /\ 1 \in 0 .. 1
      <3> HIDE DEF idx, par, kindOdd
      <3>1. CASE kindOdd
        <4>1. par = 1  BY <3>1, <1>7, <1>2
        <4> QED BY ONLY <4>1, <3>1, <1>0, <1>2, <1>5 DEF num, w2, m
      <3>2. CASE ~kindOdd
        <4>1. par = 0  BY <3>2, <1>7
        <4> QED BY ONLY <4>1, <3>2, <1>0, <1>2, <1>5 DEF num, w2, m
      <3> QED BY <3>1, <3>2
    <2>2. num % 2 = 1
      <3> HIDE DEF num, w2
      <3> QED BY <2>1, Half
    <2>3. ImplIfiltPos(m, hp, tree, y, t) = -1  BY <1>1, <2>2 DEF ImplIfiltPos
    <2> QED BY <2>3
  <1>8. ImplIfiltPos(m, hp, tree, y, t) =
            IF gtree # tree THEN -1
            ELSE IF kindOdd <=> (par = 0) THEN IfiltStart(e = 0, hp, g) + 2 * q ELSE -1
    BY <1>6, <1>7
  <1>9. RefIfiltPos(m, ~hp, tree, y, t) =
          IF e = 0 THEN
            LET T  == 3 + 2 * q
                Ta == IF ~hp THEN T ELSE T - 1
                Tb == IF ~hp THEN T - 1 ELSE T
            IN  IF tree = "a"
                THEN (IF g = 0 /\ par = 1 THEN Tb - 2 ELSE IF g = 2 /\ par = 0 THEN Tb ELSE -1)
                ELSE (IF g = 1 /\ par = 1 THEN Ta - 2 ELSE IF g = 3 /\ par = 0 THEN Ta ELSE -1)
          ELSE
            LET T  == 2 + 2 * q
                Ta == IF ~hp THEN T ELSE T - 1
                Tb == IF ~hp THEN T - 1 ELSE T
            IN  IF tree = "a"
                THEN (IF g = 0 /\ par = 0 THEN Tb ELSE IF g = 2 /\ par = 1 THEN Tb ELSE -1)
                ELSE (IF g = 1 /\ par = 0 THEN Ta ELSE IF g = 3 /\ par = 1 THEN Ta ELSE -1)
    BY <1>1 DEF RefIfiltPos
  <1>10. gtree = (IF g = 0 \/ g = 2 THEN "a" ELSE "b")
    <2>1. CASE g = 0  BY <2>1
    <2>2. CASE g = 1  BY <2>2
    <2>3. CASE g = 2  BY <2>3
    <2>4. CASE g = 3  BY <2>4
    <2> QED BY <1>3, <2>1, <2>2, <2>3, <2>4
  <1> HIDE DEF g, par, e, q, idx, v, m, gtree
  <1>11. (IF (IF g = 0 \/ g = 2 THEN "a" ELSE "b") # tree THEN -1
          ELSE IF (IF e = 0 THEN g >= 2 ELSE g < 2) <=> (par = 0) THEN IfiltStart(e = 0, hp, g) + 2 * q ELSE -1)
         = (IF e = 0 THEN
            LET T  == 3 + 2 * q
                Ta == IF ~hp THEN T ELSE T - 1
                Tb == IF ~hp THEN T - 1 ELSE T
            IN  IF tree = "a"
                THEN (IF g = 0 /\ par = 1 THEN Tb - 2 ELSE IF g = 2 /\ par = 0 THEN Tb ELSE -1)
                ELSE (IF g = 1 /\ par = 1 THEN Ta - 2 ELSE IF g = 3 /\ par = 0 THEN Ta ELSE -1)
          ELSE
            LET T  == 2 + 2 * q
                Ta == IF ~hp THEN T ELSE T - 1
                Tb == IF ~hp THEN T - 1 ELSE T
            IN  IF tree = "a"
                THEN (IF g = 0 /\ par = 0 THEN Tb ELSE IF g = 2 /\ par = 1 THEN Tb ELSE -1)
                ELSE (IF g = 1 /\ par = 0 THEN Ta ELSE IF g = 3 /\ par = 1 THEN Ta ELSE -1))
    <2>1. g \in 0 .. 3 /\ par \in 0 .. 1 /\ e \in 0 .. 1 /\ q \in Int /\ tree \in {"a", "b"} /\ hp \in BOOLEAN
      BY <1>2, <1>3, <1>4, <1>5 DEF Trees
    <2>2. CASE e = 0 /\ hp = TRUE   BY ONLY <2>1, <2>2 DEF IfiltStart
    <2>3. CASE e = 0 /\ hp = FALSE
      <3>0. ~hp  BY <2>3
      <3>1. CASE tree = "a"
        <4>0. CASE g = 0  BY ONLY <2>1, <2>3, <3>0, <3>1, <4>0 DEF IfiltStart
        <4>1. CASE g = 1  BY ONLY <2>1, <2>3, <3>0, <3>1, <4>1 DEF IfiltStart
        <4>2. CASE g = 2  BY ONLY <2>1, <2>3, <3>0, <3>1, <4>2 DEF IfiltStart
        <4>3. CASE g = 3  BY ONLY <2>1, <2>3, <3>0, <3>1, <4>3 DEF IfiltStart
        <4> QED BY <2>1, <4>0, <4>1, <4>2, <4>3
      <3>2. CASE tree = "b"
        <4>0. CASE g = 0  BY ONLY <2>1, <2>3, <3>0, <3>2, <4>0 DEF IfiltStart
        <4>1. CASE g = 1  BY ONLY <2>1, <2>3, <3>0, <3>2, <4>1 DEF IfiltStart
        <4>2. CASE g = 2  BY ONLY <2>1, <2>3, <3>0, <3>2, <4>2 DEF IfiltStart
        <4>3. CASE g = 3  BY ONLY <2>1, <2>3, <3>0, <3>2, <4>3 DEF IfiltStart
        <4> QED BY <2>1, <4>0, <4>1, <4>2, <4>3
      <3> QED BY <2>1, <3>1, <3>2
    <2>4. CASE e = 1 /\ hp = TRUE   BY ONLY <2>1, <2>4 DEF IfiltStart
    <2>5. CASE e = 1 /\ hp = FALSE
      <3>0. ~hp  BY <2>5
      <3>1. CASE tree = "a"
        <4>0. CASE g = 0  BY ONLY <2>1, <2>5, <3>0, <3>1, <4>0 DEF IfiltStart
        <4>1. CASE g = 1  BY ONLY <2>1, <2>5, <3>0, <3>1, <4>1 DEF IfiltStart
        <4>2. CASE g = 2  BY ONLY <2>1, <2>5, <3>0, <3>1, <4>2 DEF IfiltStart
        <4>3. CASE g = 3  BY ONLY <2>1, <2>5, <3>0, <3>1, <4>3 DEF IfiltStart
        <4> QED BY <2>1, <4>0, <4>1, <4>2, <4>3
      <3>2. CASE tree = "b"
        <4>0. CASE g = 0  BY ONLY <2>1, <2>5, <3>0, <3>2, <4>0 DEF IfiltStart
        <4>1. CASE g = 1  BY ONLY <2>1, <2>5, <3>0, <3>2, <4>1 DEF IfiltStart
        <4>2. CASE g = 2  BY ONLY <2>1, <2>5, <3>0, <3>2, <4>2 DEF IfiltStart
        <4>3. CASE g = 3  BY ONLY <2>1, <2>5, <3>0, <3>2, <4>3 DEF IfiltStart
        <4> QED BY <2>1, <4>0, <4>1, <4>2, <4>3
      <3> QED BY <2>1, <3>1, <3>2
    <2> QED BY <2>1, <2>2, <2>3, <2>4, <2>5
  <1> QED BY <1>8, <1>9, <1>10, <1>11 DEF kindOdd, m
=============================================================================
