---------------------------- MODULE DTCWT1Proofs ----------------------------
(***************************************************************************)
(* C03, level >= 2, one axis, ALL sizes: for every column length r = 4k and  *)
(* every even filter length m the code's coldfilt produces r/2 outputs like  *)
(* the reference and reads, for every tap of both trees, the position of the *)
(* extended column the reference reads.                                      *)
(***************************************************************************)
EXTENDS DTCWT1Src, DWT1Proofs

Trees == {"a", "b"}

THEOREM ColdCountAll ==
    \A k \in Pos, m2 \in Pos :
        /\ RefColdCount(4 * k, 2 * m2) = 2 * k
        /\ ImplColdCount(4 * k, 2 * m2) = 2 * k
  <1> TAKE k \in Pos, m2 \in Pos
  <1> DEFINE r == 4 * k
  <1> DEFINE m == 2 * m2
  <1>0. k \in Int /\ m2 \in Int /\ k >= 1 /\ m2 >= 1  BY DEF Pos
  <1>1. m \div 2 = m2
    <2>1. m = 2 * m2 + 0 /\ m \in Int /\ 0 \in 0 .. 1  BY <1>0
    <2> HIDE DEF m
    <2> QED BY <2>1, <1>0, Half
  <1>2. RefColdQ(r, m) = k + m2 - 1
    <2> DEFINE a == r + 2 * m - 2 - 5 - 1
    <2> DEFINE q == k + m2 - 2
    <2>1. a = 4 * q + 0 /\ a \in Int /\ q \in Int  BY <1>0
    <2>2. a \div 4 = q
      <3>1. 4 \in Pos /\ 0 \in 0 .. (4 - 1)  BY DEF Pos
      <3>2. a % 4 = 0
        <4> HIDE DEF a, q
        <4> QED BY <2>1, <3>1, ModUnique
      <3>3. a = 4 * (a \div 4) + (a % 4) /\ a \div 4 \in Int
        <4> HIDE DEF a
        <4> QED BY <2>1, <3>1, DivMod
      <3> DEFINE d == a \div 4
      <3>4. a = 4 * d /\ d \in Int /\ a = 4 * q /\ q \in Int /\ a \in Int  BY <3>2, <3>3, <2>1
      <3> HIDE DEF a, q, d
      <3>5. d = q  BY ONLY <3>4
      <3> QED BY <3>5 DEF d
    <2>3. RefColdQ(r, m) = (a \div 4) + 1  BY DEF RefColdQ
    <2> HIDE DEF a
    <2> QED BY <2>2, <2>3, <1>0
  <1>3. RefColdCount(r, m) = 2 * k
    <2>1. RefColdCount(r, m) = 2 * ((k + m2 - 1) - m2 + 1)  BY <1>1, <1>2 DEF RefColdCount
    <2>2. 2 * ((k + m2 - 1) - m2 + 1) = 2 * k  BY ONLY <1>0
    <2> QED BY <2>1, <2>2
  <1>4. ImplColdLa(r, m) = 2 * k + 2 * m2 - 1
    <2> DEFINE n1 == r + 2 * m
    <2> DEFINE a == n1 - 2 - 1
    <2> DEFINE q == 2 * k + 2 * m2 - 2
    <2>1. a = 2 * q + 1 /\ a \in Int /\ q \in Int /\ 1 \in 0 .. 1 /\ n1 > 2 /\ n1 \in Int  BY <1>0
    <2>2. a \div 2 = q
      <3> HIDE DEF a, q
      <3> QED BY <2>1, Half
    <2>3. ImplColdLa(r, m) = (a \div 2) + 1  BY <2>1 DEF ImplColdLa
    <2> HIDE DEF a
    <2>4. q + 1 = 2 * k + 2 * m2 - 1  BY ONLY <1>0
    <2> QED BY <2>2, <2>3, <2>4
  <1>5. ImplColdNv(r, m) = k
    <2> DEFINE la == 2 * k + 2 * m2 - 1
    <2> DEFINE a == la - m
    <2> DEFINE q == k - 1
    <2>1. a = 2 * q + 1 /\ a \in Int /\ q \in Int /\ 1 \in 0 .. 1 /\ ~(la < m) /\ la \in Int  BY <1>0
    <2>2. a \div 2 = q
      <3> HIDE DEF a, q
      <3> QED BY <2>1, Half
    <2>3. ImplColdNv(r, m) = (a \div 2) + 1  BY <1>4, <2>1 DEF ImplColdNv
    <2> HIDE DEF a
    <2> QED BY <2>2, <2>3, <1>0
  <1> QED BY <1>3, <1>5 DEF ImplColdCount

THEOREM ColdPosAll ==
    \A m2 \in Pos, tree \in Trees, v \in Int : \A t \in 0 .. (2 * m2 - 1) :
        ImplColdPos(2 * m2, tree, v, t) = RefColdPos(2 * m2, tree, v, t)
  <1> TAKE m2 \in Pos, tree \in Trees, v \in Int
  <1> TAKE t \in 0 .. (2 * m2 - 1)
  <1> DEFINE m == 2 * m2
  <1> DEFINE idx == t \div 2
  <1> DEFINE par == t % 2
  <1>0. m2 \in Int /\ t \in Int /\ v \in Int  BY DEF Pos
  <1>1. m \div 2 = m2
    <2>1. m = 2 * m2 + 0 /\ m \in Int /\ 0 \in 0 .. 1  BY <1>0
    <2> HIDE DEF m
    <2> QED BY <2>1, <1>0, Half
  <1>2. t = 2 * idx + par /\ par \in 0 .. 1 /\ idx \in Int
    <2>1. 2 \in Pos  BY DEF Pos
    <2> QED BY <2>1, <1>0, DivMod
  <1> DEFINE q == v + m2 - 1 - idx
  <1>3. RefColdPos(m, tree, v, t) =
            IF tree = "a" THEN (IF par = 0 THEN ColdT(q) - 1 ELSE ColdT(q) - 3)
            ELSE (IF par = 0 THEN ColdT(q) ELSE ColdT(q) - 2)
    BY <1>1 DEF RefColdPos
  <1>4. ImplColdPos(m, tree, v, t) = (IF tree = "a" THEN 2 ELSE 3) + 2 * (2 * v + (m - 1 - t))  BY DEF ImplColdPos
  <1>5. ColdT(q) = 5 + 4 * q  BY DEF ColdT
  <1> HIDE DEF idx, par, q
  <1>6. q = v + m2 - 1 - idx /\ q \in Int  BY <1>0, <1>2 DEF q
  <1>7. CASE tree = "a" /\ par = 0
    <2>1. 2 + 2 * (2 * v + (m - 1 - t)) = (5 + 4 * q) - 1  BY ONLY <1>0, <1>2, <1>6, <1>7
    <2> QED BY <1>3, <1>4, <1>5, <1>7, <2>1
  <1>8. CASE tree = "a" /\ par = 1
    <2>1. 2 + 2 * (2 * v + (m - 1 - t)) = (5 + 4 * q) - 3  BY ONLY <1>0, <1>2, <1>6, <1>8
    <2> QED BY <1>3, <1>4, <1>5, <1>8, <2>1
  <1>9. CASE tree = "b" /\ par = 0
    <2>1. 3 + 2 * (2 * v + (m - 1 - t)) = 5 + 4 * q  BY ONLY <1>0, <1>2, <1>6, <1>9
    <2> QED BY <1>3, <1>4, <1>5, <1>9, <2>1
  <1>10. CASE tree = "b" /\ par = 1
    <2>1. 3 + 2 * (2 * v + (m - 1 - t)) = (5 + 4 * q) - 2  BY ONLY <1>0, <1>2, <1>6, <1>10
    <2> QED BY <1>3, <1>4, <1>5, <1>10, <2>1
  <1> QED BY <1>2, <1>7, <1>8, <1>9, <1>10 DEF Trees

THEOREM ColdSrcAll ==
    \A k \in Pos, m2 \in Pos, tree \in Trees, v \in Int : \A t \in 0 .. (2 * m2 - 1) :
        ImplColdSrc(4 * k, 2 * m2, tree, v, t) = RefColdSrc(4 * k, 2 * m2, tree, v, t)
  BY ColdPosAll DEF ImplColdSrc, RefColdSrc
=============================================================================
