------------------------------ MODULE TapeCore ------------------------------
(***************************************************************************)
(* Autograd tapes of the hand-written Functions (AFB1D/AFB2D/SFB1D/SFB2D,   *)
(* FWD_J1/FWD_J2PLUS/INV_J1/INV_J2PLUS, ScatLayerj*_f, SmoothMagFn).         *)
(*                                                                         *)
(* A forward call records what its backward will need (filters, mode, the   *)
(* input shape, layout options, phases of the modulus) in ITS OWN context;  *)
(* a backward pass reads the context of the call it differentiates, any     *)
(* number of times while the graph is retained, and writes nothing that a   *)
(* later backward (of this or another call) reads.  The VJP layers of C05 / *)
(* C06 / C09 decide what one backward of one call returns; this module is   *)
(* about the bookkeeping between several calls and several backward passes: *)
(*   Forward(c, m, x)     call c runs module object m on argument x         *)
(*   Backward(c, k, r)    call c is differentiated with cotangent set k,    *)
(*                        retaining the graph iff r                         *)
(* The negative models are the two ways seeded changes broke this:          *)
(*   StashOnModule  the state is kept on the module object / Function class *)
(*                  (a later forward overwrites it)                         *)
(*   SharedResult   a backward writes its result into a buffer shared by    *)
(*                  all calls of the same argument shape (a gradient handed *)
(*                  out earlier changes)                                    *)
(* TLC enumerates the behaviours; the harness replays them into the real    *)
(* modules and compares every gradient with the one obtained with one call  *)
(* per graph (harness/autogradchecks.py).                                   *)
(***************************************************************************)
EXTENDS Integers, Sequences, FiniteSets

CONSTANTS Calls,          \* call ids, e.g. 1 .. 3
          Mods,           \* module objects: "A" and "A2" share a configuration, "B" has other filters
          Args,           \* argument variants (different sizes)
          Cots,           \* cotangent sets
          Depth,          \* events per behaviour
          StashOnModule, SharedResult

VARIABLES tape, slot, buf, held, hist
vars == <<tape, slot, buf, held, hist>>

None == [st |-> "none", mod |-> "", arg |-> 0]
\* configurations: objects A and A2 are built from the same arguments; a Function CLASS is shared by all of them
ClassOf(m) == "F"
Init == /\ tape = [c \in Calls |-> None]
        /\ slot = [k \in {"F"} |-> 0]          \* last call whose forward ran through the Function class
        /\ buf = [x \in Args |-> <<0, 0>>]      \* shared result buffer per argument shape: <<call, cotangent>> it shows
        /\ held = {}                            \* gradients handed out and still held by the caller: <<call, cotangent, shape>>
        /\ hist = << >>

Forward(c, m, x) ==
    /\ tape[c] = None
    /\ \A d \in Calls : d < c => tape[d] # None          \* calls are numbered in the order they start
    /\ tape' = [tape EXCEPT ![c] = [st |-> "recorded", mod |-> m, arg |-> x]]
    /\ slot' = [slot EXCEPT ![ClassOf(m)] = c]
    /\ hist' = Append(hist, [a |-> "forward", c |-> c, m |-> m, x |-> x])
    /\ UNCHANGED <<buf, held>>

\* which call's saved state the backward of c reads
Reads(c) == IF StashOnModule THEN slot[ClassOf(tape[c].mod)] ELSE c
Backward(c, k, r) ==
    /\ tape[c].st = "recorded"
    /\ tape' = [tape EXCEPT ![c].st = IF r THEN "recorded" ELSE "freed"]
    /\ buf' = IF SharedResult THEN [buf EXCEPT ![tape[c].arg] = <<c, k>>] ELSE buf
    /\ held' = held \cup {<<c, k, tape[c].arg>>}
    /\ hist' = Append(hist, [a |-> "backward", c |-> c, k |-> k, retain |-> r, reads |-> Reads(c)])
    /\ UNCHANGED slot

Next == /\ Len(hist) < Depth
        /\ \/ \E c \in Calls, m \in Mods, x \in Args : Forward(c, m, x)
           \/ \E c \in Calls, k \in Cots, r \in BOOLEAN : Backward(c, k, r)
Spec == Init /\ [][Next]_vars

\* C05 / C06 / C09 between calls: a backward differentiates ITS call
TapeOwn == \A i \in DOMAIN hist : hist[i].a = "backward" => hist[i].reads = hist[i].c
\* a gradient handed out stays what it was: the buffer a held gradient lives in still shows that gradient
HeldStable == SharedResult => \A h \in held : buf[h[3]] = <<h[1], h[2]>>
ResultOwn == ~SharedResult \/ HeldStable

=============================================================================
