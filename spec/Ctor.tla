-------------------------------- MODULE Ctor --------------------------------
(***************************************************************************)
(* Module construction and persistent state: what every transform module   *)
(* OWNS after __init__ (buffer / parameter names, the tensor axis that      *)
(* carries the taps, their number, whether the taps are stored reversed,   *)
(* their dtype), for every accepted form of the filter argument, and how    *)
(* that state moves: .to(dtype), state_dict(), load_state_dict(strict).     *)
(* Session.tla treats a module as an opaque (cfg, dtype) pair; this module  *)
(* is its refinement on the state side.  The code's oddities are named:     *)
(*   - a 3-tuple reaches an unbound local in the 2-D classes                *)
(*   - the band-pass tables are accepted by the scattering layers only      *)
(*   - DTCWTForward refuses o_dim = ri_dim, DTCWTInverse does not, and the  *)
(*     test is on the literal integers (5 and -1 name the same axis)        *)
(*   - ScatLayerj2 records `qshift` as the biort name                       *)
(***************************************************************************)
EXTENDS Integers, Sequences, FiniteSets, TLC

Classes == {"DWT1DForward", "DWT1DInverse", "DWTForward", "DWTInverse", "SWTForward",
            "DTCWTForward", "DTCWTInverse", "ScatLayer", "ScatLayerj2"}
Dtypes == {"f32", "f64"}

(* -------- filter sources: named tables (lengths only matter here) -------- *)
\* pywt names -> dec_len (= rec_len)
WaveLen == [db1 |-> 2, db2 |-> 4, db3 |-> 6, sym4 |-> 8, bior13 |-> 6, bior22 |-> 6]
WaveNames == DOMAIN WaveLen
\* level-1 tables: lengths of (h0o, g0o, h1o, g1o); the band-pass table adds (h2o, g2o)
BiortLen == [antonini   |-> <<9, 7, 7, 9>>,  legall     |-> <<5, 3, 3, 5>>,
             near_sym_a |-> <<5, 7, 7, 5>>,  near_sym_b |-> <<13, 19, 19, 13>>,
             near_sym_b_bp |-> <<13, 19, 19, 13, 19, 19>>]
QshiftLen == [qshift_06 |-> 10, qshift_a |-> 10, qshift_b |-> 14, qshift_c |-> 16, qshift_d |-> 18,
              qshift_b_bp |-> 14]
BiortNames == DOMAIN BiortLen
QshiftNames == DOMAIN QshiftLen
IsBp(n) == n \in {"near_sym_b_bp", "qshift_b_bp"}

\* the forms a `wave` argument can take: a name, a pywt.Wavelet, a tuple of 2, 3 or 4 arrays
WaveForms == {"name", "wavelet", "t2", "t3", "t4"}

(* ----------------------------- the state -------------------------------- *)
\* one owned tensor: rank-3 (1,1,L) or rank-4 with the taps on `axis`
Buf(name, rank, axis, len, rev, param) ==
    [name |-> name, rank |-> rank, axis |-> axis, len |-> len, rev |-> rev, param |-> param]
Raise(kind) == [ok |-> FALSE, raises |-> kind, bufs |-> << >>, attrs |-> << >>]
Obj(cls, bufs, attrs, dt) == [ok |-> TRUE, raises |-> "", cls |-> cls, bufs |-> bufs, attrs |-> attrs, dtype |-> dt]

\* lengths delivered by a wave form: <<col0, col1, row0, row1>>
WaveLens(form, name, lc, lr) ==
    CASE form \in {"name", "wavelet"} -> <<WaveLen[name], WaveLen[name], WaveLen[name], WaveLen[name]>>
      [] form = "t2" -> <<lc, lc, lc, lc>>
      [] OTHER       -> <<lc, lc, lr, lr>>

\* ---- 1-D DWT: name / Wavelet / 2-tuple; anything else fails the assert
Ctor1D(cls, form, name, lc, lr, dt) ==
    IF form \in {"t3", "t4"} THEN Raise("AssertionError")
    ELSE LET L == WaveLens(form, name, lc, lr)
             p == IF cls = "DWT1DForward" THEN "h" ELSE "g"
             rev == cls = "DWT1DForward"
         IN  Obj(cls, <<Buf(p \o "0", 3, 2, L[1], rev, FALSE), Buf(p \o "1", 3, 2, L[2], rev, FALSE)>>,
                 IF cls = "DWT1DForward" THEN <<"J", "mode">> ELSE <<"mode">>, dt)

\* ---- 2-D DWT / SWT: additionally a 4-tuple (col, col, row, row); a 3-tuple falls through both
\* length tests and the first use of the unassigned local raises UnboundLocalError
Ctor2D(cls, form, name, lc, lr, dt) ==
    IF form = "t3" THEN Raise("UnboundLocalError")
    ELSE LET L == WaveLens(form, name, lc, lr)
             p == IF cls = "DWTInverse" THEN "g" ELSE "h"
             rev == cls # "DWTInverse"
         IN  Obj(cls, <<Buf(p \o "0_col", 4, 2, L[1], rev, FALSE), Buf(p \o "1_col", 4, 2, L[2], rev, FALSE),
                        Buf(p \o "0_row", 4, 3, L[3], rev, FALSE), Buf(p \o "1_row", 4, 3, L[4], rev, FALSE)>>,
                 IF cls = "DWTInverse" THEN <<"mode">> ELSE <<"J", "mode">>, dt)

\* ---- DTCWT: names or tuples (biort = (0-filter, 1-filter), qshift = (0a, 0b, 1a, 1b)); the band-pass tables do not
\* unpack into 4 / 8 values
CtorDT(cls, bform, biort, qform, qshift, lc, lr, odim, ridim, dt) ==
    IF cls = "DTCWTForward" /\ odim = ridim THEN Raise("ValueError")
    ELSE IF (bform = "name" /\ IsBp(biort)) \/ (qform = "name" /\ IsBp(qshift)) THEN Raise("ValueError")
    ELSE LET fw == cls = "DTCWTForward"
             p == IF fw THEN "h" ELSE "g"
             b == BiortLen[biort]   q == QshiftLen[qshift]
             l0 == IF bform = "tuple" THEN lc ELSE IF fw THEN b[1] ELSE b[2]
             l1 == IF bform = "tuple" THEN lr ELSE IF fw THEN b[3] ELSE b[4]
             q0 == IF qform = "tuple" THEN lc ELSE q
             q1 == IF qform = "tuple" THEN lr ELSE q
         IN  Obj(cls, <<Buf(p \o "0o", 4, 2, l0, TRUE, FALSE), Buf(p \o "1o", 4, 2, l1, TRUE, FALSE),
                        Buf(p \o "0a", 4, 2, q0, TRUE, FALSE), Buf(p \o "0b", 4, 2, q0, TRUE, FALSE),
                        Buf(p \o "1a", 4, 2, q1, TRUE, FALSE), Buf(p \o "1b", 4, 2, q1, TRUE, FALSE)>>,
                 IF fw THEN <<"biort", "qshift", "J", "o_dim", "ri_dim", "mode", "skip_hps", "include_scale">>
                       ELSE <<"biort", "qshift", "o_dim", "ri_dim", "mode">>, dt)

\* ---- scattering layers: frozen Parameters (requires_grad = False), band-pass variants own a third filter per stage
ScatAttrs == <<"biort", "mode_str", "mode", "magbias", "combine_colour", "bandpass_diag">>
CtorScat(cls, biort, qshift, dt) ==
    LET b == BiortLen[biort]
        first == IF IsBp(biort)
                 THEN <<Buf("h0o", 4, 2, b[1], TRUE, TRUE), Buf("h1o", 4, 2, b[3], TRUE, TRUE), Buf("h2o", 4, 2, b[5], TRUE, TRUE)>>
                 ELSE <<Buf("h0o", 4, 2, b[1], TRUE, TRUE), Buf("h1o", 4, 2, b[3], TRUE, TRUE)>>
    IN  IF cls = "ScatLayer" THEN Obj(cls, first, ScatAttrs, dt)
        ELSE IF IsBp(biort) /\ qshift # "qshift_b_bp" THEN Raise("AssertionError")
        ELSE IF ~IsBp(biort) /\ IsBp(qshift) THEN Raise("ValueError")      \* 12 values into 8 names
        ELSE LET q == QshiftLen[qshift]
                 second == <<Buf("h0a", 4, 2, q, TRUE, TRUE), Buf("h0b", 4, 2, q, TRUE, TRUE),
                             Buf("h1a", 4, 2, q, TRUE, TRUE), Buf("h1b", 4, 2, q, TRUE, TRUE)>>
                 third == IF IsBp(biort) THEN <<Buf("h2a", 4, 2, q, TRUE, TRUE), Buf("h2b", 4, 2, q, TRUE, TRUE)>> ELSE << >>
             IN  Obj(cls, first \o second \o third, <<"biort", "qshift">> \o Tail(ScatAttrs), dt)

(* ---------------------- state movement between objects ------------------- *)
Keys(o) == {o.bufs[i].name : i \in 1 .. Len(o.bufs)}
ShapeOf(b) == [rank |-> b.rank, axis |-> b.axis, len |-> b.len]
ShapeAt(o, k) == LET i == CHOOSE j \in 1 .. Len(o.bufs) : o.bufs[j].name = k IN ShapeOf(o.bufs[i])
\* load_state_dict(strict=True): same key set, same shapes; dtype of the TARGET is kept (copy_ converts)
LoadOk(dst, src) == /\ Keys(dst) = Keys(src)
                    /\ \A k \in Keys(dst) : ShapeAt(dst, k) = ShapeAt(src, k)
To(o, dt) == [o EXCEPT !.dtype = dt]

(* -------------------------------- laws ----------------------------------- *)
\* the key set is decided by the class (and, for the scattering layers, band-pass-ness), never by the filter form
KeySchema(o) ==
    CASE o.cls = "DWT1DForward" -> {"h0", "h1"}
      [] o.cls = "DWT1DInverse" -> {"g0", "g1"}
      [] o.cls \in {"DWTForward", "SWTForward"} -> {"h0_col", "h1_col", "h0_row", "h1_row"}
      [] o.cls = "DWTInverse"   -> {"g0_col", "g1_col", "g0_row", "g1_row"}
      [] o.cls = "DTCWTForward" -> {"h0o", "h1o", "h0a", "h0b", "h1a", "h1b"}
      [] o.cls = "DTCWTInverse" -> {"g0o", "g1o", "g0a", "g0b", "g1a", "g1b"}
      [] o.cls = "ScatLayer"    -> {"h0o", "h1o"} \cup (IF Len(o.bufs) = 3 THEN {"h2o"} ELSE {})
      [] OTHER                  -> {"h0o", "h1o", "h0a", "h0b", "h1a", "h1b"} \cup
                                   (IF Len(o.bufs) = 9 THEN {"h2o", "h2a", "h2b"} ELSE {})
\* analysis side stores reversed taps (correlation), synthesis of the DWT stores them as given
\* (conv_transpose); the DTCWT prepares BOTH sides reversed (its synthesis is written as correlations too)
FlipLaw(o) == \A i \in 1 .. Len(o.bufs) : o.bufs[i].rev <=> (o.cls \notin {"DWT1DInverse", "DWTInverse"})
\* an analysis module and the SWT built from the same argument are load-compatible (same schema)
NamesDistinct(o) == Cardinality(Keys(o)) = Len(o.bufs)
=============================================================================
