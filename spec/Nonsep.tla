------------------------------ MODULE Nonsep ------------------------------
(***************************************************************************)
(* dwt/lowlevel.py: afb2d_nonsep / sfb2d_nonsep (one 2-D convolution with   *)
(* outer-product kernels) against the separable afb2d / sfb2d (C19).        *)
(*                                                                         *)
(* Both implementations are Kronecker products of per-axis operators, so    *)
(* equality of the 2-D operators reduces to (i) equality of the per-axis    *)
(* pipelines - written here from the non-separable code: joint pre-padding  *)
(* decision, conv2d padding, 2-D mypad, periodic index extension, modulo    *)
(* index_add - with the separable stage model ImplA / ImplS of module DWT1, *)
(* (ii) the kernel construction (outer products, double flip, stacking      *)
(* order) giving the same band order, and (iii) the same raise conditions.  *)
(***************************************************************************)
EXTENDS DWT1, Json

CONSTANTS NSet, LSet, ModeSet, Shard, NShards

VARIABLES cfg
vars == <<cfg>>
NoCfg == [mode |-> "none", N |-> 0, L |-> 0]
Init == cfg = NoCfg
Pick == /\ cfg = NoCfg
        /\ \E m \in ModeSet, N \in NSet, L \in LSet :
              /\ N % NShards = Shard
              /\ cfg' = [mode |-> m, N |-> N, L |-> L]
Spec == Init /\ [][Pick]_vars
Picked == cfg # NoCfg

(* ---- (i) per-axis pipeline of afb2d_nonsep ---- *)
\* zero mode: the joint three-way test on (p1 % 2, p2 % 2) before F.pad(x, (0, e2, 0, e1))
NonsepPrepad(p1, p2) ==
    IF p1 % 2 = 1 /\ p2 % 2 = 1 THEN <<1, 1>>
    ELSE IF p1 % 2 = 1 THEN <<1, 0>>
    ELSE IF p2 % 2 = 1 THEN <<0, 1>>
    ELSE <<0, 0>>
PrepadIndependent == \A p1 \in 0 .. 40, p2 \in 0 .. 40 : NonsepPrepad(p1, p2) = <<p1 % 2, p2 % 2>>

\* kernels are flipped along both axes by prep_filt_afb2d_nonsep: stored[u] = h[L-1-u]
NonsepAxisA(mode, N, L) ==
    LET St(u) == L - 1 - u IN
    IF mode = "periodization" THEN
        LET L2 == L \div 2
            Ne == N + (N % 2)
            i0 == [p \in Rng(Ne) |-> IF p < N THEN p ELSE N - 1]       \* cat(x, x[-1:])
            n1 == Ne + 2 * (L2 - 1)
            xe == [p \in Rng(n1) |-> PMod(p - (L2 - 1), Ne)]            \* arange(-(L2-1), N+L2-1) % N
        IN  CorrGather(n1, GatherIdx(i0, xe, n1), L, 2, St, N)
    ELSE
        LET out == DwtCoeffLen(N, L, mode)
            p   == 2 * (out - 1) - N + L
        IN  CASE mode = "zero" ->
                 LET e  == p % 2
                     i1 == ZeroPadIdx(IdIdx(N), N, 0, e)
                     i2 == ZeroPadIdx(i1, N + e, p \div 2, p \div 2)
                 IN  CorrGather(N + e + 2 * (p \div 2), i2, L, 2, St, N)
              [] mode = "symmetric" ->
                 \* mypad 'Both' branch: x[:,:,i,j] with i = outer(xe_col, 1), j = outer(1, xe_row)
                 LET idx == [q \in Rng(N + (p \div 2) + ((p + 1) \div 2)) |-> NpReflectHalf(q - (p \div 2), N)]
                 IN  CorrGather(N + (p \div 2) + ((p + 1) \div 2), idx, L, 2, St, N)
              [] mode = "reflect" ->
                 CorrGather(N + (p \div 2) + ((p + 1) \div 2), TorchReflectPad(N, p \div 2, (p + 1) \div 2), L, 2, St, N)
NonsepARaises(mode, N, L) ==
    /\ mode = "reflect"
    /\ LET p == 2 * (DwtCoeffLen(N, L, mode) - 1) - N + L IN ~TorchReflectOk(N, p \div 2, (p + 1) \div 2)

AnalysisAxisSame ==
    Picked => /\ NonsepARaises(cfg.mode, cfg.N, cfg.L) = ImplARaises(cfg.mode, cfg.N, cfg.L)
              /\ ~ImplARaises(cfg.mode, cfg.N, cfg.L) =>
                    Same3(NonsepAxisA(cfg.mode, cfg.N, cfg.L), ImplA(cfg.mode, cfg.N, cfg.L))

\* sfb2d_nonsep along one axis, coefficient length M = cfg.N; kernels are not flipped
NonsepAxisS(mode, M, L) ==
    IF mode = "periodization" THEN
        LET N    == 2 * M
            full == ConvT(M, L, 0, LAMBDA u : u)
            dst(t) == PMod(t - ((L \div 2) - 1), N)
        IN  Mk3(N, L, M, LAMBDA q, t, k :
                   LET f[u \in 0 .. full.no] ==
                         IF u = 0 THEN 0
                         ELSE f[u - 1] + (IF dst(u - 1) = q THEN full.c[u - 1][t][k] ELSE 0)
                   IN  f[full.no])
    ELSE ConvT(M, L, L - 2, LAMBDA u : u)
SynthesisAxisSame ==
    (Picked /\ (cfg.mode = "periodization" \/ cfg.N >= cfg.L \div 2)) =>
        Same3(NonsepAxisS(cfg.mode, cfg.N, cfg.L), ImplS(cfg.mode, cfg.N, cfg.L))

(* ---- (ii) kernel construction and band order ---- *)
\* prep_filt_afb2d_nonsep: ll = outer(h0_col, h0_row), lh = outer(h1_col, h0_row),
\* hl = outer(h0_col, h1_row), hh = outer(h1_col, h1_row); stacked [ll, lh, hl, hh];
\* torch.cat([filts]*C) with groups = C: output channel 4c + b
NonsepBand(b) == [col_high |-> b \in {1, 3}, row_high |-> b \in {2, 3}]
\* separable afb2d: channel 4c + 2*brow + bcol
SepBand(b) == [col_high |-> (b % 2) = 1, row_high |-> (b \div 2) = 1]
BandOrderSame == \A b \in 0 .. 3 : NonsepBand(b) = SepBand(b)
NonsepChannel(c, b) == 4 * c + b
SepChannel(c, brow, bcol) == 2 * (2 * c + brow) + bcol
ChannelSame == \A c \in 0 .. 3, brow \in {0, 1}, bcol \in {0, 1} :
                  SepChannel(c, brow, bcol) = NonsepChannel(c, 2 * brow + bcol)
=============================================================================
