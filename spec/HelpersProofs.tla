--------------------------- MODULE HelpersProofs ---------------------------
(***************************************************************************)
(* TLAPS proofs, for ALL axis lengths and pad amounts, of the lemmas that   *)
(* MC_Helpers checks with TLC up to NMax / PadMax: the padding helper of    *)
(* the code (dwt.lowlevel.mypad, as transcribed in Helpers!PadIdx) realises *)
(* the PyWavelets extension of the same name, never reads outside the axis  *)
(* and leaves the interior alone; the mode codes round-trip.                *)
(***************************************************************************)
EXTENDS Helpers, IdxProofs

LEMMA PadIdxAt ==
    \A mode \in PadModes, n \in Pos, a \in Nat, b \in Nat : \A p \in 0 .. (n + a + b - 1) :
        PadIdx(mode, n, a, b)[p] =
            CASE mode = "symmetric" -> NpReflectHalf(p - a, n)
              [] mode = "periodic"  -> PMod(p - a, n)
              [] mode = "reflect"   -> IF p - a < 0 THEN -(p - a) ELSE IF p - a >= n THEN 2 * n - 2 - (p - a) ELSE p - a
              [] mode = "replicate" -> IF p - a < 0 THEN 0 ELSE IF p - a >= n THEN n - 1 ELSE p - a
              [] OTHER              -> IF p - a < 0 \/ p - a >= n THEN -1 ELSE p - a
  BY DEF PadIdx

THEOREM PadMatchesPywtAll ==
    \A mode \in PadModes, n \in Pos, a \in Nat, b \in Nat : PadMatchesPywt(mode, n, a, b)
  <1> TAKE mode \in PadModes, n \in Pos, a \in Nat, b \in Nat
  <1> SUFFICES ASSUME mode # "replicate", ~PadRaises(mode, n, a, b), NEW p \in 0 .. (n + a + b - 1)
               PROVE  PadIdx(mode, n, a, b)[p] = SrcExt(PywtOf(mode), n, p - a)
    BY DEF PadMatchesPywt
  <1>1. CASE mode = "symmetric"
    BY <1>1, PadIdxAt DEF PywtOf, SrcExt, NpReflectHalf, PMod
  <1>2. CASE mode = "periodic"
    BY <1>2, PadIdxAt DEF PywtOf, SrcExt, PMod
  <1>3. CASE mode = "reflect"
    <2>1. TorchReflectOk(n, a, b)  BY <1>3 DEF PadRaises
    <2>2. TorchReflectPad(n, a, b)[p] = SrcExt("reflect", n, p - a)  BY <2>1, HelperTorchReflectIsReflect
    <2>3. TorchReflectPad(n, a, b)[p] = PadIdx(mode, n, a, b)[p]  BY <1>3, PadIdxAt DEF TorchReflectPad
    <2> QED BY <1>3, <2>2, <2>3 DEF PywtOf
  <1>4. CASE mode \in {"zero", "constant"}
    BY <1>4, PadIdxAt DEF PywtOf, SrcExt, Pos
  <1> QED BY <1>1, <1>2, <1>3, <1>4 DEF PadModes

THEOREM PadInRangeAll ==
    \A mode \in PadModes, n \in Pos, a \in Nat, b \in Nat :
        ~PadRaises(mode, n, a, b) => PadInRange(mode, n, a, b) /\ PadKeepsInterior(mode, n, a, b)
  <1> TAKE mode \in PadModes, n \in Pos, a \in Nat, b \in Nat
  <1> HAVE ~PadRaises(mode, n, a, b)
  <1>1. CASE mode = "replicate"
    <2>1. \A p \in 0 .. (n + a + b - 1) : PadIdx(mode, n, a, b)[p] = IF p - a < 0 THEN 0 ELSE IF p - a >= n THEN n - 1 ELSE p - a
      BY <1>1, PadIdxAt
    <2>2. \A t \in 0 .. (n - 1) : t + a \in 0 .. (n + a + b - 1)  BY DEF Pos
    <2> QED BY <2>1, <2>2 DEF PadInRange, PadKeepsInterior, Pos
  <1>2. CASE mode # "replicate"
    <2>1. \A p \in 0 .. (n + a + b - 1) : PadIdx(mode, n, a, b)[p] = SrcExt(PywtOf(mode), n, p - a)
      BY <1>2, PadMatchesPywtAll DEF PadMatchesPywt
    <2>2. PywtOf(mode) \in Modes  BY DEF PywtOf, Modes, PadModes
    <2>3. \A p \in 0 .. (n + a + b - 1) : p - a \in Int  OBVIOUS
    <2>4. \A p \in 0 .. (n + a + b - 1) : SrcExt(PywtOf(mode), n, p - a) \in (-1) .. (n - 1)
      BY <2>2, <2>3, SrcExtRange
    <2>5. PadInRange(mode, n, a, b)  BY <2>1, <2>4 DEF PadInRange, Pos
    <2>6. \A t \in 0 .. (n - 1) : t + a \in 0 .. (n + a + b - 1) /\ (t + a) - a = t  BY DEF Pos
    <2>7. \A t \in 0 .. (n - 1) : SrcExt(PywtOf(mode), n, t) = t  BY <2>2, SrcExtInterior
    <2>8. PadKeepsInterior(mode, n, a, b)  BY <2>1, <2>6, <2>7 DEF PadKeepsInterior
    <2> QED BY <2>5, <2>8
  <1> QED BY <1>1, <1>2

(* roll(x, n, dim) without make_even is the slice pair of Idx!RollIdx, and that is the cyclic shift *)
THEOREM RollPlainIsIdx == \A len \in Pos, n0 \in Int : RollIdxE(len, n0, FALSE) = RollIdx(len, n0)
  <1> TAKE len \in Pos, n0 \in Int
  <1> DEFINE n == IF n0 < 0 THEN len + n0 ELSE n0
  <1>1. RollEnd(len, FALSE) = 0  BY DEF RollEnd
  <1>2. n \in Int /\ -n + 0 = -n  BY DEF Pos
  <1> QED BY <1>1, <1>2 DEF RollIdxE, RollIdx
THEOREM RollPlainIsCyclic ==
    \A len \in Pos : \A n \in 0 .. (len - 1) : \A p \in 0 .. (len - 1) : RollIdxE(len, n, FALSE)[p] = (p - n) % len
  BY RollPlainIsIdx, RollIsCyclic DEF Pos

THEOREM ModeCodesRoundTrip ==
    /\ \A m \in ModeNames : IntToMode(ModeToInt(m)) = Canon(m)
    /\ \A i \in 0 .. 6 : ModeToInt(IntToMode(i)) = i
  BY DEF ModeNames, IntToMode, ModeToInt, Canon

THEOREM PrepContractHolds == PrepContract
  BY DEF PrepContract, PrepKinds, PrepFlip
=============================================================================
