------------------------------ MODULE MC_Ctor ------------------------------
(* Bounded model of module construction and state movement.  A behaviour: construct a, (construct b), convert a,  *)
(* load b's state into a.  Every state prints what the real objects must look like.                              *)
EXTENDS Ctor, Json

CONSTANTS Emit
VARIABLES st
vars == <<st>>

Lc == {2, 4}
Lr == {2, 6}
DimPairs == {<<2, -1>>, <<2, 2>>, <<5, -1>>, <<1, 3>>}

\* constructor argument records
Args1D == [cls : {"DWT1DForward", "DWT1DInverse"}, form : {"name", "wavelet"}, name : WaveNames, lc : {0}, lr : {0}, dd : Dtypes]
          \cup [cls : {"DWT1DForward", "DWT1DInverse"}, form : {"t2", "t3", "t4"}, name : {"db1"}, lc : Lc, lr : Lr, dd : Dtypes]
Args2D == [cls : {"DWTForward", "DWTInverse", "SWTForward"}, form : {"name", "wavelet"}, name : WaveNames, lc : {0}, lr : {0}, dd : Dtypes]
          \cup [cls : {"DWTForward", "DWTInverse", "SWTForward"}, form : {"t2", "t3", "t4"}, name : {"db1"}, lc : Lc, lr : Lr, dd : Dtypes]
ArgsDT == [cls : {"DTCWTForward", "DTCWTInverse"}, bform : {"name"}, biort : BiortNames, qform : {"name"}, qshift : QshiftNames,
           lc : {0}, lr : {0}, dims : DimPairs, dd : Dtypes]
          \cup [cls : {"DTCWTForward", "DTCWTInverse"}, bform : {"name", "tuple"}, biort : {"near_sym_a"}, qform : {"name", "tuple"},
                qshift : {"qshift_a"}, lc : Lc, lr : Lr, dims : {<<2, -1>>}, dd : Dtypes]
ArgsScat == [cls : {"ScatLayer", "ScatLayerj2"}, biort : BiortNames, qshift : QshiftNames, dd : Dtypes]

Build(a) ==
    CASE a.cls \in {"DWT1DForward", "DWT1DInverse"} -> Ctor1D(a.cls, a.form, a.name, a.lc, a.lr, a.dd)
      [] a.cls \in {"DWTForward", "DWTInverse", "SWTForward"} -> Ctor2D(a.cls, a.form, a.name, a.lc, a.lr, a.dd)
      [] a.cls \in {"DTCWTForward", "DTCWTInverse"} ->
            CtorDT(a.cls, a.bform, a.biort, a.qform, a.qshift, a.lc, a.lr, a.dims[1], a.dims[2], a.dd)
      [] OTHER -> CtorScat(a.cls, a.biort, a.qshift, a.dd)

\* the partner of a load: a reduced argument set (the pairing is what matters, not every filter)
Small(a) ==
    /\ a.dd = "f32"
    /\ \/ a.cls \in {"DWT1DForward", "DWT1DInverse", "DWTForward", "DWTInverse", "SWTForward"} /\
            \/ a.form = "name" /\ a.name \in {"db2", "db3"}
            \/ a.form = "t4" /\ a.lc = 4
            \/ a.form = "t2" /\ a.lc = 4 /\ a.lr = 2
       \/ a.cls \in {"DTCWTForward", "DTCWTInverse"} /\ a.bform = "name" /\ a.qform = "name" /\ a.dims = <<2, -1>>
            /\ a.biort \in {"near_sym_a", "near_sym_b"} /\ a.qshift \in {"qshift_a", "qshift_b"}
       \/ a.cls \in {"ScatLayer", "ScatLayerj2"} /\ a.biort \in {"near_sym_a", "near_sym_b", "near_sym_b_bp"}
            /\ a.qshift \in {"qshift_a", "qshift_b", "qshift_b_bp"}

AllArgs == Args1D \cup Args2D \cup ArgsDT \cup ArgsScat
None == [phase |-> "none"]
Init == st = None
ConstructA == st = None /\ \E a \in AllArgs : st' = [phase |-> "a", aargs |-> a, a |-> Build(a)]
ToA == st.phase = "a" /\ st.a.ok /\ \E dt \in Dtypes : dt # st.a.dtype /\
          st' = [phase |-> "to", aargs |-> st.aargs, a |-> To(st.a, dt)]
\* load b's state into a: explored where the outcome is not trivially "different class, different keys"
LoadB == st.phase \in {"a", "to"} /\ st.a.ok /\ \E b \in {x \in AllArgs : Small(x)} :
            LET o == Build(b) IN
            /\ o.ok
            /\ (o.cls = st.a.cls \/ Keys(o) = Keys(st.a))
            /\ st' = [phase |-> "load", aargs |-> st.aargs, a |-> st.a, bargs |-> b, b |-> o, loads |-> LoadOk(st.a, o)]
Next == ConstructA \/ ToA \/ LoadB
Spec == Init /\ [][Next]_vars

SchemaOK == (st.phase # "none" /\ st.a.ok) => Keys(st.a) = KeySchema(st.a) /\ NamesDistinct(st.a) /\ FlipLaw(st.a)
\* converting does not change the schema; loading is possible exactly between equal schemas and never changes the target's dtype
ToOK == st.phase = "to" => Keys(st.a) = KeySchema(st.a)
\* named consequences that users meet
\*  - an SWT and a DWT analysis module built from the same argument are interchangeable on the state side
\*  - a non-band-pass ScatLayerj2 and a DTCWTForward of the same tables are interchangeable as well
CrossClassLoads ==
    st.phase = "load" /\ st.b.cls # st.a.cls /\ st.loads =>
        {st.a.cls, st.b.cls} \in {{"DWTForward", "SWTForward"}, {"DTCWTForward", "ScatLayerj2"}}

Record ==
    CASE st.phase \in {"a", "to"} -> [kind |-> "ctor." \o st.phase, args |-> st.aargs, obj |-> st.a]
      [] st.phase = "load" -> [kind |-> "ctor.load", args |-> st.aargs, adtype |-> st.a.dtype, bargs |-> st.bargs, loads |-> st.loads]
EmitOK == (st # None /\ Emit) => PrintT(<<"@@REC", ToJson(Record)>>)
=============================================================================
