------------------------------- MODULE DWT2 -------------------------------
(***************************************************************************)
(* Two-dimensional DWT of pytorch_wavelets (dwt/transform2d.py and the 2-D *)
(* routines of dwt/lowlevel.py).  Every 2-D operator of this family is a    *)
(* Kronecker product of two 1-D operators of module DWT1 (one per axis);    *)
(* what is genuinely two-dimensional - and modelled here - is the WIRING:   *)
(*   - which user-supplied filter pair ends up on which image axis          *)
(*     (module buffers -> positional arguments -> afb1d/sfb1d dims),        *)
(*   - the grouped-convolution channel arithmetic and the reshape that      *)
(*     turns 4C channels into (C, 4) bands, i.e. the band order,            *)
(*   - the level loops over (H, W) shapes with per-axis unpad decisions,    *)
(*     None levels, dtype of substituted zeros, crops in the backward,      *)
(*   - which leaves receive gradients.                                      *)
(* Axis naming follows the library: "col" filters are documented to act     *)
(* along the vertical axis (dim 2, image rows index), "row" filters along    *)
(* the horizontal axis (dim 3).                                              *)
(***************************************************************************)
EXTENDS DWT1, Json, SequencesExt

CONSTANTS HWCodes,     \* image sizes <<H, W>> encoded as 100*H + W (cfg files cannot hold tuples)
          LCodes,      \* filter lengths <<Lcol, Lrow>> (vertical, horizontal) encoded as 100*Lcol + Lrow
          ModeSet, JMax, Apis, Shard, NShards, Emit,
          NoneFix, GuardFix, SlotFix   \* models of the tree after the respective "fix:" commits

VARIABLES call, pc, lvl, curH, curW, hisH, hisW, outcome, grads
vars == <<call, pc, lvl, curH, curW, hisH, hisW, outcome, grads>>

(* ======================= wiring: filters to axes ========================== *)
\* DWTForward.__init__ registers buffers from the user's tuple
\*   (h0_col, h1_col, h0_row, h1_row)  [2-tuple: rows := cols]
\* and forward() hands them POSITIONALLY to AFB2D.apply(x, a1, a2, a3, a4, mode) whose
\* signature is forward(ctx, x, h0_row, h1_row, h0_col, h1_col, mode); afb1d(x, h0_row, h1_row,
\* dim=3) then afb1d(lohi, h0_col, h1_col, dim=2).
ModuleArgOrder == IF SlotFix THEN <<"row", "row", "col", "col">>     \* buffers passed, in order
                  ELSE <<"col", "col", "row", "row">>
FunctionParams == <<"row", "row", "col", "col">>                      \* parameter names, in order
\* the user family whose taps reach the parameter named p (its first occurrence)
FamilyOfParam(p) == ModuleArgOrder[CHOOSE i \in 1 .. 4 : FunctionParams[i] = p /\ \A k \in 1 .. (i - 1) : FunctionParams[k] # p]
\* afb1d(..., h*_row, dim=3) / afb1d(..., h*_col, dim=2)
ImplFamilyOnDim(d) == IF d = 3 THEN FamilyOfParam("row") ELSE FamilyOfParam("col")
RefFamilyOnDim(d) == IF d = 3 THEN "row" ELSE "col"
\* the functional API afb2d(x, (h0_col, h1_col, h0_row, h1_row)) unpacks by name
FunctionalFamilyOnDim(d) == IF d = 3 THEN "row" ELSE "col"

SlotsOK == \A d \in {2, 3} : ImplFamilyOnDim(d) = RefFamilyOnDim(d)
FunctionalSlotsOK == \A d \in {2, 3} : FunctionalFamilyOnDim(d) = RefFamilyOnDim(d)

(* ======================= wiring: channels and bands ======================= *)
\* afb1d stacks [h0, h1] * C as the grouped-conv weight: output channel 2c+b.
\* Row pass first (b = brow), then column pass (b = bcol); reshape(N, -1, 4, H, W).
ChanAfterRow(c, brow) == 2 * c + brow
ChanAfterCol(c, brow, bcol) == 2 * ChanAfterRow(c, brow) + bcol
ImplBandOf(c, brow, bcol) == [chan |-> ChanAfterCol(c, brow, bcol) \div 4, band |-> ChanAfterCol(c, brow, bcol) % 4]
\* PyWavelets: (cA | cH, cV, cD) = (aa | da, ad, dd) with the first letter for axis 0 (vertical)
RefBand(brow, bcol) == CASE brow = 0 /\ bcol = 0 -> 0    \* LL  (yl)
                         [] brow = 0 /\ bcol = 1 -> 1    \* LH: vertical detail of horizontal lowpass (cH)
                         [] brow = 1 /\ bcol = 0 -> 2    \* HL (cV)
                         [] brow = 1 /\ bcol = 1 -> 3    \* HH (cD)
BandsOK == \A C \in 1 .. 4 : \A c \in 0 .. (C - 1), brow \in {0, 1}, bcol \in {0, 1} :
              ImplBandOf(c, brow, bcol) = [chan |-> c, band |-> RefBand(brow, bcol)]
\* low = y[:,:,0], highs = y[:,:,1:]  ->  yh[..., k, :, :] is band k+1: (LH, HL, HH)

(* ============================== call machine ============================== *)
HWSet == {<<c \div 100, c % 100>> : c \in HWCodes}
LPairs == {<<c \div 100, c % 100>> : c \in LCodes}
NoCall == [api |-> "none"]
Init == /\ call = NoCall /\ pc = "idle" /\ lvl = 0 /\ curH = 0 /\ curW = 0
        /\ hisH = << >> /\ hisW = << >> /\ outcome = "running" /\ grads = << >>

RECURSIVE RefLens2(_, _, _, _)
RefLens2(mode, N, L, J) ==
    IF J = 0 THEN << >>
    ELSE LET M == DwtCoeffLen(N, L, mode) IN <<M>> \o RefLens2(mode, M, L, J - 1)

ALen(mode, N, L) ==
    IF mode = "periodization" THEN (N + (N % 2)) \div 2
    ELSE LET pd == ImplAPads(N, L, mode)
             ext == IF mode = "zero" THEN (IF pd.p % 2 = 1 THEN 1 ELSE 0) + 2 * pd.lo
                    ELSE pd.lo + pd.hi
         IN  CorrLen(N + ext, L, 2)

InShard(hw) == (hw[1] + 3 * hw[2]) % NShards = Shard

(* ---- DWTForward.forward ---- *)
StartFwd ==
    /\ pc = "idle" /\ "fwd" \in Apis
    /\ \E m \in ModeSet, hw \in HWSet, lp \in LPairs, J \in 1 .. JMax :
          /\ InShard(hw)
          /\ call' = [api |-> "fwd", mode |-> m, H |-> hw[1], W |-> hw[2], Lc |-> lp[1], Lr |-> lp[2], J |-> J]
          /\ curH' = hw[1] /\ curW' = hw[2]
    /\ pc' = "fwd" /\ lvl' = 0 /\ hisH' = << >> /\ hisW' = << >>
    /\ UNCHANGED <<outcome, grads>>

\* the filter length that acts on each image axis in the module (depends on the slot wiring)
LenOnDim(d) == IF ImplFamilyOnDim(d) = "col" THEN call.Lc ELSE call.Lr

FwdLevel ==
    /\ pc = "fwd" /\ lvl < call.J
    /\ IF ImplARaises(call.mode, curW, LenOnDim(3)) \/ ImplARaises(call.mode, curH, LenOnDim(2))
       THEN /\ pc' = "done" /\ outcome' = "raise" /\ UNCHANGED <<lvl, curH, curW, hisH, hisW>>
       ELSE LET mh == ALen(call.mode, curH, LenOnDim(2))
                mw == ALen(call.mode, curW, LenOnDim(3))
            IN  /\ curH' = mh /\ curW' = mw
                /\ hisH' = Append(hisH, mh) /\ hisW' = Append(hisW, mw)
                /\ lvl' = lvl + 1 /\ UNCHANGED <<pc, outcome>>
    /\ UNCHANGED <<call, grads>>

FwdReturn ==
    /\ pc = "fwd" /\ lvl = call.J
    /\ pc' = "done" /\ outcome' = "ok"
    /\ UNCHANGED <<call, lvl, curH, curW, hisH, hisW, grads>>

(* ---- DWTInverse.forward ---- *)
StartInv ==
    /\ pc = "idle" /\ "inv" \in Apis
    /\ \E m \in ModeSet, hw \in HWSet, lp \in LPairs, J \in 1 .. JMax, dt \in {"f32", "f64"} :
          /\ InShard(hw)
          /\ \E none \in SUBSET (1 .. J) :
                /\ (none = {} => dt = "f64")     \* the dtype only matters for substituted zeros
                /\ call' = [api |-> "inv", mode |-> m, H |-> hw[1], W |-> hw[2], Lc |-> lp[1], Lr |-> lp[2],
                            J |-> J, none |-> none, dtype |-> dt]
                /\ LET lh == RefLens2(m, hw[1], lp[1], J)
                       lw == RefLens2(m, hw[2], lp[2], J)
                   IN  hisH' = lh /\ hisW' = lw /\ curH' = lh[J] /\ curW' = lw[J]
    /\ pc' = "inv" /\ lvl' = 0
    /\ UNCHANGED <<outcome, grads>>

DefaultDtype == "f32"
Unpad(cur, hlen) == IF cur > hlen THEN (IF NoneFix THEN hlen ELSE cur - 1) ELSE cur
InvLevel ==
    /\ pc = "inv" /\ lvl < call.J
    /\ LET j      == call.J - lvl
           isNone == j \in call.none
           \* h = torch.zeros(N, C, 3, ll.shape[-2], ll.shape[-1], device=ll.device)
           hH     == IF isNone THEN curH ELSE hisH[j]
           hW     == IF isNone THEN curW ELSE hisW[j]
           hDt    == IF isNone THEN (IF NoneFix THEN call.dtype ELSE DefaultDtype) ELSE call.dtype
           llH    == Unpad(curH, hH)
           llW    == Unpad(curW, hW)
       IN  IF llH # hH \/ llW # hW \/ hDt # call.dtype
           THEN /\ pc' = "done" /\ outcome' = "raise" /\ UNCHANGED <<lvl, curH, curW>>
           ELSE /\ curH' = ImplSLen(call.mode, llH, LenOnDim(2))
                /\ curW' = ImplSLen(call.mode, llW, LenOnDim(3))
                /\ lvl' = lvl + 1 /\ UNCHANGED <<pc, outcome>>
    /\ UNCHANGED <<call, hisH, hisW, grads>>

InvReturn ==
    /\ pc = "inv" /\ lvl = call.J
    /\ pc' = "done" /\ outcome' = "ok"
    /\ UNCHANGED <<call, lvl, curH, curW, hisH, hisW, grads>>

(* ---- backward through DWTInverse: which leaves receive gradients ---- *)
NeedsLow(j, R) == 0 \in R \/ \E i \in R : i > j
Guard(nl, nh) == IF GuardFix THEN nl \/ nh ELSE nl
StartInvBwd ==
    /\ pc = "idle" /\ "inv_bwd" \in Apis
    /\ \E J \in 1 .. JMax : \E R \in (SUBSET (0 .. J)) \ {{}} :
          call' = [api |-> "inv_bwd", J |-> J, R |-> R]
    /\ pc' = "bwd" /\ lvl' = 0 /\ grads' = << >>
    /\ UNCHANGED <<curH, curW, hisH, hisW, outcome>>
BwdLevel ==
    /\ pc = "bwd" /\ lvl < call.J
    /\ LET j  == lvl + 1
           nl == NeedsLow(j, call.R)
           nh == j \in call.R
           computed == Guard(nl, nh)
       IN  /\ grads' = grads @@ (j :> IF nh /\ computed THEN "grad" ELSE "none")
                             @@ (IF j = call.J
                                 THEN (0 :> IF 0 \in call.R /\ computed THEN "grad" ELSE "none")
                                 ELSE << >>)
           /\ lvl' = lvl + 1
    /\ UNCHANGED <<call, pc, curH, curW, hisH, hisW, outcome>>
BwdReturn ==
    /\ pc = "bwd" /\ lvl = call.J
    /\ pc' = "done" /\ outcome' = "ok"
    /\ UNCHANGED <<call, lvl, curH, curW, hisH, hisW, grads>>

(* ---- AFB2D.backward crop: three-way if/elif on (rows, cols) ---- *)
\* dx has shape (ph, pw) after the three sfb1d calls; ctx.shape = (h, w)
CropImpl(ph, pw, h, w) ==
    IF ph > h /\ pw > w THEN <<h, w>>
    ELSE IF ph > h THEN <<h, pw>>
    ELSE IF pw > w THEN <<ph, w>>
    ELSE <<ph, pw>>
CropOK == \A h \in 1 .. 12, w \in 1 .. 12, eh \in 0 .. 1, ew \in 0 .. 1 :
             CropImpl(h + eh, w + ew, h, w) = <<h, w>>

Next == StartFwd \/ FwdLevel \/ FwdReturn \/ StartInv \/ InvLevel \/ InvReturn
        \/ StartInvBwd \/ BwdLevel \/ BwdReturn
Spec == Init /\ [][Next]_vars

(* ------------------------------ properties ------------------------------- *)
Done(api) == pc = "done" /\ call.api = api
RefLenOnDim(d) == IF d = 2 THEN call.Lc ELSE call.Lr
FwdShapesOK == (Done("fwd") /\ outcome = "ok") =>
                  /\ hisH = RefLens2(call.mode, call.H, RefLenOnDim(2), call.J)
                  /\ hisW = RefLens2(call.mode, call.W, RefLenOnDim(3), call.J)
FwdRaiseOK == (Done("fwd") /\ outcome = "raise") =>
                  (call.mode = "reflect" /\ (curH < RefLenOnDim(2) \/ curW < RefLenOnDim(3)))
InvNoRaise == Done("inv") => outcome = "ok"
InvExtent  == (Done("inv") /\ outcome = "ok") =>
                 /\ curH >= call.H /\ curW >= call.W
                 /\ call.none = {} => (curH \in {call.H, call.H + 1} /\ curW \in {call.W, call.W + 1})
GradPresent == Done("inv_bwd") => \A leaf \in call.R : grads[leaf] = "grad"

(* ------------------------------ replay records --------------------------- *)
SetSeq(S) == SetToSortSeq(S, <)
Wiring == [family_on_dim2 |-> ImplFamilyOnDim(2), family_on_dim3 |-> ImplFamilyOnDim(3),
           ref_family_on_dim2 |-> RefFamilyOnDim(2), ref_family_on_dim3 |-> RefFamilyOnDim(3),
           bands |-> [b \in 1 .. 4 |-> LET brow == (b - 1) \div 2  bcol == (b - 1) % 2
                                       IN  [band |-> RefBand(brow, bcol), row_high |-> brow = 1, col_high |-> bcol = 1]]]
Record ==
    CASE call.api = "fwd" ->
           [kind |-> "dwt2.fwd", mode |-> call.mode, H |-> call.H, W |-> call.W, Lc |-> call.Lc, Lr |-> call.Lr,
            J |-> call.J, outcome |-> outcome, lensH |-> hisH, lensW |-> hisW,
            ref_lensH |-> RefLens2(call.mode, call.H, call.Lc, call.J),
            ref_lensW |-> RefLens2(call.mode, call.W, call.Lr, call.J), wiring |-> Wiring]
      [] call.api = "inv" ->
           [kind |-> "dwt2.inv", mode |-> call.mode, H |-> call.H, W |-> call.W, Lc |-> call.Lc, Lr |-> call.Lr,
            J |-> call.J, none |-> SetSeq(call.none), dtype |-> call.dtype, outcome |-> outcome,
            lensH |-> hisH, lensW |-> hisW, outH |-> curH, outW |-> curW, wiring |-> Wiring]
      [] call.api = "inv_bwd" ->
           [kind |-> "dwt2.inv_bwd", J |-> call.J, R |-> SetSeq(call.R),
            none_grads |-> SetSeq({leaf \in DOMAIN grads : leaf \in call.R /\ grads[leaf] = "none"})]
EmitOK == (pc = "done" /\ Emit) => PrintT(<<"@@REC", ToJson(Record)>>)
=============================================================================
