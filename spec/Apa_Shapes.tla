----------------------------- MODULE Apa_Shapes -----------------------------
(***************************************************************************)
(* Unbounded complement of the bounded TLC runs: the pure integer lemmas     *)
(* the pipelines rest on, for ALL sizes and filter lengths (discharged by    *)
(* Apalache as an invariant of the initial states: --length=0).              *)
(*   N  signal length (>= 1),  L = 2K+2 even filter length,  d dilation      *)
(*   R  an even row count (>= 2) of a DTCWT lowpass,  S a scattering size    *)
(***************************************************************************)
EXTENDS Integers

VARIABLES
    \* @type: Int;
    N,
    \* @type: Int;
    K,
    \* @type: Int;
    d,
    \* @type: Int;
    R2,
    \* @type: Int;
    S

L == 2 * K + 2
R == 2 * R2 + 2

Init == /\ N \in Nat /\ N >= 1 /\ K \in Nat /\ d \in Nat /\ d >= 1 /\ R2 \in Nat /\ S \in Nat /\ S >= 3
Next == UNCHANGED <<N, K, d, R2, S>>

(* ---- DWT, non-periodization modes (afb1d): pywt.dwt_coeff_len and the pad split ---- *)
Out == (N + L - 1) \div 2
P == 2 * (Out - 1) - N + L
PadSplit ==
    /\ P \div 2 = L - 2                                   \* left pad
    /\ (P + 1) \div 2 = (IF N % 2 = 1 THEN L - 1 ELSE L - 2)   \* right pad: one more for odd lengths
    /\ ((N + P - L) \div 2) + 1 = Out                     \* stride-2 'valid' correlation yields exactly Out coefficients
\* zero mode: the odd total pad is realised as one extra zero after, then symmetric conv2d padding P div 2
ZeroPad == ((N + (P % 2) + 2 * (P \div 2) - L) \div 2) + 1 = Out
(* ---- periodization: periodic extension by L/2-1 each side, 'valid' stride-2 correlation ---- *)
Ne == N + (N % 2)
PerCount == ((Ne + 2 * ((L \div 2) - 1) - L) \div 2) + 1 = Ne \div 2
(* ---- synthesis length: N or N+1 (C02: at most one extra trailing sample, none for even sizes) ---- *)
SynLen == LET Pn == 2 * Out - L + 2 IN Pn = (IF N % 2 = 0 THEN N ELSE N + 1)
(* ---- a-trous (SWT): padding (L*d/2 - d, L*d/2) and a d-dilated L-tap filter keep the size ---- *)
Atrous == N + ((L * d) \div 2 - d) + ((L * d) \div 2) - d * (L - 1) = N
(* ---- DTCWT pyramid: extension to a multiple of 4, halving, and the inverse's crop test ---- *)
Ext4 == IF R % 4 # 0 THEN R + 2 ELSE R
Pyramid ==
    /\ Ext4 % 4 = 0 /\ (Ext4 \div 2) % 2 = 0             \* coldfilt accepts it; the next lowpass is even again
    /\ (Ext4 # 2 * (R \div 2)) = (R % 4 # 0)              \* the inverse crops exactly when the forward extended
    /\ Ext4 - 2 * (IF R % 4 # 0 THEN 1 ELSE 0) = R        \* and one [1:-1] crop restores the size
(* ---- scattering: extension to a multiple of 8 by slices of at most 3 rows (needs S >= 3) ---- *)
Before == IF S % 8 = 0 THEN 0 ELSE (8 - (S % 8)) \div 2
After == IF S % 8 = 0 THEN 0 ELSE (9 - (S % 8)) \div 2
Scat8 == /\ (S + Before + After) % 8 = 0 /\ Before <= 3 /\ After <= 4 /\ Before <= S /\ (After <= S \/ S = 3)
         /\ S + Before + After = ((S + 7) \div 8) * 8

Inv == PadSplit /\ ZeroPad /\ PerCount /\ SynLen /\ Atrous /\ Pyramid /\ Scat8
=============================================================================
