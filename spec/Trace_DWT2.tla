----------------------------- MODULE Trace_DWT2 -----------------------------
(***************************************************************************)
(* Trace specification binding the 2-D call machine of module DWT2 to real   *)
(* executions of DWTForward / DWTInverse through the library's hooks:         *)
(*    call        api, mode, H, W, Lc, Lr, J [, none, dtype]                  *)
(*    fwd.level   level, H, W                  (DWTForward.level)             *)
(*    level.out   mh, mw      (the two afb1d.out events of a level: the row    *)
(*                             pass reports the new width, the column pass the *)
(*                             new height)                                     *)
(*    inv.level   lo_h, lo_w, hi_h, hi_w       (DWTInverse.level, before unpad)*)
(*    level.in    mh, mw      (lowpass size handed to the three sfb1d calls)   *)
(*    ret         outcome, shapes / out size                                   *)
(***************************************************************************)
EXTENDS DWT2, IOUtils

TraceLog == ndJsonDeserialize(IOEnv.TRACE_FILE)
VARIABLES i, bad
tvars == <<vars, i, bad>>
E == TraceLog[i]
Is(name) == i <= Len(TraceLog) /\ E.ev = name
Consume == i' = i + 1
SeqSet(s) == {s[x] : x \in DOMAIN s}

TCallFwd ==
    /\ Is("call") /\ E.api = "fwd" /\ pc = "idle"
    /\ call' = [api |-> "fwd", mode |-> E.mode, H |-> E.H, W |-> E.W, Lc |-> E.Lc, Lr |-> E.Lr, J |-> E.J]
    /\ curH' = E.H /\ curW' = E.W /\ pc' = "fwd" /\ lvl' = 0 /\ hisH' = << >> /\ hisW' = << >>
    /\ outcome' = "running" /\ grads' = << >>
TFwdHook == /\ Is("fwd.level") /\ pc = "fwd" /\ E.level = lvl + 1 /\ E.H = curH /\ E.W = curW /\ UNCHANGED vars
TFwdLevel == /\ Is("level.out") /\ FwdLevel /\ outcome' = "running" /\ curH' = E.mh /\ curW' = E.mw
TFwdRaise == /\ Is("ret") /\ E.outcome = "raise" /\ pc = "fwd" /\ FwdLevel /\ outcome' = "raise"
TFwdReturn == /\ Is("ret") /\ E.outcome = "ok" /\ E.api = "fwd" /\ FwdReturn /\ hisH = E.lensH /\ hisW = E.lensW

TCallInv ==
    /\ Is("call") /\ E.api = "inv" /\ pc = "idle"
    /\ call' = [api |-> "inv", mode |-> E.mode, H |-> E.H, W |-> E.W, Lc |-> E.Lc, Lr |-> E.Lr, J |-> E.J,
                none |-> SeqSet(E.none), dtype |-> E.dtype]
    /\ LET lh == RefLens2(E.mode, E.H, E.Lc, E.J)  lw == RefLens2(E.mode, E.W, E.Lr, E.J)
       IN  hisH' = lh /\ hisW' = lw /\ curH' = lh[E.J] /\ curW' = lw[E.J]
    /\ pc' = "inv" /\ lvl' = 0 /\ outcome' = "running" /\ grads' = << >>
TInvHook ==
    /\ Is("inv.level") /\ pc = "inv" /\ E.lo_h = curH /\ E.lo_w = curW
    /\ LET j == call.J - lvl IN
         /\ E.hi_h = (IF j \in call.none THEN curH ELSE hisH[j])
         /\ E.hi_w = (IF j \in call.none THEN curW ELSE hisW[j])
    /\ UNCHANGED vars
TInvLevel ==
    /\ Is("level.in") /\ InvLevel /\ outcome' = "running"
    /\ curH' = ImplSLen(call.mode, E.mh, LenOnDim(2)) /\ curW' = ImplSLen(call.mode, E.mw, LenOnDim(3))
TInvReturn == /\ Is("ret") /\ E.outcome = "ok" /\ E.api = "inv" /\ InvReturn /\ curH = E.outH /\ curW = E.outW
TInvRaise == /\ Is("ret") /\ E.outcome = "raise" /\ pc = "inv" /\ InvLevel /\ outcome' = "raise"
TReset == /\ Is("reset") /\ call' = NoCall /\ pc' = "idle" /\ lvl' = 0 /\ curH' = 0 /\ curW' = 0
          /\ hisH' = << >> /\ hisW' = << >> /\ outcome' = "running" /\ grads' = << >>

TStep == TCallFwd \/ TFwdHook \/ TFwdLevel \/ TFwdRaise \/ TFwdReturn
         \/ TCallInv \/ TInvHook \/ TInvLevel \/ TInvReturn \/ TInvRaise \/ TReset
TNext == /\ i <= Len(TraceLog)
         /\ \/ (TStep /\ Consume /\ bad' = bad)
            \/ (~ENABLED TStep /\ Consume /\ bad' = Append(bad, i) /\ UNCHANGED vars)
TInit == Init /\ i = 1 /\ bad = << >>
TraceSpec == TInit /\ [][TNext]_tvars
Verdict == (i = Len(TraceLog) + 1) =>
              PrintT(<<"@@REC", ToJson([kind |-> "trace.verdict", consumed |-> i - 1, rejected |-> bad])>>)
=============================================================================
