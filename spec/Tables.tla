------------------------------- MODULE Tables -------------------------------
(***************************************************************************)
(* C18 - the shipped DTCWT filter tables (pytorch_wavelets/dtcwt/data/*.npz) *)
(* and their loader (dtcwt/coeffs.py).                                       *)
(*                                                                         *)
(* The harness converts every float64 tap of every table of /repo's working  *)
(* tree and of the reference `dtcwt` package into an exact integer           *)
(* (tap * 2^F, F = FracBits) in the limb representation of module Limb and   *)
(* writes them as module TablesData at check time.  The identities below     *)
(* are then evaluated by TLC in exact integer arithmetic: nothing is rounded.*)
(*                                                                         *)
(*   Tab[name][var]     taps of the shipped table (sequence of numbers)      *)
(*   RefTab[name][var]  taps of the reference package's table                *)
(* Tolerances are the ones DESIGN.md derives: exact where the tables are     *)
(* exact, 2^-40 for the symmetry of the irrational antonini / band-pass      *)
(* tables, 2^-24 for product identities (PR, orthonormality).                *)
(***************************************************************************)
EXTENDS Limb, TablesData, FiniteSets, TLC

Level1Names == {"antonini", "legall", "near_sym_a", "near_sym_b", "near_sym_b_bp"}
QshiftNames == {"qshift_06", "qshift_32", "qshift_a", "qshift_b", "qshift_b_bp", "qshift_c", "qshift_d"}
ExactSymNames == {"legall", "near_sym_a", "near_sym_b"}

CONSTANTS MaxLoads,
          SharedBuf    \* FALSE: the code as it is (a load hands out arrays no later action writes);
                       \* TRUE: negative model - loads copy into ONE output buffer per filter length
VARIABLES name, cache, loads,
          held,        \* names of the tables a caller still holds from earlier loads
          owner        \* SharedBuf only: which table's values each length-class buffer shows now
vars == <<name, cache, loads, held, owner>>

Rev(s) == Force([k \in 1 .. Len(s) |-> s[Len(s) + 1 - k]])
SeqEq(a, b) == Len(a) = Len(b) /\ \A k \in 1 .. Len(a) : LEq(a[k], b[k])
SeqClose(a, b, e) == Len(a) = Len(b) /\ \A k \in 1 .. Len(a) : AbsLe2(LSub(a[k], b[k]), e)
One2F == LPow2(2 * FracBits)

\* sum of products  SUM_i a[i] * b[i + s]  over the overlapping range
RECURSIVE DotFrom(_, _, _, _)
DotFrom(a, b, s, i) ==
    IF i > Len(a) \/ i + s > Len(b) THEN << >>
    ELSE IF i + s < 1 THEN DotFrom(a, b, s, i + 1)
    ELSE LAdd(LMul(a[i], b[i + s]), DotFrom(a, b, s, i + 1))
Dot(a, b, s) == DotFrom(a, b, s, 1)
\* convolution coefficient  SUM_i a[i] * b[n + 1 - i]   (1-based, n = 1 .. Len(a)+Len(b)-1)
Conv(a, b, n) == Dot(a, Rev(b), Len(b) - n)

(* ---- identities ---- *)
EqualsReference(n) ==
    /\ DOMAIN Tab[n] = DOMAIN RefTab[n]
    /\ \A v \in DOMAIN Tab[n] : SeqEq(Tab[n][v], RefTab[n][v])

Level1OK(n) ==
    LET t == Tab[n]
        symtol == IF n \in ExactSymNames THEN 0 ELSE FracBits - 40
        Sym(f) == IF n \in ExactSymNames THEN SeqEq(f, Rev(f)) ELSE SeqClose(f, Rev(f), symtol)
        clen == Len(t.h0o) + Len(t.g0o) - 1
    IN  /\ \A v \in DOMAIN t : Sym(t[v]) \/ (v \in {"h2o", "g2o"} /\ SeqClose(t[v], Rev(t[v]), FracBits - 40))
        /\ Len(t.h1o) + Len(t.g1o) - 1 = clen
        \* biorthogonal perfect reconstruction of the (undecimated) level-1 pair:
        \*   (h0o * g0o + h1o * g1o)[n] = [n = centre]   within 2^-24
        /\ \A k \in 1 .. clen :
              LET s == LAdd(Conv(t.h0o, t.g0o, k), Conv(t.h1o, t.g1o, k))
                  want == IF k = (clen + 1) \div 2 THEN One2F ELSE << >>
              IN  AbsLe2(LSub(s, want), 2 * FracBits - 24)
        /\ ("h2o" \in DOMAIN t) => SeqEq(t.h2o, t.g2o) \/ SeqEq(t.g2o, Rev(t.h2o))

QshiftOK(n) ==
    LET t == Tab[n]
        L == Len(t.h0a)
        Ortho(a, b, same) ==
            \A s \in {x \in 0 .. (L - 1) : x % 2 = 0} :
                LET want == IF same /\ s = 0 THEN One2F ELSE << >>
                IN  /\ AbsLe2(LSub(Dot(a, b, s), want), 2 * FracBits - 24)
                    /\ AbsLe2(LSub(Dot(b, a, s), want), 2 * FracBits - 24)
    IN  /\ \A v \in DOMAIN t : Len(t[v]) = L
        \* tree b is the time reverse of tree a; synthesis filters are the time reverse of analysis
        /\ SeqEq(t.h0b, Rev(t.h0a)) /\ SeqEq(t.h1b, Rev(t.h1a))
        /\ SeqEq(t.g0a, Rev(t.h0a)) /\ SeqEq(t.g1a, Rev(t.h1a))
        /\ SeqEq(t.g0b, Rev(t.h0b)) /\ SeqEq(t.g1b, Rev(t.h1b))
        /\ ("h2a" \in DOMAIN t) => (SeqEq(t.h2b, Rev(t.h2a)) /\ SeqEq(t.g2a, Rev(t.h2a)) /\ SeqEq(t.g2b, Rev(t.h2b)))
        \* orthonormal filter pair
        /\ Ortho(t.h0a, t.h0a, TRUE) /\ Ortho(t.h1a, t.h1a, TRUE) /\ Ortho(t.h0a, t.h1a, FALSE)
        \* polarity premise of coldfilt's interleave order: sum(h0a*h0b) > 0 > sum(h1a*h1b)
        /\ ~IsNeg(Dot(t.h0a, t.h0b, 0)) /\ ~IsZero(Dot(t.h0a, t.h0b, 0))
        /\ IsNeg(Dot(t.h1a, t.h1b, 0))

(* ---- one behaviour per table name: Init -> Pick(name) ---- *)
Names == Level1Names \cup QshiftNames
\* tables whose same-named filters have equal lengths can share an output buffer (the two 10-tap q-shift tables)
LenClass(n) == IF n \in {"qshift_06", "qshift_a"} THEN "q10" ELSE n
Init == name = "none" /\ cache = {} /\ loads = 0 /\ held = {} /\ owner = [c \in {} |-> ""]
Pick == /\ name = "none" /\ loads = 0
        /\ \E n \in Names : name' = n
        /\ UNCHANGED <<cache, loads, held, owner>>

(* ---- loader state machine: COEFF_CACHE (dtcwt/coeffs.py _load_from_file) ---- *)
\* a load looks the file up in the cache (hit) or reads it and stores it (miss); nothing else ever
\* writes the cache, and no action writes a cached array, so what a load returns is Tab[n] regardless
\* of the history.  `name` doubles as "the table returned by the last load".
LoadNames == {"near_sym_a", "qshift_a", "qshift_06", "qshift_b_bp"}
Load(n) == /\ loads < MaxLoads /\ (name = "none" \/ loads > 0)
           /\ name' = n /\ cache' = cache \cup {n} /\ loads' = loads + 1
           /\ held' = held \cup {n}
           /\ owner' = [c \in (DOMAIN owner) \cup {LenClass(n)} |-> IF c = LenClass(n) THEN n ELSE owner[c]]
Next == Pick \/ \E n \in LoadNames : Load(n)
Spec == Init /\ [][Next]_vars

LoadReturnsTable == loads > 0 => (name \in cache /\ cache \subseteq LoadNames)
\* which table the arrays handed out for n show NOW
Shows(n) == IF SharedBuf THEN owner[LenClass(n)] ELSE n
\* C18 "loading twice returns equal values" also for a caller that keeps the first result: no later load (of any
\* table) may change what an earlier load returned
HeldStable == \A n \in held : Shows(n) = n
\* hit/miss as the hook reports it: a load of n is a hit iff n was loaded before
WasHit(n) == n \in cache

TableOK == (name # "none" /\ loads = 0) =>
              /\ EqualsReference(name)
              /\ (name \in Level1Names => Level1OK(name))
              /\ (name \in QshiftNames => QshiftOK(name))
=============================================================================
