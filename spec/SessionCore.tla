----------------------------- MODULE SessionCore -----------------------------
(* The Session machine without its printing action: shared by Session (TLC, replay) and SessionProofs (TLAPS). *)
EXTENDS Integers, Sequences, FiniteSets, TLC

CONSTANTS Threads,      \* thread ids
          Mods,         \* module slots
          Cfgs,         \* pool of module configurations (indices into the harness' pool)
          Args,         \* pool of argument variants per configuration
          MaxStages,    \* hook points at which a call may be preempted
          Depth,        \* length of generated histories
          Memo,         \* TRUE: negative model with a memo table keyed by PART of the arguments
          Bias          \* TRUE (simulation for the replay only): thin out constructions / mismatching calls so that
                        \* random behaviours contain many overlapping calls; FALSE: the full nondeterminism

VARIABLES defaultDtype, cache, mods, calls, ver, memo, hist
vars == <<defaultDtype, cache, mods, calls, ver, memo, hist>>

Dtypes == {"f32", "f64"}
NoMod == [cfg |-> 0, dtype |-> "none"]
Idle == [mod |-> 0, arg |-> 0, adt |-> "none", grad |-> FALSE, stage |-> 0, cfg |-> 0, mdt |-> "none"]
\* tables a configuration loads at construction (only DTCWT / scattering configurations do)
TablesOf(c) == IF c % 2 = 0 THEN {"biort", "qshift"} ELSE {}

Init == /\ defaultDtype = "f32" /\ cache = {} /\ mods = [m \in Mods |-> NoMod]
        /\ calls = [t \in Threads |-> Idle] /\ ver = [o \in {"args", "buffers", "cache"} |-> 0]
        /\ memo = << >> /\ hist = << >>

Log(e) == hist' = Append(hist, e)
NoActiveCall(m) == \A t \in Threads : calls[t].mod # m

Rarely(k) == ~Bias \/ Len(hist) % k = 0
SetDefaultDtype(d) ==
    /\ d # defaultDtype /\ defaultDtype' = d /\ Rarely(4)
    /\ Log([a |-> "default", d |-> d]) /\ UNCHANGED <<cache, mods, calls, ver, memo>>

Construct(m, c) ==
    /\ NoActiveCall(m) /\ (mods[m] = NoMod \/ Rarely(5))
    /\ mods' = [mods EXCEPT ![m] = [cfg |-> c, dtype |-> defaultDtype]]
    /\ cache' = cache \cup TablesOf(c)                      \* _load_from_file: hit or miss, same value
    /\ Log([a |-> "construct", m |-> m, c |-> c]) /\ UNCHANGED <<defaultDtype, calls, ver, memo>>

To(m, d) ==
    /\ mods[m] # NoMod /\ NoActiveCall(m) /\ mods[m].dtype # d
    /\ mods' = [mods EXCEPT ![m].dtype = d]
    /\ Log([a |-> "to", m |-> m, d |-> d]) /\ UNCHANGED <<defaultDtype, cache, calls, ver, memo>>

\* copy.deepcopy(module): an independent module with the same configuration and buffer dtype
Clone(m, m2) ==
    /\ m # m2 /\ mods[m] # NoMod /\ NoActiveCall(m2) /\ Rarely(4)
    /\ mods' = [mods EXCEPT ![m2] = mods[m]]
    /\ Log([a |-> "clone", m |-> m, m2 |-> m2]) /\ UNCHANGED <<defaultDtype, cache, calls, ver, memo>>
\* construct afresh (in the CURRENT default dtype) and load_state_dict() the buffers of m: the loaded copy keeps
\* the dtype it was constructed with, values are converted
Reload(m, m2) ==
    /\ m # m2 /\ mods[m] # NoMod /\ NoActiveCall(m2) /\ Rarely(4)
    /\ mods' = [mods EXCEPT ![m2] = [cfg |-> mods[m].cfg, dtype |-> defaultDtype]]
    /\ cache' = cache \cup TablesOf(mods[m].cfg)
    /\ Log([a |-> "reload", m |-> m, m2 |-> m2]) /\ UNCHANGED <<defaultDtype, calls, ver, memo>>

\* a thread starts a call: the argument's dtype must match the buffers' (else torch raises, logged as such)
CallBegin(t, m, x, d, g) ==
    /\ calls[t] = Idle /\ mods[m] # NoMod
    /\ (d = mods[m].dtype \/ ~Bias \/ (x = 1 /\ ~g /\ Rarely(3)))
    /\ IF d # mods[m].dtype
       THEN /\ Log([a |-> "call_raises", t |-> t, m |-> m, x |-> x, d |-> d]) /\ UNCHANGED calls
       ELSE /\ calls' = [calls EXCEPT ![t] = [mod |-> m, arg |-> x, adt |-> d, grad |-> g, stage |-> 0,
                                               cfg |-> mods[m].cfg, mdt |-> mods[m].dtype]]
            /\ Log([a |-> "begin", t |-> t, m |-> m, x |-> x, d |-> d, g |-> g])
    /\ UNCHANGED <<defaultDtype, cache, mods, ver, memo>>

\* one stage: the thread runs to its next hook point; in-place writes hit call-local temporaries only
Stage(t) ==
    /\ calls[t] # Idle /\ calls[t].stage < MaxStages
    /\ calls' = [calls EXCEPT ![t].stage = @ + 1]
    /\ memo' = IF Memo THEN memo @@ (calls[t].cfg :> calls[t].arg) ELSE memo     \* negative model only
    /\ Log([a |-> "stage", t |-> t]) /\ UNCHANGED <<defaultDtype, cache, mods, ver>>

\* the value a call returns: a function of the configuration, the buffers' dtype and the argument ONLY
F(c) == [cfg |-> c.cfg, mdt |-> c.mdt, arg |-> c.arg, adt |-> c.adt]
\* negative model: a helper memoised on part of its arguments leaks the previous call's argument
Fmemo(c) == IF Memo /\ c.cfg \in DOMAIN memo /\ memo[c.cfg] # c.arg THEN [F(c) EXCEPT !.arg = memo[c.cfg]] ELSE F(c)

CallReturn(t) ==
    /\ calls[t] # Idle
    /\ Log([a |-> "return", t |-> t, result |-> Fmemo(calls[t]), expect |-> F(calls[t]), dtype |-> calls[t].adt,
            grad |-> calls[t].grad])
    /\ calls' = [calls EXCEPT ![t] = Idle]
    /\ UNCHANGED <<defaultDtype, cache, mods, ver, memo>>

Next ==
    /\ Len(hist) < Depth
    /\ \/ \E d \in Dtypes : SetDefaultDtype(d)
       \/ \E m \in Mods, c \in Cfgs : Construct(m, c)
       \/ \E m \in Mods, d \in Dtypes : To(m, d)
       \/ \E m \in Mods, m2 \in Mods : Clone(m, m2) \/ Reload(m, m2)
       \/ \E t \in Threads, m \in Mods, x \in Args, d \in Dtypes, g \in BOOLEAN : CallBegin(t, m, x, d, g)
       \/ \E t \in Threads : Stage(t) \/ CallReturn(t)
Spec == Init /\ [][Next]_vars

(* ------------------------------- properties ------------------------------- *)
\* C15: no call ever writes an argument, a module buffer or a cached table
NoForeignWrite == [][ver' = ver]_vars
\* C15: what a call returns depends on (configuration, buffer dtype, argument) only
Deterministic == \A k \in DOMAIN hist : hist[k].a = "return" => hist[k].result = hist[k].expect
\* C16: every returned tensor has the dtype of the input
OutDtype == \A k \in DOMAIN hist : hist[k].a = "return" => hist[k].dtype = hist[k].result.adt
\* C16: a module converted with .double()/.float() is observationally the module constructed in that dtype:
\* the result depends on the CURRENT buffer dtype, not on the dtype it was constructed with (F has no such argument)

=============================================================================
