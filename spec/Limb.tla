-------------------------------- MODULE Limb --------------------------------
(***************************************************************************)
(* Exact arithmetic on large integers for TLC (whose integers are 32-bit).  *)
(* A number is a little-endian sequence of signed "limbs" in base B = 2^11;  *)
(* its value is SUM_k s[k] * B^(k-1).  Limbs need not be normalised: sums    *)
(* and products are polynomial operations on the sequences; magnitudes are    *)
(* kept below 2^31 by the bounds stated at each use (a product of two        *)
(* normalised numbers has coefficients < len * 2^22, so sums of up to 64     *)
(* products of 8-limb numbers stay below 2^31).  Normalise propagates         *)
(* carries (floor division) and yields limbs in 0..B-1 except the last,       *)
(* which carries the sign.                                                    *)
(***************************************************************************)
EXTENDS Integers, Sequences

B == 2048

\* TLC builds [k \in S |-> e] lazily and re-evaluates e on every application; Len() of such a value
\* evaluates all of it.  Nested lazily built numbers therefore cost exponentially in the nesting depth,
\* so every operation returns a concrete tuple (SubSeq forces the conversion).
Force(s) == SubSeq(s, 1, Len(s))
At(s, k) == IF k <= Len(s) THEN s[k] ELSE 0
LAdd(a, b) == LET n == IF Len(a) > Len(b) THEN Len(a) ELSE Len(b)
              IN  Force([k \in 1 .. n |-> At(a, k) + At(b, k)])
LNeg(a) == Force([k \in 1 .. Len(a) |-> -a[k]])
LSub(a, b) == LAdd(a, LNeg(b))
\* polynomial product
LMul(a, b) ==
    IF Len(a) = 0 \/ Len(b) = 0 THEN << >>
    ELSE Force([k \in 1 .. (Len(a) + Len(b) - 1) |->
            LET lo == IF k - Len(b) + 1 > 1 THEN k - Len(b) + 1 ELSE 1
                hi == IF k < Len(a) THEN k ELSE Len(a)
                f[i \in (lo - 1) .. hi] == IF i = lo - 1 THEN 0 ELSE f[i - 1] + a[i] * b[k - i + 1]
            IN  f[hi]])
\* B^n as a number
LPow(n) == Force([k \in 1 .. (n + 1) |-> IF k = n + 1 THEN 1 ELSE 0])
\* 2^e as a number
LPow2(e) == Force([k \in 1 .. ((e \div 11) + 1) |-> IF k = (e \div 11) + 1 THEN 2 ^ (e % 11) ELSE 0])

\* carry propagation; the result has Len(s) + 3 limbs, the last one signed
RECURSIVE Carry(_, _, _, _)
Carry(s, k, c, acc) ==
    IF k > Len(s) + 2 THEN Append(acc, c)
    ELSE LET v == (IF k <= Len(s) THEN s[k] ELSE 0) + c
         IN  Carry(s, k + 1, v \div B, Append(acc, v % B))     \* \div is floor, % is 0..B-1
Normalise(s) == Carry(s, 1, 0, << >>)

IsZero(s) == LET n == Normalise(s) IN \A k \in 1 .. Len(n) : n[k] = 0
LEq(a, b) == IsZero(LSub(a, b))
\* sign of a normalised number: the top limb decides
Top(n) == n[Len(n)]
IsNeg(s) == Top(Normalise(s)) < 0
LAbs(s) == IF IsNeg(s) THEN LNeg(s) ELSE s
\* a <= b
LLe(a, b) == ~IsNeg(LSub(b, a))
\* |a| <= 2^e
AbsLe2(a, e) == LLe(LAbs(a), LPow2(e))
=============================================================================
