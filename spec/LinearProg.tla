----------------------------- MODULE LinearProg -----------------------------
(***************************************************************************)
(* C07 - op-level linearity acceptor.                                       *)
(*                                                                         *)
(* An execution of a transform is recorded as the sequence of tensor        *)
(* operators (aten level) it performed.  Every tensor storage is in one of  *)
(* three classes:                                                           *)
(*    "T"  may depend on the probed input (tainted),                        *)
(*    "Z"  known to be identically zero,                                    *)
(*    "K"  input-independent constant (filters, index vectors, scalars).    *)
(* The acceptor below admits an event only if the operator is LINEAR AND    *)
(* HOMOGENEOUS in its T operands for fixed K operands, and never lets an    *)
(* input-dependent value steer control flow or indexing.  If every event of *)
(* a trace is accepted, the execution is a straight-line program of linear  *)
(* maps with input-independent coefficients: the transform, on that shape,  *)
(* is a linear map T with T(0) = 0, fully determined by its action on a     *)
(* basis - which is what makes the identity-batch operator extraction used  *)
(* by the other properties a decision procedure rather than a sample.       *)
(*                                                                         *)
(* Soundness of the rules is itself model-checked on an abstract value      *)
(* semantics in module LinearProgSound.                                     *)
(***************************************************************************)
EXTENDS Integers, Sequences, FiniteSets

Classes == {"T", "Z", "K"}

\* join of the classes of data flowing into a result
Join(S) == IF "T" \in S THEN "T" ELSE IF S \subseteq {"Z"} THEN "Z" ELSE "K"

(* An event is a record
     [cat    : category of the operator (see below),
      a      : sequence of argument classes, in the operator's argument order (tensor arguments only),
      role   : for "index"-like operators, the set of argument positions that are index tensors,
      snz    : TRUE iff a Python-scalar argument that is ADDED is non-zero, or the pad value is non-zero,
      dst    : class of the destination storage for in-place / copying operators (else "Z"),
      full   : for "copy": the destination view covers its whole storage (a complete overwrite)]
   The harness computes the classes with the transfer function Out below, so a trace is a
   behaviour of this acceptor: the class of every storage is part of the state. *)

Accepts(e) ==
    LET A == {e.a[i] : i \in DOMAIN e.a}
        nT == Cardinality({i \in DOMAIN e.a : e.a[i] = "T"})
    IN
    CASE e.cat = "structural" -> TRUE                    \* views, cat/stack/repeat/clone/_to_copy, pooling,
                                                         \* nearest up-sampling, reflection/replication/zero pad
      [] e.cat = "create_zero" -> TRUE
      [] e.cat = "create_const" -> TRUE
      [] e.cat = "pad_value"  -> (("T" \in A) => ~e.snz)             \* constant_pad_nd with value 0 only
      [] e.cat = "index"      -> \A i \in e.role : e.a[i] # "T"      \* indices never depend on the input
      [] e.cat = "index_add"  -> /\ \A i \in e.role : e.a[i] # "T"
                                 \* data classes = all arguments that are not indices, plus the destination
                                 /\ LET D == {e.a[i] : i \in (DOMAIN e.a) \ e.role} \cup {e.dst}
                                    IN  ("T" \in D) => D \subseteq {"T", "Z"}
      [] e.cat = "conv"       -> /\ nT <= 1                            \* input XOR weight may be tainted
                                 /\ (Len(e.a) >= 3 /\ "T" \in A) => e.a[3] = "Z"   \* no constant bias
      \* autograd's native convolution backward (grad_output, input, weight) returns several tensors, each a
      \* product with grad_output; they share one class here, so only grad_output may carry the probe
      [] e.cat = "conv_backward" -> Len(e.a) >= 3 /\ e.a[2] # "T" /\ e.a[3] # "T"
      [] e.cat = "addsub"     -> ("T" \in A) => (A \subseteq {"T", "Z"} /\ ~e.snz)
      [] e.cat = "mul"        -> nT <= 1
      [] e.cat = "div"        -> Len(e.a) >= 2 => e.a[2] # "T"        \* never divide by the input
      \* a (possibly partial) overwrite mixes destination and source: neither may be a non-zero constant
      \* once the other depends on the input
      [] e.cat = "copy"       -> \/ e.full
                                 \/ LET D == {e.a[Len(e.a)], e.dst} IN ("T" \in D) => D \subseteq {"T", "Z"}
      [] e.cat = "fill_zero"  -> TRUE
      [] e.cat = "pyscalar"   -> "T" \notin A                          \* no input-dependent Python value
      [] e.cat = "nonlinear"  -> "T" \notin A
      [] OTHER                -> "T" \notin A                          \* unknown operators on constants only

\* class of the result (and of the destination storage for in-place operators)
Out(e) ==
    LET A == {e.a[i] : i \in DOMAIN e.a} IN
    CASE e.cat \in {"create_zero", "fill_zero"} -> "Z"
      [] e.cat = "create_const" -> "K"
      [] e.cat = "copy" -> IF e.full THEN e.a[Len(e.a)] ELSE Join(A \cup {e.dst})
      [] e.cat = "index_add" -> Join(A \cup {e.dst})
      [] e.cat = "index" -> e.a[1]
      [] e.cat = "mul" -> IF "Z" \in A THEN "Z" ELSE Join(A)
      [] e.cat = "addsub" -> IF e.snz THEN Join(A \cup {"K"}) ELSE Join(A)
      [] e.cat = "pad_value" -> IF e.snz THEN Join(A \cup {"K"}) ELSE Join(A)
      [] e.cat \in {"structural", "conv", "div"} -> Join(A)
      [] e.cat = "conv_backward" -> e.a[1]
      \* a non-linear or unknown operator (accepted only on constants) maps zeros to a constant, not to zero
      [] OTHER -> IF "T" \in A THEN "T" ELSE "K"
=============================================================================
