----------------------------- MODULE MC_DTCWT1 -----------------------------
(* Bounded model: every (routine, rows, filter length, polarity) of the 1-D DTCWT building blocks. *)
EXTENDS DTCWT1Laws, Json

CONSTANTS RSet, L1Set, QSet, Shard, NShards, Emit, PRMaxR
VARIABLES cfg
vars == <<cfg>>
NoCfg == [kind |-> "none", r |-> 0, L |-> 0, hp |-> FALSE]
Init == cfg = NoCfg
Pick == /\ cfg = NoCfg
        /\ \E r \in RSet :
             /\ r % NShards = Shard
             /\ \/ \E L \in L1Set : cfg' = [kind |-> "colfilter", r |-> r, L |-> L, hp |-> FALSE]
                \/ \E L \in L1Set : cfg' = [kind |-> "colfilter0", r |-> r, L |-> L, hp |-> FALSE]
                \/ \E m \in QSet, hp \in BOOLEAN : r % 4 = 0 /\ cfg' = [kind |-> "coldfilt", r |-> r, L |-> m, hp |-> hp]
                \/ \E m \in QSet, hp \in BOOLEAN : r % 2 = 0 /\ cfg' = [kind |-> "colifilt", r |-> r, L |-> m, hp |-> hp]
Spec == Init /\ [][Pick]_vars

\* the code replaces the reference's data test sum(ha*hb) > 0 by a flag: highpass <=> negative polarity
\* (the premise sum(h0a*h0b) > 0 > sum(h1a*h1b) is an identity of the shipped tables, module Tables)
Pol(hp) == ~hp

ColfilterOK == cfg.kind = "colfilter" =>
                  /\ Same3(ImplColfilter(cfg.r, cfg.L), RefColfilter(cfg.r, cfg.L))
                  /\ (cfg.L % 2 = 1 => ImplColfilter(cfg.r, cfg.L).no = cfg.r)
\* zero extension: same size for odd lengths, never reads outside the column
Colfilter0OK == cfg.kind = "colfilter0" =>
                  /\ Same3(ImplColfilterZero(cfg.r, cfg.L), RefColfilterZero(cfg.r, cfg.L))
                  /\ (cfg.L % 2 = 1 => ImplColfilterZero(cfg.r, cfg.L).no = cfg.r)
ColdfiltOK == cfg.kind = "coldfilt" =>
                  /\ SamePair(ImplColdfilt(cfg.r, cfg.L, cfg.hp), RefColdfilt(cfg.r, cfg.L, Pol(cfg.hp)))
                  /\ ImplColdfilt(cfg.r, cfg.L, cfg.hp).a.no = cfg.r \div 2
\* the scalar position maps of DTCWT1Src (what TLAPS reasons about for all sizes) are these tensors
ColdScalarOK == cfg.kind = "coldfilt" => ColdScalarForm(cfg.r, cfg.L, cfg.hp)
ColifiltOK == cfg.kind = "colifilt" =>
                  /\ SamePair(ImplColifilt(cfg.r, cfg.L, cfg.hp), RefColifilt(cfg.r, cfg.L, Pol(cfg.hp)))
                  /\ ImplColifilt(cfg.r, cfg.L, cfg.hp).a.no = 2 * cfg.r

IfiltScalarOK == cfg.kind = "colifilt" => IfiltScalarForm(cfg.r, cfg.L, cfg.hp)

\* C06: the backward passes are the transposes under the table identities
AdjointOK ==
    /\ cfg.kind = "colfilter" => Level1SelfAdjoint(cfg.r, cfg.L)
    /\ cfg.kind = "coldfilt" => DfiltIfiltAdjoint(cfg.r, cfg.L, cfg.hp)
\* C04: exact integer perfect reconstruction on rational instances (every even offset of the lattice filter)
PROK ==
    /\ (cfg.kind = "colfilter" /\ cfg.L = 5 /\ cfg.r <= PRMaxR) => Level1PR(cfg.r)
    /\ (cfg.kind = "coldfilt" /\ ~cfg.hp /\ cfg.r <= PRMaxR) =>
          \A off \in {o \in 0 .. (cfg.L - 4) : o % 2 = 0} : QshiftPR(cfg.r, cfg.L, off)

Record ==
    CASE cfg.kind = "colfilter" ->
           [kind |-> "dt1.colfilter", r |-> cfg.r, L |-> cfg.L, hp |-> FALSE, no |-> RefColfilter(cfg.r, cfg.L).no,
            a |-> Entries3(RefColfilter(cfg.r, cfg.L)), b |-> {}]
      [] cfg.kind = "colfilter0" ->
           [kind |-> "dt1.colfilter0", r |-> cfg.r, L |-> cfg.L, hp |-> FALSE, no |-> RefColfilterZero(cfg.r, cfg.L).no,
            a |-> Entries3(RefColfilterZero(cfg.r, cfg.L)), b |-> {}]
      [] cfg.kind = "coldfilt" ->
           LET P == RefColdfilt(cfg.r, cfg.L, Pol(cfg.hp)) IN
           [kind |-> "dt1.coldfilt", r |-> cfg.r, L |-> cfg.L, hp |-> cfg.hp, no |-> P.a.no, a |-> Entries3(P.a), b |-> Entries3(P.b)]
      [] cfg.kind = "colifilt" ->
           LET P == RefColifilt(cfg.r, cfg.L, Pol(cfg.hp)) IN
           [kind |-> "dt1.colifilt", r |-> cfg.r, L |-> cfg.L, hp |-> cfg.hp, no |-> P.a.no, a |-> Entries3(P.a), b |-> Entries3(P.b)]
EmitOK == (cfg # NoCfg /\ Emit) => PrintT(<<"@@REC", ToJson(Record)>>)
=============================================================================
