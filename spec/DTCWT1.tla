------------------------------ MODULE DTCWT1 ------------------------------
(***************************************************************************)
(* One-dimensional building blocks of the dual-tree complex wavelet          *)
(* transform (dtcwt/lowlevel.py) in two layers:                              *)
(*   Ref*   the reference NumPy implementation (package `dtcwt`,             *)
(*          numpy/lowlevel.py: colfilter, coldfilt, colifilt) transcribed    *)
(*          with its `t = 5, 9, ...` polyphase picks and the                 *)
(*          sign(sum(ha*hb)) polarity rule as a parameter;                   *)
(*   Impl*  the torch code: symm_pad index vector, xe[2::2] / xe[3::2] tree  *)
(*          stacking, strided grouped correlation with the FLIPPED stored    *)
(*          filters, stack(...).view interleave, the `highpass` flag, the    *)
(*          even/odd sub-filters taken from the flipped tensors.             *)
(* An operator with two filters (tree a / tree b) is a record [a, b] of Op3  *)
(* tensors:  Y[v] = SUM_t ha[t]*a.c[v][t][n]*X[n] + SUM_t hb[t]*b.c[v][t][n]*X[n] *)
(* where ha, hb are the FIRST and SECOND filter arguments of the routine in  *)
(* table order.  Rows/columns are symmetric (the row variants transpose).    *)
(***************************************************************************)
EXTENDS Idx, DTCWT1Src, Op, TLC

\* Python slice xe[start:stop:step] over a length-n vector (start >= 0; stop may be negative or NoneIdx)
SliceIdx(n, start, stop, step) ==
    LET b == PyStop(n, stop)
        cnt == IF b > start THEN ((b - start - 1) \div step) + 1 ELSE 0
    IN  [q \in Rng(cnt) |-> start + step * q]
SliceLen(n, start, stop, step) ==
    LET b == PyStop(n, stop) IN IF b > start THEN ((b - start - 1) \div step) + 1 ELSE 0

Zero3(no, nt, ni) == Mk3(no, nt, ni, LAMBDA o, t, i : 0)
CorrLen(n, L, s) == IF n < L THEN 0 ELSE ((n - L) \div s) + 1

(* ============================ level 1: colfilter ========================= *)
\* reference: xe = reflect(arange(-m2, r+m2)), 'valid' convolution  Y[v] = SUM_i h[i]*Xe[v+L-1-i]
RefColfilter(r, L) ==
    LET m2 == L \div 2
        xe == SymmPad(r, m2)
    IN  FromSrc(r + 2 * m2 - L + 1, L, r, LAMBDA v, i : xe[v + L - 1 - i])
\* torch: m = h.shape[2] // 2; X[:,:,xe] then conv2d with the stored (flipped) filter
ImplColfilter(r, L) ==
    LET m  == L \div 2
        xe == SymmPad(r, m)
    IN  FromSrc(r + 2 * m - L + 1, L, r, LAMBDA v, t : LET u == L - 1 - t IN xe[v + u])

\* any other `mode`: F.conv2d(X, h, padding=(m, 0)) - the column is extended by m = L div 2 ZEROS on both sides
\* (the level-1 stage of ScatLayer(mode='zero') and DTCWTForward(mode='zero', J=1); the reference package has no such mode,
\* the declarative meaning is "the same 'valid' convolution of the zero-extended column")
RefColfilterZero(r, L) ==
    LET m2 == L \div 2
    IN  FromSrc(r + 2 * m2 - L + 1, L, r, LAMBDA v, i : SrcExt("zero", r, v + L - 1 - i - m2))
ImplColfilterZero(r, L) ==
    LET m == L \div 2
    IN  FromSrc(r + 2 * m - L + 1, L, r, LAMBDA v, t : LET src == v + (L - 1 - t) - m IN IF src >= 0 /\ src < r THEN src ELSE -1)

(* ============================ level >= 2: coldfilt ======================= *)
\* reference coldfilt(X, ha, hb); pol = (sum(ha*hb) > 0)
RefColdfilt(r, m, pol) ==
    LET m2 == m \div 2
        xe == SymmPad(r, m)
        T(q) == 5 + 4 * q
        Q  == ((r + 2 * m - 2 - 5 - 1) \div 4) + 1          \* len(arange(5, r+2m-2, 4))
        nv == Q - m2 + 1                                    \* 'valid' outputs of each polyphase convolution
        \* Ya[v] = SUM_idx ha[2idx]*X[xe[T(v+m2-1-idx)-1]] + ha[2idx+1]*X[xe[T(v+m2-1-idx)-3]]
        SrcA(v, t) == LET idx == t \div 2 IN IF t % 2 = 0 THEN xe[T(v + m2 - 1 - idx) - 1] ELSE xe[T(v + m2 - 1 - idx) - 3]
        SrcB(v, t) == LET idx == t \div 2 IN IF t % 2 = 0 THEN xe[T(v + m2 - 1 - idx)] ELSE xe[T(v + m2 - 1 - idx) - 2]
        first == IF pol THEN 0 ELSE 1        \* Y[s1] = Ya with s1 = 0::2 when pol
    IN  [a |-> FromSrc(2 * nv, m, r, LAMBDA y, t : IF y % 2 = first THEN SrcA(y \div 2, t) ELSE -1),
         b |-> FromSrc(2 * nv, m, r, LAMBDA y, t : IF y % 2 # first THEN SrcB(y \div 2, t) ELSE -1)]

\* torch coldfilt(X, ha, hb, highpass)
ImplColdfilt(r, m, highpass) ==
    LET xe == SymmPad(r, m)
        n1 == r + 2 * m
        ia == SliceIdx(n1, 2, NoneIdx, 2)        \* xe[2::2]
        ib == SliceIdx(n1, 3, NoneIdx, 2)        \* xe[3::2]
        la == SliceLen(n1, 2, NoneIdx, 2)
        nv == CorrLen(la, m, 2)
        \* conv2d(stride 2) with the stored filter hs[u] = h[m-1-u]:  O[v] = SUM_u hs[u]*X1[2v+u]
        SrcA(v, t) == xe[ia[2 * v + (m - 1 - t)]]
        SrcB(v, t) == xe[ib[2 * v + (m - 1 - t)]]
        first == IF highpass THEN 1 ELSE 0       \* stack((Oa, Ob)) or stack((Ob, Oa)) then view
    IN  [a |-> FromSrc(2 * nv, m, r, LAMBDA y, t : IF y % 2 = first THEN SrcA(y \div 2, t) ELSE -1),
         b |-> FromSrc(2 * nv, m, r, LAMBDA y, t : IF y % 2 # first THEN SrcB(y \div 2, t) ELSE -1)]

(* ============================ level >= 2: colifilt ======================= *)
\* reference colifilt(X, ha, hb); output has 2r rows:  Y[4v + c]
RefColifilt(r, m, pol) ==
    LET m2 == m \div 2
        xe == SymmPad(r, m2)
        mh == m2 \div 2            \* length of the even / odd sub-filters when m2 is even ... (m/2 taps each)
        nf == m2                   \* each of hao, hae, hbo, hbe has m/2 taps
    IN  IF m2 % 2 = 0 THEN
            LET T(q) == 3 + 2 * q                      \* arange(3, r+m, 2)
                Ta(q) == IF pol THEN T(q) ELSE T(q) - 1
                Tb(q) == IF pol THEN T(q) - 1 ELSE T(q)
                \* 'valid' convolution with an nf-tap sub-filter: out[v] = SUM_idx f[idx]*S[v+nf-1-idx]
                \* phase 0: X[xe[tb-2]] * hae ; 1: X[xe[ta-2]] * hbe ; 2: X[xe[tb]] * hao ; 3: X[xe[ta]] * hbo
                \* (hao = h[0::2], hae = h[1::2])
                A(y, t) == LET v == y \div 4  c == y % 4  idx == t \div 2  q == v + nf - 1 - idx
                           IN  IF c = 0 /\ t % 2 = 1 THEN xe[Tb(q) - 2]
                               ELSE IF c = 2 /\ t % 2 = 0 THEN xe[Tb(q)] ELSE -1
                Bf(y, t) == LET v == y \div 4  c == y % 4  idx == t \div 2  q == v + nf - 1 - idx
                            IN  IF c = 1 /\ t % 2 = 1 THEN xe[Ta(q) - 2]
                                ELSE IF c = 3 /\ t % 2 = 0 THEN xe[Ta(q)] ELSE -1
            IN  [a |-> FromSrc(2 * r, m, r, A), b |-> FromSrc(2 * r, m, r, Bf)]
        ELSE
            LET T(q) == 2 + 2 * q                      \* arange(2, r+m-1, 2)
                Ta(q) == IF pol THEN T(q) ELSE T(q) - 1
                Tb(q) == IF pol THEN T(q) - 1 ELSE T(q)
                \* phase 0: X[xe[tb]] * hao ; 1: X[xe[ta]] * hbo ; 2: X[xe[tb]] * hae ; 3: X[xe[ta]] * hbe
                A(y, t) == LET v == y \div 4  c == y % 4  idx == t \div 2  q == v + nf - 1 - idx
                           IN  IF c = 0 /\ t % 2 = 0 THEN xe[Tb(q)]
                               ELSE IF c = 2 /\ t % 2 = 1 THEN xe[Tb(q)] ELSE -1
                Bf(y, t) == LET v == y \div 4  c == y % 4  idx == t \div 2  q == v + nf - 1 - idx
                            IN  IF c = 1 /\ t % 2 = 0 THEN xe[Ta(q)]
                                ELSE IF c = 3 /\ t % 2 = 1 THEN xe[Ta(q)] ELSE -1
            IN  [a |-> FromSrc(2 * r, m, r, A), b |-> FromSrc(2 * r, m, r, Bf)]

\* torch colifilt(X, ha, hb, highpass): sub-filters are slices of the STORED (flipped) tensors
ImplColifilt(r, m, highpass) ==
    LET m2 == m \div 2
        xe == SymmPad(r, m2)
        n1 == r + 2 * m2
        \* stored s[u] = h[m-1-u];  "odd" sub-filter so[w] = s[1+2w] = h[m-2-2w];  "even" se[w] = s[2w] = h[m-1-2w]
        TapOdd(w)  == m - 2 - 2 * w
        TapEven(w) == m - 1 - 2 * w
        \* group g in 0..3 uses index list Gidx(g) and sub-filter kind Gk(g) ("e"/"o") of tree Gt(g) ("a"/"b")
        Gidx(g) ==
            IF m2 % 2 = 0 THEN
                (IF highpass
                 THEN CASE g = 0 -> SliceIdx(n1, 1, -2, 2) [] g = 1 -> SliceIdx(n1, 0, -2, 2)
                        [] g = 2 -> SliceIdx(n1, 3, NoneIdx, 2) [] g = 3 -> SliceIdx(n1, 2, NoneIdx, 2)
                 ELSE CASE g = 0 -> SliceIdx(n1, 0, -2, 2) [] g = 1 -> SliceIdx(n1, 1, -2, 2)
                        [] g = 2 -> SliceIdx(n1, 2, NoneIdx, 2) [] g = 3 -> SliceIdx(n1, 3, NoneIdx, 2))
            ELSE
                (IF highpass
                 THEN CASE g = 0 -> SliceIdx(n1, 2, -1, 2) [] g = 1 -> SliceIdx(n1, 1, -1, 2)
                        [] g = 2 -> SliceIdx(n1, 2, -1, 2) [] g = 3 -> SliceIdx(n1, 1, -1, 2)
                 ELSE CASE g = 0 -> SliceIdx(n1, 1, -1, 2) [] g = 1 -> SliceIdx(n1, 2, -1, 2)
                        [] g = 2 -> SliceIdx(n1, 1, -1, 2) [] g = 3 -> SliceIdx(n1, 2, -1, 2))
        \* h1..h4 = (hae, hbe, hao, hbo) if m2 even else (hao, hbo, hae, hbe)
        Gk(g) == IF m2 % 2 = 0 THEN (IF g < 2 THEN "e" ELSE "o") ELSE (IF g < 2 THEN "o" ELSE "e")
        Gt(g) == IF g % 2 = 0 THEN "a" ELSE "b"
        \* conv2d (no stride) with an m2-tap sub-filter:  out_g[v] = SUM_w sub[w]*Xg[v+w];  Y[4v+g] = out_g[v]
        Src(tree, y, t) ==
            LET v == y \div 4  g == y % 4
            IN  IF Gt(g) # tree THEN -1
                ELSE LET isodd == (Gk(g) = "o")
                         \* the w with TapOdd(w) = t or TapEven(w) = t, if t has the right parity
                         num == IF isodd THEN m - 2 - t ELSE m - 1 - t
                     IN  IF num < 0 \/ num % 2 # 0 \/ (num \div 2) >= m2 THEN -1
                         ELSE xe[Gidx(g)[v + (num \div 2)]]
    IN  [a |-> FromSrc(2 * r, m, r, LAMBDA y, t : Src("a", y, t)),
         b |-> FromSrc(2 * r, m, r, LAMBDA y, t : Src("b", y, t))]

SamePair(P, Q) == Same3(P.a, Q.a) /\ Same3(P.b, Q.b)

(* ---- the scalar forms of module DTCWT1Src describe the coldfilt tensors (checked by TLC; proved equal by TLAPS) ---- *)
ColdFromScalar(count, r, m, first, Src(_, _, _)) ==
    [a |-> FromSrc(count, m, r, LAMBDA y, t : IF y % 2 = first THEN Src("a", y \div 2, t) ELSE -1),
     b |-> FromSrc(count, m, r, LAMBDA y, t : IF y % 2 # first THEN Src("b", y \div 2, t) ELSE -1)]
ColdScalarForm(r, m, hp) ==
    /\ SamePair(ImplColdfilt(r, m, hp),
                ColdFromScalar(ImplColdCount(r, m), r, m, IF hp THEN 1 ELSE 0, LAMBDA tr, v, t : ImplColdSrc(r, m, tr, v, t)))
    /\ SamePair(RefColdfilt(r, m, ~hp),
                ColdFromScalar(RefColdCount(r, m), r, m, IF ~hp THEN 0 ELSE 1, LAMBDA tr, v, t : RefColdSrc(r, m, tr, v, t)))
IfiltFromScalar(r, m, Pos(_, _, _)) ==
    [a |-> FromSrc(2 * r, m, r, LAMBDA y, t : IfiltExt(r, m, Pos("a", y, t))),
     b |-> FromSrc(2 * r, m, r, LAMBDA y, t : IfiltExt(r, m, Pos("b", y, t)))]
IfiltScalarForm(r, m, hp) ==
    /\ SamePair(ImplColifilt(r, m, hp), IfiltFromScalar(r, m, LAMBDA tr, y, t : ImplIfiltPos(m, hp, tr, y, t)))
    /\ SamePair(RefColifilt(r, m, ~hp), IfiltFromScalar(r, m, LAMBDA tr, y, t : RefIfiltPos(m, ~hp, tr, y, t)))
=============================================================================
