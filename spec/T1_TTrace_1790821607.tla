---- MODULE T1_TTrace_1790821607 ----
EXTENDS Sequences, TLCExt, Toolbox, Naturals, TLC, T1

_expression ==
    LET T1_TEExpression == INSTANCE T1_TEExpression
    IN T1_TEExpression!expression
----

_trace ==
    LET T1_TETrace == INSTANCE T1_TETrace
    IN T1_TETrace!trace
----

_inv ==
    ~(
        TLCGet("level") = Len(_TETrace)
        /\
        cfg = ([mode |-> "periodization", N |-> 24, L |-> 12])
    )
----

_init ==
    /\ cfg = _TETrace[1].cfg
----

_next ==
    /\ \E i,j \in DOMAIN _TETrace:
        /\ \/ /\ j = i + 1
              /\ i = TLCGet("level")
        /\ cfg  = _TETrace[i].cfg
        /\ cfg' = _TETrace[j].cfg

\* Uncomment the ASSUME below to write the states of the error trace
\* to the given file in Json format. Note that you can pass any tuple
\* to `JsonSerialize`. For example, a sub-sequence of _TETrace.
    \* ASSUME
    \*     LET J == INSTANCE Json
    \*         IN J!JsonSerialize("T1_TTrace_1790821607.json", _TETrace)

=============================================================================

 Note that you can extract this module `T1_TEExpression`
  to a dedicated file to reuse `expression` (the module in the 
  dedicated `T1_TEExpression.tla` file takes precedence 
  over the module `T1_TEExpression` below).

---- MODULE T1_TEExpression ----
EXTENDS Sequences, TLCExt, Toolbox, Naturals, TLC, T1

expression == 
    [
        \* To hide variables of the `T1` spec from the error trace,
        \* remove the variables below.  The trace will be written in the order
        \* of the fields of this record.
        cfg |-> cfg
        
        \* Put additional constant-, state-, and action-level expressions here:
        \* ,_stateNumber |-> _TEPosition
        \* ,_cfgUnchanged |-> cfg = cfg'
        
        \* Format the `cfg` variable as Json value.
        \* ,_cfgJson |->
        \*     LET J == INSTANCE Json
        \*     IN J!ToJson(cfg)
        
        \* Lastly, you may build expressions over arbitrary sets of states by
        \* leveraging the _TETrace operator.  For example, this is how to
        \* count the number of times a spec variable changed up to the current
        \* state in the trace.
        \* ,_cfgModCount |->
        \*     LET F[s \in DOMAIN _TETrace] ==
        \*         IF s = 1 THEN 0
        \*         ELSE IF _TETrace[s].cfg # _TETrace[s-1].cfg
        \*             THEN 1 + F[s-1] ELSE F[s-1]
        \*     IN F[_TEPosition - 1]
    ]

=============================================================================



Parsing and semantic processing can take forever if the trace below is long.
 In this case, it is advised to uncomment the module below to deserialize the
 trace from a generated binary file.

\*
\*---- MODULE T1_TETrace ----
\*EXTENDS IOUtils, TLC, T1
\*
\*trace == IODeserialize("T1_TTrace_1790821607.bin", TRUE)
\*
\*=============================================================================
\*

---- MODULE T1_TETrace ----
EXTENDS TLC, T1

trace == 
    <<
    ([cfg |-> [mode |-> "none", N |-> 0, L |-> 0]]),
    ([cfg |-> [mode |-> "periodization", N |-> 24, L |-> 12]])
    >>
----


=============================================================================

---- CONFIG T1_TTrace_1790821607 ----
CONSTANTS
    NSet = { 24 }
    LSet = { 12 }
    ModeSet = { "periodization" }
    Shard = 0
    NShards = 1
    Emit = FALSE
    EmitGrad = FALSE
    GradFix = FALSE
    PerFix = TRUE
    PRMaxN = 12
    PRMaxL = 8

INVARIANT
    _inv

CHECK_DEADLOCK
    \* CHECK_DEADLOCK off because of PROPERTY or INVARIANT above.
    FALSE

INIT
    _init

NEXT
    _next

CONSTANT
    _TETrace <- _trace

ALIAS
    _expression
=============================================================================
\* Generated on Thu Oct 01 02:26:49 UTC 2026