--------------------------- MODULE LinearProgSound ---------------------------
(***************************************************************************)
(* Soundness self-test of the acceptor of module LinearProg.                *)
(*                                                                         *)
(* Abstract value semantics: a value is a polynomial in the probed input x  *)
(* abstracted to which parts MAY be non-zero:                               *)
(*     [c |-> constant part, l |-> linear part, n |-> non-linear part]      *)
(* A small register machine executes every sequence of operators up to      *)
(* MaxLen over NReg registers; a step is taken only if the acceptor admits   *)
(* it for the classes the harness would have logged.  Invariant: every       *)
(* value that may depend on the input is homogeneous-linear (no constant,    *)
(* no non-linear part) and its class is "T"; "Z" values are zero.  TLC       *)
(* explores all programs; a rule that is too permissive is refuted by a      *)
(* concrete program.                                                         *)
(***************************************************************************)
EXTENDS LinearProg, TLC

CONSTANTS NReg, MaxLen
VARIABLES val, cls, steps
vars == <<val, cls, steps>>

Regs == 1 .. NReg
Zero == [c |-> FALSE, l |-> FALSE, n |-> FALSE]
Konst == [c |-> TRUE, l |-> FALSE, n |-> FALSE]
Input == [c |-> FALSE, l |-> TRUE, n |-> FALSE]
VAdd(a, b) == [c |-> a.c \/ b.c, l |-> a.l \/ b.l, n |-> a.n \/ b.n]
NonZ(a) == a.c \/ a.l \/ a.n
VMul(a, b) == [c |-> a.c /\ b.c,
               l |-> (a.c /\ b.l) \/ (a.l /\ b.c),
               n |-> (a.l /\ b.l) \/ (a.n /\ NonZ(b)) \/ (b.n /\ NonZ(a))]
VDiv(a, b) == \* a / b : anything divided by an input-dependent value is non-linear
              IF b.l \/ b.n THEN [c |-> FALSE, l |-> FALSE, n |-> NonZ(a)] ELSE a
VNonlin(a) == IF a.l \/ a.n THEN [c |-> a.c, l |-> FALSE, n |-> TRUE] ELSE Konst
\* partial overwrite of dst by src: the result holds parts of both
VCopy(dst, src) == VAdd(dst, src)

Init == /\ val = [r \in Regs |-> Zero] /\ cls = [r \in Regs |-> "Z"] /\ steps = 0

Step(r, e, v) == /\ Accepts(e)
                 /\ val' = [val EXCEPT ![r] = v]
                 /\ cls' = [cls EXCEPT ![r] = Out(e)]
                 /\ steps' = steps + 1

Next ==
    /\ steps < MaxLen
    /\ \E r \in Regs :
         \/ (val' = [val EXCEPT ![r] = Input] /\ cls' = [cls EXCEPT ![r] = "T"] /\ steps' = steps + 1)
         \/ Step(r, [cat |-> "create_zero", a |-> << >>, role |-> {}, snz |-> FALSE, dst |-> "Z", full |-> FALSE], Zero)
         \/ Step(r, [cat |-> "create_const", a |-> << >>, role |-> {}, snz |-> FALSE, dst |-> "Z", full |-> FALSE], Konst)
         \/ \E a \in Regs, b \in Regs :
               \/ Step(r, [cat |-> "addsub", a |-> <<cls[a], cls[b]>>, role |-> {}, snz |-> FALSE, dst |-> "Z", full |-> FALSE],
                       VAdd(val[a], val[b]))
               \/ Step(r, [cat |-> "addsub", a |-> <<cls[a]>>, role |-> {}, snz |-> TRUE, dst |-> "Z", full |-> FALSE],
                       VAdd(val[a], Konst))                                   \* x + 3
               \/ Step(r, [cat |-> "mul", a |-> <<cls[a], cls[b]>>, role |-> {}, snz |-> FALSE, dst |-> "Z", full |-> FALSE],
                       VMul(val[a], val[b]))
               \/ Step(r, [cat |-> "div", a |-> <<cls[a], cls[b]>>, role |-> {}, snz |-> FALSE, dst |-> "Z", full |-> FALSE],
                       VDiv(val[a], val[b]))
               \/ Step(r, [cat |-> "conv", a |-> <<cls[a], cls[b]>>, role |-> {}, snz |-> FALSE, dst |-> "Z", full |-> FALSE],
                       VMul(val[a], val[b]))
               \/ Step(r, [cat |-> "conv_backward", a |-> <<cls[a], cls[b], cls[r]>>, role |-> {}, snz |-> FALSE, dst |-> "Z", full |-> FALSE],
                       VAdd(VAdd(VMul(val[a], val[r]), VMul(val[b], val[a])), val[a]))   \* grad_input, grad_weight, grad_bias
               \/ Step(r, [cat |-> "conv", a |-> <<cls[a], cls[b], cls[r]>>, role |-> {}, snz |-> FALSE, dst |-> "Z", full |-> FALSE],
                       VAdd(VMul(val[a], val[b]), val[r]))                    \* with bias = old r
               \/ Step(r, [cat |-> "index", a |-> <<cls[a], cls[b]>>, role |-> {2}, snz |-> FALSE, dst |-> "Z", full |-> FALSE],
                       IF val[b].l \/ val[b].n THEN [c |-> val[a].c, l |-> FALSE, n |-> TRUE] ELSE val[a])
               \/ (a = r /\ Step(r, [cat |-> "copy", a |-> <<cls[r], cls[b]>>, role |-> {}, snz |-> FALSE, dst |-> cls[r], full |-> FALSE],
                       VCopy(val[r], val[b])))
               \/ (a = r /\ Step(r, [cat |-> "copy", a |-> <<cls[r], cls[b]>>, role |-> {}, snz |-> FALSE, dst |-> cls[r], full |-> TRUE],
                       val[b]))
               \/ (a = r /\ Step(r, [cat |-> "index_add", a |-> <<cls[r], cls[a], cls[b]>>, role |-> {2}, snz |-> FALSE, dst |-> cls[r], full |-> FALSE],
                       IF val[a].l \/ val[a].n THEN [c |-> FALSE, l |-> FALSE, n |-> TRUE] ELSE VAdd(val[r], val[b])))
         \/ \E a \in Regs :
               \/ Step(r, [cat |-> "structural", a |-> <<cls[a]>>, role |-> {}, snz |-> FALSE, dst |-> "Z", full |-> FALSE], val[a])
               \/ Step(r, [cat |-> "pad_value", a |-> <<cls[a]>>, role |-> {}, snz |-> TRUE, dst |-> "Z", full |-> FALSE], VAdd(val[a], Konst))
               \/ Step(r, [cat |-> "pad_value", a |-> <<cls[a]>>, role |-> {}, snz |-> FALSE, dst |-> "Z", full |-> FALSE], val[a])
               \/ Step(r, [cat |-> "nonlinear", a |-> <<cls[a]>>, role |-> {}, snz |-> FALSE, dst |-> "Z", full |-> FALSE], VNonlin(val[a]))
               \/ Step(r, [cat |-> "unknown_op", a |-> <<cls[a]>>, role |-> {}, snz |-> FALSE, dst |-> "Z", full |-> FALSE], VNonlin(val[a]))
Spec == Init /\ [][Next]_vars

\* the abstraction is sound and every input-dependent value is homogeneous-linear
Sound == \A r \in Regs :
            /\ (val[r].l \/ val[r].n) => cls[r] = "T"
            /\ cls[r] = "T" => (~val[r].c /\ ~val[r].n)
            /\ cls[r] = "Z" => val[r] = Zero
\* the acceptor is not vacuous: tainted values are really produced and combined
Reach == ~(steps = MaxLen /\ \A r \in Regs : cls[r] = "T")
=============================================================================
