------------------------------- MODULE Session -------------------------------
(***************************************************************************)
(* C15 / C16 - a process using pytorch_wavelets over time: constructions,    *)
(* dtype conversions and (possibly concurrent) transform calls.              *)
(*                                                                         *)
(* State that outlives a call, as the code has it:                           *)
(*   defaultDtype   torch.get_default_dtype(), read by prep_filt_* at        *)
(*                  construction time only                                   *)
(*   cache          keys of dtcwt.coeffs.COEFF_CACHE (tables read so far)    *)
(*   mods           constructed modules: configuration and the dtype of      *)
(*                  their buffers / Parameters                               *)
(*   ver            version counter of every object a call must not write:   *)
(*                  caller arguments, module buffers, cached table arrays    *)
(* A call is split into stages at the hook points of the code; threads       *)
(* interleave at stage boundaries.  The in-place operations of the code      *)
(* (fold-backs, `y /= sqrt 2`, `y[:, :, ::2, ::2] = x1`, index_add_) write   *)
(* only temporaries created by the same call - that is the design claim      *)
(* NoForeignWrite states.  What a call returns is F(configuration, dtype of  *)
(* the buffers, argument): F is uninterpreted, so independence of history    *)
(* and schedule holds in the model by construction; the model earns its      *)
(* keep as the GENERATOR of histories and interleavings that are replayed    *)
(* into the library under a deterministic scheduler, and as the ACCEPTOR of  *)
(* what the replay observes.  `hist` records the behaviour for the replay.   *)
(***************************************************************************)
EXTENDS SessionCore, Json

\* state machine, properties and the negative model: module SessionCore (shared with the TLAPS proofs of SessionProofs)

\* the behaviour, printed once it is complete, for the spec -> code replay
Complete == Len(hist) = Depth
EmitHist == Complete => PrintT(<<"@@REC", ToJson([kind |-> "session.history", hist |-> hist])>>)
=============================================================================
