----------------------------- MODULE DWT1Laws -----------------------------
(***************************************************************************)
(* Algebraic laws of the 1-D filter banks as predicates over Op3 / pair     *)
(* operators.  They are formal identities in the taps: they hold for EVERY  *)
(* filter bank that satisfies the stated premise on its tap values          *)
(* (perfect reconstruction, orthonormality), and the premise itself is a   *)
(* numeric fact about a wavelet's table that the harness checks once per   *)
(* wavelet.                                                                 *)
(***************************************************************************)
EXTENDS DWT1

(* ---- perfect reconstruction (C02) -------------------------------------- *)
(* With G[i][j] = SUM_b g_b[i]*h_b[j], a two-channel bank of even length L   *)
(* is PR iff for both parities p and every d:                                *)
(*      Q_p(d) = SUM_{i+j=d, i mod 2 = p} G[i][j] = [d = L-1].               *)
(* An entry (q,n) of  S o A  is  SUM_{i,j} c[i][j]*G[i][j].  If c depends    *)
(* only on the class (i+j, i mod 2) - "class complete" - the entry equals    *)
(* mult(L-1,0)+mult(L-1,1) for every PR bank.                                *)
ClassUniform(c, L) ==
    \A i \in Rng(L), j \in Rng(L) :
        (i + 2 \in Rng(L) /\ j - 2 \in Rng(L)) => c[i][j] = c[i + 2][j - 2]
\* value of a class-uniform entry for every PR bank: the central anti-diagonal,
\* one representative per parity (i = 0 is even with j = L-1, i = 1 odd with j = L-2)
CentralValue(c, L) == c[0][L - 1] + c[1][L - 2]

\* SA restricted to output rows 0..rows-1 is the identity embedding for every PR bank
FormalPR(SA, L, rows) ==
    \A q \in Rng(rows), n \in Rng(SA.ni) :
        /\ ClassUniform(SA.c[q][n], L)
        /\ CentralValue(SA.c[q][n], L) = Ind(q = n)

(* ---- orthogonality (C17) ------------------------------------------------ *)
(* Premise on an orthonormal pair: SUM_j h_b[j] h_b'[j+2t] = [b=b'][t=0].      *)
(* (A_b A_b'^T)[k][k'] = SUM_{j,j'} cc[j][j'] h_b[j] h_b'[j'] with             *)
(* cc[j][j'] = SUM_n A[k][j][n]*A[k'][j'][n].  The entry is [b=b'][k=k'] for   *)
(* every orthonormal pair iff cc is uniform along each even diagonal, zero on  *)
(* odd diagonals, and the main diagonal carries [k=k'].                        *)
Gram(A) == Compose(A, Transpose3(A))     \* c[k][k'][j][j']
DiagUniform(c, L) ==
    /\ \A j \in Rng(L), jj \in Rng(L) :
          (j + 1 \in Rng(L) /\ jj + 1 \in Rng(L)) => c[j][jj] = c[j + 1][jj + 1]
    /\ \A j \in Rng(L), jj \in Rng(L) : ((j - jj) % 2 = 1) => c[j][jj] = 0
FormalOrthogonal(A, L) ==
    LET G == Gram(A)
    IN  \A k \in Rng(A.no), kk \in Rng(A.no) :
           /\ DiagUniform(G.c[k][kk], L)
           /\ G.c[k][kk][0][0] = Ind(k = kk)
\* the completeness A^T A = I follows from square size: no = ni/2 per band, two bands

\* for an orthogonal wavelet rec = reversed dec: synthesis is the transpose of analysis
SynthesisIsTranspose(S, A) == Same3(Flip3(S), Transpose3(A))

(* ---- admissible region of C17 ------------------------------------------- *)
OrthoAdmissible(N, L) == N % 2 = 0 /\ N >= L
=============================================================================
