------------------------------ MODULE ScatProofs ------------------------------
(***************************************************************************)
(* C08 bookkeeping for ALL sizes and channel counts (TLC checks the same    *)
(* statements of module Scat for SizeSet / CSet): the size extensions of    *)
(* ScatLayer / ScatLayerj2 reach the documented output sizes, and the        *)
(* row-major channel flattenings (view(N, 7C, ..), view(N, 36, C, ..),       *)
(* view(N, 6, 6C, ..) in the backward) are the declarative band/channel map. *)
(***************************************************************************)
EXTENDS Scat, DWT1Proofs

(* quotient uniqueness (remainder uniqueness is IdxProofs!ModUnique) *)
LEMMA DivUnique == \A a \in Int, b \in Pos, q \in Int : \A r \in 0 .. (b - 1) : a = b * q + r => a \div b = q
  <1> TAKE a \in Int, b \in Pos, q \in Int
  <1> TAKE r \in 0 .. (b - 1)
  <1> HAVE a = b * q + r
  <1>1. a % b = r  BY ModUnique
  <1>2. a = b * (a \div b) + (a % b) /\ a \div b \in Int  BY DivMod
  <1> DEFINE p == a \div b
  <1>3. b * (q - p) = b * q - b * p /\ b * q \in Int /\ b * p \in Int /\ q - p \in Int  BY <1>2, Distr DEF Pos
  <1>4. b * (q - p) = 0
    <2> DEFINE bq == b * q
    <2> DEFINE bp == b * p
    <2> DEFINE bd == b * (q - p)
    <2>1. a = bq + r /\ a = bp + r /\ bd = bq - bp /\ bq \in Int /\ bp \in Int /\ r \in Int /\ a \in Int  BY <1>1, <1>2, <1>3
    <2> HIDE DEF bq, bp, bd, p
    <2>2. bd = 0  BY ONLY <2>1
    <2> QED BY <2>2 DEF bd
  <1>5. ~(q - p >= 1)  BY <1>3, <1>4, MulMono DEF Pos
  <1>6. ~(q - p <= -1)  BY <1>3, <1>4, MulMono DEF Pos
  <1>7. q - p = 0  BY <1>3, <1>5, <1>6
  <1> QED BY <1>7, <1>2

THEOREM Size1All == \A r \in Pos : OutSize1(r) = (r + 1) \div 2
  <1> TAKE r \in Pos
  <1> DEFINE s == r % 2
  <1> DEFINE g == r \div 2
  <1>1. r = 2 * g + s /\ s \in 0 .. 1 /\ g \in Int /\ r \in Int
    <2>1. 2 \in Pos /\ r \in Int  BY DEF Pos
    <2> QED BY <2>1, DivMod
  <1> DEFINE a == r + s
  <1> DEFINE b == r + 1
  <1> DEFINE q == g + s
  <1> DEFINE z == 1 - s
  <1>2. a = 2 * q + 0 /\ b = 2 * q + z /\ a \in Int /\ b \in Int /\ q \in Int /\ 0 \in 0 .. 1 /\ z \in 0 .. 1
    <2> HIDE DEF s, g
    <2> QED BY ONLY <1>1
  <1>3. a \div 2 = q
    <2> HIDE DEF a, q
    <2> QED BY <1>2, Half
  <1>4. b \div 2 = q
    <2> HIDE DEF b, q, z
    <2> QED BY <1>2, Half
  <1> QED BY <1>3, <1>4 DEF OutSize1, Ext1

(* the extension to a multiple of 8 (the repaired slicing, or any axis with at least 3 samples) *)
THEOREM Ext8All ==
    \A r \in Pos : (ExtFix \/ r >= 4) => (Ext8OK(r) /\ OutSize2(r) = RefOutSize2(r))
  <1> TAKE r \in Pos
  <1> HAVE ExtFix \/ r >= 4
  <1> DEFINE s == r % 8
  <1> DEFINE g == r \div 8
  <1>1. r = 8 * g + s /\ s \in 0 .. 7 /\ g \in Int /\ r \in Int /\ r >= 1
    <2>1. 8 \in Pos /\ r \in Int /\ r >= 1  BY DEF Pos
    <2> QED BY <2>1, DivMod
  <1>2. CASE s = 0
    <2>0. Before(r) = 0 /\ After(r) = 0  BY <1>2 DEF Before, After
    <2>0a. Got(r, 0) = 0
      <3>0. r \in Int /\ r >= 1  BY <1>1
      <3>1. ~(0 > r)  BY ONLY <3>0
      <3> QED BY <3>1 DEF Got
    <2>1. Ext8(r) = r
      <3>1. Ext8(r) = r + 0 + 0  BY <2>0, <2>0a DEF Ext8
      <3>0. r \in Int  BY <1>1
      <3>2. r + 0 + 0 = r  BY ONLY <3>0
      <3> QED BY <3>1, <3>2
    <2>2. r % 8 = 0  BY <1>2
    <2> DEFINE a == r + 7
    <2>3. a = 8 * g + 7 /\ a \in Int /\ 7 \in 0 .. (8 - 1) /\ 8 \in Pos
      <3>1. 7 \in 0 .. (8 - 1) /\ 8 \in Pos  BY DEF Pos
      <3> HIDE DEF s, g
      <3>2. a = 8 * g + 7 /\ a \in Int  BY ONLY <1>1, <1>2
      <3> QED BY <3>1, <3>2
    <2>4. a \div 8 = g
      <3> HIDE DEF a, g
      <3> QED BY <2>3, <1>1, DivUnique
    <2>5. ((a \div 8) * 8) = r  BY <2>4, <1>1, <1>2
    <2>6. RefOutSize2(r) = r \div 4  BY <2>5 DEF RefOutSize2
    <2> QED BY <2>1, <2>2, <2>6, <1>1 DEF Ext8OK, OutSize2
  <1>3. CASE s # 0
    <2> DEFINE bf == (8 - s) \div 2
    <2> DEFINE af == (9 - s) \div 2
    <2>1. bf + af = 8 - s /\ bf \in Int /\ af \in Int /\ bf >= 0 /\ af >= 0 /\ bf <= 3 /\ af <= 4
      <3>1. CASE s = 1  BY <3>1
      <3>2. CASE s = 2  BY <3>2
      <3>3. CASE s = 3  BY <3>3
      <3>4. CASE s = 4  BY <3>4
      <3>5. CASE s = 5  BY <3>5
      <3>6. CASE s = 6  BY <3>6
      <3>7. CASE s = 7  BY <3>7
      <3> QED BY <1>1, <1>3, <3>1, <3>2, <3>3, <3>4, <3>5, <3>6, <3>7
    <2>2. Before(r) = bf /\ After(r) = af  BY <1>3 DEF Before, After
    <2>3. Got(r, bf) = bf /\ Got(r, af) = af
      <3>1. CASE ExtFix  BY <3>1 DEF Got
      <3>2. CASE r >= 4
        <4> HIDE DEF bf, af
        <4>0. r \in Int  BY <1>1
        <4>1. ~(bf > r) /\ ~(af > r)  BY ONLY <2>1, <3>2, <4>0
        <4> QED BY <4>1 DEF Got
      <3> QED BY <3>1, <3>2
    <2>4. Ext8(r) = r + bf + af  BY <2>2, <2>3 DEF Ext8
    <2> DEFINE e == r + bf + af
    <2> DEFINE q == g + 1
    <2>5. e = 8 * q + 0 /\ e \in Int /\ q \in Int /\ 0 \in 0 .. (8 - 1) /\ 8 \in Pos /\ e >= r /\ e < r + 8
      <3>1. 8 \in Pos  BY DEF Pos
      <3> HIDE DEF bf, af, s, g
      <3>1a. bf + af = 8 - s /\ bf \in Int /\ af \in Int /\ s \in Int /\ s >= 1 /\ s <= 7 /\ g \in Int /\ r = 8 * g + s /\ r \in Int
        BY <1>1, <2>1, <1>3
      <3>2. e = 8 * q + 0 /\ e \in Int /\ q \in Int /\ e >= r /\ e < r + 8  BY ONLY <3>1a
      <3> QED BY <3>1, <3>2
    <2>6. e % 8 = 0
      <3> HIDE DEF e, q
      <3> QED BY <2>5, ModUnique
    <2>7. Ext8OK(r)  BY <2>4, <2>5, <2>6 DEF Ext8OK
    <2> DEFINE a == r + 7
    <2> DEFINE z == s - 1
    <2>8. a = 8 * q + z /\ a \in Int /\ z \in 0 .. (8 - 1)
      <3> HIDE DEF s, g
      <3> QED BY ONLY <1>1, <1>3
    <2>9. a \div 8 = q
      <3> HIDE DEF a, q, z
      <3> QED BY <2>8, <2>5, DivUnique
    <2>10. (a \div 8) * 8 = e
      <3> HIDE DEF a, e, q
      <3> QED BY ONLY <2>9, <2>5
    <2>11. RefOutSize2(r) = e \div 4  BY <2>10 DEF RefOutSize2
    <2> QED BY <2>4, <2>7, <2>11 DEF OutSize2
  <1> QED BY <1>2, <1>3

(* channel flattenings, every channel count C >= 1 *)
THEOREM ChanViewsAll ==
    \A C \in Pos : \A c \in 0 .. (C - 1), o1 \in 0 .. 5, o2 \in 0 .. 5 :
        /\ ImplS1Index(o1, c, C) = [o |-> o1, c |-> c]
        /\ ImplS2Index(o2, o1, c, C) = [band36 |-> 6 * o2 + o1, c |-> c]
        /\ LET flat == (6 * o2 + o1) * C + c
           IN  flat \div (6 * C) = o2 /\ flat % (6 * C) = o1 * C + c
  <1> TAKE C \in Pos
  <1> TAKE c \in 0 .. (C - 1), o1 \in 0 .. 5, o2 \in 0 .. 5
  <1>0. C \in Int /\ C >= 1 /\ c \in Int /\ o1 \in Int /\ o2 \in Int  BY DEF Pos
  <1>1. ImplS1Index(o1, c, C) = [o |-> o1, c |-> c]
    <2> DEFINE flat == o1 * C + c
    <2>1. flat = C * o1 + c /\ flat \in Int  BY <1>0
    <2>2. flat \div C = o1 /\ flat % C = c
      <3> HIDE DEF flat
      <3> QED BY <2>1, <1>0, DivUnique, ModUnique
    <2> QED BY <2>2 DEF ImplS1Index
  <1>2. ImplS2Index(o2, o1, c, C) = [band36 |-> 6 * o2 + o1, c |-> c]
    <2> DEFINE flat == o2 * (6 * C) + (o1 * C + c)
    <2> DEFINE k == 6 * o2 + o1
    <2>1. flat = C * k + c /\ flat \in Int /\ k \in Int  BY <1>0
    <2>2. flat \div C = k /\ flat % C = c
      <3> HIDE DEF flat, k
      <3> QED BY <2>1, <1>0, DivUnique, ModUnique
    <2> QED BY <2>2 DEF ImplS2Index
  <1>3. LET flat == (6 * o2 + o1) * C + c IN flat \div (6 * C) = o2 /\ flat % (6 * C) = o1 * C + c
    <2> DEFINE flat == (6 * o2 + o1) * C + c
    <2> DEFINE b == 6 * C
    <2> DEFINE rr == o1 * C + c
    <2>1. flat = b * o2 + rr /\ flat \in Int /\ b \in Pos /\ rr \in 0 .. (b - 1)
      <3> DEFINE oc == o1 * C
      <3>1. oc \in Int /\ oc >= 0 /\ oc <= 5 * C  BY <1>0
      <3>2. (6 * o2 + o1) * C = (6 * C) * o2 + oc /\ (6 * C) * o2 \in Int  BY <1>0
      <3>3. b \in Pos  BY <1>0 DEF Pos
      <3> DEFINE bo == (6 * C) * o2
      <3>4. flat = bo + oc + c /\ bo \in Int  BY <3>2
      <3> HIDE DEF oc, bo, flat
      <3>5. flat = bo + (oc + c) /\ flat \in Int /\ oc + c >= 0 /\ oc + c <= 6 * C - 1 /\ oc + c \in Int
        BY ONLY <3>1, <3>4, <1>0
      <3> QED BY <3>3, <3>5 DEF oc, bo
    <2>2. flat \div b = o2 /\ flat % b = rr
      <3> HIDE DEF flat, b, rr
      <3> QED BY <2>1, <1>0, DivUnique, ModUnique
    <2> QED BY <2>2
  <1> QED BY <1>1, <1>2, <1>3
=============================================================================
