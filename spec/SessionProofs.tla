----------------------------- MODULE SessionProofs -----------------------------
(***************************************************************************)
(* C15 / C16 at design level for ANY number of threads, module slots,       *)
(* configurations, argument variants, hook points and any history length:   *)
(*   - no action of the Session machine writes an argument, a module buffer *)
(*     or a cached table (NoForeignWrite);                                  *)
(*   - without the memoised helper (~Memo: the code as it is) every call    *)
(*     returns F(configuration, buffer dtype, argument) - whatever other    *)
(*     threads, modules, conversions and earlier calls did in between       *)
(*     (Deterministic) - in the dtype of its argument (OutDtype).           *)
(* TLC explores the same machine for 2 threads and replays its behaviours   *)
(* into the real modules; Memo = TRUE is the negative model of the selftest.*)
(***************************************************************************)
EXTENDS SessionCore, SequenceTheorems, TLAPS

CallRec == [mod : Mods \cup {0}, arg : Args \cup {0}, adt : Dtypes \cup {"none"}, grad : BOOLEAN, stage : Nat,
            cfg : Cfgs \cup {0}, mdt : Dtypes \cup {"none"}]
ModRec == [cfg : Cfgs \cup {0}, dtype : Dtypes \cup {"none"}]
ResRec == [cfg : Cfgs \cup {0}, mdt : Dtypes \cup {"none"}, arg : Args \cup {0}, adt : Dtypes \cup {"none"}]
Rec == [a : {"default"}, d : Dtypes] \cup [a : {"construct"}, m : Mods, c : Cfgs] \cup [a : {"to"}, m : Mods, d : Dtypes]
       \cup [a : {"clone", "reload"}, m : Mods, m2 : Mods]
       \cup [a : {"call_raises"}, t : Threads, m : Mods, x : Args, d : Dtypes]
       \cup [a : {"begin"}, t : Threads, m : Mods, x : Args, d : Dtypes, g : BOOLEAN]
       \cup [a : {"stage"}, t : Threads]
       \cup [a : {"return"}, t : Threads, result : ResRec, expect : ResRec, dtype : Dtypes \cup {"none"}, grad : BOOLEAN]

TypeOK == /\ hist \in Seq(Rec)
          /\ calls \in [Threads -> CallRec]
          /\ mods \in [Mods -> ModRec]
          /\ defaultDtype \in Dtypes

Inv == TypeOK /\ Deterministic /\ OutDtype

LEMMA NoMemo == ASSUME ~Memo PROVE \A c \in CallRec : Fmemo(c) = F(c) /\ F(c) \in ResRec /\ F(c).adt = c.adt
  BY DEF Fmemo, F, CallRec, ResRec

(* appending a record that is not a "return", or a faithful "return", keeps both history invariants *)
LEMMA AppendKeeps ==
    ASSUME hist \in Seq(Rec), Deterministic, OutDtype, NEW e \in Rec, hist' = Append(hist, e),
           e.a = "return" => (e.result = e.expect /\ e.dtype = e.result.adt)
    PROVE  hist' \in Seq(Rec) /\ Deterministic' /\ OutDtype'
  <1>1. hist' \in Seq(Rec) /\ Len(hist') = Len(hist) + 1 /\ DOMAIN hist' = 1 .. (Len(hist) + 1)
    BY AppendProperties
  <1>2. \A i \in 1 .. Len(hist) : hist'[i] = hist[i]  BY AppendProperties
  <1>3. hist'[Len(hist) + 1] = e  BY AppendProperties
  <1>4. Len(hist) \in Nat /\ DOMAIN hist = 1 .. Len(hist)  BY LenProperties
  <1>5. ASSUME NEW k \in DOMAIN hist', hist'[k].a = "return"
        PROVE  hist'[k].result = hist'[k].expect /\ hist'[k].dtype = hist'[k].result.adt
    <2>1. CASE k \in 1 .. Len(hist)
      BY <2>1, <1>2, <1>4, <1>5 DEF Deterministic, OutDtype
    <2>2. CASE k = Len(hist) + 1
      BY <2>2, <1>3, <1>5
    <2> QED BY <2>1, <2>2, <1>1, <1>4
  <1> QED BY <1>1, <1>5 DEF Deterministic, OutDtype

THEOREM SessionSafe == ASSUME ~Memo PROVE Spec => [](Deterministic /\ OutDtype)
  <1>1. Init => Inv
    <2> SUFFICES ASSUME Init PROVE Inv  OBVIOUS
    <2>1. hist = << >> /\ DOMAIN hist = {}  BY DEF Init
    <2>2. hist \in Seq(Rec)  BY <2>1, EmptySeq
    <2>3. calls \in [Threads -> CallRec]  BY DEF Init, Idle, CallRec, Dtypes
    <2>4. mods \in [Mods -> ModRec]  BY DEF Init, NoMod, ModRec
    <2>5. defaultDtype \in Dtypes  BY DEF Init, Dtypes
    <2> QED BY <2>1, <2>2, <2>3, <2>4, <2>5 DEF Inv, TypeOK, Deterministic, OutDtype
  <1>2. Inv /\ [Next]_vars => Inv'
    <2> SUFFICES ASSUME Inv, [Next]_vars PROVE Inv'  OBVIOUS
    <2>0. /\ hist \in Seq(Rec) /\ calls \in [Threads -> CallRec] /\ mods \in [Mods -> ModRec] /\ defaultDtype \in Dtypes
          /\ Deterministic /\ OutDtype
      BY DEF Inv, TypeOK
    <2>1. CASE UNCHANGED vars
      BY <2>1, <2>0 DEF vars, Inv, TypeOK, Deterministic, OutDtype
    <2>2. ASSUME NEW d \in Dtypes, SetDefaultDtype(d) PROVE Inv'
      <3> DEFINE e == [a |-> "default", d |-> d]
      <3>1. e \in Rec /\ hist' = Append(hist, e) /\ e.a # "return"  BY <2>2 DEF SetDefaultDtype, Log, Rec
      <3>2. hist' \in Seq(Rec) /\ Deterministic' /\ OutDtype'  BY <3>1, <2>0, AppendKeeps
      <3>3. calls' = calls /\ mods' = mods /\ defaultDtype' = d  BY <2>2 DEF SetDefaultDtype
      <3> QED BY <3>2, <3>3, <2>0 DEF Inv, TypeOK
    <2>3. ASSUME NEW m \in Mods, NEW c \in Cfgs, Construct(m, c) PROVE Inv'
      <3> DEFINE e == [a |-> "construct", m |-> m, c |-> c]
      <3>1. e \in Rec /\ hist' = Append(hist, e) /\ e.a # "return"  BY <2>3 DEF Construct, Log, Rec
      <3>2. hist' \in Seq(Rec) /\ Deterministic' /\ OutDtype'  BY <3>1, <2>0, AppendKeeps
      <3>3. calls' = calls /\ defaultDtype' = defaultDtype /\ mods' = [mods EXCEPT ![m] = [cfg |-> c, dtype |-> defaultDtype]]
        BY <2>3 DEF Construct
      <3>4. mods' \in [Mods -> ModRec]  BY <3>3, <2>0 DEF ModRec
      <3> QED BY <3>2, <3>3, <3>4, <2>0 DEF Inv, TypeOK
    <2>4. ASSUME NEW m \in Mods, NEW d \in Dtypes, To(m, d) PROVE Inv'
      <3> DEFINE e == [a |-> "to", m |-> m, d |-> d]
      <3>1. e \in Rec /\ hist' = Append(hist, e) /\ e.a # "return"  BY <2>4 DEF To, Log, Rec
      <3>2. hist' \in Seq(Rec) /\ Deterministic' /\ OutDtype'  BY <3>1, <2>0, AppendKeeps
      <3>3. calls' = calls /\ defaultDtype' = defaultDtype /\ mods' = [mods EXCEPT ![m].dtype = d]  BY <2>4 DEF To
      <3>4. mods' \in [Mods -> ModRec]  BY <3>3, <2>0 DEF ModRec
      <3> QED BY <3>2, <3>3, <3>4, <2>0 DEF Inv, TypeOK
    <2>5. ASSUME NEW m \in Mods, NEW m2 \in Mods, Clone(m, m2) PROVE Inv'
      <3> DEFINE e == [a |-> "clone", m |-> m, m2 |-> m2]
      <3>1. e \in Rec /\ hist' = Append(hist, e) /\ e.a # "return"  BY <2>5 DEF Clone, Log, Rec
      <3>2. hist' \in Seq(Rec) /\ Deterministic' /\ OutDtype'  BY <3>1, <2>0, AppendKeeps
      <3>3. calls' = calls /\ defaultDtype' = defaultDtype /\ mods' = [mods EXCEPT ![m2] = mods[m]]  BY <2>5 DEF Clone
      <3>4. mods' \in [Mods -> ModRec]  BY <3>3, <2>0
      <3> QED BY <3>2, <3>3, <3>4, <2>0 DEF Inv, TypeOK
    <2>6. ASSUME NEW m \in Mods, NEW m2 \in Mods, Reload(m, m2) PROVE Inv'
      <3> DEFINE e == [a |-> "reload", m |-> m, m2 |-> m2]
      <3>1. e \in Rec /\ hist' = Append(hist, e) /\ e.a # "return"  BY <2>6 DEF Reload, Log, Rec
      <3>2. hist' \in Seq(Rec) /\ Deterministic' /\ OutDtype'  BY <3>1, <2>0, AppendKeeps
      <3>3. calls' = calls /\ defaultDtype' = defaultDtype
            /\ mods' = [mods EXCEPT ![m2] = [cfg |-> mods[m].cfg, dtype |-> defaultDtype]]  BY <2>6 DEF Reload
      <3>4. mods' \in [Mods -> ModRec]  BY <3>3, <2>0 DEF ModRec
      <3> QED BY <3>2, <3>3, <3>4, <2>0 DEF Inv, TypeOK
    <2>7. ASSUME NEW t \in Threads, NEW m \in Mods, NEW x \in Args, NEW d \in Dtypes, NEW g \in BOOLEAN, CallBegin(t, m, x, d, g)
          PROVE  Inv'
      <3>0. mods' = mods /\ defaultDtype' = defaultDtype  BY <2>7 DEF CallBegin
      <3>1. CASE d # mods[m].dtype
        <4> DEFINE e == [a |-> "call_raises", t |-> t, m |-> m, x |-> x, d |-> d]
        <4>1. e \in Rec /\ hist' = Append(hist, e) /\ e.a # "return" /\ calls' = calls  BY <2>7, <3>1 DEF CallBegin, Log, Rec
        <4>2. hist' \in Seq(Rec) /\ Deterministic' /\ OutDtype'  BY <4>1, <2>0, AppendKeeps
        <4> QED BY <4>1, <4>2, <3>0, <2>0 DEF Inv, TypeOK
      <3>2. CASE d = mods[m].dtype
        <4> DEFINE e == [a |-> "begin", t |-> t, m |-> m, x |-> x, d |-> d, g |-> g]
        <4> DEFINE nc == [mod |-> m, arg |-> x, adt |-> d, grad |-> g, stage |-> 0, cfg |-> mods[m].cfg, mdt |-> mods[m].dtype]
        <4>1. e \in Rec /\ hist' = Append(hist, e) /\ e.a # "return" /\ calls' = [calls EXCEPT ![t] = nc]
          BY <2>7, <3>2 DEF CallBegin, Log, Rec
        <4>2. hist' \in Seq(Rec) /\ Deterministic' /\ OutDtype'  BY <4>1, <2>0, AppendKeeps
        <4>3. nc \in CallRec  BY <2>0 DEF CallRec, ModRec
        <4>4. calls' \in [Threads -> CallRec]  BY <4>1, <4>3, <2>0
        <4> QED BY <4>2, <4>4, <3>0, <2>0 DEF Inv, TypeOK
      <3> QED BY <3>1, <3>2
    <2>8. ASSUME NEW t \in Threads, Stage(t) PROVE Inv'
      <3> DEFINE e == [a |-> "stage", t |-> t]
      <3>1. e \in Rec /\ hist' = Append(hist, e) /\ e.a # "return"  BY <2>8 DEF Stage, Log, Rec
      <3>2. hist' \in Seq(Rec) /\ Deterministic' /\ OutDtype'  BY <3>1, <2>0, AppendKeeps
      <3>3. mods' = mods /\ defaultDtype' = defaultDtype /\ calls' = [calls EXCEPT ![t].stage = @ + 1]  BY <2>8 DEF Stage
      <3>4. calls' \in [Threads -> CallRec]  BY <3>3, <2>0 DEF CallRec
      <3> QED BY <3>2, <3>3, <3>4, <2>0 DEF Inv, TypeOK
    <2>9. ASSUME NEW t \in Threads, CallReturn(t) PROVE Inv'
      <3> DEFINE c == calls[t]
      <3> DEFINE e == [a |-> "return", t |-> t, result |-> Fmemo(c), expect |-> F(c), dtype |-> c.adt, grad |-> c.grad]
      <3>0. c \in CallRec  BY <2>0
      <3>1. Fmemo(c) = F(c) /\ F(c) \in ResRec /\ F(c).adt = c.adt  BY <3>0, NoMemo
      <3>2. e \in Rec  BY <3>0, <3>1 DEF Rec, CallRec
      <3>3. hist' = Append(hist, e) /\ calls' = [calls EXCEPT ![t] = Idle] /\ mods' = mods /\ defaultDtype' = defaultDtype
        BY <2>9 DEF CallReturn, Log
      <3>4. e.a = "return" => (e.result = e.expect /\ e.dtype = e.result.adt)  BY <3>1
      <3>5. hist' \in Seq(Rec) /\ Deterministic' /\ OutDtype'
        <4> HIDE DEF e
        <4> QED BY <3>2, <3>3, <3>4, <2>0, AppendKeeps
      <3>6. Idle \in CallRec  BY DEF Idle, CallRec
      <3>7. calls' \in [Threads -> CallRec]  BY <3>3, <3>6, <2>0
      <3> QED BY <3>5, <3>7, <3>3, <2>0 DEF Inv, TypeOK
    <2>10. CASE Next
      BY <2>10, <2>2, <2>3, <2>4, <2>5, <2>6, <2>7, <2>8, <2>9 DEF Next
    <2> QED BY <2>1, <2>10
  <1>3. Inv => Deterministic /\ OutDtype  BY DEF Inv
  <1> QED BY <1>1, <1>2, <1>3, PTL DEF Spec

(* nothing ever writes an argument, a buffer or a cached table *)
THEOREM SessionNoForeignWrite == Spec => NoForeignWrite
  <1>1. [Next]_vars => (ver' = ver)
    BY DEF Next, vars, SetDefaultDtype, Construct, To, Clone, Reload, CallBegin, Stage, CallReturn
  <1> QED BY <1>1, PTL DEF Spec, NoForeignWrite
=============================================================================
