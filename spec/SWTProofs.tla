------------------------------ MODULE SWTProofs ------------------------------
(***************************************************************************)
(* C13 along one axis, for ALL N >= 1, even L >= 2, dilations d >= 1:       *)
(* the a-trous stage of the code is undecimated (N outputs), reads the       *)
(* samples pywt.swt reads, and commutes with circular shifts.                *)
(***************************************************************************)
EXTENDS SWTSrc, DWT1Proofs

LEMMA MulFacts == \A h \in Int, d \in Int, t \in Int :
                     /\ (2 * h) * d = 2 * (h * d)
                     /\ d * (2 * h - 1 - t) = 2 * (h * d) - d - d * t
                     /\ d * (h - t) = h * d - d * t
                     /\ h * d \in Int /\ d * t \in Int
  OBVIOUS

LEMMA SwtPads ==
    \A L \in EvenPos, d \in Pos :
        /\ SwtPadAfter(L, d) = (L \div 2) * d
        /\ SwtPadBefore(L, d) = (L \div 2) * d - d
  <1> TAKE L \in EvenPos, d \in Pos
  <1> DEFINE h == L \div 2
  <1>1. L = 2 * h /\ h \in Int /\ d \in Int  BY EvenHalf DEF Pos
  <1> DEFINE hd == h * d
  <1>2. L * d = 2 * hd + 0 /\ hd \in Int /\ L * d \in Int /\ 0 \in 0 .. 1
    <2> HIDE DEF h
    <2> QED BY <1>1, MulFacts
  <1>3. (L * d) \div 2 = hd
    <2> DEFINE a == L * d
    <2> HIDE DEF a, hd
    <2> QED BY <1>2, Half DEF a
  <1> QED BY <1>3 DEF SwtPadAfter, SwtPadBefore

THEOREM SwtFullResolution == \A N \in Pos, L \in EvenPos, d \in Pos : ImplSwtCount(N, L, d) = N
  <1> TAKE N \in Pos, L \in EvenPos, d \in Pos
  <1> DEFINE h == L \div 2
  <1> DEFINE hd == h * d
  <1>1. L = 2 * h /\ h \in Int /\ d \in Int /\ N \in Int  BY EvenHalf DEF Pos
  <1>2. SwtPadAfter(L, d) = hd /\ SwtPadBefore(L, d) = hd - d  BY SwtPads
  <1>3. d * (L - 1) = 2 * hd - d /\ hd \in Int
    <2>1. d * (2 * h - 1 - 0) = 2 * (h * d) - d - d * 0 /\ h * d \in Int  BY <1>1, MulFacts
    <2> QED BY <2>1, <1>1
  <1>4. ImplSwtCount(N, L, d) = N + (hd - d) + hd - (2 * hd - d)  BY <1>2, <1>3 DEF ImplSwtCount
  <1> HIDE DEF hd, h
  <1>5. N + (hd - d) + hd - (2 * hd - d) = N  BY ONLY <1>1, <1>3
  <1> QED BY <1>4, <1>5

THEOREM SwtSrcAll ==
    \A N \in Pos, L \in EvenPos, d \in Pos, n \in Int, t \in Int :
        ImplSwtSrc(N, L, d, n, t) = RefSwtSrc(N, L, d, n, t)
  <1> TAKE N \in Pos, L \in EvenPos, d \in Pos, n \in Int, t \in Int
  <1> DEFINE h == L \div 2
  <1> DEFINE hd == h * d
  <1> DEFINE dt == d * t
  <1>1. L = 2 * h /\ h \in Int /\ d \in Int /\ N \in Int  BY EvenHalf DEF Pos
  <1>2. SwtPadBefore(L, d) = hd - d  BY SwtPads
  <1>3. /\ d * (2 * h - 1 - t) = 2 * hd - d - dt
        /\ d * (h - t) = hd - dt
        /\ hd \in Int /\ dt \in Int
    BY <1>1, MulFacts
  <1>4. d * (L - 1 - t) = 2 * hd - d - dt  BY <1>1, <1>3
  <1>5. (n + d * (L - 1 - t)) - SwtPadBefore(L, d) = n + d * (h - t)
    <2>1. (n + (2 * hd - d - dt)) - (hd - d) = n + (hd - dt)
      <3> HIDE DEF hd, dt
      <3> QED BY ONLY <1>3, <1>1, n \in Int
    <2> QED BY <2>1, <1>2, <1>3, <1>4
  <1> QED BY <1>5 DEF ImplSwtSrc, RefSwtSrc

(* (a mod b + c) mod b = (a + c) mod b *)
LEMMA ModAdd == \A a \in Int, c \in Int, b \in Pos : ((a % b) + c) % b = (a + c) % b
  <1> TAKE a \in Int, c \in Int, b \in Pos
  <1> DEFINE q == a \div b
  <1> DEFINE r == a % b
  <1> DEFINE e == r + c
  <1> DEFINE q2 == e \div b
  <1> DEFINE r2 == e % b
  <1>1. a = b * q + r /\ r \in 0 .. (b - 1) /\ q \in Int  BY DivMod
  <1>2. e \in Int  BY <1>1 DEF Pos
  <1>3. e = b * q2 + r2 /\ r2 \in 0 .. (b - 1) /\ q2 \in Int
    <2> HIDE DEF e
    <2> QED BY <1>2, DivMod
  <1>4. b * (q + q2) = b * q + b * q2 /\ q + q2 \in Int /\ b * q \in Int /\ b * q2 \in Int
    BY <1>1, <1>3 DEF Pos
  <1>5. a + c = b * (q + q2) + r2
    <2> DEFINE bq == b * q
    <2> DEFINE bq2 == b * q2
    <2> DEFINE bs == b * (q + q2)
    <2>1. a = bq + r /\ e = bq2 + r2 /\ bs = bq + bq2 /\ e = r + c /\ bq \in Int /\ bq2 \in Int /\ r \in Int /\ r2 \in Int
          /\ a \in Int /\ c \in Int /\ bs \in Int
      BY <1>1, <1>3, <1>4 DEF Pos
    <2> HIDE DEF bq, bq2, bs, e, r, r2, q, q2
    <2>2. a + c = bs + r2  BY ONLY <2>1
    <2> QED BY <2>2 DEF bs
  <1>6. (a + c) % b = r2
    <2> DEFINE s == a + c
    <2> DEFINE k == q + q2
    <2>1. s = b * k + r2 /\ s \in Int /\ k \in Int /\ r2 \in 0 .. (b - 1)  BY <1>5, <1>4, <1>3
    <2> HIDE DEF s, k, r2, q, q2
    <2> QED BY <2>1, ModUnique DEF s
  <1> QED BY <1>6

THEOREM SwtShiftEquivariant ==
    \A N \in Pos, L \in EvenPos, d \in Pos, n \in Int, s \in Int, t \in Int :
        RefSwtSrc(N, L, d, PMod(n + s, N), t) = PMod(RefSwtSrc(N, L, d, n, t) + s, N)
  <1> TAKE N \in Pos, L \in EvenPos, d \in Pos, n \in Int, s \in Int, t \in Int
  <1> DEFINE c == d * ((L \div 2) - t)
  <1>1. c \in Int
    <2>1. L \div 2 \in Int /\ d \in Int  BY EvenHalf DEF Pos
    <2> QED BY <2>1
  <1> HIDE DEF c
  <1>2. (((n + s) % N) + c) % N = ((n + s) + c) % N
    <2> DEFINE a == n + s
    <2>1. a \in Int  OBVIOUS
    <2> HIDE DEF a
    <2> QED BY <2>1, <1>1, ModAdd DEF a
  <1>3. (((n + c) % N) + s) % N = ((n + c) + s) % N
    <2> DEFINE a == n + c
    <2>1. a \in Int  BY <1>1
    <2> HIDE DEF a
    <2> QED BY <2>1, ModAdd DEF a
  <1>4. (n + s) + c = (n + c) + s  BY ONLY <1>1, n \in Int, s \in Int
  <1> QED BY <1>2, <1>3, <1>4 DEF RefSwtSrc, PMod, c
=============================================================================
