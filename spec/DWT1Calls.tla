----------------------------- MODULE DWT1Calls -----------------------------
(***************************************************************************)
(* The multi-level API calls of dwt/transform1d.py as a state machine over *)
(* shapes, presence of levels and autograd "needs grad" flags:             *)
(*   DWT1DForward.forward   (level loop, finest-first list)                *)
(*   DWT1DInverse.forward   (None -> zeros substitution, the "unpad" rule) *)
(*   back-propagation through either (which leaves receive a gradient)     *)
(* The numeric content of each level is the one-level operator of module   *)
(* DWT1 for the length the machine is in; this module decides which        *)
(* operator is applied to what, in which order, and what raises.           *)
(***************************************************************************)
EXTENDS DWT1, Json, SequencesExt

CONSTANTS NSet, LSet, ModeSet, JMax,
          Apis,       \* which API calls this model instance explores: subset of {"fwd","inv","inv_bwd"}
          Shard, NShards, Emit,
          NoneFix,    \* TRUE: tree after "fix:" of the None-level substitution (finding F5)
          GuardFix    \* TRUE: tree after "fix:" of the SFB backward guard (finding F4)

VARIABLES call,      \* the API call being executed (record) or NoCall
          pc,        \* "idle" | "fwd" | "inv" | "bwd" | "done"
          lvl,       \* levels completed so far
          cur,       \* current lowpass length
          his,       \* forward: highpass lengths produced so far (finest first)
          outcome,   \* "running" | "ok" | "raise"
          grads      \* backward: leaf -> "grad" | "none"   (leaf 0 = lowpass, j = highpass level j)
vars == <<call, pc, lvl, cur, his, outcome, grads>>

NoCall == [api |-> "none"]
Levels(J) == 1 .. J

(* ---- reference shapes: pywt.wavedec ---- *)
RECURSIVE RefLens(_, _, _, _)
RefLens(mode, N, L, J) ==    \* highpass lengths, finest first
    IF J = 0 THEN << >>
    ELSE LET M == DwtCoeffLen(N, L, mode) IN <<M>> \o RefLens(mode, M, L, J - 1)

(* ---- lengths the code produces (cheap closed forms, tied to the operators in MC_DWT1_Ops) ---- *)
ImplALen(mode, N, L) ==
    IF mode = "periodization" THEN (N + (N % 2)) \div 2
    ELSE LET pd == ImplAPads(N, L, mode)
             ext == IF mode = "zero" THEN (IF pd.p % 2 = 1 THEN 1 ELSE 0) + 2 * pd.lo
                    ELSE pd.lo + pd.hi
         IN  CorrLen(N + ext, L, 2)

Init == /\ call = NoCall /\ pc = "idle" /\ lvl = 0 /\ cur = 0 /\ his = << >>
        /\ outcome = "running" /\ grads = << >>

(* ------------------------------ forward --------------------------------- *)
StartFwd ==
    /\ pc = "idle" /\ "fwd" \in Apis
    /\ \E m \in ModeSet, N \in NSet, L \in LSet, J \in 1 .. JMax :
          /\ N % NShards = Shard
          /\ call' = [api |-> "fwd", mode |-> m, N |-> N, L |-> L, J |-> J]
          /\ cur' = N
    /\ pc' = "fwd" /\ lvl' = 0 /\ his' = << >>
    /\ UNCHANGED <<outcome, grads>>

FwdLevel ==
    /\ pc = "fwd" /\ lvl < call.J
    /\ IF ImplARaises(call.mode, cur, call.L)
       THEN /\ pc' = "done" /\ outcome' = "raise" /\ UNCHANGED <<lvl, cur, his>>
       ELSE LET M == ImplALen(call.mode, cur, call.L)
            IN  /\ cur' = M /\ his' = Append(his, M) /\ lvl' = lvl + 1
                /\ UNCHANGED <<pc, outcome>>
    /\ UNCHANGED <<call, grads>>

FwdReturn ==
    /\ pc = "fwd" /\ lvl = call.J
    /\ pc' = "done" /\ outcome' = "ok"
    /\ UNCHANGED <<call, lvl, cur, his, grads>>

(* ------------------------------ inverse --------------------------------- *)
\* a pyramid of forward-compatible shapes for a signal of length N, with the levels in
\* `none` passed as None
StartInv ==
    /\ pc = "idle" /\ "inv" \in Apis
    /\ \E m \in ModeSet, N \in NSet, L \in LSet, J \in 1 .. JMax :
          /\ N % NShards = Shard
          /\ \E none \in SUBSET Levels(J) :
                /\ call' = [api |-> "inv", mode |-> m, N |-> N, L |-> L, J |-> J, none |-> none]
                /\ LET lens == RefLens(m, N, L, J) IN his' = lens /\ cur' = lens[J]
    /\ pc' = "inv" /\ lvl' = 0
    /\ UNCHANGED <<outcome, grads>>

\* one pass of the loop body of DWT1DInverse.forward, level j = J - lvl
InvLevel ==
    /\ pc = "inv" /\ lvl < call.J
    /\ LET j     == call.J - lvl
           x1len == IF j \in call.none THEN cur ELSE his[j]      \* zeros_like(x0)
           \* 'Unpad' added signal
           x0len == IF cur > x1len
                    THEN (IF NoneFix THEN x1len ELSE cur - 1)
                    ELSE cur
       IN  IF x0len # x1len
           THEN \* conv_transpose2d(lo) + conv_transpose2d(hi): sizes differ -> RuntimeError
                /\ pc' = "done" /\ outcome' = "raise" /\ UNCHANGED <<lvl, cur>>
           ELSE /\ cur' = ImplSLen(call.mode, x0len, call.L) /\ lvl' = lvl + 1
                /\ UNCHANGED <<pc, outcome>>
    /\ UNCHANGED <<call, his, grads>>

InvReturn ==
    /\ pc = "inv" /\ lvl = call.J
    /\ pc' = "done" /\ outcome' = "ok"
    /\ UNCHANGED <<call, lvl, cur, his, grads>>

(* ----------------------- backward through the inverse -------------------- *)
\* R = the leaves that require grad (0 = yl, j = yh[j-1]); full pyramids only.
\* SFB1D.apply(x0, x1, ...) at level j: needs_input_grad[0] iff x0 depends on a leaf in R
\* (yl or a coarser level), needs_input_grad[1] iff j in R.
NeedsLow(j, R, J) == 0 \in R \/ \E i \in R : i > j
Guard(nl, nh) == IF GuardFix THEN nl \/ nh ELSE nl
StartInvBwd ==
    /\ pc = "idle" /\ "inv_bwd" \in Apis
    /\ \E m \in ModeSet, N \in NSet, L \in LSet, J \in 1 .. JMax :
          /\ N % NShards = Shard
          /\ \E R \in (SUBSET (0 .. J)) \ {{}} :
                call' = [api |-> "inv_bwd", mode |-> m, N |-> N, L |-> L, J |-> J, R |-> R]
    /\ pc' = "bwd" /\ lvl' = 0 /\ grads' = << >>
    /\ UNCHANGED <<cur, his, outcome>>

\* autograd visits the levels finest first (reverse of the forward order of the inverse)
BwdLevel ==
    /\ pc = "bwd" /\ lvl < call.J
    /\ LET j  == lvl + 1
           nl == NeedsLow(j, call.R, call.J)
           nh == j \in call.R
           computed == Guard(nl, nh)
       IN  /\ grads' = grads @@ (j :> IF nh /\ computed THEN "grad" ELSE "none")
                             @@ (IF j = call.J
                                 THEN (0 :> IF 0 \in call.R /\ computed THEN "grad" ELSE "none")
                                 ELSE << >>)
           /\ lvl' = lvl + 1
    /\ UNCHANGED <<call, pc, cur, his, outcome>>

BwdReturn ==
    /\ pc = "bwd" /\ lvl = call.J
    /\ pc' = "done" /\ outcome' = "ok"
    /\ UNCHANGED <<call, lvl, cur, his, grads>>

Next == StartFwd \/ FwdLevel \/ FwdReturn \/ StartInv \/ InvLevel \/ InvReturn
        \/ StartInvBwd \/ BwdLevel \/ BwdReturn
Spec == Init /\ [][Next]_vars

(* ------------------------------ properties ------------------------------- *)
Done(api) == pc = "done" /\ call.api = api

\* C01 (shape clause): same band shapes as pywt.wavedec, finest level first
FwdShapesOK == (Done("fwd") /\ outcome = "ok") => his = RefLens(call.mode, call.N, call.L, call.J)
\* C01: the only admissible exception is reflect mode on a level shorter than the filter
FwdRaiseOK == (Done("fwd") /\ outcome = "raise") => (call.mode = "reflect" /\ cur < call.L)
\* every level applies the analysis bank to the previous lowpass
FwdChain == (pc = "fwd" /\ lvl > 0) => cur = his[lvl]

\* C10/C02: a forward-compatible pyramid always reconstructs, on at least the signal's extent,
\* with at most one extra sample when every level is present
InvNoRaise == Done("inv") => outcome = "ok"
InvExtent  == (Done("inv") /\ outcome = "ok") =>
                 /\ cur >= call.N
                 /\ call.none = {} => cur \in {call.N, call.N + 1}
                 /\ (call.none = {} /\ call.N % 2 = 0) => cur = call.N

\* C05: every leaf that requires grad receives a gradient, whatever the others do
GradPresent == Done("inv_bwd") => \A leaf \in call.R : grads[leaf] = "grad"
GradOnlyRequested == Done("inv_bwd") => \A leaf \in DOMAIN grads : grads[leaf] = "grad" => leaf \in call.R

(* ------------------------------ replay records --------------------------- *)
SetSeq(S) == SetToSortSeq(S, <)
Record ==
    CASE call.api = "fwd" ->
           [kind |-> "dwt1.fwd", mode |-> call.mode, N |-> call.N, L |-> call.L, J |-> call.J,
            outcome |-> outcome, lens |-> his,
            ref_lens |-> RefLens(call.mode, call.N, call.L, call.J)]
      [] call.api = "inv" ->
           [kind |-> "dwt1.inv", mode |-> call.mode, N |-> call.N, L |-> call.L, J |-> call.J,
            none |-> SetSeq(call.none), outcome |-> outcome, lens |-> his, outlen |-> cur]
      [] call.api = "inv_bwd" ->
           [kind |-> "dwt1.inv_bwd", mode |-> call.mode, N |-> call.N, L |-> call.L, J |-> call.J,
            R |-> SetSeq(call.R),
            none_grads |-> SetSeq({leaf \in DOMAIN grads : leaf \in call.R /\ grads[leaf] = "none"})]
EmitOK == (pc = "done" /\ Emit) => PrintT(<<"@@REC", ToJson(Record)>>)
=============================================================================
