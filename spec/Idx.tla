------------------------------- MODULE Idx -------------------------------
(***************************************************************************)
(* Index arithmetic shared by every transform family.                      *)
(*                                                                         *)
(* Two kinds of definitions live here:                                     *)
(*   - declarative extension maps as PyWavelets / the reference dtcwt      *)
(*     package define them (used by the Ref layers), and                   *)
(*   - transcriptions of the helper routines the code really calls         *)
(*     (utils.reflect, np.pad(wrap), F.pad(reflect), Python slices, the    *)
(*     home-made roll) used by the Impl layers.                            *)
(* A source index of -1 means "the constant zero".                         *)
(***************************************************************************)
EXTENDS Integers, Sequences

Min2(a, b) == IF a < b THEN a ELSE b
Max2(a, b) == IF a > b THEN a ELSE b

\* TLC's % is only defined for a positive right operand and yields 0..b-1
\* also for negative a (floored), which is what Python's % does.
PMod(a, b) == a % b

(* ---------------------------- PyWavelets ------------------------------ *)
Modes == {"zero", "symmetric", "reflect", "periodic", "periodization"}

\* pywt.dwt_coeff_len
DwtCoeffLen(N, L, mode) ==
    IF mode = "periodization" THEN (N + 1) \div 2 ELSE (N + L - 1) \div 2

\* Extension x_ext[t] = x[SrcExt(mode, N, t)] for any integer t
SrcExt(mode, N, t) ==
    CASE mode = "zero"      -> IF t >= 0 /\ t < N THEN t ELSE -1
      [] mode = "periodic"  -> PMod(t, N)
      [] mode = "symmetric" -> LET u == PMod(t, 2 * N)
                               IN  IF u < N THEN u ELSE 2 * N - 1 - u
      [] mode = "reflect"   -> IF N = 1 THEN 0
                               ELSE LET u == PMod(t, 2 * N - 2)
                                    IN  IF u < N THEN u ELSE 2 * N - 2 - u
      [] mode = "periodization" ->
                               \* repeat the last sample to even length, then wrap
                               Min2(PMod(t, N + (N % 2)), N - 1)

(* ----------------------- helpers the code calls ----------------------- *)
\* utils.reflect(x, -0.5, l-0.5) on integer x: half-sample symmetric ramp
NpReflectHalf(t, l) ==
    LET u == PMod(t, 2 * l) IN IF u < l THEN u ELSE 2 * l - 1 - u

\* utils.symm_pad_1d(l, m) = reflect(arange(-m, l+m), -0.5, l-0.5), 0-based function
SymmPad(l, m) == [p \in 0 .. (l + 2 * m - 1) |-> NpReflectHalf(p - m, l)]

\* np.pad(arange(n), (a, b), mode='wrap')
NpWrapPad(n, a, b) == [p \in 0 .. (n + a + b - 1) |-> PMod(p - a, n)]

\* F.pad(x, (a, b), 'reflect'): defined only when both pads are < n
TorchReflectOk(n, a, b) == a < n /\ b < n
TorchReflectPad(n, a, b) ==
    [p \in 0 .. (n + a + b - 1) |->
        LET t == p - a IN IF t < 0 THEN -t ELSE IF t >= n THEN 2 * n - 2 - t ELSE t]

\* Python slice bounds x[start:stop] (step 1) on a length-n axis; NoneIdx = "absent"
NoneIdx == 1000000
PyStart(n, s) == IF s = NoneIdx THEN 0 ELSE IF s < 0 THEN Max2(n + s, 0) ELSE Min2(s, n)
PyStop(n, s)  == IF s = NoneIdx THEN n ELSE IF s < 0 THEN Max2(n + s, 0) ELSE Min2(s, n)
\* the index list picked by x[start:stop]
PySlice(n, start, stop) ==
    LET a == PyStart(n, start)  b == PyStop(n, stop)
    IN  IF b > a THEN [p \in 0 .. (b - a - 1) |-> a + p] ELSE << >>
\* x[-k:] as written in the code: "-k" with k = 0 is 0, i.e. the whole axis
PyNegStart(n, k) == PyStart(n, -k)

\* dwt/lowlevel.roll(x, n, dim) with make_even = False: the index vector r such
\* that rolled[p] = x[r[p]]; written with the code's own slices so that
\* out-of-range shifts behave as they really do.
RollIdx(len, n0) ==
    LET n  == IF n0 < 0 THEN len + n0 ELSE n0
        a0 == PyStart(len, -n)          \* x[-n:]
        b1 == PyStop(len, -n)           \* x[:-n]
        la == len - a0
        lb == b1
    IN  [p \in 0 .. (la + lb - 1) |-> IF p < la THEN a0 + p ELSE p - la]
RollLen(len, n0) ==
    LET n == IF n0 < 0 THEN len + n0 ELSE n0
    IN  (len - PyStart(len, -n)) + PyStop(len, -n)
=============================================================================
