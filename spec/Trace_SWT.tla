----------------------------- MODULE Trace_SWT -----------------------------
(***************************************************************************)
(* Trace specification binding the SWTForward call machine (module SWT) to   *)
(* real executions through the library's hooks:                              *)
(*    call     J, mode, H, W, Lc, Lr                                          *)
(*    level    level, dilation, mode            (SWTForward.level)            *)
(*    atrous   dim, N, L, dilation, a, b, mode  (afb1d_atrous, before mypad:  *)
(*             a | b = samples added before | after along `dim`)              *)
(*    ret      outcome, count, rows, cols, bands                              *)
(* A level is: one `level` event, the row pass (dim 3, row filters) and the   *)
(* column pass (dim 2, column filters), each padding L*d/2 - d | L*d/2 with   *)
(* d = 2^(level-1) in the mode the pad routine accepts; the image keeps its   *)
(* size, so every pass sees the full H or W.                                  *)
(***************************************************************************)
EXTENDS SWT, IOUtils

TraceLog == ndJsonDeserialize(IOEnv.TRACE_FILE)
VARIABLES i, bad, geo, pass
tvars == <<vars, i, bad, geo, pass>>
E == TraceLog[i]
Is(name) == i <= Len(TraceLog) /\ E.ev = name
Consume == i' = i + 1
NoGeo == [H |-> 0, W |-> 0, Lc |-> 0, Lr |-> 0]

TCall == /\ Is("call") /\ pc = "idle"
         /\ call' = [api |-> "swt", J |-> E.J, mode |-> E.mode]
         /\ geo' = [H |-> E.H, W |-> E.W, Lc |-> E.Lc, Lr |-> E.Lr]
         /\ pc' = "swt" /\ lvl' = 0 /\ rank' = 4 /\ band0' = "input" /\ pass' = "level" /\ UNCHANGED cfg
\* the level announcement: level number, dilation 2^(level-1) and the module's mode string
TLevel == /\ Is("level") /\ pc = "swt" /\ pass = "level" /\ lvl < call.J
          /\ E.level = lvl + 1 /\ E.dilation = Dilation(lvl + 1) /\ E.mode = call.mode
          /\ pass' = "rows" /\ UNCHANGED <<vars, geo>>
PadOK(L, d) == E.a = ((L * d) \div 2) - d /\ E.b = (L * d) \div 2
TRows == /\ Is("atrous") /\ pc = "swt" /\ pass = "rows"
         /\ E.dim = 3 /\ E.N = geo.W /\ E.L = geo.Lr /\ E.dilation = Dilation(lvl + 1) /\ PadOK(geo.Lr, Dilation(lvl + 1))
         /\ E.mode = PadModeReached(call.mode) /\ MypadAccepts(E.mode)
         /\ pass' = "cols" /\ UNCHANGED <<vars, geo>>
\* the column pass completes the level: the machine's SwtLevel step
TCols == /\ Is("atrous") /\ pc = "swt" /\ pass = "cols"
         /\ E.dim = 2 /\ E.N = geo.H /\ E.L = geo.Lc /\ E.dilation = Dilation(lvl + 1) /\ PadOK(geo.Lc, Dilation(lvl + 1))
         /\ E.mode = PadModeReached(call.mode)
         /\ SwtLevel /\ pc' = "swt"
         /\ pass' = "level" /\ UNCHANGED geo
TRet == /\ Is("ret") /\ E.outcome = "ok" /\ pass = "level" /\ SwtReturn
        /\ E.count = call.J /\ E.rows = geo.H /\ E.cols = geo.W /\ E.bands = 4
        /\ UNCHANGED <<geo, pass>>
TReset == /\ Is("reset") /\ cfg' = NoCfg /\ call' = NoCall /\ pc' = "idle" /\ lvl' = 0 /\ rank' = 0 /\ band0' = "none"
          /\ geo' = NoGeo /\ pass' = "level"

TStep == TCall \/ TLevel \/ TRows \/ TCols \/ TRet \/ TReset
TNext == /\ i <= Len(TraceLog)
         /\ \/ (TStep /\ Consume /\ bad' = bad)
            \/ (~ENABLED TStep /\ Consume /\ bad' = Append(bad, i) /\ UNCHANGED <<vars, geo, pass>>)
TInit == Init /\ i = 1 /\ bad = << >> /\ geo = NoGeo /\ pass = "level"
TraceSpec == TInit /\ [][TNext]_tvars
Verdict == (i = Len(TraceLog) + 1) =>
              PrintT(<<"@@REC", ToJson([kind |-> "trace.verdict", consumed |-> i - 1, rejected |-> bad])>>)
=============================================================================
