----------------------------- MODULE IdxProofs -----------------------------
(***************************************************************************)
(* TLAPS proofs, for ALL sizes, of the index facts the bounded TLC models  *)
(* of Idx / Helpers / DWT1 establish by enumeration up to their bounds.    *)
(* Checked by `tlapm` (./check selftest and the thorough tier of C01).     *)
(***************************************************************************)
EXTENDS Idx, TLAPS

Pos == Nat \ {0}

LEMMA ModRange == \A a \in Int, b \in Pos : a % b \in 0 .. (b - 1)
  BY DEF Pos
LEMMA ModId == \A b \in Pos : \A a \in 0 .. (b - 1) : a % b = a
  BY DEF Pos
LEMMA ModNeg == \A b \in Pos : \A a \in (-b) .. (-1) : a % b = a + b
  BY DEF Pos
LEMMA ModOver == \A b \in Pos : \A a \in b .. (2 * b - 1) : a % b = a - b
  BY DEF Pos

(* division facts the SMT back ends do not find alone (non-linear in the divisor) *)
LEMMA DivMod == \A a \in Int, b \in Pos : a = b * (a \div b) + (a % b) /\ a % b \in 0 .. (b - 1) /\ a \div b \in Int
  BY DEF Pos
LEMMA MulMono == \A b \in Pos, k \in Int : (k >= 1 => b * k >= b) /\ (k <= -1 => b * k <= -b)
  BY DEF Pos
LEMMA Distr == \A b \in Int, q \in Int, p \in Int : b * (q - p) = b * q - b * p
  OBVIOUS
LEMMA Core == \A b \in Pos, q \in Int, p \in Int, r \in Int, s \in Int :
                 (b * q + r = b * p + s /\ r \in 0 .. (b - 1) /\ s \in 0 .. (b - 1)) => r = s
  <1> TAKE b \in Pos, q \in Int, p \in Int, r \in Int, s \in Int
  <1> HAVE b * q + r = b * p + s /\ r \in 0 .. (b - 1) /\ s \in 0 .. (b - 1)
  <1>0. b * q \in Int /\ b * p \in Int /\ b \in Int  BY DEF Pos
  <1>1. b * (q - p) = b * q - b * p  BY <1>0, Distr DEF Pos
  <1>2. b * (q - p) = s - r  BY <1>0, <1>1
  <1>3. q - p \in Int  OBVIOUS
  <1>4. ~(q - p >= 1)  BY <1>2, <1>3, MulMono DEF Pos
  <1>5. ~(q - p <= -1)  BY <1>2, <1>3, MulMono DEF Pos
  <1>6. q - p = 0  BY <1>3, <1>4, <1>5
  <1>7. b * (q - p) = 0  BY <1>6, <1>0
  <1> QED BY <1>2, <1>7
LEMMA ModUnique == \A a \in Int, b \in Pos, q \in Int : \A r \in 0 .. (b - 1) : a = b * q + r => a % b = r
  <1> TAKE a \in Int, b \in Pos, q \in Int
  <1> TAKE r \in 0 .. (b - 1)
  <1> HAVE a = b * q + r
  <1>1. a = b * (a \div b) + (a % b) /\ a % b \in 0 .. (b - 1) /\ a \div b \in Int  BY DivMod
  <1>2. a % b \in Int /\ r \in Int  BY <1>1
  <1> QED BY <1>1, <1>2, Core
LEMMA ModShift == \A a \in Int, b \in Pos : (a + b) % b = a % b
  <1> TAKE a \in Int, b \in Pos
  <1>1. a = b * (a \div b) + (a % b) /\ a % b \in 0 .. (b - 1) /\ a \div b \in Int  BY DivMod
  <1>2. b * ((a \div b) + 1) = b * (a \div b) + b  BY <1>1 DEF Pos
  <1>3. a + b = b * ((a \div b) + 1) + (a % b)  BY <1>1, <1>2 DEF Pos
  <1>4. a + b \in Int /\ (a \div b) + 1 \in Int  BY <1>1 DEF Pos
  <1> QED BY <1>1, <1>3, <1>4, ModUnique
LEMMA ModMirror == \A a \in Int, b \in Pos : (-1 - a) % b = b - 1 - (a % b)
  <1> TAKE a \in Int, b \in Pos
  <1>1. a = b * (a \div b) + (a % b) /\ a % b \in 0 .. (b - 1) /\ a \div b \in Int  BY DivMod
  <1>2. b * (-(a \div b) - 1) = -(b * (a \div b)) - b  BY <1>1 DEF Pos
  <1>3. -1 - a = b * (-(a \div b) - 1) + (b - 1 - (a % b))  BY <1>1, <1>2 DEF Pos
  <1>4. -1 - a \in Int /\ -(a \div b) - 1 \in Int /\ b - 1 - (a % b) \in 0 .. (b - 1)  BY <1>1 DEF Pos
  <1> QED BY <1>3, <1>4, ModUnique
LEMMA ModNegate == \A a \in Int, b \in Pos : (-a) % b = IF a % b = 0 THEN 0 ELSE b - (a % b)
  <1> TAKE a \in Int, b \in Pos
  <1>1. a = b * (a \div b) + (a % b) /\ a % b \in 0 .. (b - 1) /\ a \div b \in Int  BY DivMod
  <1>2. CASE a % b = 0
    <2>1. b * (-(a \div b)) = -(b * (a \div b))  BY <1>1 DEF Pos
    <2>2. -a = b * (-(a \div b)) + 0  BY <1>1, <1>2, <2>1 DEF Pos
    <2>3. -a \in Int /\ -(a \div b) \in Int /\ 0 \in 0 .. (b - 1)  BY <1>1 DEF Pos
    <2> QED BY <1>2, <2>2, <2>3, ModUnique
  <1>3. CASE a % b # 0
    <2>1. b * (-(a \div b) - 1) = -(b * (a \div b)) - b  BY <1>1 DEF Pos
    <2>2. -a = b * (-(a \div b) - 1) + (b - (a % b))  BY <1>1, <2>1 DEF Pos
    <2>3. -a \in Int /\ -(a \div b) - 1 \in Int /\ b - (a % b) \in 0 .. (b - 1)  BY <1>1, <1>3 DEF Pos
    <2> QED BY <1>3, <2>2, <2>3, ModUnique
  <1> QED BY <1>2, <1>3

(* every extension reads a sample of the signal (or the constant zero) *)
THEOREM SrcExtRange ==
    \A mode \in Modes, N \in Pos, t \in Int :
        /\ SrcExt(mode, N, t) \in (-1) .. (N - 1)
        /\ mode # "zero" => SrcExt(mode, N, t) \in 0 .. (N - 1)
  <1> TAKE mode \in Modes, N \in Pos, t \in Int
  <1>1. CASE mode = "zero"  BY <1>1 DEF SrcExt, Pos
  <1>2. CASE mode = "periodic"  BY <1>2, ModRange DEF SrcExt, PMod, Pos
  <1>3. CASE mode = "symmetric"
    <2>1. 2 * N \in Pos  BY DEF Pos
    <2>2. t % (2 * N) \in 0 .. (2 * N - 1)  BY <2>1 DEF Pos
    <2> QED BY <1>3, <2>2 DEF SrcExt, PMod, Pos
  <1>4. CASE mode = "reflect"
    <2>1. CASE N = 1  BY <1>4, <2>1 DEF SrcExt
    <2>2. CASE N # 1
      <3>1. 2 * N - 2 \in Pos  BY <2>2 DEF Pos
      <3>2. t % (2 * N - 2) \in 0 .. (2 * N - 3)  BY <3>1 DEF Pos
      <3> QED BY <1>4, <2>2, <3>2 DEF SrcExt, PMod, Pos
    <2> QED BY <2>1, <2>2
  <1>5. CASE mode = "periodization"
    <2>1. N % 2 \in 0 .. 1  BY ModRange DEF Pos
    <2>2. N + (N % 2) \in Pos  BY <2>1 DEF Pos
    <2>3. t % (N + (N % 2)) \in 0 .. (N + (N % 2) - 1)  BY <2>2 DEF Pos
    <2> QED BY <1>5, <2>1, <2>3 DEF SrcExt, PMod, Min2, Pos
  <1> QED BY <1>1, <1>2, <1>3, <1>4, <1>5 DEF Modes

(* no extension touches the interior *)
THEOREM SrcExtInterior ==
    \A mode \in Modes, N \in Pos : \A t \in 0 .. (N - 1) : SrcExt(mode, N, t) = t
  <1> TAKE mode \in Modes, N \in Pos
  <1> TAKE t \in 0 .. (N - 1)
  <1>1. CASE mode = "zero"  BY <1>1 DEF SrcExt, Pos
  <1>2. CASE mode = "periodic"  BY <1>2, ModId DEF SrcExt, PMod, Pos
  <1>3. CASE mode = "symmetric"
    <2>1. 2 * N \in Pos /\ t \in 0 .. (2 * N - 1)  BY DEF Pos
    <2>2. t % (2 * N) = t  BY <2>1, ModId
    <2> QED BY <1>3, <2>2 DEF SrcExt, PMod, Pos
  <1>4. CASE mode = "reflect"
    <2>1. CASE N = 1  BY <1>4, <2>1 DEF SrcExt
    <2>2. CASE N # 1
      <3>1. (2 * N - 2 \in Pos /\ t \in 0 .. (2 * N - 2 - 1)) \/ t = N - 1  BY <2>2 DEF Pos
      <3>2. CASE t \in 0 .. (2 * N - 2 - 1)
        <4>1. 2 * N - 2 \in Pos  BY <2>2 DEF Pos
        <4>2. t % (2 * N - 2) = t  BY <3>2, <4>1, ModId
        <4> QED BY <1>4, <2>2, <4>2 DEF SrcExt, PMod, Pos
      <3>3. CASE ~(t \in 0 .. (2 * N - 2 - 1))
        \* only N = 2, t = ... impossible: t <= N-1 <= 2N-3 whenever N >= 2
        BY <3>3, <2>2 DEF Pos
      <3> QED BY <3>2, <3>3
    <2> QED BY <2>1, <2>2
  <1>5. CASE mode = "periodization"
    <2>1. N % 2 \in 0 .. 1  BY ModRange DEF Pos
    <2>2. N + (N % 2) \in Pos /\ t \in 0 .. (N + (N % 2) - 1)  BY <2>1 DEF Pos
    <2>3. t % (N + (N % 2)) = t  BY <2>1, <2>2 DEF Pos
    <2> QED BY <1>5, <2>3 DEF SrcExt, PMod, Min2, Pos
  <1> QED BY <1>1, <1>2, <1>3, <1>4, <1>5 DEF Modes

(* the helpers the code calls are the declarative extensions *)
THEOREM HelperSymmIsSymmetric ==
    \A l \in Pos, m \in Nat : \A p \in 0 .. (l + 2 * m - 1) : SymmPad(l, m)[p] = SrcExt("symmetric", l, p - m)
  BY DEF SymmPad, NpReflectHalf, SrcExt, PMod

THEOREM HelperWrapIsPeriodic ==
    \A n \in Pos, a \in Nat, b \in Nat : \A p \in 0 .. (n + a + b - 1) : NpWrapPad(n, a, b)[p] = SrcExt("periodic", n, p - a)
  BY DEF NpWrapPad, SrcExt, PMod

THEOREM HelperTorchReflectIsReflect ==
    \A n \in Pos, a \in Nat, b \in Nat : TorchReflectOk(n, a, b) =>
        \A p \in 0 .. (n + a + b - 1) : TorchReflectPad(n, a, b)[p] = SrcExt("reflect", n, p - a)
  <1> TAKE n \in Pos, a \in Nat, b \in Nat
  <1> HAVE TorchReflectOk(n, a, b)
  <1> TAKE p \in 0 .. (n + a + b - 1)
  <1> DEFINE t == p - a
  <1>0. a < n /\ b < n  BY DEF TorchReflectOk
  <1>1. TorchReflectPad(n, a, b)[p] = IF t < 0 THEN -t ELSE IF t >= n THEN 2 * n - 2 - t ELSE t
    BY DEF TorchReflectPad
  <1>2. CASE n = 1  BY <1>0, <1>1, <1>2 DEF SrcExt, Pos
  <1>3. CASE n # 1
    <2> DEFINE m == 2 * n - 2
    <2>0. m \in Pos /\ t \in Int /\ t >= -(n - 1) /\ t <= 2 * n - 2  BY <1>0, <1>3 DEF Pos
    <2>9. SrcExt("reflect", n, t) = IF t % m < n THEN t % m ELSE 2 * n - 2 - (t % m)
      BY <1>3 DEF SrcExt, PMod
    <2>1. CASE t < 0
      <3>1. t % m = t + m
        <4> HIDE DEF m, t
        <4>1. t \in (-m) .. (-1)  BY <2>0, <2>1, <1>3 DEF m, Pos
        <4> QED BY <2>0, <4>1, ModNeg
      <3> QED BY <1>1, <2>9, <2>0, <2>1, <3>1 DEF Pos
    <2>2. CASE t >= 0 /\ t < m
      <3>1. t % m = t
        <4> HIDE DEF m, t
        <4>1. t \in 0 .. (m - 1)  BY <2>0, <2>2 DEF Pos
        <4> QED BY <2>0, <4>1, ModId
      <3>2. SrcExt("reflect", n, t) = IF t < n THEN t ELSE 2 * n - 2 - t  BY <2>9, <3>1
      <3> QED BY <1>1, <3>2, <2>0, <2>2 DEF Pos
    <2>3. CASE t = m
      <3>1. t % m = 0
        <4> HIDE DEF m, t
        <4>1. t \in m .. (2 * m - 1)  BY <2>0, <2>3 DEF Pos
        <4> QED BY <2>0, <2>3, <4>1, ModOver DEF Pos
      <3> QED BY <1>1, <2>9, <2>0, <2>3, <3>1 DEF Pos
    <2> QED BY <2>0, <2>1, <2>2, <2>3
  <1> QED BY <1>2, <1>3

(* the code's roll() is the cyclic shift for every in-range shift *)
THEOREM RollIsCyclic ==
    \A len \in Pos : \A n \in 0 .. (len - 1) :
        /\ RollLen(len, n) = len
        /\ \A p \in 0 .. (len - 1) : RollIdx(len, n)[p] = (p - n) % len
  <1> TAKE len \in Pos
  <1> TAKE n \in 0 .. (len - 1)
  <1>1. CASE n = 0
    <2>1. PyStart(len, -n) = 0 /\ PyStop(len, -n) = 0  BY <1>1 DEF PyStart, PyStop, NoneIdx, Min2, Max2, Pos
    <2>2. RollLen(len, n) = len  BY <2>1, <1>1 DEF RollLen, Pos
    <2>3. \A p \in 0 .. (len - 1) : RollIdx(len, n)[p] = p  BY <2>1, <1>1 DEF RollIdx, Pos
    <2>4. \A p \in 0 .. (len - 1) : (p - n) % len = p  BY <1>1 DEF Pos
    <2> QED BY <2>2, <2>3, <2>4
  <1>2. CASE n > 0
    <2>1. PyStart(len, -n) = len - n /\ PyStop(len, -n) = len - n  BY <1>2 DEF PyStart, PyStop, NoneIdx, Min2, Max2, Pos
    <2>2. RollLen(len, n) = len  BY <2>1, <1>2 DEF RollLen, Pos
    <2>3. \A p \in 0 .. (len - 1) : RollIdx(len, n)[p] = IF p < n THEN len - n + p ELSE p - n
      BY <2>1, <1>2 DEF RollIdx, Pos
    <2>4. \A p \in 0 .. (len - 1) : (p - n) % len = IF p < n THEN len - n + p ELSE p - n  BY <1>2 DEF Pos
    <2> QED BY <2>2, <2>3, <2>4
  <1> QED BY <1>1, <1>2

(* the characterising symmetries of the extensions, for every integer position *)
THEOREM PeriodicPeriod == \A N \in Pos, t \in Int : SrcExt("periodic", N, t + N) = SrcExt("periodic", N, t)
  BY ModShift DEF SrcExt, PMod
THEOREM SymmetricPeriod == \A N \in Pos, t \in Int : SrcExt("symmetric", N, t + 2 * N) = SrcExt("symmetric", N, t)
  <1> TAKE N \in Pos, t \in Int
  <1> DEFINE m == 2 * N
  <1>1. m \in Pos  BY DEF Pos
  <1>2. (t + m) % m = t % m
    <2> HIDE DEF m
    <2> QED BY <1>1, ModShift
  <1> QED BY <1>2 DEF SrcExt, PMod
THEOREM SymmetricMirror == \A N \in Pos, t \in Int : SrcExt("symmetric", N, -1 - t) = SrcExt("symmetric", N, t)
  <1> TAKE N \in Pos, t \in Int
  <1> DEFINE m == 2 * N
  <1>1. m \in Pos  BY DEF Pos
  <1>2. t % m \in 0 .. (m - 1)  BY <1>1 DEF Pos
  <1>3. (-1 - t) % m = m - 1 - (t % m)
    <2> HIDE DEF m
    <2> QED BY <1>1, ModMirror
  <1> QED BY <1>2, <1>3 DEF SrcExt, PMod, Pos
THEOREM ReflectMirror == \A N \in Pos, t \in Int : SrcExt("reflect", N, -t) = SrcExt("reflect", N, t)
  <1> TAKE N \in Pos, t \in Int
  <1>1. CASE N = 1  BY <1>1 DEF SrcExt
  <1>2. CASE N # 1
    <2> DEFINE m == 2 * N - 2
    <2>1. m \in Pos  BY <1>2 DEF Pos
    <2>2. t % m \in 0 .. (m - 1)  BY <2>1 DEF Pos
    <2>3. (-t) % m = IF t % m = 0 THEN 0 ELSE m - (t % m)
      <3> HIDE DEF m
      <3> QED BY <2>1, ModNegate
    <2> QED BY <1>2, <2>2, <2>3 DEF SrcExt, PMod, Pos
  <1> QED BY <1>1, <1>2

(* output lengths *)
THEOREM CoeffLenFacts ==
    \A N \in Pos, L \in Pos :
        /\ 2 * DwtCoeffLen(N, L, "periodization") = N + (N % 2)
        /\ \A mode \in Modes \ {"periodization"} : 2 * DwtCoeffLen(N, L, mode) = (N + L - 1) - ((N + L - 1) % 2)
        /\ \A mode \in Modes : DwtCoeffLen(N, L, mode) \in Nat
        /\ DwtCoeffLen(N, L, "periodization") \in Pos
  <1> TAKE N \in Pos, L \in Pos
  <1> DEFINE e == N + 1
  <1> DEFINE f == N + L - 1
  <1>a. e \in Int /\ f \in Int /\ e >= 2 /\ f >= 1 /\ N \in Int /\ 2 \in Pos  BY DEF Pos
  <1>b. e = 2 * (e \div 2) + (e % 2) /\ e % 2 \in 0 .. 1 /\ e \div 2 \in Int
    <2> HIDE DEF e
    <2> QED BY <1>a, DivMod
  <1>c. f = 2 * (f \div 2) + (f % 2) /\ f % 2 \in 0 .. 1 /\ f \div 2 \in Int
    <2> HIDE DEF f
    <2> QED BY <1>a, DivMod
  <1>d. N = 2 * (N \div 2) + (N % 2) /\ N % 2 \in 0 .. 1 /\ N \div 2 \in Int  BY <1>a, DivMod
  <1>e. e % 2 = 1 - (N % 2)
    <2>1. CASE N % 2 = 0
      <3>1. e = 2 * (N \div 2) + 1  BY <1>d, <2>1
      <3> HIDE DEF e
      <3> QED BY <1>a, <1>d, <2>1, <3>1, ModUnique
    <2>2. CASE N % 2 = 1
      <3>1. e = 2 * ((N \div 2) + 1) + 0  BY <1>d, <2>2
      <3>2. (N \div 2) + 1 \in Int  BY <1>d
      <3> HIDE DEF e
      <3> QED BY <1>a, <1>d, <2>2, <3>1, <3>2, ModUnique
    <2> QED BY <1>d, <2>1, <2>2
  <1>f. e = N + 1 /\ f = N + L - 1  OBVIOUS
  <1>g. DwtCoeffLen(N, L, "periodization") = e \div 2  BY DEF DwtCoeffLen
  <1>h. \A mode \in Modes \ {"periodization"} : DwtCoeffLen(N, L, mode) = f \div 2  BY DEF DwtCoeffLen, Modes
  <1> HIDE DEF e
  <1> DEFINE q == e \div 2
  <1> DEFINE r == e % 2
  <1> DEFINE s == N % 2
  <1>i. e = N + 1 /\ e = 2 * q + r /\ r = 1 - s /\ q \in Int /\ s \in Int /\ r \in Int /\ e \in Int /\ N \in Int
    BY <1>a, <1>b, <1>d, <1>e, <1>f
  <1> HIDE DEF q, r, s
  <1>j. 2 * q = N + s  BY ONLY <1>i
  <1>1. 2 * (e \div 2) = N + (N % 2)  BY <1>j DEF q, s
  <1> DEFINE u == f \div 2
  <1> DEFINE v == f % 2
  <1>k. f = 2 * u + v /\ u \in Int /\ v \in Int /\ f \in Int  BY <1>a, <1>c
  <1> HIDE DEF u, v
  <1>l. 2 * u = f - v  BY ONLY <1>k
  <1>2. 2 * (f \div 2) = f - (f % 2)  BY <1>l DEF u, v
  <1>3. e \div 2 \in Pos  BY <1>a, <1>b DEF Pos
  <1>4. f \div 2 \in Nat  BY <1>a, <1>c DEF Pos
  <1>5. 2 * DwtCoeffLen(N, L, "periodization") = N + (N % 2)  BY <1>1, <1>g
  <1>6. \A mode \in Modes \ {"periodization"} : 2 * DwtCoeffLen(N, L, mode) = (N + L - 1) - ((N + L - 1) % 2)
    <2> TAKE mode \in Modes \ {"periodization"}
    <2>1. DwtCoeffLen(N, L, mode) = (N + L - 1) \div 2  BY DEF DwtCoeffLen, Modes
    <2>2. 2 * ((N + L - 1) \div 2) = (N + L - 1) - ((N + L - 1) % 2)  BY <1>2
    <2> QED BY ONLY <2>1, <2>2
  <1>7. \A mode \in Modes : DwtCoeffLen(N, L, mode) \in Nat  BY <1>3, <1>4, <1>g, <1>h DEF Pos
  <1>8. DwtCoeffLen(N, L, "periodization") \in Pos  BY <1>3, <1>g
  <1> QED BY <1>5, <1>6, <1>7, <1>8
=============================================================================
