------------------------------ MODULE ScatGrad ------------------------------
(***************************************************************************)
(* The scattering layers as DATAFLOW: which expression lands in which output  *)
(* channel, and which chain of adjoint steps carries which cotangent slice    *)
(* back to which input channel (C08 / C09).                                   *)
(*                                                                           *)
(* Ref  = the declarative definition of the layer: a table  channel -> term,   *)
(*        terms built from   X c | Lo1 e | Hi1[o] e | L2lo e | L2hi[o] e |     *)
(*        Pool e | Mag(e1;..;en)  (smooth modulus, jointly over its arguments) *)
(*        Every constructor also accumulates the term's PATHS to the inputs:   *)
(*        reverse-mode differentiation of a term is the sum over its paths of  *)
(*        the composed adjoint steps, a Mag step carrying the identity of the  *)
(*        modulus whose phase multiplies the cotangent there.                  *)
(* Impl = scatternet/lowlevel.py transcribed: the forward's cat / view         *)
(*        arithmetic and saved phase tensors, and the hand-written backward's  *)
(*        slices (dZ[:,0], dZ[:,1:7], ...), views, 1/4*nearest up-sampling,    *)
(*        phase products and inverse levels, as operations on sets of chains.  *)
(* Laws : OutOK  - every output channel holds the term the definition names;   *)
(*        GradOK - the chains the coded backward delivers to dX are exactly    *)
(*                 the paths of the definition (nothing dropped, nothing       *)
(*                 doubled, every phase the one saved for THAT modulus).       *)
(* The Ref table is printed (Emit) and INTERPRETED by the harness: the terms   *)
(* are evaluated with the reference DTCWT's operators and differentiated by    *)
(* plain autograd, giving the value and the gradient the real layer must show. *)
(***************************************************************************)
EXTENDS Integers, Sequences, FiniteSets, TLC, Json

CONSTANTS CSet,        \* channel counts (colour combination forces 3)
          Emit,        \* print the Ref tables
          ViewBug,     \* negative model: the backward's view of ds2_j1 splits (o2, f) with the forward's C instead of 6C
          PhaseBug     \* negative model: the j=2 phase multiplies the second-order cotangent (dsdx2 for dsdx2_1)

O == 0 .. 5
S(n) == ToString(n)

(* ------------------------------- terms ----------------------------------- *)
X(c) == [s |-> "X" \o S(c), p |-> {<<"X" \o S(c)>>}]
Lin(name, e) == [s |-> name \o "(" \o e.s \o ")", p |-> {<<name>> \o q : q \in e.p}]
Lo1(e) == Lin("Lo1", e)
Hi1(o, e) == Lin("Hi1[" \o S(o) \o "]", e)
L2lo(e) == Lin("L2lo", e)
L2hi(o, e) == Lin("L2hi[" \o S(o) \o "]", e)
Pool(e) == Lin("Pool", e)
RECURSIVE Join(_, _)
Join(es, i) == IF i > Len(es) THEN "" ELSE es[i].s \o (IF i < Len(es) THEN ";" ELSE "") \o Join(es, i + 1)
MagName(es) == "Mag(" \o Join(es, 1) \o ")"
MagStep(es, i) == "Mag#" \o S(i) \o "@" \o MagName(es)
Mag(es) == [s |-> MagName(es), p |-> UNION {{<<MagStep(es, i)>> \o q : q \in es[i].p} : i \in DOMAIN es}]

(* ---------------------------- Ref: the definition ------------------------ *)
\* cfg = [order, colour, C]
U1(o, c) == Mag(<<Hi1(o, X(c))>>)
U1c(o) == Mag(<<Hi1(o, X(0)), Hi1(o, X(1)), Hi1(o, X(2))>>)
RefOut(cfg) ==
    LET C == cfg.C IN
    IF cfg.order = 1 THEN
        IF cfg.colour THEN
            [k \in 0 .. 8 |-> IF k < 3 THEN Pool(Lo1(X(k))) ELSE U1c(k - 3)]
        ELSE
            [k \in 0 .. (7 * C - 1) |-> LET b == k \div C  c == k % C IN
                IF b = 0 THEN Pool(Lo1(X(c))) ELSE U1(b - 1, c)]
    ELSE
        IF cfg.colour THEN
            [k \in 0 .. 50 |->
                IF k < 3 THEN Pool(L2lo(Lo1(X(k))))
                ELSE IF k < 9 THEN Pool(Lo1(U1c(k - 3)))
                ELSE IF k < 15 THEN Mag(<<L2hi(k - 9, Lo1(X(0))), L2hi(k - 9, Lo1(X(1))), L2hi(k - 9, Lo1(X(2)))>>)
                ELSE LET o2 == (k - 15) \div 6  o1 == (k - 15) % 6 IN Mag(<<Hi1(o2, U1c(o1))>>)]
        ELSE
            [k \in 0 .. (49 * C - 1) |-> LET b == k \div C  c == k % C IN
                IF b = 0 THEN Pool(L2lo(Lo1(X(c))))
                ELSE IF b < 7 THEN Pool(Lo1(U1(b - 1, c)))
                ELSE IF b < 13 THEN Mag(<<L2hi(b - 7, Lo1(X(c)))>>)
                ELSE LET o2 == (b - 13) \div 6  o1 == (b - 13) % 6 IN Mag(<<Hi1(o2, U1(o1, c))>>)]
Z(k) == "Z" \o S(k)
RefGrad(cfg) == UNION {{<<Z(k)>> \o q : q \in RefOut(cfg)[k].p} : k \in DOMAIN RefOut(cfg)}

(* ------------------- Impl: forward as coded (terms by position) ---------- *)
\* fwd_j1(x) -> ll (N,C), reals/imags (N,6,C): band o, channel c   = Hi1(o, X c)
\* saved phase tables: position -> [es: the arguments of the modulus, i: which argument this position is the phase of]
Sv1(cfg) == IF cfg.colour
            THEN [o \in O |-> [c \in 0 .. 2 |-> [es |-> <<Hi1(o, X(0)), Hi1(o, X(1)), Hi1(o, X(2))>>, i |-> c + 1]]]
            ELSE [o \in O |-> [c \in 0 .. (cfg.C - 1) |-> [es |-> <<Hi1(o, X(c))>>, i |-> 1]]]
ImplU1(cfg) == [o \in O |-> [c \in 0 .. (IF cfg.colour THEN 0 ELSE cfg.C - 1) |-> Mag(Sv1(cfg)[o][IF cfg.colour THEN 0 ELSE c].es)]]
\* s0 = fwd_j2plus(ll): lowpass per channel, bands (N,6,C)
Sv2(cfg) == IF cfg.colour
            THEN [o \in O |-> [c \in 0 .. 2 |-> [es |-> <<L2hi(o, Lo1(X(0))), L2hi(o, Lo1(X(1))), L2hi(o, Lo1(X(2)))>>, i |-> c + 1]]]
            ELSE [o \in O |-> [c \in 0 .. (cfg.C - 1) |-> [es |-> <<L2hi(o, Lo1(X(c)))>>, i |-> 1]]]
\* s1_j1.view(N, 6*C, h, w): flat f = o1*C + c   (colour: s1_j1[:, :, 0] has 6 channels, f = o1)
NF(cfg) == IF cfg.colour THEN 6 ELSE 6 * cfg.C
V(cfg) == [f \in 0 .. (NF(cfg) - 1) |-> IF cfg.colour THEN ImplU1(cfg)[f][0] ELSE ImplU1(cfg)[f \div cfg.C][f % cfg.C]]
\* second fwd_j1 on V: lowpass per f, bands (N, 6(o2), NF)
Sv21(cfg) == [o2 \in O |-> [f \in 0 .. (NF(cfg) - 1) |-> [es |-> <<Hi1(o2, V(cfg)[f])>>, i |-> 1]]]
\* s2_j1.view(N, 36, C, h, w) (colour: view(N, 36, h, w)): flat g = o2*NF + f -> (g div C', g mod C'), C' = NF/6
ImplOut(cfg) ==
    LET C == cfg.C  Cp == NF(cfg) \div 6 IN
    IF cfg.order = 1 THEN
        IF cfg.colour THEN      \* Z = cat((ll, r[:, :, 0]), dim=1)
            [k \in 0 .. 8 |-> IF k < 3 THEN Pool(Lo1(X(k))) ELSE ImplU1(cfg)[k - 3][0]]
        ELSE                    \* Z = cat((ll[:, None], r), dim=1).view(N, 7C): flat (b, c)
            [k \in 0 .. (7 * C - 1) |-> LET b == k \div C  c == k % C IN
                IF b = 0 THEN Pool(Lo1(X(c))) ELSE ImplU1(cfg)[b - 1][c]]
    ELSE
        LET s0 == [c \in 0 .. (C - 1) |-> Pool(L2lo(Lo1(X(c))))]
            s1j2 == [o \in O |-> [c \in 0 .. (Cp - 1) |-> Mag(Sv2(cfg)[o][c].es)]]
            s1j1p == [f \in 0 .. (NF(cfg) - 1) |-> Pool(Lo1(V(cfg)[f]))]            \* pooled, still flat
            s2 == [g \in 0 .. (6 * NF(cfg) - 1) |-> Mag(Sv21(cfg)[g \div NF(cfg)][g % NF(cfg)].es)]
        IN IF cfg.colour THEN   \* cat((s0, s1_j1, s1_j2[:,:,0], s2_j1.view(N,36)), dim=1)
            [k \in 0 .. 50 |-> IF k < 3 THEN s0[k] ELSE IF k < 9 THEN s1j1p[k - 3] ELSE IF k < 15 THEN s1j2[k - 9][0] ELSE s2[k - 15]]
           ELSE                 \* cat((s0[:,None], s1_j1.view(N,6,C), s1_j2, s2_j1.view(N,36,C)), dim=1).view(N, 49C)
            [k \in 0 .. (49 * C - 1) |-> LET b == k \div C  c == k % C IN
                IF b = 0 THEN s0[c]
                ELSE IF b < 7 THEN s1j1p[(b - 1) * C + c]
                ELSE IF b < 13 THEN s1j2[b - 7][c]
                ELSE s2[(b - 13) * C + c]]

(* ------------------- Impl: backward as coded (sets of chains) ------------ *)
App(B, step) == {ch \o <<step>> : ch \in B}
Phase(B, sv) == App(B, MagStep(sv.es, sv.i))
\* inv_j1(lo, hi[o]) / inv_j2plus: the adjoint of one analysis level (C06), per channel
InvJ1(lo, hi) == App(lo, "Lo1") \cup UNION {App(hi[o], "Hi1[" \o S(o) \o "]") : o \in O}
InvJ2(lo, hi) == App(lo, "L2lo") \cup UNION {App(hi[o], "L2hi[" \o S(o) \o "]") : o \in O}
dZ(k) == {<<Z(k)>>}
ImplGrad(cfg) ==
    LET C == cfg.C IN
    IF cfg.order = 1 THEN
        IF cfg.colour THEN      \* dYl, dr = dZ[:,:3], dZ[:,3:];  dr[:, :, None] broadcasts over the 3 phase components
            UNION {App(InvJ1(App(dZ(c), "Pool"), [o \in O |-> Phase(dZ(3 + o), Sv1(cfg)[o][c])]), "X" \o S(c)) : c \in 0 .. 2}
        ELSE                    \* dZ is (N, 7, C): dYl, dr = dZ[:,0], dZ[:,1:]
            UNION {App(InvJ1(App(dZ(c), "Pool"), [o \in O |-> Phase(dZ((1 + o) * C + c), Sv1(cfg)[o][c])]), "X" \o S(c)) : c \in 0 .. (C - 1)}
    ELSE
        IF cfg.colour THEN      \* ds0, ds1_j1, ds1_j2, ds2_j1 = dZ[:,:3], dZ[:,3:9], dZ[:,9:15], dZ[:,15:]
            LET ds2 == [o2 \in O |-> [f \in O |-> dZ(15 + o2 * 6 + f)]]                       \* view(N, 6, 6)
                dV == [f \in O |-> InvJ1(App(dZ(3 + f), "Pool"),
                                         [o2 \in O |-> Phase(ds2[o2][f], IF PhaseBug THEN Sv2(cfg)[o2][0] ELSE Sv21(cfg)[o2][f])])]
                dl == [c \in 0 .. 2 |-> InvJ2(App(dZ(c), "Pool"), [o \in O |-> Phase(dZ(9 + o), Sv2(cfg)[o][c])])]
            IN UNION {App(InvJ1(dl[c], [o \in O |-> Phase(dV[o], Sv1(cfg)[o][c])]), "X" \o S(c)) : c \in 0 .. 2}
        ELSE                    \* dZ is (N, 49, C): dZ[:,0], dZ[:,1:7], dZ[:,7:13], dZ[:,13:]
            LET d1 == [f \in 0 .. (6 * C - 1) |-> dZ((1 + f \div C) * C + (f % C))]              \* ds1_j1.view(N, 6C)
                \* ds2_j1 (N, 36, C) .view(N, 6, 6C): flat g = k36*C + c -> (g div 6C, g mod 6C)
                W == IF ViewBug THEN C ELSE 6 * C
                ds2 == [o2 \in O |-> [f \in 0 .. (6 * C - 1) |->
                          LET g == o2 * W + f IN dZ((13 + g \div C) * C + (g % C))]]
                dV == [f \in 0 .. (6 * C - 1) |-> InvJ1(App(d1[f], "Pool"),
                                         [o2 \in O |-> Phase(ds2[o2][f], IF PhaseBug THEN Sv2(cfg)[o2][f % C] ELSE Sv21(cfg)[o2][f])])]
                \* ds1_j1.view(N, 6, C, 2h, 2w): f -> (o1, c)
                dU == [o1 \in O |-> [c \in 0 .. (C - 1) |-> dV[o1 * C + c]]]
                dl == [c \in 0 .. (C - 1) |-> InvJ2(App(dZ(c), "Pool"), [o \in O |-> Phase(dZ((7 + o) * C + c), Sv2(cfg)[o][c])])]
            IN UNION {App(InvJ1(dl[c], [o \in O |-> Phase(dU[o][c], Sv1(cfg)[o][c])]), "X" \o S(c)) : c \in 0 .. (C - 1)}

(* ------------------------------- laws ------------------------------------ *)
OutOK(cfg) == DOMAIN ImplOut(cfg) = DOMAIN RefOut(cfg) /\ \A k \in DOMAIN RefOut(cfg) : ImplOut(cfg)[k].s = RefOut(cfg)[k].s
GradOK(cfg) == ImplGrad(cfg) = RefGrad(cfg)
\* anti-vacuity: the terms are trees, so every output channel has one path per input channel it depends on: first order 7
\* per channel, second order 49 per channel; a joint (colour) modulus reaches all three channels
NPaths(cfg) == Cardinality(RefGrad(cfg))
PathCountOK(cfg) ==
    NPaths(cfg) = IF cfg.order = 1 THEN (IF cfg.colour THEN 3 + 18 ELSE 7 * cfg.C)
                  ELSE (IF cfg.colour THEN 3 + 18 + 18 + 108 ELSE 49 * cfg.C)

(* ---- one behaviour per configuration: Init -> Pick ---- *)
VARIABLE cfg
NoCfg == [order |-> 0, colour |-> FALSE, C |-> 0]
Cfgs == {[order |-> n, colour |-> FALSE, C |-> C] : n \in {1, 2}, C \in CSet} \cup {[order |-> n, colour |-> TRUE, C |-> 3] : n \in {1, 2}}
Init == cfg = NoCfg
Pick == cfg = NoCfg /\ \E c \in Cfgs : cfg' = c
Spec == Init /\ [][Pick]_cfg
Picked == cfg # NoCfg
StOut == Picked => OutOK(cfg)
StGrad == Picked => GradOK(cfg)
StCount == Picked => PathCountOK(cfg)
Record == [module |-> "ScatGrad", order |-> cfg.order, colour |-> cfg.colour, C |-> cfg.C,
           out |-> [k \in 1 .. Cardinality(DOMAIN RefOut(cfg)) |-> RefOut(cfg)[k - 1].s],
           npaths |-> NPaths(cfg)]
EmitOK == (Picked /\ Emit) => PrintT(<<"@@REC", ToJson(Record)>>)
=============================================================================
