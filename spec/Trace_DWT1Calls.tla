-------------------------- MODULE Trace_DWT1Calls --------------------------
(***************************************************************************)
(* Trace specification binding the call machine of module DWT1Calls to real *)
(* executions of DWT1DForward / DWT1DInverse.  The events are the library's  *)
(* own hook points (pytorch_wavelets/_verif.py) plus a `call` / `ret` pair   *)
(* written by the recorder around the API call:                              *)
(*    call            api, mode, N, L, J [, none]                            *)
(*    fwd.level       level, N          (DWT1DForward.level)                 *)
(*    afb1d.out       M                 (length of the bands of this level)  *)
(*    inv.level       lo, hi            (DWT1DInverse.level, before unpad)   *)
(*    sfb1d           M                 (lowpass length handed to sfb1d)     *)
(*    ret             outcome, lens / outlen                                 *)
(* Each event is  IsEvent(name) /\ <the action of DWT1Calls> /\ <logged      *)
(* fields bound to the primed variables>, so a trace is accepted iff it is a *)
(* behaviour of the call machine.                                            *)
(***************************************************************************)
EXTENDS DWT1Calls, IOUtils

TraceLog == ndJsonDeserialize(IOEnv.TRACE_FILE)
VARIABLES i, bad
tvars == <<vars, i, bad>>

E == TraceLog[i]
Is(name) == i <= Len(TraceLog) /\ E.ev = name
Consume == i' = i + 1

SeqSet(s) == {s[x] : x \in DOMAIN s}

TCallFwd ==
    /\ Is("call") /\ E.api = "fwd" /\ pc = "idle"
    /\ call' = [api |-> "fwd", mode |-> E.mode, N |-> E.N, L |-> E.L, J |-> E.J]
    /\ cur' = E.N /\ pc' = "fwd" /\ lvl' = 0 /\ his' = << >> /\ outcome' = "running" /\ grads' = << >>
TFwdLevelHook ==      \* the hook fires at the top of the loop body: level number and current lowpass length
    /\ Is("fwd.level") /\ pc = "fwd" /\ E.level = lvl + 1 /\ E.N = cur
    /\ UNCHANGED vars
TFwdLevel ==
    /\ Is("afb1d.out") /\ FwdLevel /\ outcome' = "running" /\ cur' = E.M
TFwdRaise ==          \* a raise is observed by the recorder as ret(outcome = raise) without a preceding afb1d.out
    /\ Is("ret") /\ E.outcome = "raise" /\ pc = "fwd" /\ FwdLevel /\ outcome' = "raise"
TFwdReturn ==
    /\ Is("ret") /\ E.outcome = "ok" /\ FwdReturn /\ his = E.lens

TCallInv ==
    /\ Is("call") /\ E.api = "inv" /\ pc = "idle"
    /\ call' = [api |-> "inv", mode |-> E.mode, N |-> E.N, L |-> E.L, J |-> E.J, none |-> SeqSet(E.none)]
    /\ LET lens == RefLens(E.mode, E.N, E.L, E.J) IN his' = lens /\ cur' = lens[E.J]
    /\ pc' = "inv" /\ lvl' = 0 /\ outcome' = "running" /\ grads' = << >>
TInvLevelHook ==      \* lowpass / highpass lengths the loop body sees before the unpad
    /\ Is("inv.level") /\ pc = "inv" /\ E.lo = cur
    /\ LET j == call.J - lvl IN E.hi = (IF j \in call.none THEN cur ELSE his[j])
    /\ UNCHANGED vars
TInvLevel ==
    /\ Is("sfb1d") /\ InvLevel /\ outcome' = "running"
    \* the length handed to sfb1d is the unpadded lowpass: the model's next length is its synthesis length
    /\ cur' = ImplSLen(call.mode, E.M, call.L)
TInvReturn ==
    /\ Is("ret") /\ E.outcome = "ok" /\ InvReturn /\ cur = E.outlen

TReset ==
    /\ Is("reset") /\ pc' = "idle" /\ call' = NoCall /\ lvl' = 0 /\ cur' = 0 /\ his' = << >> /\ outcome' = "running" /\ grads' = << >>

TStep == TCallFwd \/ TFwdLevelHook \/ TFwdLevel \/ TFwdRaise \/ TFwdReturn
         \/ TCallInv \/ TInvLevelHook \/ TInvLevel \/ TInvReturn \/ TReset
\* an event no action explains is recorded and skipped, so that the REST of the trace is still checked
TNext == /\ i <= Len(TraceLog)
         /\ \/ (TStep /\ Consume /\ bad' = bad)
            \/ (~ENABLED TStep /\ Consume /\ bad' = Append(bad, i) /\ UNCHANGED vars)
TInit == Init /\ i = 1 /\ bad = << >>
TraceSpec == TInit /\ [][TNext]_tvars
Verdict == (i = Len(TraceLog) + 1) =>
              PrintT(<<"@@REC", ToJson([kind |-> "trace.verdict", consumed |-> i - 1, rejected |-> bad])>>)
=============================================================================
