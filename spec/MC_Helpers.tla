---------------------------- MODULE MC_Helpers ----------------------------
(* Bounded model of the helper functions: one state per argument tuple; every lemma of module   *)
(* Helpers is an invariant, and every state prints the value the real function must return.     *)
EXTENDS Helpers, TLC, Json

CONSTANTS NMax, PadMax, Emit
VARIABLES cfg
vars == <<cfg>>
NoCfg == [kind |-> "none"]
Init == cfg = NoCfg
PickPad  == \E mode \in PadModes, n \in 1 .. NMax, a \in 0 .. PadMax, b \in 0 .. PadMax :
               cfg' = [kind |-> "pad", mode |-> mode, n |-> n, a |-> a, b |-> b]
PickRoll == \E len \in 1 .. NMax, n0 \in (-NMax - 2) .. (NMax + 2), even \in BOOLEAN :
               \* the code's normalisation of a negative shift adds len once; below -len it stays negative
               cfg' = [kind |-> "roll", len |-> len, n0 |-> n0, even |-> even]
PickMode == \E m \in ModeNames : cfg' = [kind |-> "mode", name |-> m]
PickPrep == \E k \in PrepKinds, L \in 1 .. NMax : cfg' = [kind |-> "prep", prep |-> k, L |-> L]
PickSymm == \E l \in 1 .. NMax, m \in 0 .. PadMax : cfg' = [kind |-> "symm", l |-> l, m |-> m]
Next == cfg = NoCfg /\ (PickPad \/ PickRoll \/ PickMode \/ PickPrep \/ PickSymm)
Spec == Init /\ [][Next]_vars

PadOK == cfg.kind = "pad" =>
            /\ PadMatchesPywt(cfg.mode, cfg.n, cfg.a, cfg.b)
            /\ PadMatchesIdx(cfg.mode, cfg.n, cfg.a, cfg.b)
            /\ (~PadRaises(cfg.mode, cfg.n, cfg.a, cfg.b) =>
                   PadInRange(cfg.mode, cfg.n, cfg.a, cfg.b) /\ PadKeepsInterior(cfg.mode, cfg.n, cfg.a, cfg.b))
\* a shift below -len leaves n negative: Python then reads x[-n:] with a positive start; the model
\* transcribes the slices, the lemma is only claimed inside the cyclic range
RollOK == cfg.kind = "roll" =>
            /\ RollCyclic(cfg.len, cfg.n0, cfg.even)
            /\ RollSameAsIdx(cfg.len, cfg.n0)
            /\ RollDegenerate(cfg.len, cfg.n0, cfg.even)
ModeOK == ModeRoundTrip
PrepOK == PrepContract
SymmOK == cfg.kind = "symm" =>
            /\ SymmPad(cfg.l, cfg.m) = PadIdx("symmetric", cfg.l, cfg.m, cfg.m)
            /\ \A p \in 0 .. (cfg.l + 2 * cfg.m - 1) : SymmPad(cfg.l, cfg.m)[p] = SrcExt("symmetric", cfg.l, p - cfg.m)

Vec(f) == [p \in 1 .. Cardinality(DOMAIN f) |-> f[p - 1]]
Record ==
    CASE cfg.kind = "pad" ->
           [kind |-> "h.pad", mode |-> cfg.mode, n |-> cfg.n, a |-> cfg.a, b |-> cfg.b,
            raises |-> PadRaises(cfg.mode, cfg.n, cfg.a, cfg.b),
            idx |-> IF PadRaises(cfg.mode, cfg.n, cfg.a, cfg.b) THEN << >> ELSE Vec(PadIdx(cfg.mode, cfg.n, cfg.a, cfg.b))]
      [] cfg.kind = "roll" ->
           [kind |-> "h.roll", len |-> cfg.len, n0 |-> cfg.n0, even |-> cfg.even, idx |-> Vec(RollIdxE(cfg.len, cfg.n0, cfg.even))]
      [] cfg.kind = "mode" ->
           [kind |-> "h.mode", name |-> cfg.name, int |-> ModeToInt(cfg.name), back |-> IntToMode(ModeToInt(cfg.name))]
      [] cfg.kind = "prep" ->
           [kind |-> "h.prep", prep |-> cfg.prep, L |-> cfg.L, rank |-> PrepRank(cfg.prep), axis |-> PrepAxis(cfg.prep),
            taps |-> [k \in 1 .. cfg.L |-> PrepTap(cfg.prep, cfg.L, k - 1)]]
      [] cfg.kind = "symm" ->
           [kind |-> "h.symm", l |-> cfg.l, m |-> cfg.m, idx |-> Vec(SymmPad(cfg.l, cfg.m))]
EmitOK == (cfg # NoCfg /\ Emit) => PrintT(<<"@@REC", ToJson(Record)>>)
=============================================================================
