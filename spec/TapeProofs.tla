------------------------------ MODULE TapeProofs ------------------------------
(***************************************************************************)
(* The tape discipline as an inductive invariant, for ANY number of calls,  *)
(* modules, argument variants, cotangent sets and any history length (TLC   *)
(* explores Tape to depth 4 exhaustively and depth 6 by simulation):         *)
(*   - when the saved state lives in the call's own context (the code as it  *)
(*     is: ~StashOnModule), every backward differentiates ITS call, forever; *)
(*   - when no result buffer is shared (~SharedResult), ResultOwn holds.     *)
(* The negative models (StashOnModule, SharedResult) are exactly the two     *)
(* hypotheses the proofs need.                                               *)
(***************************************************************************)
EXTENDS TapeCore, SequenceTheorems, TLAPS

Rec == [a : {"forward"}, c : Calls, m : Mods, x : Args] \cup
       [a : {"backward"}, c : Calls, k : Cots, retain : BOOLEAN, reads : Calls \cup {0}]

TypeOK == hist \in Seq(Rec)

Inv == TypeOK /\ TapeOwn

THEOREM TapeOwnInductive == ASSUME ~StashOnModule PROVE Spec => []TapeOwn
  <1>1. Init => Inv
    <2> SUFFICES ASSUME Init PROVE Inv  OBVIOUS
    <2>1. hist = << >>  BY DEF Init
    <2>2. hist \in Seq(Rec)  BY <2>1, EmptySeq
    <2>3. DOMAIN hist = {}  BY <2>1
    <2> QED BY <2>2, <2>3 DEF Inv, TypeOK, TapeOwn
  <1>2. Inv /\ [Next]_vars => Inv'
    <2> SUFFICES ASSUME Inv, [Next]_vars PROVE Inv'  OBVIOUS
    <2>0. hist \in Seq(Rec) /\ TapeOwn  BY DEF Inv, TypeOK
    <2>1. CASE UNCHANGED vars
      BY <2>1, <2>0 DEF vars, Inv, TypeOK, TapeOwn
    <2>2. ASSUME NEW c \in Calls, NEW m \in Mods, NEW x \in Args, Forward(c, m, x) PROVE Inv'
      <3> DEFINE e == [a |-> "forward", c |-> c, m |-> m, x |-> x]
      <3>1. hist' = Append(hist, e)  BY <2>2 DEF Forward
      <3>2. e \in Rec  BY DEF Rec
      <3>3. hist' \in Seq(Rec) /\ Len(hist') = Len(hist) + 1 /\ DOMAIN hist' = 1 .. (Len(hist) + 1)
        BY <3>1, <3>2, <2>0, AppendProperties
      <3>4. \A i \in 1 .. Len(hist) : hist'[i] = hist[i]  BY <3>1, <3>2, <2>0, AppendProperties
      <3>5. hist'[Len(hist) + 1] = e  BY <3>1, <3>2, <2>0, AppendProperties
      <3>6. ASSUME NEW i \in DOMAIN hist', hist'[i].a = "backward" PROVE hist'[i].reads = hist'[i].c
        <4>0. Len(hist) \in Nat  BY <2>0, LenProperties
        <4>1. CASE i \in 1 .. Len(hist)
          <5>1. i \in DOMAIN hist  BY <4>1, <2>0, LenProperties
          <5> QED BY <5>1, <3>4, <3>6, <4>1, <2>0 DEF TapeOwn
        <4>2. CASE i = Len(hist) + 1
          BY <4>2, <3>5, <3>6
        <4> QED BY <4>0, <4>1, <4>2, <3>3
      <3> QED BY <3>3, <3>6 DEF Inv, TypeOK, TapeOwn
    <2>3. ASSUME NEW c \in Calls, NEW k \in Cots, NEW r \in BOOLEAN, Backward(c, k, r) PROVE Inv'
      <3>0. Reads(c) = c  BY DEF Reads
      <3> DEFINE e == [a |-> "backward", c |-> c, k |-> k, retain |-> r, reads |-> c]
      <3>1. hist' = Append(hist, e)  BY <2>3, <3>0 DEF Backward
      <3>2. e \in Rec  BY DEF Rec
      <3>3. hist' \in Seq(Rec) /\ Len(hist') = Len(hist) + 1 /\ DOMAIN hist' = 1 .. (Len(hist) + 1)
        BY <3>1, <3>2, <2>0, AppendProperties
      <3>4. \A i \in 1 .. Len(hist) : hist'[i] = hist[i]  BY <3>1, <3>2, <2>0, AppendProperties
      <3>5. hist'[Len(hist) + 1] = e  BY <3>1, <3>2, <2>0, AppendProperties
      <3>6. ASSUME NEW i \in DOMAIN hist', hist'[i].a = "backward" PROVE hist'[i].reads = hist'[i].c
        <4>0. Len(hist) \in Nat  BY <2>0, LenProperties
        <4>1. CASE i \in 1 .. Len(hist)
          <5>1. i \in DOMAIN hist  BY <4>1, <2>0, LenProperties
          <5> QED BY <5>1, <3>4, <3>6, <4>1, <2>0 DEF TapeOwn
        <4>2. CASE i = Len(hist) + 1
          BY <4>2, <3>5
        <4> QED BY <4>0, <4>1, <4>2, <3>3
      <3> QED BY <3>3, <3>6 DEF Inv, TypeOK, TapeOwn
    <2>4. CASE Next
      BY <2>4, <2>2, <2>3 DEF Next
    <2> QED BY <2>1, <2>4
  <1>3. Inv => TapeOwn  BY DEF Inv
  <1> QED BY <1>1, <1>2, <1>3, PTL DEF Spec

THEOREM ResultOwnWithoutSharing == ASSUME ~SharedResult PROVE Spec => []ResultOwn
  <1>1. ResultOwn  BY DEF ResultOwn
  <1>2. ResultOwn'  BY DEF ResultOwn
  <1> QED BY <1>1, <1>2, PTL
=============================================================================
