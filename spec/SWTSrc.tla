------------------------------- MODULE SWTSrc -------------------------------
(***************************************************************************)
(* Scalar form of one level of the stationary transform along one axis      *)
(* (afb1d_atrous): which input sample meets user tap t in output n.          *)
(* TLC (SWT!OpOK) checks that the operator tensors of module SWT are the     *)
(* tensors of these maps; TLAPS (SWTProofs) proves Impl = Ref, full          *)
(* resolution and circular shift-equivariance for ALL sizes, even filter     *)
(* lengths and dilations.                                                    *)
(***************************************************************************)
EXTENDS Idx

\* pywt.swt, level with dilation d, periodic boundary: out[n] = SUM_i h[i] * in[(n + d*(L/2 - i)) mod N]
RefSwtSrc(N, L, d, n, i) == PMod(n + d * ((L \div 2) - i), N)

\* afb1d_atrous: mypad(..., 'periodic') with L*d/2 - d before and L*d/2 after, then a correlation with the
\* flipped filter at dilation d: out[n] = SUM_u hs[u] * xe[n + d*u], user tap t stored at u = L-1-t
SwtPadBefore(L, d) == ((L * d) \div 2) - d
SwtPadAfter(L, d)  == (L * d) \div 2
ImplSwtCount(N, L, d) == N + SwtPadBefore(L, d) + SwtPadAfter(L, d) - d * (L - 1)
ImplSwtSrc(N, L, d, n, t) == PMod((n + d * (L - 1 - t)) - SwtPadBefore(L, d), N)
=============================================================================
