------------------------------- MODULE DWT1 -------------------------------
(***************************************************************************)
(* One-dimensional discrete wavelet filter banks of pytorch_wavelets       *)
(* (dwt/lowlevel.py: afb1d, sfb1d, AFB1D, SFB1D and, used along one axis,  *)
(* the 2-D routines), in two layers:                                       *)
(*                                                                         *)
(*   Ref*   what PyWavelets defines (pywt.dwt / pywt.idwt), written        *)
(*          declaratively from the extension map and the decimated         *)
(*          convolution sum;                                               *)
(*   Impl*  what the code does, stage by stage: pad amounts from           *)
(*          dwt_coeff_len, the index vectors of mypad, the home-made       *)
(*          roll(), zero padding inside conv2d, strided correlation with   *)
(*          the flipped filter, the single wrap-around fold, the crop.     *)
(*                                                                         *)
(* All operators are Op3 tensors (module Op): equality of two of them is   *)
(* equality for every input signal and every filter of that length.        *)
(* L is the (even) filter length, N the signal length, M a coefficient     *)
(* length.  Tap index t always refers to the filter AS GIVEN BY THE USER   *)
(* (dec_lo / rec_lo order), not to the flipped copy the code stores.       *)
(***************************************************************************)
EXTENDS Idx, DWT1Src, Op, TLC

CONSTANT PerFix   \* TRUE: the tree after "fix: periodization DWT/IDWT wrap around fully ..." (finding F1)

(* ========================= Ref: PyWavelets ============================== *)
\* RefALen, CorrLen, ImplAPads, ImplARaises: module DWT1Src (shared with the TLAPS proofs)

\* pywt.dwt:  y[k] = SUM_j h[j] * xext[2k+1-j]
\* (periodization: the window starts L/2 samples in and the signal is first
\*  made even by repeating its last sample)
RefA(mode, N, L) ==
    FromSrc(RefALen(mode, N, L), L, N,
            LAMBDA k, j : IF mode = "periodization"
                          THEN SrcExt(mode, N, (L \div 2) + 2 * k - j)
                          ELSE SrcExt(mode, N, 2 * k + 1 - j))

\* pywt.idwt of coefficient vectors of length M
RefSLen(mode, M, L) == IF mode = "periodization" THEN 2 * M ELSE 2 * M - L + 2
RefS(mode, M, L) ==
    LET P == RefSLen(mode, M, L)
    IN  IF mode = "periodization"
        THEN Mk3(P, L, M, LAMBDA q, i, k :
                 Ind(PMod(2 * k + i - ((L \div 2) - 1) - q, P) = 0))
        ELSE Mk3(P, L, M, LAMBDA q, i, k : Ind(i = q - 2 * k + L - 2))

(* ========================= Impl: the code =============================== *)
(* ---- building blocks ---- *)
\* x -> x[idx] : a gather with index vector idx (0-based function of length n; -1 = zero)
\* followed by conv2d(stride s) with the STORED filter hs, where hs[u] = user tap Stored(u):
\*   out[m] = SUM_u hs[u] * xg[s*m + u]
CorrGather(n, idx, L, s, Stored(_), ni) ==
    FromSrc(CorrLen(n, L, s), L, ni,
            LAMBDA m, t : \* user tap t sits at stored position u with Stored(u) = t
                LET u == CHOOSE v \in Rng(L) : Stored(v) = t IN idx[s * m + u])

\* index vector of F.pad / conv2d zero padding: a zeros, the signal, b zeros
ZeroPadIdx(idx, n, a, b) ==
    [p \in Rng(n + a + b) |-> IF p < a \/ p >= a + n THEN -1 ELSE idx[p - a]]
\* composition of gathers: y[p] = x[inner[outer[p]]]
GatherIdx(inner, outer, n) == [p \in Rng(n) |-> IF outer[p] = -1 THEN -1 ELSE inner[outer[p]]]
IdIdx(n) == [p \in Rng(n) |-> p]

(* ---- afb1d ---- *)
\* Stored(u) = which user tap sits at position u of the tensor handed to conv2d
\* (prep_filt_afb1d stores the analysis filters flipped: Stored(u) = L-1-u)
\* periodization branch of afb1d BEFORE the repair of finding F1 (kept as a negative model):
\* roll by -L/2, zero padding L-1 inside conv2d, ONE wrap-around fold of the tail
ImplAPerOld(N, L, Stored(_)) ==
        LET L2   == L \div 2
            odd  == N % 2 = 1
            Ne   == IF odd THEN N + 1 ELSE N
            \* x = cat(x, x[-1:]) for odd sizes
            i0   == [p \in Rng(Ne) |-> IF p < N THEN p ELSE N - 1]
            \* x = roll(x, -L2)
            rl   == RollLen(Ne, -L2)
            i1   == GatherIdx(i0, RollIdx(Ne, -L2), rl)
            \* conv2d(padding = L-1, stride 2)
            i2   == ZeroPadIdx(i1, rl, L - 1, L - 1)
            full == CorrGather(rl + 2 * (L - 1), i2, L, 2, Stored, N)
            N2   == Ne \div 2
            \* lohi[:L2] = lohi[:L2] + lohi[N2:N2+L2]   (Python slice semantics)
            dstn == Min2(L2, full.no)
            srca == PyStart(full.no, N2)
            srcn == PyStop(full.no, N2 + L2) - srca
            foldOK == srcn = dstn    \* otherwise the assignment raises (shape mismatch)
            folded == [full EXCEPT !.c = [m \in Rng(full.no) |->
                          IF m < dstn /\ foldOK
                          THEN [t \in Rng(L) |-> [i \in Rng(N) |->
                                   full.c[m][t][i] + full.c[srca + m][t][i]]]
                          ELSE full.c[m]]]
        IN  Head3(folded, Min2(N2, full.no))

\* periodization branch of afb1d (after "fix: periodization ... wrap around fully"):
\* repeat the last sample for odd sizes, gather with xe = arange(-(L2-1), N+L2-1) % N,
\* then a 'valid' stride-2 correlation
ImplAPer(N, L, Stored(_)) ==
        LET L2  == L \div 2
            Ne  == N + (N % 2)
            i0  == [p \in Rng(Ne) |-> IF p < N THEN p ELSE N - 1]
            n1  == Ne + 2 * (L2 - 1)
            xe  == [p \in Rng(n1) |-> PMod(p - (L2 - 1), Ne)]
        IN  CorrGather(n1, GatherIdx(i0, xe, n1), L, 2, Stored, N)

ImplAGeneric(mode, N, L, Stored(_)) ==
    IF mode = "periodization" THEN
        IF PerFix THEN ImplAPer(N, L, Stored) ELSE ImplAPerOld(N, L, Stored)
    ELSE
        LET pd == ImplAPads(N, L, mode)
        IN  CASE mode = "zero" ->
                 \* odd total pad: one extra zero after; then symmetric conv2d padding p//2
                 LET extra == IF pd.p % 2 = 1 THEN 1 ELSE 0
                     i1 == ZeroPadIdx(IdIdx(N), N, 0, extra)
                     i2 == ZeroPadIdx(i1, N + extra, pd.lo, pd.lo)
                 IN  CorrGather(N + extra + 2 * pd.lo, i2, L, 2, Stored, N)
              [] mode = "symmetric" ->
                 LET idx == [p \in Rng(N + pd.lo + pd.hi) |-> NpReflectHalf(p - pd.lo, N)]
                 IN  CorrGather(N + pd.lo + pd.hi, idx, L, 2, Stored, N)
              [] mode = "periodic" ->
                 CorrGather(N + pd.lo + pd.hi, NpWrapPad(N, pd.lo, pd.hi), L, 2,
                            Stored, N)
              [] mode = "reflect" ->
                 CorrGather(N + pd.lo + pd.hi, TorchReflectPad(N, pd.lo, pd.hi), L, 2,
                            Stored, N)

ImplA(mode, N, L) == ImplAGeneric(mode, N, L, LAMBDA u : L - 1 - u)

(* ---- sfb1d ---- *)
\* conv_transpose2d(stride 2, padding pad) of coefficient vectors of length M with the
\* STORED filter gs (gs[u] = user tap Stored(u)):  full[t] = SUM_k gs[t-2k] c[k], cropped
ConvT(M, L, pad, Stored(_)) ==
    Mk3(2 * (M - 1) + L - 2 * pad, L, M,
        LAMBDA q, t, k : LET u == q + pad - 2 * k IN Ind(u \in Rng(L) /\ Stored(u) = t))

\* synthesis filters are stored as given (prep_filt_sfb1d does not flip)
ImplSLen(mode, M, L) == IF mode = "periodization" THEN 2 * M ELSE 2 * M - L + 2
\* periodization branch of sfb1d BEFORE the repair of F1: one fold of [N, N+L-2) onto
\* [0, L-2), keep N, roll(1 - L/2)
ImplSPerOld(M, L, Stored(_)) ==
        LET N    == 2 * M
            full == ConvT(M, L, 0, Stored)            \* length N + L - 2
            dstn == Min2(L - 2, full.no)
            srca == PyStart(full.no, N)
            srcn == PyStop(full.no, N + L - 2) - srca
            folded == [full EXCEPT !.c = [q \in Rng(full.no) |->
                          IF q < dstn /\ srcn = dstn
                          THEN [t \in Rng(L) |-> [k \in Rng(M) |->
                                   full.c[q][t][k] + full.c[srca + q][t][k]]]
                          ELSE full.c[q]]]
            kept == Head3(folded, Min2(N, full.no))
            sh   == 1 - (L \div 2)
        IN  Rows3(kept, RollLen(kept.no, sh), RollIdx(kept.no, sh))

\* after the repair: y = zeros(N).index_add_(xe, full) with xe[t] = (t - (L/2-1)) mod N
ImplSPer(M, L, Stored(_)) ==
        LET N    == 2 * M
            full == ConvT(M, L, 0, Stored)
            dst(t) == PMod(t - ((L \div 2) - 1), N)
        IN  Mk3(N, L, M, LAMBDA q, t, k :
                   LET f[u \in 0 .. full.no] ==
                         IF u = 0 THEN 0
                         ELSE f[u - 1] + (IF dst(u - 1) = q THEN full.c[u - 1][t][k] ELSE 0)
                   IN  f[full.no])

ImplSGeneric(mode, M, L, Stored(_)) ==
    IF mode = "periodization" THEN
        IF PerFix THEN ImplSPer(M, L, Stored) ELSE ImplSPerOld(M, L, Stored)
    ELSE ConvT(M, L, L - 2, Stored)
ImplS(mode, M, L) == ImplSGeneric(mode, M, L, LAMBDA u : u)

(* ---- the hand-written backward passes ---- *)
\* AFB1D.backward: sfb1d(dy0, dy1, h0, h1, mode) with the saved (flipped) ANALYSIS filters
\* used as synthesis filters, then cropped to the input length when longer.
\* gradFix = the behaviour after the repair of finding F2/F3 (see DESIGN.md): the adjoint of
\* a zero-extended correlation/transposed convolution is the zero-mode routine.
ImplABackward(mode, N, L, bmode) ==
    LET M   == RefALen(mode, N, L)
        raw == ImplSGeneric(bmode, M, L, LAMBDA u : L - 1 - u)
    IN  IF raw.no > N THEN Head3(raw, N) ELSE raw

\* SFB1D.backward: afb1d(dy, g0, g1, mode) with the saved (unflipped) SYNTHESIS filters
\* correlated as stored.
ImplSBackward(mode, M, L, bmode) ==
    LET P == ImplSLen(mode, M, L)
    IN  ImplAGeneric(bmode, P, L, LAMBDA u : u)

(* ---- the scalar forms of module DWT1Src describe these tensors (checked by TLC; proved equal to Ref by TLAPS) ---- *)
ScalarFormA(mode, N, L) ==
    ~ImplARaises(mode, N, L) =>
        Same3(ImplA(mode, N, L), FromSrc(ImplACount(mode, N, L), L, N, LAMBDA m, t : ImplASrc(mode, N, L, m, t)))
ScalarFormRefA(mode, N, L) ==
    Same3(RefA(mode, N, L), FromSrc(RefALen(mode, N, L), L, N, LAMBDA k, j : RefASrc(mode, N, L, k, j)))
ScalarFormS(mode, M, L) ==
    /\ Same3(ImplS(mode, M, L), Mk3(ImplSLenS(mode, M, L), L, M, LAMBDA q, i, k : ImplSCoef(mode, M, L, q, i, k)))
    /\ Same3(RefS(mode, M, L), Mk3(RefSLenS(mode, M, L), L, M, LAMBDA q, i, k : RefSCoef(mode, M, L, q, i, k)))
=============================================================================
