-------------------------------- MODULE Op --------------------------------
(***************************************************************************)
(* Symbolic one-dimensional filter-bank operators.                         *)
(*                                                                         *)
(* Every stage of every transform is linear in the signal and linear in    *)
(* the taps of the one filter it applies, so a one-stage operator is       *)
(* completely described by the integer tensor                              *)
(*      op[o][t][i]  =  how many times  tap[t] * in[i]  occurs in  out[o]  *)
(* ("symbolic taps, symbolic samples": two operators are equal for ALL     *)
(* real inputs and ALL filters of that length iff the tensors are equal).  *)
(* An Op3 is a record [no, nt, ni, c] with c : 0..no-1 -> 0..nt-1 ->       *)
(* 0..ni-1 -> Int.  Pair operators (tap-pair products, used for perfect    *)
(* reconstruction / orthogonality laws) are Op4 = [no, ni, nt, c] with     *)
(* c[o][i][t1][t2].                                                        *)
(***************************************************************************)
EXTENDS Integers, Sequences, FiniteSets, FiniteSetsExt

Rng(n) == 0 .. (n - 1)

Mk3(no, nt, ni, F(_, _, _)) ==
    [no |-> no, nt |-> nt, ni |-> ni,
     c  |-> [o \in Rng(no) |-> [t \in Rng(nt) |-> [i \in Rng(ni) |-> F(o, t, i)]]]]

Ind(b) == IF b THEN 1 ELSE 0

\* From a "source map": out[o] = SUM_t tap[t] * in[Src(o,t)]   (Src = -1: zero)
FromSrc(no, nt, ni, Src(_, _)) ==
    [no |-> no, nt |-> nt, ni |-> ni,
     c  |-> [o \in Rng(no) |-> [t \in Rng(nt) |->
                LET s == Src(o, t) IN [i \in Rng(ni) |-> IF s = i THEN 1 ELSE 0]]]]

Add3(A, B) == [A EXCEPT !.c = [o \in Rng(A.no) |-> [t \in Rng(A.nt) |->
                  [i \in Rng(A.ni) |-> A.c[o][t][i] + B.c[o][t][i]]]]]

\* keep output rows listed in idx (a 0-based function of length n)
Rows3(A, n, idx) == [A EXCEPT !.no = n, !.c = [o \in Rng(n) |-> A.c[idx[o]]]]
\* keep the first n output rows
Head3(A, n) == [A EXCEPT !.no = n, !.c = [o \in Rng(n) |-> A.c[o]]]
\* keep the first n input columns
HeadIn3(A, n) == [A EXCEPT !.ni = n, !.c = [o \in Rng(A.no) |-> [t \in Rng(A.nt) |->
                    [i \in Rng(n) |-> A.c[o][t][i]]]]]
\* re-index the taps: new tap t is old tap perm[t]
Taps3(A, perm) == [A EXCEPT !.c = [o \in Rng(A.no) |-> [t \in Rng(A.nt) |-> A.c[o][perm[t]]]]]
Flip3(A) == Taps3(A, [t \in Rng(A.nt) |-> A.nt - 1 - t])

\* the adjoint for fixed taps: swap the roles of outputs and inputs
Transpose3(A) ==
    [no |-> A.ni, nt |-> A.nt, ni |-> A.no,
     c  |-> [o \in Rng(A.ni) |-> [t \in Rng(A.nt) |-> [i \in Rng(A.no) |-> A.c[i][t][o]]]]]

\* the finite object that is transported to / from the implementation
Entries3(A) == {<<o, t, i, A.c[o][t][i]>> : <<o, t, i>> \in
                   {x \in Rng(A.no) \X Rng(A.nt) \X Rng(A.ni) : A.c[x[1]][x[2]][x[3]] # 0}}

Same3(A, B) == A.no = B.no /\ A.nt = B.nt /\ A.ni = B.ni /\ A.c = B.c

\* Every (o,t) has at most one source with count one  (a pure "gather" stage)
IsGather3(A) == \A o \in Rng(A.no), t \in Rng(A.nt) :
                   SumSet({A.c[o][t][i] : i \in Rng(A.ni)}) \in {0, 1}

(* ------------------------------ pairs ---------------------------------- *)
\* B after A:  (B o A)[o][i][tb][ta] = SUM_m B[o][tb][m] * A[m][ta][i]
Compose(B, A) ==
    [no |-> B.no, ni |-> A.ni, ntb |-> B.nt, nta |-> A.nt,
     c  |-> [o \in Rng(B.no) |-> [i \in Rng(A.ni) |-> [tb \in Rng(B.nt) |-> [ta \in Rng(A.nt) |->
               LET f[m \in 0 .. B.ni] ==
                     IF m = 0 THEN 0 ELSE f[m - 1] + B.c[o][tb][m - 1] * A.c[m - 1][ta][i]
               IN  f[B.ni]]]]]]
=============================================================================
