----------------------------- MODULE DTCWT1Src -----------------------------
(***************************************************************************)
(* Scalar form of the q-shift analysis stage (level >= 2) of the dual tree  *)
(* along one axis: coldfilt / rowdfilt.  For output pair index v and user    *)
(* tap t of tree "a" / "b": WHICH position of the symmetrically extended      *)
(* column does the reference (dtcwt.numpy.lowlevel.coldfilt: index list       *)
(* t = arange(5, r+2m-2, 4), four polyphase 'valid' convolutions) read, and   *)
(* which does the code (slices xe[2::2], xe[3::2], stride-2 correlation with  *)
(* the flipped stored filter).  TLC (MC_DTCWT1, ColdScalarOK) checks that the *)
(* operator tensors of module DTCWT1 are the tensors of these maps; TLAPS     *)
(* (DTCWT1Proofs) proves the maps and the output counts equal for ALL         *)
(* column lengths r = 4k and ALL even filter lengths m.                       *)
(***************************************************************************)
EXTENDS Idx

\* both sides extend by m samples: xe[p] = reflect(p - m) (utils.symm_pad_1d / dtcwt's reflect)
ColdExt(r, m, p) == NpReflectHalf(p - m, r)

(* reference *)
ColdT(q) == 5 + 4 * q
RefColdQ(r, m) == ((r + 2 * m - 2 - 5 - 1) \div 4) + 1            \* len(arange(5, r+2m-2, 4))
RefColdCount(r, m) == 2 * (RefColdQ(r, m) - (m \div 2) + 1)
RefColdPos(m, tree, v, t) ==
    LET q == v + (m \div 2) - 1 - (t \div 2)
    IN  IF tree = "a" THEN (IF t % 2 = 0 THEN ColdT(q) - 1 ELSE ColdT(q) - 3)
        ELSE (IF t % 2 = 0 THEN ColdT(q) ELSE ColdT(q) - 2)
RefColdSrc(r, m, tree, v, t) == ColdExt(r, m, RefColdPos(m, tree, v, t))

(* the code *)
ImplColdLa(r, m) == LET n1 == r + 2 * m IN IF n1 > 2 THEN ((n1 - 2 - 1) \div 2) + 1 ELSE 0   \* len(xe[2::2])
ImplColdNv(r, m) == LET la == ImplColdLa(r, m) IN IF la < m THEN 0 ELSE ((la - m) \div 2) + 1
ImplColdCount(r, m) == 2 * ImplColdNv(r, m)
ImplColdPos(m, tree, v, t) == (IF tree = "a" THEN 2 ELSE 3) + 2 * (2 * v + (m - 1 - t))
ImplColdSrc(r, m, tree, v, t) == ColdExt(r, m, ImplColdPos(m, tree, v, t))
=============================================================================
