----------------------------- MODULE DTCWT1Src -----------------------------
(***************************************************************************)
(* Scalar form of the q-shift analysis stage (level >= 2) of the dual tree  *)
(* along one axis: coldfilt / rowdfilt.  For output pair index v and user    *)
(* tap t of tree "a" / "b": WHICH position of the symmetrically extended      *)
(* column does the reference (dtcwt.numpy.lowlevel.coldfilt: index list       *)
(* t = arange(5, r+2m-2, 4), four polyphase 'valid' convolutions) read, and   *)
(* which does the code (slices xe[2::2], xe[3::2], stride-2 correlation with  *)
(* the flipped stored filter).  TLC (MC_DTCWT1, ColdScalarOK) checks that the *)
(* operator tensors of module DTCWT1 are the tensors of these maps; TLAPS     *)
(* (DTCWT1Proofs) proves the maps and the output counts equal for ALL         *)
(* column lengths r = 4k and ALL even filter lengths m.                       *)
(***************************************************************************)
EXTENDS Idx

\* both sides extend by m samples: xe[p] = reflect(p - m) (utils.symm_pad_1d / dtcwt's reflect)
ColdExt(r, m, p) == NpReflectHalf(p - m, r)

(* reference *)
ColdT(q) == 5 + 4 * q
RefColdQ(r, m) == ((r + 2 * m - 2 - 5 - 1) \div 4) + 1            \* len(arange(5, r+2m-2, 4))
RefColdCount(r, m) == 2 * (RefColdQ(r, m) - (m \div 2) + 1)
RefColdPos(m, tree, v, t) ==
    LET q == v + (m \div 2) - 1 - (t \div 2)
    IN  IF tree = "a" THEN (IF t % 2 = 0 THEN ColdT(q) - 1 ELSE ColdT(q) - 3)
        ELSE (IF t % 2 = 0 THEN ColdT(q) ELSE ColdT(q) - 2)
RefColdSrc(r, m, tree, v, t) == ColdExt(r, m, RefColdPos(m, tree, v, t))

(* the code *)
ImplColdLa(r, m) == LET n1 == r + 2 * m IN IF n1 > 2 THEN ((n1 - 2 - 1) \div 2) + 1 ELSE 0   \* len(xe[2::2])
ImplColdNv(r, m) == LET la == ImplColdLa(r, m) IN IF la < m THEN 0 ELSE ((la - m) \div 2) + 1
ImplColdCount(r, m) == 2 * ImplColdNv(r, m)
ImplColdPos(m, tree, v, t) == (IF tree = "a" THEN 2 ELSE 3) + 2 * (2 * v + (m - 1 - t))
ImplColdSrc(r, m, tree, v, t) == ColdExt(r, m, ImplColdPos(m, tree, v, t))

(* ======================= colifilt / rowifilt (synthesis, level >= 2) ======================= *)
\* both sides extend by m2 = m/2 samples: xe[p] = reflect(p - m2); position -1 = "this tap does not meet this output"
IfiltExt(r, m, p) == IF p = -1 THEN -1 ELSE NpReflectHalf(p - (m \div 2), r)

(* reference (dtcwt.numpy.lowlevel.colifilt): output row y = 4v + c, four polyphase 'valid' convolutions with the
   m/2-tap sub-filters hao = h[0::2] (even taps), hae = h[1::2] (odd taps) of each tree *)
RefIfiltPos(m, pol, tree, y, t) ==
    LET m2 == m \div 2
        v  == y \div 4
        c  == y % 4
        q  == v + m2 - 1 - (t \div 2)
    IN  IF m2 % 2 = 0 THEN
            LET T  == 3 + 2 * q
                Ta == IF pol THEN T ELSE T - 1
                Tb == IF pol THEN T - 1 ELSE T
            IN  IF tree = "a"
                THEN (IF c = 0 /\ t % 2 = 1 THEN Tb - 2 ELSE IF c = 2 /\ t % 2 = 0 THEN Tb ELSE -1)
                ELSE (IF c = 1 /\ t % 2 = 1 THEN Ta - 2 ELSE IF c = 3 /\ t % 2 = 0 THEN Ta ELSE -1)
        ELSE
            LET T  == 2 + 2 * q
                Ta == IF pol THEN T ELSE T - 1
                Tb == IF pol THEN T - 1 ELSE T
            IN  IF tree = "a"
                THEN (IF c = 0 /\ t % 2 = 0 THEN Tb ELSE IF c = 2 /\ t % 2 = 1 THEN Tb ELSE -1)
                ELSE (IF c = 1 /\ t % 2 = 0 THEN Ta ELSE IF c = 3 /\ t % 2 = 1 THEN Ta ELSE -1)

(* the code: group g = y mod 4 gathers xe[start_g :: 2] and correlates it (no stride) with a sub-filter of the
   STORED (flipped) tensor s[u] = h[m-1-u]: "odd" so[w] = s[1+2w] = h[m-2-2w], "even" se[w] = s[2w] = h[m-1-2w] *)
IfiltStart(m2even, hp, g) ==
    IF m2even THEN (IF hp THEN (IF g = 0 THEN 1 ELSE IF g = 1 THEN 0 ELSE IF g = 2 THEN 3 ELSE 2)
                          ELSE (IF g = 0 THEN 0 ELSE IF g = 1 THEN 1 ELSE IF g = 2 THEN 2 ELSE 3))
    ELSE (IF hp THEN (IF g = 0 THEN 2 ELSE IF g = 1 THEN 1 ELSE IF g = 2 THEN 2 ELSE 1)
                ELSE (IF g = 0 THEN 1 ELSE IF g = 1 THEN 2 ELSE IF g = 2 THEN 1 ELSE 2))
ImplIfiltPos(m, hp, tree, y, t) ==
    LET m2 == m \div 2
        v  == y \div 4
        g  == y % 4
        m2even == (m2 % 2 = 0)
        kindOdd == IF m2even THEN g >= 2 ELSE g < 2            \* h1..h4 = (hae, hbe, hao, hbo) / (hao, hbo, hae, hbe)
        gtree == IF g % 2 = 0 THEN "a" ELSE "b"
        num == IF kindOdd THEN m - 2 - t ELSE m - 1 - t
    IN  IF gtree # tree THEN -1
        ELSE IF num < 0 \/ num % 2 # 0 \/ (num \div 2) >= m2 THEN -1
        ELSE IfiltStart(m2even, hp, g) + 2 * (v + (num \div 2))
=============================================================================
