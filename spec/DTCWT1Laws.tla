---------------------------- MODULE DTCWT1Laws ----------------------------
(***************************************************************************)
(* Laws of the 1-D DTCWT building blocks.                                   *)
(*                                                                         *)
(* Adjointness (C06).  The hand-written backward passes re-use the saved    *)
(* ANALYSIS filters: level 1 filters with the same tensor, levels >= 2 with *)
(* the a/b trees swapped.  That is the transpose only through identities of *)
(* the shipped tables (module Tables, C18): level-1 filters are symmetric,  *)
(* tree b is the time reverse of tree a.  Under these identifications       *)
(* (Canon) the laws below are equalities of symbolic operators.             *)
(*                                                                         *)
(* Perfect reconstruction (C04).  With the symmetric tap identification the *)
(* formal class decomposition used for the DWT does not apply, so PR is     *)
(* checked EXACTLY IN INTEGERS on rational filter instances of the same     *)
(* lengths and parities: the LeGall (5,3) pair for level 1, and for the     *)
(* q-shift levels an orthonormal 4-tap lattice filter 65*h = (15,20,-48,36) *)
(* placed at every even offset in a zero vector of the q-shift length, tree *)
(* b the reverse of tree a, h1[i] = (-1)^i h0[m-1-i], g = reverse(h).       *)
(* Bookkeeping errors do not depend on tap values, so these instances       *)
(* expose them; tap-value facts are the tables' business (C18).             *)
(***************************************************************************)
EXTENDS DTCWT1

(* ---- Canon: operators modulo the table identities ---- *)
\* level 1: h[t] = h[L-1-t]
SymCanon(C) == Add3(C, Flip3(C))
\* pair operator (first filter F1, second filter F2) with F1 = reverse(F2): everything in F2's taps
CanonFirstRev(P) == Add3(Flip3(P.a), P.b)
\* pair operator with F2 = reverse(F1): everything in F1's taps
CanonSecondRev(P) == Add3(P.a, Flip3(P.b))

\* FWD_J1.backward / INV_J1.backward: colfilter with the same (symmetric) filter is its own transpose
Level1SelfAdjoint(r, L) ==
    Same3(SymCanon(Transpose3(ImplColfilter(r, L))), SymCanon(ImplColfilter(r, L)))
\* FWD_J2PLUS.backward: coldfilt(x, hb, ha) transposed = colifilt(y, ha, hb)  (trees swapped), given hb = rev(ha)
\* INV_J2PLUS.backward is the same law read from right to left
DfiltIfiltAdjoint(r, m, hp) ==
    Same3(Transpose3(CanonFirstRev(ImplColdfilt(r, m, hp))), CanonSecondRev(ImplColifilt(r \div 2, m, hp)))

(* ---- concrete matrices ---- *)
\* taps: 1-based sequence; matrix [out][in]
\* (TLCEval forces the lazily built function values: nested lazy matrices would be re-evaluated on every access)
Mat(op0, taps) ==
    LET op == TLCEval(op0) IN
    TLCEval([o \in Rng(op.no) |-> [i \in Rng(op.ni) |->
        LET f[t \in 0 .. op.nt] == IF t = 0 THEN 0 ELSE f[t - 1] + taps[t] * op.c[o][t - 1][i] IN f[op.nt]]])
PairMat(P, ta, tb) ==
    LET A == Mat(P.a, ta)  Bm == Mat(P.b, tb)
    IN  TLCEval([o \in Rng(P.a.no) |-> [i \in Rng(P.a.ni) |-> A[o][i] + Bm[o][i]]])
MatMul(X, Y, n, k, p) ==   \* X: n x k, Y: k x p
    TLCEval([o \in Rng(n) |-> [i \in Rng(p) |->
        LET f[t \in 0 .. k] == IF t = 0 THEN 0 ELSE f[t - 1] + X[o][t - 1] * Y[t - 1][i] IN f[k]]])
MatAdd(X, Y, n, p) == TLCEval([o \in Rng(n) |-> [i \in Rng(p) |-> X[o][i] + Y[o][i]]])
IsScaledId(X, n, K) == \A o \in Rng(n), i \in Rng(n) : X[o][i] = (IF o = i THEN K ELSE 0)

RevSeq(s0) == LET s == TLCEval(s0) n == Len(s) IN TLCEval([k \in 1 .. n |-> s[n + 1 - k]])
AltRev(s0) == LET s == TLCEval(s0) n == Len(s)
              IN  TLCEval([k \in 1 .. n |-> (IF (k - 1) % 2 = 0 THEN 1 ELSE -1) * s[n + 1 - k]])   \* (-1)^i s[m-1-i]

(* ---- q-shift level: S o A = 65^2 * I ---- *)
Lattice4 == <<15, 20, -48, 36>>
Place(off, m) == TLCEval([k \in 1 .. m |-> IF k - 1 >= off /\ k - 1 < off + 4 THEN Lattice4[k - off] ELSE 0])
QshiftPR(r, m, off) ==
    LET h0a == Place(off, m)       h0b == RevSeq(h0a)
        h1a == AltRev(h0a)         h1b == RevSeq(h1a)
        g0a == RevSeq(h0a)         g0b == RevSeq(h0b)
        g1a == RevSeq(h1a)         g1b == RevSeq(h1b)
        \* analysis as fwd_j2plus calls it: coldfilt(x, h0b, h0a, False), coldfilt(x, h1b, h1a, True)
        A0 == PairMat(ImplColdfilt(r, m, FALSE), h0b, h0a)
        A1 == PairMat(ImplColdfilt(r, m, TRUE), h1b, h1a)
        \* synthesis as inv_j2plus calls it: colifilt(lo, g0b, g0a, False) + colifilt(hi, g1b, g1a, True)
        S0 == PairMat(ImplColifilt(r \div 2, m, FALSE), g0b, g0a)
        S1 == PairMat(ImplColifilt(r \div 2, m, TRUE), g1b, g1a)
        R  == MatAdd(MatMul(S0, A0, r, r \div 2, r), MatMul(S1, A1, r, r \div 2, r), r, r)
    IN  IsScaledId(R, r, 65 * 65)

(* ---- level 1: LeGall (5,3), 8*h0o = (-1,2,6,2,-1), 4*h1o = (-1,2,-1), 4*g0o = (1,2,1), 8*g1o = (-1,-2,6,-2,-1): S o A = 32 I ---- *)
Level1PR(r) ==
    LET h0o == <<-1, 2, 6, 2, -1>>  h1o == <<-1, 2, -1>>
        g0o == <<1, 2, 1>>          g1o == <<-1, -2, 6, -2, -1>>
        A0 == Mat(ImplColfilter(r, 5), h0o)   A1 == Mat(ImplColfilter(r, 3), h1o)
        S0 == Mat(ImplColfilter(r, 3), g0o)   S1 == Mat(ImplColfilter(r, 5), g1o)
        R  == MatAdd(MatMul(S0, A0, r, r, r), MatMul(S1, A1, r, r, r), r, r)
    IN  IsScaledId(R, r, 32)
=============================================================================
