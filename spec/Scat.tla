-------------------------------- MODULE Scat --------------------------------
(***************************************************************************)
(* The DTCWT ScatterNet layers (scatternet/layers.py, scatternet/lowlevel.py)  *)
(* above the linear DTCWT levels of modules DTCWT1 / DTCWT2 (C08, C09).        *)
(*                                                                           *)
(* The non-linear part is pointwise: the smooth modulus                        *)
(*        Mag(re, im) = sqrt(re^2 + im^2 + b^2) - b        (>= 0 structurally)  *)
(* (jointly over the three colour channels when colour combination is on).     *)
(* What needs a model is the bookkeeping around it:                            *)
(*   - the size extension of the input (odd -> replicate the last row/column;  *)
(*     second order: to a multiple of 8 by copying rows before and after),     *)
(*   - the channel arithmetic: cat along dim 1 then view(N, 7C / 49C, h, w),   *)
(*     i.e. which scattering path lands in which output channel,               *)
(*   - the backward passes: the slices that split the cotangent               *)
(*     ([:,0], [:,1:7], [:,7:13], [:,13:]), the view arithmetic undoing the    *)
(*     forward's, 1/4 * nearest up-sampling as the transpose of avg_pool2d(2). *)
(* Ref = the declarative definition (band-major channel order, paths named);   *)
(* Impl = the index arithmetic of the code.                                    *)
(***************************************************************************)
EXTENDS Integers, Sequences, FiniteSets, TLC

CONSTANTS SizeSet, CSet,
          ExtFix      \* TRUE: tree after a repair of the size extension for 2-row / 2-column inputs (finding F10)

(* ------------------------------ size extension ---------------------------- *)
\* ScatLayer: odd -> one replicated row
Ext1(r) == r + (r % 2)
\* ScatLayerj2: rem = r % 8; rows_after = (9-rem)//2, rows_before = (8-rem)//2;
\*              cat(x[:rows_before], x, x[-rows_after:])   with Python slice semantics (a slice cannot
\*              deliver more rows than there are)
Before(r) == IF r % 8 = 0 THEN 0 ELSE (8 - (r % 8)) \div 2
After(r)  == IF r % 8 = 0 THEN 0 ELSE (9 - (r % 8)) \div 2
Got(r, k) == IF ExtFix THEN k ELSE (IF k > r THEN r ELSE k)          \* rows a slice x[:k] / x[-k:] really yields
Ext8(r) == r + Got(r, Before(r)) + Got(r, After(r))
\* the forward asserts r % 8 == c % 8 == 0 after the extension
Ext8OK(r) == Ext8(r) % 8 = 0 /\ Ext8(r) >= r /\ Ext8(r) < r + 8
\* documented output sizes: half resolution (first order); one quarter of the size rounded up to a multiple of 8
OutSize1(r) == Ext1(r) \div 2
OutSize2(r) == Ext8(r) \div 4
RefOutSize2(r) == (((r + 7) \div 8) * 8) \div 4
SizeOK1 == \A r \in SizeSet : OutSize1(r) = (r + 1) \div 2
SizeOK2 == \A r \in SizeSet : Ext8OK(r) /\ OutSize2(r) = RefOutSize2(r)
\* the known deviation (finding F10): inputs with 2 rows or columns cannot be extended by slicing
KnownShort(r) == ~ExtFix /\ r < 3
SizeOK2Known == \A r \in SizeSet : (Ext8OK(r) /\ OutSize2(r) = RefOutSize2(r)) \/ KnownShort(r)
ShortExact == \A r \in SizeSet : KnownShort(r) => ~Ext8OK(r)

(* ------------------------------ channel maps ------------------------------ *)
\* first order, declarative: band b = 0 pooled lowpass, b = 1..6 magnitudes in orientation order; channel b*C + c
RefChan1(b, c, C) == b * C + c
\* code: Z = cat((ll[:, None], r), dim=1) has shape (N, 7, C, h, w); Z.view(N, 7*C, h, w): row-major flattening
ImplChan1(b, c, C) == b * C + c          \* flat index of (b, c) in a (7, C) block
Chan1OK == \A C \in CSet : \A b \in 0 .. 6, c \in 0 .. (C - 1) : ImplChan1(b, c, C) = RefChan1(b, c, C)

\* second order: 49 bands.  Declarative (DESIGN.md A.8):
\*   0            pooled level-2 lowpass of x
\*   1 + o1       pooled level-1 lowpass of U1[o1] = |level-1 band o1 of x|
\*   7 + o        |level-2 band o of x|
\*   13 + 6*o2+o1 |level-1 band o2 of U1[o1]|
RefBand2(path) ==
    CASE path.kind = "s0" -> 0
      [] path.kind = "s1_j1" -> 1 + path.o1
      [] path.kind = "s1_j2" -> 7 + path.o
      [] path.kind = "s2_j1" -> 13 + 6 * path.o2 + path.o1
\* code: s1_j1 (N,6,C,H/2,W/2) is viewed as (N, 6C, ...) before the second fwd_j1: channel o1*C + c.
\* fwd_j1(..., o_dim=1) gives reals (N, 6(o2), 6C, h, w); s2_j1.view(N, 36, C, h, w): flat (o2, o1*C + c) -> (band36, c)
ImplS2Index(o2, o1, c, C) == LET flat == o2 * (6 * C) + (o1 * C + c) IN [band36 |-> flat \div C, c |-> flat % C]
\* pooled s1_j1 (N, 6C, ...) viewed back as (N, 6, C, ...): flat o1*C + c
ImplS1Index(o1, c, C) == LET flat == o1 * C + c IN [o |-> flat \div C, c |-> flat % C]
\* Z = cat((s0[:, None], s1_j1, s1_j2, s2_j1), dim=1): offsets 0, 1, 7, 13; then view(N, 49*C, h, w)
ImplBand2(path, c, C) ==
    CASE path.kind = "s0" -> [band |-> 0, c |-> c]
      [] path.kind = "s1_j1" -> [band |-> 1 + ImplS1Index(path.o1, c, C).o, c |-> ImplS1Index(path.o1, c, C).c]
      [] path.kind = "s1_j2" -> [band |-> 7 + path.o, c |-> c]
      [] path.kind = "s2_j1" -> [band |-> 13 + ImplS2Index(path.o2, path.o1, c, C).band36, c |-> ImplS2Index(path.o2, path.o1, c, C).c]
Paths == {[kind |-> "s0"]} \cup {[kind |-> "s1_j1", o1 |-> o] : o \in 0 .. 5} \cup {[kind |-> "s1_j2", o |-> o] : o \in 0 .. 5}
         \cup {[kind |-> "s2_j1", o2 |-> a, o1 |-> b] : a \in 0 .. 5, b \in 0 .. 5}
Chan2OK == \A C \in CSet : \A p \in Paths, c \in 0 .. (C - 1) :
              ImplBand2(p, c, C) = [band |-> RefBand2(p), c |-> c]
Bands2Cover == {RefBand2(p) : p \in Paths} = 0 .. 48 /\ Cardinality(Paths) = 49

(* ------------------------------ backward split ---------------------------- *)
\* ScatLayerj2_f.backward: ds0, ds1_j1, ds1_j2, ds2_j1 = dZ[:,0], dZ[:,1:7], dZ[:,7:13], dZ[:,13:]
BwdSlices == [s0 |-> 0 .. 0, s1_j1 |-> 1 .. 6, s1_j2 |-> 7 .. 12, s2_j1 |-> 13 .. 48]
BwdSplitOK == \A p \in Paths : RefBand2(p) \in BwdSlices[p.kind]
\* ds2_j1.view(N, 6, 6C, h, w): band36 k, channel c -> (o2, o1*C + c) must invert ImplS2Index
BwdView2OK == \A C \in CSet : \A o2 \in 0 .. 5, o1 \in 0 .. 5, c \in 0 .. (C - 1) :
                 LET f == ImplS2Index(o2, o1, c, C)
                     flat == f.band36 * C + f.c
                 IN  flat \div (6 * C) = o2 /\ flat % (6 * C) = o1 * C + c
\* first order: dYl, dr = dZ[:,0], dZ[:,1:]
BwdSplit1OK == \A b \in 0 .. 6 : (b = 0) = (b \in 0 .. 0) /\ (b >= 1) = (b \in 1 .. 6)

\* avg_pool2d(2) as an operator (times 4) and nearest up-sampling; 1/4 * upsample is the transpose of the pooling
Pool4(h, w) == [o \in (0 .. (h \div 2 - 1)) \X (0 .. (w \div 2 - 1)) |->
                   [i \in (0 .. (h - 1)) \X (0 .. (w - 1)) |-> IF i[1] \div 2 = o[1] /\ i[2] \div 2 = o[2] THEN 1 ELSE 0]]
Up(h, w) == [i \in (0 .. (h - 1)) \X (0 .. (w - 1)) |->
                [o \in (0 .. (h \div 2 - 1)) \X (0 .. (w \div 2 - 1)) |-> IF i[1] \div 2 = o[1] /\ i[2] \div 2 = o[2] THEN 1 ELSE 0]]
PoolAdjointOK == \A h \in {2, 4, 6}, w \in {2, 4} :
                    \A o \in DOMAIN Pool4(h, w), i \in DOMAIN Up(h, w) : Pool4(h, w)[o][i] = Up(h, w)[i][o]

\* every division in forward and backward has denominator r = sqrt(. + b^2) >= b: positive for b > 0 (structural)

(* ---- one behaviour per (layer input size, channel count): Init -> Pick ---- *)
VARIABLE cfg
NoCfg == [r |-> 0, C |-> 0]
Init == cfg = NoCfg
Pick == cfg = NoCfg /\ \E r \in SizeSet, C \in CSet : cfg' = [r |-> r, C |-> C]
Spec == Init /\ [][Pick]_cfg
Picked == cfg # NoCfg
\* per-configuration forms of the laws above (what TLC evaluates state by state)
StSize1 == Picked => OutSize1(cfg.r) = (cfg.r + 1) \div 2
StSize2 == Picked => ((Ext8OK(cfg.r) /\ OutSize2(cfg.r) = RefOutSize2(cfg.r)) \/ KnownShort(cfg.r))
StShortExact == (Picked /\ KnownShort(cfg.r)) => ~Ext8OK(cfg.r)
StChan1 == Picked => \A b \in 0 .. 6, c \in 0 .. (cfg.C - 1) : ImplChan1(b, c, cfg.C) = RefChan1(b, c, cfg.C)
StChan2 == Picked => \A p \in Paths, c \in 0 .. (cfg.C - 1) : ImplBand2(p, c, cfg.C) = [band |-> RefBand2(p), c |-> c]
StBwdView2 == Picked => \A o2 \in 0 .. 5, o1 \in 0 .. 5, c \in 0 .. (cfg.C - 1) :
                 LET f == ImplS2Index(o2, o1, c, cfg.C)
                     flat == f.band36 * cfg.C + f.c
                 IN  flat \div (6 * cfg.C) = o2 /\ flat % (6 * cfg.C) = o1 * cfg.C + c
=============================================================================
