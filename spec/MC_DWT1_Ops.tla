---------------------------- MODULE MC_DWT1_Ops ----------------------------
(***************************************************************************)
(* Bounded model: every one-level 1-D configuration (mode, N, L).          *)
(* One behaviour = Init -> Pick(cfg).  In the picked state TLC evaluates   *)
(* the design-level obligations (Impl = Ref, formal PR, adjointness,       *)
(* orthogonality) and, when Emit is on, prints the operators as JSON for   *)
(* the spec -> code replay.                                                *)
(***************************************************************************)
EXTENDS DWT1Laws, Json

CONSTANTS NSet, LSet, ModeSet,
          Shard, NShards,        \* this JVM handles cfgs with (N mod NShards) = Shard
          Emit,                  \* print replay records
          EmitGrad,              \* ... including the backward operators (C05)
          GradFix,               \* TRUE: model of the tree after the "fix:" of the backward passes
          PRMaxN, PRMaxL         \* bounds for the (more expensive) pair-operator laws

VARIABLES cfg
vars == <<cfg>>

NoCfg == [mode |-> "none", N |-> 0, L |-> 0]
Init == cfg = NoCfg
Pick == /\ cfg = NoCfg
        /\ \E m \in ModeSet, N \in NSet, L \in LSet :
              /\ N % NShards = Shard
              /\ cfg' = [mode |-> m, N |-> N, L |-> L]
Next == Pick
Spec == Init /\ [][Next]_vars

Picked == cfg # NoCfg
Ne(N) == N + (N % 2)

(* ---- deviations of the PRE-FIX code from PyWavelets (finding F1; PerFix = FALSE is the negative model) ---- *)
\* F1a: analysis in periodization wraps only once: wrong when the even-ised length < L
KnownDevA(c) == ~PerFix /\ c.mode = "periodization" /\ Ne(c.N) < c.L
\* F1b: synthesis in periodization folds only once and rolls with an out-of-range shift
KnownDevS(c) == ~PerFix /\ c.mode = "periodization" /\ 2 * c.N < c.L - 2

(* ---- C01: analysis ---- *)
ARaiseAllowed(c) == c.mode = "reflect" /\ c.N < c.L
AnalysisOK ==
    Picked =>
      IF ImplARaises(cfg.mode, cfg.N, cfg.L) THEN ARaiseAllowed(cfg)
      ELSE Same3(ImplA(cfg.mode, cfg.N, cfg.L), RefA(cfg.mode, cfg.N, cfg.L)) \/ KnownDevA(cfg)
\* the plain obligation without any documented deviation (violated by the pre-fix model PerFix = FALSE: selftest)
AnalysisPlain ==
    (Picked /\ ~ImplARaises(cfg.mode, cfg.N, cfg.L)) => Same3(ImplA(cfg.mode, cfg.N, cfg.L), RefA(cfg.mode, cfg.N, cfg.L))
\* the deviation region is exact: inside it the model of the code really differs
AnalysisDevExact ==
    (Picked /\ KnownDevA(cfg)) =>
        ~Same3(ImplA(cfg.mode, cfg.N, cfg.L), RefA(cfg.mode, cfg.N, cfg.L))

(* ---- C10: synthesis on free coefficient vectors of length M = cfg.N ---- *)
\* forward-compatible coefficient lengths: M = DwtCoeffLen(n, L) for some n >= 1
SFeasible(c) == c.mode = "periodization" \/ c.N >= c.L \div 2
\* the scalar source maps of DWT1Src (what TLAPS reasons about for all sizes) are these tensors
ScalarFormOK ==
    (Picked /\ PerFix) =>
        /\ ScalarFormA(cfg.mode, cfg.N, cfg.L)
        /\ ScalarFormRefA(cfg.mode, cfg.N, cfg.L)
        /\ (SFeasible(cfg) => ScalarFormS(cfg.mode, cfg.N, cfg.L))
SynthesisOK ==
    (Picked /\ SFeasible(cfg)) =>
        Same3(ImplS(cfg.mode, cfg.N, cfg.L), RefS(cfg.mode, cfg.N, cfg.L)) \/ KnownDevS(cfg)
SynthesisDevExact ==
    (Picked /\ SFeasible(cfg) /\ KnownDevS(cfg)) =>
        ~Same3(ImplS(cfg.mode, cfg.N, cfg.L), RefS(cfg.mode, cfg.N, cfg.L))

(* ---- C02: formal perfect reconstruction of the reference and of the code ---- *)
PRScope(c) == c.N <= PRMaxN /\ c.L <= PRMaxL
RefPR ==
    (Picked /\ PRScope(cfg)) =>
        LET M == RefALen(cfg.mode, cfg.N, cfg.L)
        IN  FormalPR(Compose(RefS(cfg.mode, M, cfg.L), RefA(cfg.mode, cfg.N, cfg.L)), cfg.L, cfg.N)
ImplPR ==
    (Picked /\ PRScope(cfg) /\ ~ImplARaises(cfg.mode, cfg.N, cfg.L)) =>
        LET A == ImplA(cfg.mode, cfg.N, cfg.L)
            S == ImplS(cfg.mode, A.no, cfg.L)
        IN  FormalPR(Compose(S, A), cfg.L, cfg.N)
            \/ KnownDevA(cfg) \/ KnownDevS([cfg EXCEPT !.N = A.no])

(* ---- C05: the hand-written backward passes are the transposes ---- *)
BMode(m) == IF GradFix /\ m # "periodization" THEN "zero" ELSE m
\* pinned tree: exact adjoint only where the forward never pads with signal samples
KnownDevAB(c) == ~GradFix /\ (c.mode \in {"symmetric", "reflect", "periodic"}
                              \/ (c.mode = "periodization" /\ c.N % 2 = 1))
KnownDevABper(c) == c.mode = "periodization" /\ (c.N % 2 = 1 \/ (~PerFix /\ Ne(c.N) < c.L))
ABackwardOK ==
    (Picked /\ ~ImplARaises(cfg.mode, cfg.N, cfg.L)) =>
        \/ Same3(ImplABackward(cfg.mode, cfg.N, cfg.L, BMode(cfg.mode)),
                 Transpose3(ImplA(cfg.mode, cfg.N, cfg.L)))
        \/ KnownDevAB(cfg) \/ KnownDevABper(cfg)
ABackwardDevExact ==
    (Picked /\ ~ImplARaises(cfg.mode, cfg.N, cfg.L) /\ (KnownDevAB(cfg) \/ KnownDevABper(cfg))) =>
        ~Same3(ImplABackward(cfg.mode, cfg.N, cfg.L, BMode(cfg.mode)),
               Transpose3(ImplA(cfg.mode, cfg.N, cfg.L)))
KnownDevSB(c) == ~GradFix /\ c.mode \in {"symmetric", "reflect", "periodic"}
KnownDevSBper(c) == ~PerFix /\ c.mode = "periodization" /\ 2 * c.N < c.L
SBackwardOK ==
    (Picked /\ SFeasible(cfg)
            /\ ~ImplARaises(BMode(cfg.mode), ImplSLen(cfg.mode, cfg.N, cfg.L), cfg.L)) =>
        \/ Same3(ImplSBackward(cfg.mode, cfg.N, cfg.L, BMode(cfg.mode)),
                 Transpose3(ImplS(cfg.mode, cfg.N, cfg.L)))
        \/ KnownDevSB(cfg) \/ KnownDevSBper(cfg)

SBackwardDevExact ==
    (Picked /\ SFeasible(cfg) /\ (KnownDevSB(cfg) \/ KnownDevSBper(cfg))
            /\ ~ImplARaises(BMode(cfg.mode), ImplSLen(cfg.mode, cfg.N, cfg.L), cfg.L)) =>
        ~Same3(ImplSBackward(cfg.mode, cfg.N, cfg.L, BMode(cfg.mode)),
               Transpose3(ImplS(cfg.mode, cfg.N, cfg.L)))

(* ---- C17: orthogonality in the admissible region ---- *)
OrthoOK ==
    (Picked /\ cfg.mode = "periodization" /\ OrthoAdmissible(cfg.N, cfg.L) /\ PRScope(cfg)) =>
        LET A == ImplA(cfg.mode, cfg.N, cfg.L)
        IN  /\ FormalOrthogonal(A, cfg.L)
            /\ A.no * 2 = cfg.N
            /\ SynthesisIsTranspose(ImplS(cfg.mode, A.no, cfg.L), A)
            \* hence back-propagating a cotangent = applying the inverse transform to it
            /\ Same3(ImplABackward(cfg.mode, cfg.N, cfg.L, BMode(cfg.mode)), Transpose3(A))

(* ---- replay records ---- *)
Seq1(f, n) == [p \in 1 .. n |-> f[p - 1]]
Record ==
    LET m == cfg.mode  N == cfg.N  L == cfg.L
        raises == ImplARaises(m, N, L)
        rA == RefA(m, N, L)
        iA == IF raises THEN rA ELSE ImplA(m, N, L)
        rS == RefS(m, N, L)
        iS == ImplS(m, N, L)
        sf == SFeasible(cfg)
    IN  [kind |-> "dwt1.op", mode |-> m, N |-> N, L |-> L,
         a_raises |-> raises,
         a_len |-> rA.no,
         a_ref |-> Entries3(rA),
         a_same |-> (raises \/ Same3(iA, rA)),
         a_impl |-> IF raises \/ Same3(iA, rA) THEN {} ELSE Entries3(iA),
         a_impl_len |-> iA.no,
         s_feasible |-> sf,
         s_len |-> IF sf THEN rS.no ELSE 0,
         s_ref |-> IF sf THEN Entries3(rS) ELSE {},
         s_same |-> (~sf \/ Same3(iS, rS)),
         s_impl |-> IF ~sf \/ Same3(iS, rS) THEN {} ELSE Entries3(iS),
         s_impl_len |-> IF sf THEN iS.no ELSE 0,
         \* the hand-written backward passes as the code performs them (C05): entries are given only
         \* where they differ from the transpose of the forward model
         ab_same |-> (~EmitGrad \/ raises \/ Same3(ImplABackward(m, N, L, BMode(m)), Transpose3(iA))),
         ab_impl |-> IF ~EmitGrad \/ raises \/ Same3(ImplABackward(m, N, L, BMode(m)), Transpose3(iA)) THEN {}
                     ELSE Entries3(ImplABackward(m, N, L, BMode(m))),
         sb_raises |-> (EmitGrad /\ sf /\ ImplARaises(BMode(m), ImplSLen(m, N, L), L)),
         sb_same |-> (~EmitGrad \/ ~sf \/ ImplARaises(BMode(m), ImplSLen(m, N, L), L)
                          \/ Same3(ImplSBackward(m, N, L, BMode(m)), Transpose3(iS))),
         sb_impl |-> IF ~EmitGrad \/ ~sf \/ ImplARaises(BMode(m), ImplSLen(m, N, L), L)
                        \/ Same3(ImplSBackward(m, N, L, BMode(m)), Transpose3(iS)) THEN {}
                     ELSE Entries3(ImplSBackward(m, N, L, BMode(m))),
         sb_impl_len |-> IF EmitGrad /\ sf /\ ~ImplARaises(BMode(m), ImplSLen(m, N, L), L)
                         THEN ImplSBackward(m, N, L, BMode(m)).no ELSE 0]
\* EmitGrad selects the (larger) records that also carry the backward operators
EmitOK == (Picked /\ Emit) => PrintT(<<"@@REC", ToJson(Record)>>)
=============================================================================
