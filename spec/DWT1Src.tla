------------------------------ MODULE DWT1Src ------------------------------
(***************************************************************************)
(* Scalar form of the one-level 1-D filter banks: for output position m    *)
(* and user tap t, WHICH input sample does pywt (Ref) and which does the   *)
(* code (Impl, composed from its pad amounts, index vectors, stored tap     *)
(* order and stride) multiply with that tap.  Two uses:                     *)
(*   - TLC (MC_DWT1_Ops, invariant ScalarFormOK) checks, within its bounds, *)
(*     that the operator tensors DWT1!ImplA / ImplS built stage by stage    *)
(*     ARE the tensors of these scalar maps;                                *)
(*   - TLAPS (DWT1Proofs) proves for ALL signal lengths N and all even      *)
(*     filter lengths L that the Impl maps equal the Ref maps.              *)
(* Together: the stage-by-stage model equals PyWavelets' definition beyond  *)
(* every bound, wherever the scalar form was confirmed.                     *)
(***************************************************************************)
EXTENDS Idx

RefALen(mode, N, L) == DwtCoeffLen(N, L, mode)
CorrLen(n, L, s) == IF n < L THEN 0 ELSE ((n - L) \div s) + 1

\* the raise conditions of the code path (F.pad 'reflect' refuses pads >= size)
ImplAPads(N, L, mode) ==
    LET outsize == DwtCoeffLen(N, L, mode)
        p == 2 * (outsize - 1) - N + L
    IN  [p |-> p, lo |-> p \div 2, hi |-> (p + 1) \div 2]

ImplARaises(mode, N, L) ==
    /\ mode = "reflect"
    /\ LET pd == ImplAPads(N, L, mode) IN ~TorchReflectOk(N, pd.lo, pd.hi)

(* ------------------------------ analysis ------------------------------- *)
\* pywt.dwt:  y[k] = SUM_j h[j] * xext[2k+1-j]   (periodization: window starts L/2 in)
RefASrc(mode, N, L, k, j) ==
    IF mode = "periodization" THEN SrcExt(mode, N, (L \div 2) + 2 * k - j)
    ELSE SrcExt(mode, N, 2 * k + 1 - j)

\* afb1d: the stored filter is the user's flipped (user tap t sits at position L-1-t), stride 2
ImplACount(mode, N, L) ==
    IF mode = "periodization" THEN CorrLen((N + (N % 2)) + 2 * ((L \div 2) - 1), L, 2)
    ELSE LET pd == ImplAPads(N, L, mode)
         IN  IF mode = "zero" THEN CorrLen(N + (IF pd.p % 2 = 1 THEN 1 ELSE 0) + 2 * pd.lo, L, 2)
             ELSE CorrLen(N + pd.lo + pd.hi, L, 2)
ImplASrc(mode, N, L, m, t) ==
    LET pos == 2 * m + (L - 1 - t)          \* position in the padded signal
    IN  IF mode = "periodization"
        THEN LET Ne == N + (N % 2)
                 q  == PMod(pos - ((L \div 2) - 1), Ne)      \* xe = arange(-(L2-1), N+L2-1) % N
             IN  IF q < N THEN q ELSE N - 1                   \* x = cat(x, x[-1:]) for odd sizes
        ELSE LET pd == ImplAPads(N, L, mode)
                 s  == pos - pd.lo
             IN  CASE mode = "zero"      -> IF s < 0 \/ s >= N THEN -1 ELSE s
                   [] mode = "symmetric" -> NpReflectHalf(s, N)
                   [] mode = "periodic"  -> PMod(s, N)
                   [] mode = "reflect"   -> IF s < 0 THEN -s ELSE IF s >= N THEN 2 * N - 2 - s ELSE s

(* ------------------------------ synthesis ------------------------------ *)
\* coefficient of  g[i] * c[k]  in output sample q
RefSLenS(mode, M, L) == IF mode = "periodization" THEN 2 * M ELSE 2 * M - L + 2
RefSCoef(mode, M, L, q, i, k) ==
    IF mode = "periodization" THEN IF PMod(2 * k + i - ((L \div 2) - 1) - q, 2 * M) = 0 THEN 1 ELSE 0
    ELSE IF i = q - 2 * k + L - 2 THEN 1 ELSE 0
\* sfb1d: conv_transpose2d(stride 2, padding L-2); periodization: padding 0 and
\* y.index_add_(xe, full) with xe[u] = (u - (L/2-1)) mod N  -  tap i meets c[k] at u = i + 2k only
ImplSLenS(mode, M, L) == IF mode = "periodization" THEN 2 * M ELSE 2 * (M - 1) + L - 2 * (L - 2)
ImplSCoef(mode, M, L, q, i, k) ==
    IF mode = "periodization" THEN IF PMod(i + 2 * k - ((L \div 2) - 1), 2 * M) = q THEN 1 ELSE 0
    ELSE LET u == q + (L - 2) - 2 * k IN IF u >= 0 /\ u < L /\ u = i THEN 1 ELSE 0
=============================================================================
