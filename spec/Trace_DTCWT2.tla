---------------------------- MODULE Trace_DTCWT2 ----------------------------
(***************************************************************************)
(* Trace specification binding the pyramid machine of module DTCWT2 to real  *)
(* executions of DTCWTForward / DTCWTInverse, through the library's hooks:    *)
(*    call        api, H, W, J [, absent, absLow, kind]                       *)
(*    extend2     rows, cols, ext_rows, ext_cols     (DTCWTForward.extend2)   *)
(*    extend4     level, rows, cols, ext_rows, ext_cols                       *)
(*    crop        level, rows, cols, hp_rows, hp_cols, crop_rows, crop_cols   *)
(*    ret         outcome, out_r, out_c, shapes                               *)
(* Each event is the machine's action with the logged fields bound.           *)
(***************************************************************************)
EXTENDS DTCWT2, IOUtils

TraceLog == ndJsonDeserialize(IOEnv.TRACE_FILE)
VARIABLES i, bad
tvars == <<vars, i, bad>>
E == TraceLog[i]
Is(name) == i <= Len(TraceLog) /\ E.ev = name
Consume == i' = i + 1
SeqSet(s) == {s[x] : x \in DOMAIN s}

TCallFwd ==
    /\ Is("call") /\ E.api = "fwd" /\ pc = "idle"
    /\ call' = [api |-> "fwd", H |-> E.H, W |-> E.W, J |-> E.J]
    /\ rows' = E.H /\ cols' = E.W /\ pc' = "fwd" /\ lvl' = 0 /\ trail' = << >> /\ outcome' = "running"
\* the odd-size test the code performs before level 1
TExtend2 ==
    /\ Is("extend2") /\ pc = "fwd" /\ lvl = 0 /\ E.rows = rows /\ E.cols = cols
    /\ FwdLevel1
    /\ trail'[1].ext_r = E.ext_rows /\ trail'[1].ext_c = E.ext_cols
\* before every further level: the multiple-of-4 test on the current lowpass
TExtend4 ==
    /\ Is("extend4") /\ pc = "fwd" /\ lvl >= 1 /\ E.level = lvl + 1 /\ E.rows = rows /\ E.cols = cols
    /\ FwdLevelJ
    /\ trail'[lvl + 1].ext_r = E.ext_rows /\ trail'[lvl + 1].ext_c = E.ext_cols
TFwdReturn ==
    /\ Is("ret") /\ E.api = "fwd" /\ FwdReturn
    /\ E.lo_r = rows /\ E.lo_c = cols
    /\ \A k \in 1 .. Len(trail) : E.hi[k] = <<trail[k].hi_r, trail[k].hi_c>>

TCallInv ==
    /\ Is("call") /\ E.api = "inv" /\ pc = "idle"
    /\ call' = [api |-> "inv", H |-> E.H, W |-> E.W, J |-> E.J, absent |-> SeqSet(E.absent), absLow |-> E.absLow, kind |-> E.kind]
    /\ trail' = RefTrail(E.H, E.W, 1, E.J)
    /\ LET t == trail' IN rows' = t[Len(t)].lo_r /\ cols' = t[Len(t)].lo_c
    /\ pc' = "inv" /\ lvl' = 0 /\ outcome' = "running"
\* the size test before a level whose bandpass is present; levels whose bandpass is absent emit no crop event
TCrop ==
    /\ Is("crop") /\ pc = "inv" /\ lvl < call.J
    /\ LET j == call.J - lvl IN
         /\ E.level = j /\ j \notin call.absent
         /\ E.rows = rows /\ E.cols = cols
         /\ E.hp_rows = trail[j].hi_r /\ E.hp_cols = trail[j].hi_c
         /\ E.crop_rows = (rows # 2 * trail[j].hi_r) /\ E.crop_cols = (cols # 2 * trail[j].hi_c)
    /\ InvLevel            \* either branch: the hook fires before the level runs, which may then raise
\* an absent level (or an absent lowpass at the first step) is processed without a hook event: silent step,
\* taken only when the next event cannot be this level's crop
TSilentLevel ==
    /\ pc = "inv" /\ lvl < call.J
    /\ ((call.J - lvl) \in call.absent \/ (call.absLow /\ lvl = 0))
    /\ InvLevel /\ outcome' = "running" /\ i' = i /\ bad' = bad
TInvReturn ==
    /\ Is("ret") /\ E.api = "inv" /\ E.outcome = "ok" /\ InvReturn /\ E.out_r = rows /\ E.out_c = cols
TInvRaise ==
    /\ Is("ret") /\ E.api = "inv" /\ E.outcome = "raise"
    /\ \/ (pc = "inv" /\ InvLevel /\ outcome' = "raise")
       \/ (pc = "done" /\ outcome = "raise" /\ UNCHANGED vars)
TReset ==
    /\ Is("reset") /\ call' = NoCall /\ pc' = "idle" /\ lvl' = 0 /\ rows' = 0 /\ cols' = 0 /\ trail' = << >> /\ outcome' = "running"

TStep == TCallFwd \/ TExtend2 \/ TExtend4 \/ TFwdReturn \/ TCallInv \/ TCrop \/ TInvReturn \/ TInvRaise \/ TReset
TNext == \/ /\ i <= Len(TraceLog)
            /\ \/ (TStep /\ Consume /\ bad' = bad)
               \/ (~ENABLED TStep /\ ~ENABLED TSilentLevel /\ Consume /\ bad' = Append(bad, i) /\ UNCHANGED vars)
         \/ (i <= Len(TraceLog) /\ ~ENABLED TStep /\ TSilentLevel)
TInit == Init /\ i = 1 /\ bad = << >>
TraceSpec == TInit /\ [][TNext]_tvars
Verdict == (i = Len(TraceLog) + 1) =>
              PrintT(<<"@@REC", ToJson([kind |-> "trace.verdict", consumed |-> i - 1, rejected |-> bad])>>)
=============================================================================
