-------------------------------- MODULE SWT --------------------------------
(***************************************************************************)
(* Stationary (undecimated) wavelet transform: afb1d_atrous / afb2d_atrous  *)
(* and SWTForward (dwt/lowlevel.py, dwt/transform2d.py) against             *)
(* PyWavelets' swt2 (C13).                                                  *)
(*                                                                         *)
(*   Ref   level with dilation d = 2^(j-1), periodic boundary:              *)
(*            out[n] = SUM_i h[i] * in[(n + d*(L/2 - i)) mod N]             *)
(*   Impl  periodic index padding (L*d/2 - d before, L*d/2 after) and a     *)
(*         dilated correlation with the flipped filter.                     *)
(* plus the level loop of SWTForward: which band feeds the next level, the  *)
(* dilation per level, the (N, C, 4, H, W) layout and the mode handed to    *)
(* the padding routine.                                                     *)
(***************************************************************************)
EXTENDS DWT1, SWTSrc, Json

CONSTANTS NSet, LSet, DSet,      \* sizes, filter lengths, dilations
          Shard, NShards, Emit,
          SwtFix                 \* TRUE: tree after the "fix:" of SWTForward (finding F8)

VARIABLES cfg, call, pc, lvl, rank, band0
vars == <<cfg, call, pc, lvl, rank, band0>>

(* ---------------------------- one level, one axis ------------------------ *)
RefSwt(N, L, d) ==
    FromSrc(N, L, N, LAMBDA n, i : PMod(n + d * ((L \div 2) - i), N))

ImplAtrous(N, L, d) ==
    LET L2  == (L * d) \div 2
        a   == L2 - d
        b   == L2
        idx == NpWrapPad(N, a, b)                      \* mypad(..., mode='periodic')
        n1  == N + a + b
        \* F.conv2d(x, h, dilation=d) with the flipped filter: out[n] = SUM_u hs[u] * xe[n + d*u]
        outn == n1 - d * (L - 1)
    IN  FromSrc(outn, L, N, LAMBDA n, t : idx[n + d * (L - 1 - t)])

AtrousSame(c) == Same3(ImplAtrous(c.N, c.L, c.d), RefSwt(c.N, c.L, c.d))
\* the scalar maps of SWTSrc (what TLAPS reasons about for all sizes and dilations) are these tensors
SwtScalarForm(c) ==
    /\ Same3(ImplAtrous(c.N, c.L, c.d), FromSrc(ImplSwtCount(c.N, c.L, c.d), c.L, c.N, LAMBDA n, t : ImplSwtSrc(c.N, c.L, c.d, n, t)))
    /\ Same3(RefSwt(c.N, c.L, c.d), FromSrc(c.N, c.L, c.N, LAMBDA n, i : RefSwtSrc(c.N, c.L, c.d, n, i)))
\* undecimated: as many outputs as inputs
FullResolution(c) == ImplAtrous(c.N, c.L, c.d).no = c.N
\* circular shift-equivariance as an operator identity
ShiftEquivariant(c) ==
    LET A == RefSwt(c.N, c.L, c.d)
    IN  \A s \in 1 .. (c.N - 1), k \in Rng(c.N), t \in Rng(c.L), n \in Rng(c.N) :
            A.c[PMod(k + s, c.N)][t][PMod(n + s, c.N)] = A.c[k][t][n]

(* ------------------------------- SWTForward ------------------------------ *)
\* the mode string that reaches mypad
PadModeReached(mode) ==
    IF mode \in {"per", "periodization"} THEN (IF SwtFix THEN "periodic" ELSE mode) ELSE mode
MypadAccepts(mode) == mode \in {"symmetric", "periodic", "constant", "reflect", "replicate", "zero"}

NoCfg == [N |-> 0, L |-> 0, d |-> 0]
NoCall == [api |-> "none"]
Init == /\ cfg = NoCfg /\ call = NoCall /\ pc = "idle" /\ lvl = 0 /\ rank = 0 /\ band0 = "none"

PickOp == /\ pc = "idle" /\ cfg = NoCfg
          /\ \E N \in NSet, L \in LSet, d \in DSet :
                /\ N % NShards = Shard
                /\ N % (2 * d) = 0                       \* sizes pywt.swt accepts at this level
                /\ cfg' = [N |-> N, L |-> L, d |-> d]
          /\ pc' = "op" /\ UNCHANGED <<call, lvl, rank, band0>>

StartSwt == /\ pc = "idle" /\ cfg = NoCfg /\ Shard = 0
            /\ \E J \in 1 .. 3, m \in {"periodization", "periodic"} :
                  call' = [api |-> "swt", J |-> J, mode |-> m]
            /\ pc' = "swt" /\ lvl' = 0 /\ rank' = 4 /\ band0' = "input"
            /\ UNCHANGED cfg
\* y = afb2d_atrous(ll, filts, mode, 2**j); coeffs.append(y); ll = y[:,:,0]
SwtLevel == /\ pc = "swt" /\ lvl < call.J
            /\ IF ~MypadAccepts(PadModeReached(call.mode)) \/ rank # 4
               THEN /\ pc' = "raise" /\ UNCHANGED <<lvl, rank, band0>>
               ELSE /\ lvl' = lvl + 1
                    \* afb2d_atrous returns (N, 4C, H, W); the repaired module regroups it to (N, C, 4, H, W)
                    /\ rank' = IF SwtFix THEN 4 ELSE 3       \* rank of ll = y[:,:,0]
                    /\ band0' = IF SwtFix THEN "LL" ELSE "row-slice"
                    /\ pc' = "swt"
            /\ UNCHANGED <<cfg, call>>
SwtReturn == /\ pc = "swt" /\ lvl = call.J /\ pc' = "done" /\ UNCHANGED <<cfg, call, lvl, rank, band0>>
Dilation(j) == 2 ^ (j - 1)           \* level j = 1..J uses 2**(j-1)

Next == PickOp \/ StartSwt \/ SwtLevel \/ SwtReturn
Spec == Init /\ [][Next]_vars

OpOK == pc = "op" => (AtrousSame(cfg) /\ FullResolution(cfg) /\ SwtScalarForm(cfg))
ShiftOK == (pc = "op" /\ cfg.N <= 16) => ShiftEquivariant(cfg)
SwtNoRaise == pc # "raise"
SwtFeedsLL == (pc = "swt" /\ lvl > 0) => band0 = "LL"

Record == [kind |-> "swt.op", N |-> cfg.N, L |-> cfg.L, d |-> cfg.d, ref |-> Entries3(RefSwt(cfg.N, cfg.L, cfg.d))]
EmitOK == (pc = "op" /\ Emit) => PrintT(<<"@@REC", ToJson(Record)>>)
=============================================================================
